/-
  C11 — CRSD: explicit header text, termination of the retry, and the writer state machine.

  `CRSDHeader.to_string` / `CRSDType.make_file_header` are separate code from the CPHD ones; their regenerated tables and kernels are
  bridged in Bridge/Cphd.lean (namespace C11: `gen_chain`, `gen_retry`, `gen_header_tables`).  The reference definitions they are bridged
  to are shared with CPHD, so the theorems about them are the C09 ones; they are restated here for the CRSD instantiation
  (header type string `CRSD/<version>`), together with the combination the C11 statement needs: the *rendered* header text fits in
  front of the 64-aligned XML block of the well-formed file of `crsd_file_wellformed`.
  `CRSDWriter1` inherits every method of `CPHDWriter1`; `CRSDWritingDetails.write_header` is a separate copy of the same four writes.
  The machine `Spec.CphdWriter` is the model of both; harness/c11.py ties it to CRSDWriter1 by its own op-history correspondence.
-/
import SarpyModel.Props.C11
import SarpyModel.Props.C09H
import SarpyModel.Props.C09W
import SarpyModel.Props.C09Image
import SarpyModel.Props.C09Wf
import SarpyModel.Props.C09Amp

namespace Sarpy.Props.C11
open Sarpy.Spec.CphdLayout Sarpy.Spec.CrsdHeader Sarpy.Spec.CphdHeaderText Sarpy.Spec.CphdWriter
open Sarpy.Props

/-- the CRSD header text has exactly the length the C11 length model says -/
theorem crsd_headerBytes_length (t : Texts) (b : Blocks) : (headerBytes t b).length = hdrLen t.fixed b :=
  C09.headerBytes_length t b

/-- **whole file, explicit text**: for the header `make_file_header` returns, the rendered header text and its terminator end before the
    XML block, which starts 64-aligned; blocks follow each other without overlap, 64-aligned; the file ends with the signal block -/
theorem crsd_text_file_wellformed (t : Texts) (xs : Nat) (ss : Option Nat) (ps gs fuel : Nat) (b : Blocks)
    (h : chooseText t xs ss ps gs fuel = some b) :
    (headerBytes t b).length + 2 ≤ b.xmlOff ∧ b.xmlOff % 64 = 0 ∧ b.xmlSize = xs ∧ b.pvpSize = ps ∧ b.sigSize = gs ∧
    (match b.supp with
     | some (so, s) => ss = some s ∧ b.xmlOff + xs + 2 ≤ so ∧ so % 64 = 0 ∧ so + s ≤ b.pvpOff
     | none => ss = none ∧ b.xmlOff + xs + 2 ≤ b.pvpOff) ∧
    b.pvpOff % 64 = 0 ∧ b.pvpOff + ps ≤ b.sigOff ∧ b.sigOff % 64 = 0 ∧
    fileEnd b = b.sigOff + gs := by
  rw [C09.chooseText_eq] at h
  have := crsd_file_wellformed t.fixed xs ss ps gs fuel b h
  rw [C09.headerBytes_length]
  exact this

/-- **termination of the CRSD retry** for files below 10^18 bytes: at most 7 attempts, more fuel gives the same header -/
theorem crsd_retry_terminates_7 (t : Texts) (xs : Nat) (ss : Option Nat) (ps gs : Nat)
    (h : t.typ.length + t.cls.length + t.rel.length + xs + ss.getD 0 + ps + gs + 2000 ≤ 10 ^ 18) :
    ∃ b, chooseText t xs ss ps gs 7 = some b ∧ ∀ k, chooseText t xs ss ps gs (7 + k) = some b :=
  C09.retry_terminates_7 t xs ss ps gs h

/-- the length-model retry of C11 (`chooseCrsd`) terminates under the same bound -/
theorem chooseCrsd_terminates_7 (t : Texts) (xs : Nat) (ss : Option Nat) (ps gs : Nat)
    (h : t.typ.length + t.cls.length + t.rel.length + xs + ss.getD 0 + ps + gs + 2000 ≤ 10 ^ 18) :
    ∃ b, chooseCrsd t.fixed xs ss ps gs 7 = some b := by
  obtain ⟨b, hb, _⟩ := C09.retry_terminates_7 t xs ss ps gs h
  exact ⟨b, by rw [← C09.chooseText_eq]; exact hb⟩

variable {α : Type}

/-! the writer machine, restated for CRSDWriter1 (same machine, separate correspondence) -/

theorem crsd_write_after_close_refused (c : Cfg α) (s : State α) (h : s.closed = true) (op : Op α)
    (hop : ∀ (_ : op = .close), False) : step c s op = (s, .refused) := C09.write_after_close_refused c s h op hop

theorem crsd_refused_keeps_file (c : Cfg α) (s : State α) (op : Op α) (h : (step c s op).2 = .refused) :
    (step c s op).1 = s := C09.refused_keeps_file c s op h

theorem crsd_fo_log_shape (c : Cfg α) (ops : List (Op α)) :
    ((run c (init c) ops).hdrWritten = false ∧ foLog (run c (init c) ops) = []) ∨
    ((run c (init c) ops).hdrWritten = true ∧ ∃ l : List Nat, l.Nodup ∧
      (∀ k, k ∈ l ↔ (k < c.n ∧ ((run c (init c) ops).el k).written = true ∧ ((run c (init c) ops).el k).bytes.isSome = true)) ∧
      foLog (run c (init c) ops) =
        C09.hdrLog c ++ l.map (fun k => ((c.item k).off, (((run c (init c) ops).el k).bytes.getD (Blk.nil c.zero)).len))) :=
  C09.fo_log_shape c ops

theorem crsd_close_report_exact (c : Cfg α) (s : State α) (hc : s.closed = false) :
    (step c s .close).2 = .report false (unwritten c (step c s .close).1) ∧ ((step c s .close).1).closed = true :=
  C09.close_report_exact c s hc

theorem crsd_complete_image (c : Cfg α) (D : Nat → Nat → α) (hwf : C09.WF c) (ops : List (Op α)) (hg : C09.GoodRun c D (init c) ops)
    (hcl : (run c (init c) ops).closed = true) (hco : C09.Complete c (run c (init c) ops)) (p : Nat) :
    rd c (run c (init c) ops) p = C09.imageOf c D p := C09.complete_image c D hwf ops hg hcl hco p

/-- CRSDWriter1 inherits `write_pvp_array` and the signal write path: a formatted chunk is encoded with the AmpSF of the last accepted PVP
    write for its channel at that time -/
theorem crsd_formatted_chunk_uses_last_accepted_pvp (c : Cfg α) (i r0 : Nat) (hi : i < c.nchan) (ops : List (Op α)) (d : Blk α)
    (hok : ¬ sigBad c (run c (init c) ops) i r0 d false) :
    (((step c (run c (init c) ops) (.writeSig i r0 d false)).1).el (c.sigIdx i)).scaled.head? =
      some (r0, d.len / (c.item (c.sigIdx i)).rowBytes, C09.lastAmp c i (init c) ops none) :=
  C09.formatted_chunk_uses_last_accepted_pvp c i r0 hi ops d hok

/-- CRSDWriter1 inherits `write_support_array`: in memory an accepted call records exactly the block handed over, and it stays recorded -/
theorem crsd_accepted_sup_write_records_handed_bytes (c : Cfg α) (s : State α) (j : Nat) (d : Blk α) (ops : List (Op α)) (hm : c.inMem = true)
    (hok : ¬ supBad c s j d) (hnb : (s.el (c.supIdx j)).bytes = none) :
    (step c s (.writeSup j d)).2 = .ok ∧ ((run c s (.writeSup j d :: ops)).el (c.supIdx j)).bytes = some d :=
  C09.accepted_sup_write_records_handed_bytes c s j d ops hm hok hnb

end Sarpy.Props.C11
