import SarpyModel.Props.C11
import SarpyModel.Props.C09H
import SarpyModel.Props.C09W
namespace Sarpy.Props.C11
end Sarpy.Props.C11
