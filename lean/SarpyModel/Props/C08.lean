/-
  C08 — complex pixel encodings decode per the standards and invert where defined.

  * pair index algebra (exact, any band count): `interleave_deinterleave`, `deinterleave_interleave`, order swap involutive
  * magnitude/phase over ℝ, any bit depth: every stored pair (m > 0, 0 ≤ p < 2^bits) is a fixed point of decode-then-encode
    (`encodeMP_decodeMP`), the decoded value has magnitude m; at m = 0 decoding is **not injective** (`decodeMP_zero`), so no
    encoder can return p ≠ 0 there — this limit is inherent in the format, stated, not hidden
  * amplitude table: for a strictly increasing table the selected index at an exact table value is that entry's index
    (`nearestIndex_exact`)
  * amplitude scale factor: dividing by a non-zero factor inverts the scaling exactly over ℝ, and an integer sample is a
    fixed point of scale / unscale / round (`ampSF_roundtrip`)
  Float rounding of cos/sin/atan2 is not proved: exhaustive 2^16 byte-pair runs on the implementation (harness).
-/
import SarpyModel.Spec.Codec
import Mathlib.Analysis.SpecialFunctions.Complex.Arg
import Mathlib.Analysis.SpecialFunctions.Trigonometric.Basic
import Mathlib.Tactic.Linarith
import Mathlib.Tactic.Ring
import Mathlib.Tactic.FieldSimp

namespace Sarpy.Props.C08
open Sarpy.Spec.Codec

/-! ### pair index algebra -/

theorem deinterleave_interleave {α : Type} (ps : List (α × α)) : deinterleave (interleave ps) = ps := by
  induction ps with
  | nil => rfl
  | cons p rest ih => obtain ⟨a, b⟩ := p; simp [interleave, deinterleave, ih]

theorem interleave_deinterleave {α : Type} (l : List α) (h : l.length % 2 = 0) : interleave (deinterleave l) = l := by
  induction l using List.rec with
  | nil => rfl
  | cons a t _ =>
    -- strong induction on length via the two-step pattern
    revert h
    suffices ∀ n (l : List α), l.length = n → l.length % 2 = 0 → interleave (deinterleave l) = l from
      fun h => this _ _ rfl h
    intro n
    induction n using Nat.strong_induction_on with
    | _ n ih =>
      intro l hl he
      match l, hl, he with
      | [], _, _ => rfl
      | [x], _, he => simp at he
      | x :: y :: rest, hl, he =>
        simp only [deinterleave, interleave]
        rw [ih rest.length (by simp at hl; omega) rest rfl (by simp at he; omega)]

theorem deinterleave_length {α : Type} (l : List α) : (deinterleave l).length = l.length / 2 := by
  suffices ∀ n (l : List α), l.length = n → (deinterleave l).length = l.length / 2 from this _ _ rfl
  intro n
  induction n using Nat.strong_induction_on with
  | _ n ih =>
    intro l hl
    match l, hl with
    | [], _ => simp [deinterleave]
    | [x], _ => simp [deinterleave]
    | x :: y :: rest, hl =>
      simp only [deinterleave, List.length_cons]
      rw [ih rest.length (by simp at hl; omega) rest rfl]; omega

theorem pick_involutive {α : Type} (o : Order) (p : α × α) : pick o (pick o p) = p := by
  cases o <;> rfl

/-! ### magnitude / phase over the reals -/

noncomputable def realOps : Ops ℝ where
  add := (· + ·)
  sub := (· - ·)
  mul := (· * ·)
  div := (· / ·)
  sqrt := Real.sqrt
  cos := Real.cos
  sin := Real.sin
  atan2 := fun y x => Complex.arg ⟨x, y⟩
  pi := Real.pi
  ofNat := fun n => (n : ℝ)
  lt := fun a b => decide (a < b)

/-- phase of a stored sample -/
noncomputable def theta (bits : Nat) (p : ℝ) : ℝ := p * 2 * Real.pi / (2 ^ bits : ℕ)

theorem decodeMP_eq (bits : Nat) (m p : ℝ) :
    decodeMP realOps bits m p = (m * Real.cos (theta bits p), m * Real.sin (theta bits p)) := by
  simp [decodeMP, realOps, theta]

/-- the decoded value has magnitude `m` -/
theorem decode_magnitude (bits : Nat) (m p : ℝ) (hm : 0 ≤ m) :
    Real.sqrt ((decodeMP realOps bits m p).1 ^ 2 + (decodeMP realOps bits m p).2 ^ 2) = m := by
  rw [decodeMP_eq]
  simp only
  have : (m * Real.cos (theta bits p)) ^ 2 + (m * Real.sin (theta bits p)) ^ 2 = m ^ 2 := by
    have := Real.sin_sq_add_cos_sq (theta bits p)
    nlinarith [this]
  rw [this, Real.sqrt_sq hm]

/-- **at zero magnitude the phase is lost**: all phases decode to the same value, so decode is not injective there -/
theorem decodeMP_zero (bits : Nat) (p q : ℝ) : decodeMP realOps bits 0 p = decodeMP realOps bits 0 q := by
  simp [decodeMP_eq]

theorem arg_polar (m t : ℝ) (hm : 0 < m) (h0 : 0 ≤ t) (h1 : t < 2 * Real.pi) :
    (let a := Complex.arg ⟨m * Real.cos t, m * Real.sin t⟩; if a < 0 then a + 2 * Real.pi else a) = t := by
  have hz : (⟨m * Real.cos t, m * Real.sin t⟩ : ℂ) = (m : ℂ) * (Complex.cos t + Complex.sin t * Complex.I) := by
    apply Complex.ext <;> simp [Complex.cos_ofReal_re, Complex.sin_ofReal_re, Complex.cos_ofReal_im, Complex.sin_ofReal_im]
  by_cases hle : t ≤ Real.pi
  · have harg : Complex.arg ⟨m * Real.cos t, m * Real.sin t⟩ = t := by
      rw [hz]
      exact Complex.arg_mul_cos_add_sin_mul_I hm ⟨by linarith [Real.pi_pos], hle⟩
    simp only [harg]
    rw [if_neg (by linarith)]
  · have hle : Real.pi < t := lt_of_not_ge hle
    have hz' : (⟨m * Real.cos t, m * Real.sin t⟩ : ℂ) =
        (m : ℂ) * (Complex.cos ((t - 2 * Real.pi : ℝ)) + Complex.sin ((t - 2 * Real.pi : ℝ)) * Complex.I) := by
      rw [hz]
      congr 2
      · rw [← Complex.ofReal_cos, ← Complex.ofReal_cos, Real.cos_sub_two_pi]
      · rw [← Complex.ofReal_sin, ← Complex.ofReal_sin, Real.sin_sub_two_pi]
    have harg : Complex.arg ⟨m * Real.cos t, m * Real.sin t⟩ = t - 2 * Real.pi := by
      rw [hz']
      exact Complex.arg_mul_cos_add_sin_mul_I hm ⟨by linarith, by linarith⟩
    simp only [harg]
    rw [if_pos (by linarith)]
    ring

/-- **every representable stored sample with non-zero magnitude is a fixed point of decode-then-encode** (before the
    final rounding to integers, which is then the identity on the integers `m`, `p`) -/
theorem encodeMP_decodeMP (bits : Nat) (m p : ℝ) (hm : 0 < m) (hp0 : 0 ≤ p) (hp1 : p < (2 ^ bits : ℕ)) :
    encodeMP realOps bits (decodeMP realOps bits m p).1 (decodeMP realOps bits m p).2 = (m, p) := by
  have hmag := decode_magnitude bits m p (le_of_lt hm)
  rw [decodeMP_eq] at hmag ⊢
  have hb : (0 : ℝ) < (2 ^ bits : ℕ) := by positivity
  have ht0 : 0 ≤ theta bits p := by unfold theta; positivity
  have ht1 : theta bits p < 2 * Real.pi := by
    unfold theta
    rw [div_lt_iff₀ hb]
    nlinarith [Real.pi_pos]
  have harg := arg_polar m (theta bits p) hm ht0 ht1
  simp only [encodeMP, realOps] at harg ⊢
  simp only [pow_two] at hmag
  refine Prod.ext ?_ ?_
  · simpa using hmag
  · simp only [Nat.cast_zero, Nat.cast_ofNat, decide_eq_true_eq]
    rw [harg]
    unfold theta
    have hpi : Real.pi ≠ 0 := Real.pi_ne_zero
    field_simp

/-! ### amplitude table -/

/-- in a strictly increasing list the number of entries below the k-th is k -/
theorem countBelow_sorted (table : List ℝ) (hs : table.Pairwise (· < ·)) (k : Nat) (hk : k < table.length) :
    countBelow (fun a b => decide (a < b)) table (table[k]) = k := by
  unfold countBelow
  induction table generalizing k with
  | nil => simp at hk
  | cons t rest ih =>
    rw [List.pairwise_cons] at hs
    cases k with
    | zero =>
      simp only [List.getElem_cons_zero, List.filter_cons, lt_self_iff_false, decide_false]
      have : rest.filter (fun x => decide (x < t)) = [] := by
        rw [List.filter_eq_nil_iff]
        intro x hx
        have := hs.1 x hx
        simp; linarith
      simp [this]
    | succ k =>
      have hk' : k < rest.length := by simpa using hk
      have hlt : t < rest[k] := hs.1 _ (List.getElem_mem hk')
      simp only [List.getElem_cons_succ, List.filter_cons, hlt, decide_true, if_true, List.length_cons]
      rw [ih hs.2 k hk']

/-- **exact table values invert exactly** (the off-by-one of `digitize` is gone): any length ≥ 2 -/
theorem nearestIndex_exact (table : List ℝ) (hs : table.Pairwise (· < ·)) (hn : 2 ≤ table.length) (k : Nat) (hk : k < table.length) :
    nearestIndex (fun a b => decide (a < b)) (· - ·) table (table[k]) 0 = k := by
  unfold nearestIndex
  rw [countBelow_sorted table hs k hk]
  simp only
  by_cases hk0 : k = 0
  · subst hk0
    have h1 : max 1 (min 0 (table.length - 1)) = 1 := by simp
    rw [h1]
    have hlt : table[0] < table[1] := List.pairwise_iff_getElem.1 hs 0 1 (by omega) (by omega) (by omega)
    simp only [Nat.sub_self, List.getD_eq_getElem?_getD]
    rw [List.getElem?_eq_getElem (by omega), List.getElem?_eq_getElem (by omega)]
    simp only [Option.getD_some, sub_self]
    rw [if_neg (by simp; linarith)]
  · have h1 : max 1 (min k (table.length - 1)) = k := by omega
    rw [h1]
    have hlt : table[k - 1] < table[k] := List.pairwise_iff_getElem.1 hs (k - 1) k (by omega) hk (by omega)
    simp only [List.getD_eq_getElem?_getD]
    rw [List.getElem?_eq_getElem hk, List.getElem?_eq_getElem (by omega)]
    simp only [Option.getD_some, sub_self]
    rw [if_pos (by simp; linarith)]

/-! ### amplitude scale factor -/

theorem ampSF_inverse (sf i q : ℝ) (h : sf ≠ 0) :
    ((1 / sf) * (decodeAmpSF (· * ·) sf (i, q)).1, (1 / sf) * (decodeAmpSF (· * ·) sf (i, q)).2) = (i, q) := by
  simp only [decodeAmpSF]
  refine Prod.ext ?_ ?_ <;> field_simp

/-- an integer sample survives scale / unscale / round-to-nearest -/
theorem ampSF_roundtrip (sf : ℝ) (i : ℤ) (h : sf ≠ 0) : round ((1 / sf) * (sf * (i : ℝ))) = i := by
  have : (1 / sf) * (sf * (i : ℝ)) = (i : ℝ) := by field_simp
  rw [this, round_intCast]

/-! non-vacuity -/
example : deinterleave [1, 2, 3, 4, 5, 6] = [(1, 2), (3, 4), (5, 6)] := by decide
example : interleave (deinterleave [1, 2, 3, 4]) = [1, 2, 3, 4] := by decide
example : ([0, 1, 3, 7] : List ℝ).Pairwise (· < ·) := by norm_num

end Sarpy.Props.C08
