/-
  C08 — complex pixel encodings decode per the standards and invert where defined.

  * pair index algebra (exact, any band count): `interleave_deinterleave`, `deinterleave_interleave`, order swap involutive
  * magnitude/phase over ℝ, any bit depth: every stored pair (m > 0, 0 ≤ p < 2^bits) is a fixed point of decode-then-encode
    (`encodeMP_decodeMP`), the decoded value has magnitude m; at m = 0 decoding is **not injective** (`decodeMP_zero`), so no
    encoder can return p ≠ 0 there — this limit is inherent in the format, stated, not hidden
  * amplitude table: for a strictly increasing table the selected index at an exact table value is that entry's index
    (`nearestIndex_exact`)
  * amplitude scale factor: dividing by a non-zero factor inverts the scaling exactly over ℝ, and an integer sample is a
    fixed point of scale / unscale / round (`ampSF_roundtrip`)

  ONE-STEP QUANTISATION BOUNDS for arbitrary values (all over ℝ, every bit depth `bits`, N = 2^bits, and for ANY rounding rule
  `R : ℝ → ℤ` that returns a nearest integer — `IsNearest R`; instances: `rhe` = round half to even, the rule of `numpy.round` /
  `numpy.rint`, and Mathlib's `round`):
  * rounding: `rhe_err`, `rhe_tie_even`, `IsNearest.intCast` (fixes integers), `IsNearest.mem_Icc` (in-range stays in range),
    `IsNearest.stable` (away from half-integers a perturbation does not change the result: why a tie band suffices in the harness)
  * the quantised encoder of the Spec in closed form, `encodeMPq_eq`: `(R |z|, R t mod N)`, `t` the scaled phase in `[0, N)`
  * magnitude: `encQ_mag_err` (|M − |z|| ≤ 1/2, every z), `encQ_mag_range` (|z| ≤ N−1 → 0 ≤ M ≤ N−1: representable)
  * phase: `encQ_phase_range` (0 ≤ P ≤ N−1 always), `encQ_phase_wrap` (t > N − 1/2 → P = 0; `encQ_phase_wrap_tie_rhe`: also at the
    tie for the code's rule), `encQ_phase_nowrap`, `encQ_phase_err` (∃ k, |2πP/N − arg z − 2πk| ≤ π/N, every z)
  * decode error: `encQ_decode_err` (|decode(encode z) − z| ≤ 1/2 + |z|·π/N) and the sharper chord form `encQ_decode_err_chord`
    (≤ 1/2 + 2|z| sin(π/(2N))), every z — the range hypothesis is needed only for representability of M (`encQ_mag_range`)
  * fixed points of the QUANTISED encoder `encodeMPq_decodeMP`, idempotence `encodeMPq_idempotent` (M ≠ 0), and the stated failure
    `encodeMPq_decodeMP_zero` (the sample (0, P) re-encodes to (0, 0))
  * amplitude table, every non-decreasing table of length ≥ 2 and EVERY real x: `countBelow_lt_iff` (searchsorted-left on a sorted
    table), `nearestR_optimal` (index in range and a nearest entry), `nearestR_below`, `nearestR_above`, `nearestR_tie_lower`
    (strictly increasing: exact midpoints go to the lower index), `nearestR_half_gap` (within half the bracketing gap)
  * AmpSF integer formats: `ampSF_quant_err` (|sf·n − v| ≤ |sf|/2 per component, every real v), `ampSF_quant_range` (in range →
    representable), `ampSF_quant_err_norm` (complex: ≤ |sf|/√2), `ampSF_fixed_point`
  * plain integer IQ/QI (no rounding step in the code, the cast truncates): `truncZ_err` (< 1 step, magnitude never grows),
    `truncZ_sign`, `truncZ_intCast`

  NOT proved (tied by the harness): float32 evaluation of |z|, atan2, the scaling and 1/sf in the implementation (inputs within a
  tie band of a half-integer may round either way); the reduction of a rounded phase `N` to `0` is performed by numpy's
  float → unsigned cast; out-of-range inputs (round |z| ≥ N, |v/sf| beyond the signed range) wrap through the cast and are outside
  the property and outside these theorems.
-/
import SarpyModel.Spec.Codec
import Mathlib.Analysis.SpecialFunctions.Complex.Arg
import Mathlib.Analysis.SpecialFunctions.Trigonometric.Basic
import Mathlib.Tactic.Linarith
import Mathlib.Tactic.Ring
import Mathlib.Tactic.FieldSimp
import Mathlib.Algebra.Order.Round
import Mathlib.Algebra.Order.Floor.Ring
import Mathlib.Analysis.SpecialFunctions.Trigonometric.Bounds

namespace Sarpy.Props.C08
open Sarpy.Spec.Codec

/-! ### pair index algebra -/

theorem deinterleave_interleave {α : Type} (ps : List (α × α)) : deinterleave (interleave ps) = ps := by
  induction ps with
  | nil => rfl
  | cons p rest ih => obtain ⟨a, b⟩ := p; simp [interleave, deinterleave, ih]

theorem interleave_deinterleave {α : Type} (l : List α) (h : l.length % 2 = 0) : interleave (deinterleave l) = l := by
  induction l using List.rec with
  | nil => rfl
  | cons a t _ =>
    -- strong induction on length via the two-step pattern
    revert h
    suffices ∀ n (l : List α), l.length = n → l.length % 2 = 0 → interleave (deinterleave l) = l from
      fun h => this _ _ rfl h
    intro n
    induction n using Nat.strong_induction_on with
    | _ n ih =>
      intro l hl he
      match l, hl, he with
      | [], _, _ => rfl
      | [x], _, he => simp at he
      | x :: y :: rest, hl, he =>
        simp only [deinterleave, interleave]
        rw [ih rest.length (by simp at hl; omega) rest rfl (by simp at he; omega)]

theorem deinterleave_length {α : Type} (l : List α) : (deinterleave l).length = l.length / 2 := by
  suffices ∀ n (l : List α), l.length = n → (deinterleave l).length = l.length / 2 from this _ _ rfl
  intro n
  induction n using Nat.strong_induction_on with
  | _ n ih =>
    intro l hl
    match l, hl with
    | [], _ => simp [deinterleave]
    | [x], _ => simp [deinterleave]
    | x :: y :: rest, hl =>
      simp only [deinterleave, List.length_cons]
      rw [ih rest.length (by simp at hl; omega) rest rfl]; omega

theorem pick_involutive {α : Type} (o : Order) (p : α × α) : pick o (pick o p) = p := by
  cases o <;> rfl

/-! ### rounding to the nearest integer

  `numpy.round` / `numpy.rint` round half to even (`rhe`).  Every bound below is stated for ANY rounding rule `R : ℝ → ℤ` that
  returns a nearest integer (`IsNearest R`), so none of them depends on the tie rule; they are instantiated at `rhe` (the
  code's rule) and at Mathlib's `round` (ties away from zero). -/

/-- round half to even -/
noncomputable def rhe (x : ℝ) : ℤ :=
  if Int.fract x < 1 / 2 then ⌊x⌋
  else if 1 / 2 < Int.fract x then ⌊x⌋ + 1
  else if Even ⌊x⌋ then ⌊x⌋ else ⌊x⌋ + 1

/-- `R` returns a nearest integer -/
def IsNearest (R : ℝ → ℤ) : Prop := ∀ x : ℝ, |(R x : ℝ) - x| ≤ 1 / 2

/-! ### magnitude / phase over the reals -/

/-- the scalar operations over ℝ with rounding rule `R` -/
noncomputable def realOpsR (R : ℝ → ℤ) : Ops ℝ where
  add := (· + ·)
  sub := (· - ·)
  mul := (· * ·)
  div := (· / ·)
  sqrt := Real.sqrt
  cos := Real.cos
  sin := Real.sin
  atan2 := fun y x => Complex.arg ⟨x, y⟩
  pi := Real.pi
  ofNat := fun n => (n : ℝ)
  lt := fun a b => decide (a < b)
  rint := fun x => (R x : ℝ)
  floor := fun x => (⌊x⌋ : ℝ)

noncomputable def realOps : Ops ℝ where
  add := (· + ·)
  sub := (· - ·)
  mul := (· * ·)
  div := (· / ·)
  sqrt := Real.sqrt
  cos := Real.cos
  sin := Real.sin
  atan2 := fun y x => Complex.arg ⟨x, y⟩
  pi := Real.pi
  ofNat := fun n => (n : ℝ)
  lt := fun a b => decide (a < b)
  rint := fun x => (rhe x : ℝ)
  floor := fun x => (⌊x⌋ : ℝ)

/-- phase of a stored sample -/
noncomputable def theta (bits : Nat) (p : ℝ) : ℝ := p * 2 * Real.pi / (2 ^ bits : ℕ)

theorem decodeMP_eq (bits : Nat) (m p : ℝ) :
    decodeMP realOps bits m p = (m * Real.cos (theta bits p), m * Real.sin (theta bits p)) := by
  simp [decodeMP, realOps, theta]

/-- the decoded value has magnitude `m` -/
theorem decode_magnitude (bits : Nat) (m p : ℝ) (hm : 0 ≤ m) :
    Real.sqrt ((decodeMP realOps bits m p).1 ^ 2 + (decodeMP realOps bits m p).2 ^ 2) = m := by
  rw [decodeMP_eq]
  simp only
  have : (m * Real.cos (theta bits p)) ^ 2 + (m * Real.sin (theta bits p)) ^ 2 = m ^ 2 := by
    have := Real.sin_sq_add_cos_sq (theta bits p)
    nlinarith [this]
  rw [this, Real.sqrt_sq hm]

/-- **at zero magnitude the phase is lost**: all phases decode to the same value, so decode is not injective there -/
theorem decodeMP_zero (bits : Nat) (p q : ℝ) : decodeMP realOps bits 0 p = decodeMP realOps bits 0 q := by
  simp [decodeMP_eq]

theorem arg_polar (m t : ℝ) (hm : 0 < m) (h0 : 0 ≤ t) (h1 : t < 2 * Real.pi) :
    (let a := Complex.arg ⟨m * Real.cos t, m * Real.sin t⟩; if a < 0 then a + 2 * Real.pi else a) = t := by
  have hz : (⟨m * Real.cos t, m * Real.sin t⟩ : ℂ) = (m : ℂ) * (Complex.cos t + Complex.sin t * Complex.I) := by
    apply Complex.ext <;> simp [Complex.cos_ofReal_re, Complex.sin_ofReal_re, Complex.cos_ofReal_im, Complex.sin_ofReal_im]
  by_cases hle : t ≤ Real.pi
  · have harg : Complex.arg ⟨m * Real.cos t, m * Real.sin t⟩ = t := by
      rw [hz]
      exact Complex.arg_mul_cos_add_sin_mul_I hm ⟨by linarith [Real.pi_pos], hle⟩
    simp only [harg]
    rw [if_neg (by linarith)]
  · have hle : Real.pi < t := lt_of_not_ge hle
    have hz' : (⟨m * Real.cos t, m * Real.sin t⟩ : ℂ) =
        (m : ℂ) * (Complex.cos ((t - 2 * Real.pi : ℝ)) + Complex.sin ((t - 2 * Real.pi : ℝ)) * Complex.I) := by
      rw [hz]
      congr 2
      · rw [← Complex.ofReal_cos, ← Complex.ofReal_cos, Real.cos_sub_two_pi]
      · rw [← Complex.ofReal_sin, ← Complex.ofReal_sin, Real.sin_sub_two_pi]
    have harg : Complex.arg ⟨m * Real.cos t, m * Real.sin t⟩ = t - 2 * Real.pi := by
      rw [hz']
      exact Complex.arg_mul_cos_add_sin_mul_I hm ⟨by linarith, by linarith⟩
    simp only [harg]
    rw [if_pos (by linarith)]
    ring

/-- **every representable stored sample with non-zero magnitude is a fixed point of decode-then-encode** (before the
    final rounding to integers, which is then the identity on the integers `m`, `p`) -/
theorem encodeMP_decodeMP (bits : Nat) (m p : ℝ) (hm : 0 < m) (hp0 : 0 ≤ p) (hp1 : p < (2 ^ bits : ℕ)) :
    encodeMP realOps bits (decodeMP realOps bits m p).1 (decodeMP realOps bits m p).2 = (m, p) := by
  have hmag := decode_magnitude bits m p (le_of_lt hm)
  rw [decodeMP_eq] at hmag ⊢
  have hb : (0 : ℝ) < (2 ^ bits : ℕ) := by positivity
  have ht0 : 0 ≤ theta bits p := by unfold theta; positivity
  have ht1 : theta bits p < 2 * Real.pi := by
    unfold theta
    rw [div_lt_iff₀ hb]
    nlinarith [Real.pi_pos]
  have harg := arg_polar m (theta bits p) hm ht0 ht1
  simp only [encodeMP, realOps] at harg ⊢
  simp only [pow_two] at hmag
  refine Prod.ext ?_ ?_
  · simpa using hmag
  · simp only [Nat.cast_zero, Nat.cast_ofNat, decide_eq_true_eq]
    rw [harg]
    unfold theta
    have hpi : Real.pi ≠ 0 := Real.pi_ne_zero
    field_simp

/-! ### amplitude table -/

/-- in a strictly increasing list the number of entries below the k-th is k -/
theorem countBelow_sorted (table : List ℝ) (hs : table.Pairwise (· < ·)) (k : Nat) (hk : k < table.length) :
    countBelow (fun a b => decide (a < b)) table (table[k]) = k := by
  unfold countBelow
  induction table generalizing k with
  | nil => simp at hk
  | cons t rest ih =>
    rw [List.pairwise_cons] at hs
    cases k with
    | zero =>
      simp only [List.getElem_cons_zero, List.filter_cons, lt_self_iff_false, decide_false]
      have : rest.filter (fun x => decide (x < t)) = [] := by
        rw [List.filter_eq_nil_iff]
        intro x hx
        have := hs.1 x hx
        simp; linarith
      simp [this]
    | succ k =>
      have hk' : k < rest.length := by simpa using hk
      have hlt : t < rest[k] := hs.1 _ (List.getElem_mem hk')
      simp only [List.getElem_cons_succ, List.filter_cons, hlt, decide_true, if_true, List.length_cons]
      rw [ih hs.2 k hk']

/-- **exact table values invert exactly** (the off-by-one of `digitize` is gone): any length ≥ 2 -/
theorem nearestIndex_exact (table : List ℝ) (hs : table.Pairwise (· < ·)) (hn : 2 ≤ table.length) (k : Nat) (hk : k < table.length) :
    nearestIndex (fun a b => decide (a < b)) (· - ·) table (table[k]) 0 = k := by
  unfold nearestIndex
  rw [countBelow_sorted table hs k hk]
  simp only
  by_cases hk0 : k = 0
  · subst hk0
    have h1 : max 1 (min 0 (table.length - 1)) = 1 := by simp
    rw [h1]
    have hlt : table[0] < table[1] := List.pairwise_iff_getElem.1 hs 0 1 (by omega) (by omega) (by omega)
    simp only [Nat.sub_self, List.getD_eq_getElem?_getD]
    rw [List.getElem?_eq_getElem (by omega), List.getElem?_eq_getElem (by omega)]
    simp only [Option.getD_some, sub_self]
    rw [if_neg (by simp; linarith)]
  · have h1 : max 1 (min k (table.length - 1)) = k := by omega
    rw [h1]
    have hlt : table[k - 1] < table[k] := List.pairwise_iff_getElem.1 hs (k - 1) k (by omega) hk (by omega)
    simp only [List.getD_eq_getElem?_getD]
    rw [List.getElem?_eq_getElem hk, List.getElem?_eq_getElem (by omega)]
    simp only [Option.getD_some, sub_self]
    rw [if_pos (by simp; linarith)]

/-! ### amplitude scale factor -/

theorem ampSF_inverse (sf i q : ℝ) (h : sf ≠ 0) :
    ((1 / sf) * (decodeAmpSF (· * ·) sf (i, q)).1, (1 / sf) * (decodeAmpSF (· * ·) sf (i, q)).2) = (i, q) := by
  simp only [decodeAmpSF]
  refine Prod.ext ?_ ?_ <;> field_simp

/-- an integer sample survives scale / unscale / round-to-nearest -/
theorem ampSF_roundtrip (sf : ℝ) (i : ℤ) (h : sf ≠ 0) : round ((1 / sf) * (sf * (i : ℝ))) = i := by
  have : (1 / sf) * (sf * (i : ℝ)) = (i : ℝ) := by field_simp
  rw [this, round_intCast]

/-! non-vacuity -/
example : deinterleave [1, 2, 3, 4, 5, 6] = [(1, 2), (3, 4), (5, 6)] := by decide
example : interleave (deinterleave [1, 2, 3, 4]) = [1, 2, 3, 4] := by decide
example : ([0, 1, 3, 7] : List ℝ).Pairwise (· < ·) := by norm_num

theorem rhe_err (x : ℝ) : |(rhe x : ℝ) - x| ≤ 1 / 2 := by
  have h0 := Int.fract_nonneg x
  have h1 := Int.fract_lt_one x
  have hf : Int.fract x = x - ⌊x⌋ := rfl
  unfold rhe
  rw [abs_le]
  split_ifs with a b c
  · constructor <;> linarith
  · push_cast; constructor <;> linarith
  · constructor <;> linarith
  · push_cast; constructor <;> linarith

/-- the rule really is half-to-even: at a tie the result is even -/
theorem rhe_tie_even (x : ℝ) (h : Int.fract x = 1 / 2) : Even (rhe x) := by
  unfold rhe
  rw [h]
  simp only [lt_self_iff_false, if_false]
  split_ifs with c
  · exact c
  · exact Int.even_add_one.2 c

theorem isNearest_rhe : IsNearest rhe := rhe_err

theorem isNearest_round : IsNearest (fun x : ℝ => round x) := by
  intro x
  rw [abs_sub_comm]
  exact abs_sub_round x

/-- a nearest-integer rule fixes the integers -/
theorem IsNearest.intCast {R : ℝ → ℤ} (hR : IsNearest R) (n : ℤ) : R (n : ℝ) = n := by
  have h := hR n
  rw [abs_le] at h
  have h1 : ((R (n : ℝ) - n : ℤ) : ℝ) < 1 := by push_cast; linarith [h.2]
  have h2 : (-1 : ℝ) < ((R (n : ℝ) - n : ℤ) : ℝ) := by push_cast; linarith [h.1]
  have h1' : R (n : ℝ) - n < 1 := by exact_mod_cast h1
  have h2' : -1 < R (n : ℝ) - n := by exact_mod_cast h2
  omega

theorem IsNearest.natCast {R : ℝ → ℤ} (hR : IsNearest R) (n : ℕ) : R (n : ℝ) = n := by
  have := hR.intCast (n : ℤ)
  simpa using this

/-- a nearest-integer rule maps an interval with integer end points into itself: the rounded value of an in-range real is
    a representable integer -/
theorem IsNearest.mem_Icc {R : ℝ → ℤ} (hR : IsNearest R) (lo hi : ℤ) (x : ℝ) (h0 : (lo : ℝ) ≤ x) (h1 : x ≤ (hi : ℝ)) :
    lo ≤ R x ∧ R x ≤ hi := by
  have h := hR x
  rw [abs_le] at h
  have a : ((lo - 1 : ℤ) : ℝ) < (R x : ℝ) := by push_cast; linarith [h.1]
  have b : (R x : ℝ) < ((hi + 1 : ℤ) : ℝ) := by push_cast; linarith [h.2]
  have a' : lo - 1 < R x := by exact_mod_cast a
  have b' : R x < hi + 1 := by exact_mod_cast b
  omega

theorem rhe_intCast (n : ℤ) : rhe (n : ℝ) = n := isNearest_rhe.intCast n

example : rhe (5 / 2) = 2 := by
  have h : Int.fract (5 / 2 : ℝ) = 1 / 2 := by
    rw [Int.fract_eq_iff]; refine ⟨by norm_num, by norm_num, 2, by norm_num⟩
  have hfl : ⌊(5 / 2 : ℝ)⌋ = 2 := by
    rw [Int.floor_eq_iff]; constructor <;> norm_num
  unfold rhe
  rw [h, hfl]
  simp
example : rhe (7 / 2) = 4 := by
  have h : Int.fract (7 / 2 : ℝ) = 1 / 2 := by
    rw [Int.fract_eq_iff]; refine ⟨by norm_num, by norm_num, 3, by norm_num⟩
  have hfl : ⌊(7 / 2 : ℝ)⌋ = 3 := by
    rw [Int.floor_eq_iff]; constructor <;> norm_num
  unfold rhe
  rw [h, hfl]
  simp
  decide

/-! ### the quantised magnitude / phase encoder (`encodeMPq`), any bit depth, any nearest-integer rule -/

/-- `|z|` -/
noncomputable def mag (x y : ℝ) : ℝ := Real.sqrt (x * x + y * y)

/-- the phase wrapped into `[0, 2π)`: `theta = arctan2(y, x); theta[theta < 0] += 2π` -/
noncomputable def phase (x y : ℝ) : ℝ :=
  if Complex.arg ⟨x, y⟩ < 0 then Complex.arg ⟨x, y⟩ + 2 * Real.pi else Complex.arg ⟨x, y⟩

/-- the scaled, un-rounded phase `t ∈ [0, 2^bits)` -/
noncomputable def tScaled (bits : Nat) (x y : ℝ) : ℝ := phase x y * (2 ^ bits : ℕ) / (2 * Real.pi)

/-- stored magnitude (an integer) -/
noncomputable def Mq (R : ℝ → ℤ) (x y : ℝ) : ℤ := R (mag x y)

/-- stored phase (an integer): the rounded scaled phase reduced mod `2^bits` -/
noncomputable def Pq (R : ℝ → ℤ) (bits : Nat) (x y : ℝ) : ℤ := R (tScaled bits x y) % ((2 ^ bits : ℕ) : ℤ)

theorem encodeMP_eq (bits : Nat) (x y : ℝ) : encodeMP realOps bits x y = (mag x y, tScaled bits x y) := by
  simp only [encodeMP, realOps, mag, tScaled, phase, Nat.cast_zero, Nat.cast_ofNat, decide_eq_true_eq]

theorem encodeMP_realOpsR (R : ℝ → ℤ) (bits : Nat) (x y : ℝ) : encodeMP (realOpsR R) bits x y = encodeMP realOps bits x y := rfl

theorem decodeMP_realOpsR (R : ℝ → ℤ) (bits : Nat) (m p : ℝ) : decodeMP (realOpsR R) bits m p = decodeMP realOps bits m p := rfl

theorem realOps_eq : realOps = realOpsR rhe := rfl

/-- the subtraction of `⌊r/N⌋·N` is reduction mod `N` on the integers -/
theorem wrapPow_int (R : ℝ → ℤ) (bits : Nat) (k : ℤ) :
    wrapPow (realOpsR R) bits (k : ℝ) = ((k % ((2 ^ bits : ℕ) : ℤ) : ℤ) : ℝ) := by
  simp only [wrapPow, realOpsR]
  rw [Int.floor_div_natCast, Int.floor_intCast]
  have h := Int.emod_add_mul_ediv k ((2 ^ bits : ℕ) : ℤ)
  have h' : ((k % ((2 ^ bits : ℕ) : ℤ) : ℤ) : ℝ) + (((2 ^ bits : ℕ) : ℤ) : ℝ) * ((k / ((2 ^ bits : ℕ) : ℤ) : ℤ) : ℝ) = (k : ℝ) := by
    exact_mod_cast h
  rw [← h']
  push_cast
  ring

/-- **the quantised encoder in closed form**: `(R |z|, R t mod 2^bits)` -/
theorem encodeMPq_eq (R : ℝ → ℤ) (bits : Nat) (x y : ℝ) :
    encodeMPq (realOpsR R) bits x y = ((Mq R x y : ℝ), (Pq R bits x y : ℝ)) := by
  unfold encodeMPq
  rw [encodeMP_realOpsR, encodeMP_eq]
  simp only
  have : (realOpsR R).rint (tScaled bits x y) = ((R (tScaled bits x y) : ℤ) : ℝ) := rfl
  rw [this, wrapPow_int]
  rfl

theorem mag_nonneg (x y : ℝ) : 0 ≤ mag x y := Real.sqrt_nonneg _

theorem phase_nonneg (x y : ℝ) : 0 ≤ phase x y := by
  unfold phase
  have := Complex.neg_pi_lt_arg ⟨x, y⟩
  split_ifs with h
  · linarith
  · linarith

theorem phase_lt (x y : ℝ) : phase x y < 2 * Real.pi := by
  unfold phase
  have := Complex.arg_le_pi ⟨x, y⟩
  split_ifs with h
  · linarith
  · linarith [Real.pi_pos]

theorem tScaled_nonneg (bits : Nat) (x y : ℝ) : 0 ≤ tScaled bits x y := by
  unfold tScaled
  have := phase_nonneg x y
  have := Real.pi_pos
  positivity

theorem tScaled_lt (bits : Nat) (x y : ℝ) : tScaled bits x y < (2 ^ bits : ℕ) := by
  unfold tScaled
  have h := phase_lt x y
  have hp : 0 < 2 * Real.pi := by linarith [Real.pi_pos]
  have hb : (0 : ℝ) < (2 ^ bits : ℕ) := by positivity
  rw [div_lt_iff₀ hp]
  nlinarith

/-- the phase recovered from the scaled phase -/
theorem tScaled_phase (bits : Nat) (x y : ℝ) : tScaled bits x y * (2 * Real.pi) / (2 ^ bits : ℕ) = phase x y := by
  unfold tScaled
  have hb : ((2 ^ bits : ℕ) : ℝ) ≠ 0 := by positivity
  have hp : Real.pi ≠ 0 := Real.pi_ne_zero
  field_simp

/-! #### magnitude -/

/-- **stored magnitude is within half a step of `|z|`**, every `z` -/
theorem encQ_mag_err {R : ℝ → ℤ} (hR : IsNearest R) (x y : ℝ) : |(Mq R x y : ℝ) - mag x y| ≤ 1 / 2 := hR _

theorem encQ_mag_nonneg {R : ℝ → ℤ} (hR : IsNearest R) (x y : ℝ) : 0 ≤ Mq R x y := by
  have h := hR (mag x y)
  rw [abs_le] at h
  have := mag_nonneg x y
  have a : ((-1 : ℤ) : ℝ) < ((Mq R x y : ℤ) : ℝ) := by unfold Mq; push_cast; linarith [h.1]
  have : -1 < Mq R x y := by exact_mod_cast a
  omega

/-- **an in-range magnitude is stored as a representable integer** (`0 ≤ M ≤ 2^bits - 1`, so the cast into the unsigned raw
    dtype is exact); the hypothesis `|z| ≤ 2^bits - 1` is needed for the upper bound only -/
theorem encQ_mag_range {R : ℝ → ℤ} (hR : IsNearest R) (bits : Nat) (x y : ℝ) (h : mag x y ≤ ((2 ^ bits : ℕ) : ℝ) - 1) :
    0 ≤ Mq R x y ∧ Mq R x y ≤ ((2 ^ bits : ℕ) : ℤ) - 1 := by
  refine ⟨encQ_mag_nonneg hR x y, ?_⟩
  have := hR.mem_Icc 0 (((2 ^ bits : ℕ) : ℤ) - 1) (mag x y) (by simpa using mag_nonneg x y) (by push_cast at h ⊢; linarith)
  exact this.2

/-! #### phase: range, wrap point -/

/-- **stored phase is always a representable integer**, `0 ≤ P ≤ 2^bits - 1`, every `z` -/
theorem encQ_phase_range (R : ℝ → ℤ) (bits : Nat) (x y : ℝ) : 0 ≤ Pq R bits x y ∧ Pq R bits x y ≤ ((2 ^ bits : ℕ) : ℤ) - 1 := by
  have hb : (0 : ℤ) < ((2 ^ bits : ℕ) : ℤ) := by positivity
  unfold Pq
  refine ⟨Int.emod_nonneg _ (ne_of_gt hb), ?_⟩
  have := Int.emod_lt_of_pos (R (tScaled bits x y)) hb
  omega

/-- the rounded scaled phase lies in `[0, 2^bits]` -/
theorem encQ_round_range {R : ℝ → ℤ} (hR : IsNearest R) (bits : Nat) (x y : ℝ) :
    0 ≤ R (tScaled bits x y) ∧ R (tScaled bits x y) ≤ ((2 ^ bits : ℕ) : ℤ) := by
  apply hR.mem_Icc 0 ((2 ^ bits : ℕ) : ℤ)
  · simpa using tScaled_nonneg bits x y
  · have := tScaled_lt bits x y
    push_cast at this ⊢
    linarith

/-- **the wrap point**: a scaled phase above `2^bits - 1/2` rounds to `2^bits` and is stored as `0` (any tie rule) -/
theorem encQ_phase_wrap {R : ℝ → ℤ} (hR : IsNearest R) (bits : Nat) (x y : ℝ)
    (h : ((2 ^ bits : ℕ) : ℝ) - 1 / 2 < tScaled bits x y) : Pq R bits x y = 0 := by
  have hr := (encQ_round_range hR bits x y).2
  have h2 := hR (tScaled bits x y)
  rw [abs_le] at h2
  have a : (((2 ^ bits : ℕ) : ℤ) - 1 : ℤ) < R (tScaled bits x y) := by
    have : (((((2 ^ bits : ℕ) : ℤ) - 1 : ℤ)) : ℝ) < ((R (tScaled bits x y) : ℤ) : ℝ) := by push_cast at h ⊢; linarith [h2.1]
    exact_mod_cast this
  have e : R (tScaled bits x y) = ((2 ^ bits : ℕ) : ℤ) := by omega
  unfold Pq
  rw [e, Int.emod_self]

/-- below the wrap point nothing is reduced: the stored phase is the rounded scaled phase -/
theorem encQ_phase_nowrap {R : ℝ → ℤ} (hR : IsNearest R) (bits : Nat) (x y : ℝ)
    (h : tScaled bits x y < ((2 ^ bits : ℕ) : ℝ) - 1 / 2) : Pq R bits x y = R (tScaled bits x y) := by
  have hr := (encQ_round_range hR bits x y).1
  have h2 := hR (tScaled bits x y)
  rw [abs_le] at h2
  have a : R (tScaled bits x y) < ((2 ^ bits : ℕ) : ℤ) := by
    have : ((R (tScaled bits x y) : ℤ) : ℝ) < ((((2 ^ bits : ℕ) : ℤ)) : ℝ) := by push_cast at h ⊢; linarith [h2.2]
    exact_mod_cast this
  unfold Pq
  exact Int.emod_eq_of_lt hr a

/-- the code's rule (half to even) at the wrap tie itself: `t = 2^bits - 1/2` is stored as `0` for every bit depth ≥ 1 -/
theorem encQ_phase_wrap_tie_rhe (bits : Nat) (hb : 1 ≤ bits) (x y : ℝ)
    (h : ((2 ^ bits : ℕ) : ℝ) - 1 / 2 ≤ tScaled bits x y) : Pq rhe bits x y = 0 := by
  rcases lt_or_eq_of_le h with h | h
  · exact encQ_phase_wrap isNearest_rhe bits x y h
  · have hfl : ⌊tScaled bits x y⌋ = ((2 ^ bits : ℕ) : ℤ) - 1 := by
      rw [Int.floor_eq_iff, ← h]; push_cast; constructor <;> linarith
    have hfr : Int.fract (tScaled bits x y) = 1 / 2 := by
      unfold Int.fract; rw [hfl, ← h]; push_cast; ring
    have hodd : ¬ Even (((2 ^ bits : ℕ) : ℤ) - 1) := by
      obtain ⟨c, rfl⟩ : ∃ c, bits = c + 1 := ⟨bits - 1, by omega⟩
      rw [Int.not_even_iff_odd]
      refine ⟨2 ^ c - 1, ?_⟩
      push_cast; ring
    have e : rhe (tScaled bits x y) = ((2 ^ bits : ℕ) : ℤ) := by
      unfold rhe
      rw [hfr, hfl]
      simp only [lt_self_iff_false, if_false, hodd]
      ring
    unfold Pq
    rw [e, Int.emod_self]

/-! #### phase error -/

theorem phase_eq_arg (x y : ℝ) : ∃ e : ℤ, phase x y = Complex.arg ⟨x, y⟩ + 2 * Real.pi * e := by
  unfold phase
  split_ifs
  · exact ⟨1, by simp⟩
  · exact ⟨0, by simp⟩

/-- the decoded phase of the stored sample minus the rounding error of the scaled phase is the phase of `z`, up to a whole
    number of turns -/
theorem encQ_phase_key (R : ℝ → ℤ) (bits : Nat) (x y : ℝ) :
    ∃ k : ℤ, theta bits (Pq R bits x y) - Complex.arg ⟨x, y⟩ - 2 * Real.pi * k
      = (2 * Real.pi / (2 ^ bits : ℕ)) * ((R (tScaled bits x y) : ℝ) - tScaled bits x y) := by
  obtain ⟨e, he⟩ := phase_eq_arg x y
  have ht := tScaled_phase bits x y
  have hb : ((2 ^ bits : ℕ) : ℝ) ≠ 0 := by positivity
  have hP : ((Pq R bits x y : ℤ) : ℝ) = (R (tScaled bits x y) : ℝ)
      - ((2 ^ bits : ℕ) : ℝ) * ((R (tScaled bits x y) / ((2 ^ bits : ℕ) : ℤ) : ℤ) : ℝ) := by
    unfold Pq
    rw [Int.emod_def]
    push_cast
    ring
  refine ⟨e - R (tScaled bits x y) / ((2 ^ bits : ℕ) : ℤ), ?_⟩
  have ha : Complex.arg ⟨x, y⟩ = tScaled bits x y * (2 * Real.pi) / (2 ^ bits : ℕ) - 2 * Real.pi * e := by
    rw [ht, he]; ring
  rw [ha, hP]
  unfold theta
  push_cast
  field_simp
  ring

/-- **stored phase is within half a step (`π/2^bits`) of `arg z`, modulo whole turns**, every `z` (at `z = 0`: `arg 0 = 0`) -/
theorem encQ_phase_err {R : ℝ → ℤ} (hR : IsNearest R) (bits : Nat) (x y : ℝ) :
    ∃ k : ℤ, |theta bits (Pq R bits x y) - Complex.arg ⟨x, y⟩ - 2 * Real.pi * k| ≤ Real.pi / (2 ^ bits : ℕ) := by
  obtain ⟨k, hk⟩ := encQ_phase_key R bits x y
  refine ⟨k, ?_⟩
  rw [hk, abs_mul]
  have hb : (0 : ℝ) < (2 ^ bits : ℕ) := by positivity
  have hpos : 0 < 2 * Real.pi / (2 ^ bits : ℕ) := by have := Real.pi_pos; positivity
  rw [abs_of_pos hpos]
  have := hR (tScaled bits x y)
  calc 2 * Real.pi / (2 ^ bits : ℕ) * |(R (tScaled bits x y) : ℝ) - tScaled bits x y|
      ≤ 2 * Real.pi / (2 ^ bits : ℕ) * (1 / 2) := by
        exact mul_le_mul_of_nonneg_left this (le_of_lt hpos)
    _ = Real.pi / (2 ^ bits : ℕ) := by ring

/-! #### decode error -/

/-- polar forms: `‖M e^{iθ} - r e^{ia}‖ ≤ |M - r| + r ‖e^{i(θ - a - 2πk)} - 1‖` -/
theorem polar_sub_le (M r θ a : ℝ) (hr : 0 ≤ r) (k : ℤ) :
    ‖(M : ℂ) * Complex.exp (θ * Complex.I) - (r : ℂ) * Complex.exp (a * Complex.I)‖
      ≤ |M - r| + r * ‖Complex.exp (Complex.I * ((θ - a - 2 * Real.pi * k : ℝ) : ℂ)) - 1‖ := by
  have hper : Complex.exp (Complex.I * ((θ - a - 2 * Real.pi * k : ℝ) : ℂ)) = Complex.exp (((θ : ℂ) - a) * Complex.I) := by
    have := Complex.exp_mul_I_periodic.sub_int_mul_eq (x := ((θ : ℂ) - a)) k
    rw [← this]
    congr 1
    push_cast
    ring
  have e2 : Complex.exp (a * Complex.I) * Complex.exp (((θ : ℂ) - a) * Complex.I) = Complex.exp (θ * Complex.I) := by
    rw [← Complex.exp_add]; congr 1; ring
  have split : (M : ℂ) * Complex.exp (θ * Complex.I) - (r : ℂ) * Complex.exp (a * Complex.I)
      = ((M - r : ℝ) : ℂ) * Complex.exp (θ * Complex.I)
        + (r : ℂ) * (Complex.exp (a * Complex.I) * (Complex.exp (Complex.I * ((θ - a - 2 * Real.pi * k : ℝ) : ℂ)) - 1)) := by
    rw [hper, mul_sub, e2]
    push_cast
    ring
  rw [split]
  refine le_trans (norm_add_le _ _) ?_
  rw [norm_mul, norm_mul, norm_mul, Complex.norm_exp_ofReal_mul_I, Complex.norm_exp_ofReal_mul_I, Complex.norm_real,
    Complex.norm_real, Real.norm_eq_abs, Real.norm_eq_abs, abs_of_nonneg hr]
  simp

theorem pair_as_polar (x y : ℝ) : ((⟨x, y⟩ : ℂ)) = ((mag x y : ℝ) : ℂ) * Complex.exp ((Complex.arg ⟨x, y⟩ : ℝ) * Complex.I) := by
  have h := Complex.norm_mul_exp_arg_mul_I ⟨x, y⟩
  have hm : ‖(⟨x, y⟩ : ℂ)‖ = mag x y := by
    rw [Complex.norm_eq_sqrt_sq_add_sq]; unfold mag; simp only; congr 1; ring
  rw [hm] at h
  exact h.symm

theorem polar_as_pair (m t : ℝ) : ((⟨m * Real.cos t, m * Real.sin t⟩ : ℂ)) = (m : ℂ) * Complex.exp (t * Complex.I) := by
  rw [Complex.exp_mul_I]
  apply Complex.ext <;> simp [Complex.cos_ofReal_re, Complex.sin_ofReal_re, Complex.cos_ofReal_im, Complex.sin_ofReal_im]

/-- Euclidean distance between the decoded stored sample and `z`, as a norm in ℂ -/
theorem dist_as_norm (R : ℝ → ℤ) (bits : Nat) (x y : ℝ) :
    Real.sqrt (((decodeMP realOps bits (Mq R x y) (Pq R bits x y)).1 - x) ^ 2 + ((decodeMP realOps bits (Mq R x y) (Pq R bits x y)).2 - y) ^ 2)
      = ‖((Mq R x y : ℝ) : ℂ) * Complex.exp ((theta bits (Pq R bits x y) : ℝ) * Complex.I)
          - ((mag x y : ℝ) : ℂ) * Complex.exp ((Complex.arg ⟨x, y⟩ : ℝ) * Complex.I)‖ := by
  rw [decodeMP_eq, ← polar_as_pair, ← pair_as_polar, Complex.norm_eq_sqrt_sq_add_sq]
  simp

/-- **decode error** (general form): the decoded stored sample is within `|M - |z|| + |z|·‖e^{iu} - 1‖` of `z`, `u` the phase error -/
theorem encQ_decode_err_chord {R : ℝ → ℤ} (hR : IsNearest R) (bits : Nat) (x y : ℝ) :
    Real.sqrt (((decodeMP realOps bits (Mq R x y) (Pq R bits x y)).1 - x) ^ 2 + ((decodeMP realOps bits (Mq R x y) (Pq R bits x y)).2 - y) ^ 2)
      ≤ 1 / 2 + 2 * mag x y * Real.sin (Real.pi / (2 * (2 ^ bits : ℕ))) := by
  rw [dist_as_norm]
  obtain ⟨k, hk⟩ := encQ_phase_err hR bits x y
  refine le_trans (polar_sub_le _ _ _ _ (mag_nonneg x y) k) ?_
  have h1 := encQ_mag_err hR x y
  rw [Complex.norm_exp_I_mul_ofReal_sub_one]
  set u := theta bits (Pq R bits x y) - Complex.arg ⟨x, y⟩ - 2 * Real.pi * k with hu
  have hb : (1 : ℝ) ≤ (2 ^ bits : ℕ) := by exact_mod_cast Nat.one_le_two_pow
  have hpi := Real.pi_pos
  have hdiv : Real.pi / (2 ^ bits : ℕ) ≤ Real.pi := div_le_self (le_of_lt hpi) hb
  have hu2 : |u / 2| ≤ Real.pi / (2 * (2 ^ bits : ℕ)) := by
    rw [abs_div, abs_two, ← div_div, div_right_comm]
    linarith
  have hle : |u / 2| ≤ Real.pi := by
    have : Real.pi / (2 * (2 ^ bits : ℕ)) = Real.pi / (2 ^ bits : ℕ) / 2 := by rw [div_div, mul_comm]
    linarith
  have hs : |Real.sin (u / 2)| ≤ Real.sin (Real.pi / (2 * (2 ^ bits : ℕ))) := by
    rw [Real.abs_sin_eq_sin_abs_of_abs_le_pi hle]
    apply Real.sin_le_sin_of_le_of_le_pi_div_two
    · have := abs_nonneg (u / 2); linarith
    · have : Real.pi / (2 * (2 ^ bits : ℕ)) = Real.pi / (2 ^ bits : ℕ) / 2 := by rw [div_div, mul_comm]
      linarith
    · exact hu2
  rw [Real.norm_eq_abs, abs_mul, abs_two]
  have hm := mag_nonneg x y
  nlinarith [mul_le_mul_of_nonneg_left hs hm]

/-- **decode error bound** `1/2 + |z|·π/2^bits` (half a magnitude step plus half a phase step at radius `|z|`), every `z`;
    with `|z| ≤ 2^bits - 1` the stored magnitude is representable (`encQ_mag_range`), the stored phase always is -/
theorem encQ_decode_err {R : ℝ → ℤ} (hR : IsNearest R) (bits : Nat) (x y : ℝ) :
    Real.sqrt (((decodeMP realOps bits (Mq R x y) (Pq R bits x y)).1 - x) ^ 2 + ((decodeMP realOps bits (Mq R x y) (Pq R bits x y)).2 - y) ^ 2)
      ≤ 1 / 2 + mag x y * Real.pi / (2 ^ bits : ℕ) := by
  refine le_trans (encQ_decode_err_chord hR bits x y) ?_
  have hm := mag_nonneg x y
  have hpos : 0 ≤ Real.pi / (2 * (2 ^ bits : ℕ)) := by have := Real.pi_pos; positivity
  have hs := Real.sin_le hpos
  have : mag x y * Real.pi / (2 ^ bits : ℕ) = 2 * mag x y * (Real.pi / (2 * (2 ^ bits : ℕ))) := by
    have hb : ((2 ^ bits : ℕ) : ℝ) ≠ 0 := by positivity
    field_simp
  rw [this]
  nlinarith [mul_le_mul_of_nonneg_left hs hm]

/-! #### fixed points of the quantised encoder, idempotence -/

/-- **every representable stored sample with non-zero magnitude is a fixed point of decode-then-QUANTISED-encode**
    (integers `0 < M`, `0 ≤ P < 2^bits`; any nearest-integer rule) -/
theorem encodeMPq_decodeMP {R : ℝ → ℤ} (hR : IsNearest R) (bits : Nat) (M P : ℤ) (hM : 0 < M) (hP0 : 0 ≤ P)
    (hP1 : P < ((2 ^ bits : ℕ) : ℤ)) :
    encodeMPq (realOpsR R) bits (decodeMP realOps bits M P).1 (decodeMP realOps bits M P).2 = ((M : ℝ), (P : ℝ)) := by
  have h := encodeMP_decodeMP bits (M : ℝ) (P : ℝ) (by exact_mod_cast hM) (by exact_mod_cast hP0) (by exact_mod_cast hP1)
  rw [encodeMP_eq] at h
  have h1 : mag (decodeMP realOps bits M P).1 (decodeMP realOps bits M P).2 = M := congrArg Prod.fst h
  have h2 : tScaled bits (decodeMP realOps bits M P).1 (decodeMP realOps bits M P).2 = P := congrArg Prod.snd h
  rw [encodeMPq_eq]
  unfold Mq Pq
  rw [h1, h2, hR.intCast, hR.intCast, Int.emod_eq_of_lt hP0 hP1]

/-- **idempotence**: where the stored magnitude is non-zero, decoding the stored sample and encoding again returns the
    stored sample -/
theorem encodeMPq_idempotent {R : ℝ → ℤ} (hR : IsNearest R) (bits : Nat) (x y : ℝ) (hM : Mq R x y ≠ 0) :
    encodeMPq (realOpsR R) bits
        (decodeMP realOps bits (encodeMPq (realOpsR R) bits x y).1 (encodeMPq (realOpsR R) bits x y).2).1
        (decodeMP realOps bits (encodeMPq (realOpsR R) bits x y).1 (encodeMPq (realOpsR R) bits x y).2).2
      = encodeMPq (realOpsR R) bits x y := by
  rw [encodeMPq_eq R bits x y]
  have h0 := encQ_mag_nonneg hR x y
  have hp := encQ_phase_range R bits x y
  exact encodeMPq_decodeMP hR bits (Mq R x y) (Pq R bits x y) (by omega) hp.1 (by omega)

/-- **the stated failure at zero magnitude**: the phase is lost, the sample `(0, P)` re-encodes to `(0, 0)` -/
theorem encodeMPq_decodeMP_zero {R : ℝ → ℤ} (hR : IsNearest R) (bits : Nat) (P : ℝ) :
    encodeMPq (realOpsR R) bits (decodeMP realOps bits 0 P).1 (decodeMP realOps bits 0 P).2 = (0, 0) := by
  rw [decodeMP_eq, encodeMPq_eq]
  simp only [zero_mul]
  have hz : (⟨0, 0⟩ : ℂ) = 0 := rfl
  have hm : mag 0 0 = 0 := by unfold mag; simp
  have ht : tScaled bits 0 0 = 0 := by unfold tScaled phase; rw [hz, Complex.arg_zero]; simp
  unfold Mq Pq
  rw [hm, ht]
  have := hR.intCast 0
  simp only [Int.cast_zero] at this
  rw [this]
  simp

/-! #### instances: the code's rule (half to even) and Mathlib's `round` -/

theorem encQ_decode_err_rhe (bits : Nat) (x y : ℝ) :
    Real.sqrt (((decodeMP realOps bits (Mq rhe x y) (Pq rhe bits x y)).1 - x) ^ 2 + ((decodeMP realOps bits (Mq rhe x y) (Pq rhe bits x y)).2 - y) ^ 2)
      ≤ 1 / 2 + mag x y * Real.pi / (2 ^ bits : ℕ) := encQ_decode_err isNearest_rhe bits x y

theorem encQ_decode_err_round (bits : Nat) (x y : ℝ) :
    Real.sqrt (((decodeMP realOps bits (Mq (fun v => round v) x y) (Pq (fun v => round v) bits x y)).1 - x) ^ 2
        + ((decodeMP realOps bits (Mq (fun v => round v) x y) (Pq (fun v => round v) bits x y)).2 - y) ^ 2)
      ≤ 1 / 2 + mag x y * Real.pi / (2 ^ bits : ℕ) := encQ_decode_err isNearest_round bits x y

/-- the Spec encoder at the code's rule is the closed form -/
theorem encodeMPq_realOps (bits : Nat) (x y : ℝ) :
    encodeMPq realOps bits x y = ((Mq rhe x y : ℝ), (Pq rhe bits x y : ℝ)) := encodeMPq_eq rhe bits x y

/-! satisfiability of the hypotheses (8 bits) -/
-- an in-range magnitude: z = 3 + 4i, |z| = 5 ≤ 255
example : mag 3 4 ≤ ((2 ^ 8 : ℕ) : ℝ) - 1 := by
  have : mag 3 4 = 5 := by
    unfold mag
    rw [show (3 : ℝ) * 3 + 4 * 4 = 5 ^ 2 by norm_num, Real.sqrt_sq (by norm_num)]
  rw [this]; norm_num
-- a non-zero stored magnitude: z = 3 + 4i stores M = 5
example : Mq rhe 3 4 ≠ 0 := by
  have : mag 3 4 = ((5 : ℤ) : ℝ) := by
    unfold mag
    rw [show (3 : ℝ) * 3 + 4 * 4 = 5 ^ 2 by norm_num, Real.sqrt_sq (by norm_num)]; norm_num
  unfold Mq
  rw [this, rhe_intCast]; decide
-- a representable stored sample
example : (0 : ℤ) < 200 ∧ (0 : ℤ) ≤ 17 ∧ (17 : ℤ) < ((2 ^ 8 : ℕ) : ℤ) := by decide

/-! ### amplitude table: the selected index is a nearest entry, for EVERY real magnitude and every non-decreasing table

  Entries are read through `List.getD · · 0` (total); for `j < table.length` this is `table[j]` (`getD_eq`). -/

/-- the comparison used over ℝ -/
noncomputable abbrev ltR : ℝ → ℝ → Bool := fun a b => decide (a < b)

/-- the index the repaired inverse selects -/
noncomputable def nearestR (table : List ℝ) (x : ℝ) : Nat := nearestIndex ltR (· - ·) table x 0

theorem getD_eq (table : List ℝ) (j : Nat) (hj : j < table.length) : table.getD j 0 = table[j] := by
  rw [List.getD_eq_getElem?_getD, List.getElem?_eq_getElem hj, Option.getD_some]

theorem sorted_mono (table : List ℝ) (hs : table.Pairwise (· ≤ ·)) {i j : Nat} (hij : i ≤ j) (hj : j < table.length) :
    table.getD i 0 ≤ table.getD j 0 := by
  rcases Nat.eq_or_lt_of_le hij with h | h
  · subst h; exact le_refl _
  · rw [getD_eq table i (by omega), getD_eq table j hj]
    exact List.pairwise_iff_getElem.1 hs i j (by omega) hj h

theorem countBelow_le_length (table : List ℝ) (x : ℝ) : countBelow ltR table x ≤ table.length := by
  unfold countBelow; exact List.length_filter_le _ _

/-- **`searchsorted(side='left')` on a non-decreasing table**: entry `j` is below `x` exactly when `j` is below the count -/
theorem countBelow_lt_iff (table : List ℝ) (hs : table.Pairwise (· ≤ ·)) (x : ℝ) (j : Nat) (hj : j < table.length) :
    table.getD j 0 < x ↔ j < countBelow ltR table x := by
  induction table generalizing j with
  | nil => simp at hj
  | cons t rest ih =>
    rw [List.pairwise_cons] at hs
    unfold countBelow at ih ⊢
    by_cases htx : t < x
    · have hf : (t :: rest).filter (fun a => ltR a x) = t :: rest.filter (fun a => ltR a x) := by
        simp [htx]
      rw [hf]
      cases j with
      | zero => simp [htx]
      | succ j =>
        have hj' : j < rest.length := by simpa using hj
        rw [List.getD_cons_succ, List.length_cons, ih hs.2 j hj']
        omega
    · have hrest : rest.filter (fun a => ltR a x) = [] := by
        rw [List.filter_eq_nil_iff]
        intro a ha
        have := hs.1 a ha
        simp only [decide_eq_true_eq, not_lt]
        linarith [not_lt.1 htx]
      have hf : (t :: rest).filter (fun a => ltR a x) = [] := by
        simp [htx, hrest]
      rw [hf]
      simp only [List.length_nil, Nat.not_lt_zero, iff_false, not_lt]
      cases j with
      | zero => simpa using not_lt.1 htx
      | succ j =>
        have hj' : j < rest.length := by simpa using hj
        rw [List.getD_cons_succ, getD_eq rest j hj']
        have := hs.1 _ (List.getElem_mem hj')
        linarith [not_lt.1 htx]

/-- the selection rule, with the clipped bracket index `i = clip(searchsorted, 1, n-1)` -/
theorem nearestR_eq (table : List ℝ) (x : ℝ) :
    nearestR table x =
      if table.getD (max 1 (min (countBelow ltR table x) (table.length - 1))) 0 - x
          < x - table.getD (max 1 (min (countBelow ltR table x) (table.length - 1)) - 1) 0
      then max 1 (min (countBelow ltR table x) (table.length - 1))
      else max 1 (min (countBelow ltR table x) (table.length - 1)) - 1 := by
  simp [nearestR, nearestIndex]

private theorem abs_le_abs_of {a b : ℝ} (h1 : a ≤ b ∨ a ≤ -b) (h2 : -a ≤ b ∨ -a ≤ -b) : |a| ≤ |b| := by
  rw [abs_le]
  have := le_abs_self b
  have := neg_le_abs b
  constructor
  · rcases h2 with h | h <;> linarith
  · rcases h1 with h | h <;> linarith

/-- **the selected index is in range and is a nearest entry**: every non-decreasing table of length ≥ 2, every real `x` -/
theorem nearestR_optimal (table : List ℝ) (hs : table.Pairwise (· ≤ ·)) (hn : 2 ≤ table.length) (x : ℝ) :
    nearestR table x < table.length ∧
      ∀ j, j < table.length → |table.getD (nearestR table x) 0 - x| ≤ |table.getD j 0 - x| := by
  have hc := countBelow_le_length table x
  have hiff := countBelow_lt_iff table hs x
  rw [nearestR_eq]
  rcases Nat.eq_zero_or_pos (countBelow ltR table x) with h0 | hpos
  · -- x is not above any entry
    have hi : max 1 (min (countBelow ltR table x) (table.length - 1)) = 1 := by rw [h0]; simp
    rw [hi]
    have hall : ∀ j, j < table.length → x ≤ table.getD j 0 := by
      intro j hj; have := (hiff j hj).not; rw [h0] at this; simpa using this
    have a0 := hall 0 (by omega)
    have a1 := hall 1 (by omega)
    rw [if_neg (by simp only [Nat.sub_self]; linarith)]
    refine ⟨by omega, fun j hj => ?_⟩
    have := sorted_mono table hs (Nat.zero_le j) hj
    have := hall j hj
    simp only [Nat.sub_self]
    exact abs_le_abs_of (Or.inl (by linarith)) (Or.inl (by linarith))
  · rcases Nat.lt_or_ge (countBelow ltR table x) table.length with hlt | hge
    · -- bracketed: table[c-1] < x ≤ table[c]
      have hi : max 1 (min (countBelow ltR table x) (table.length - 1)) = countBelow ltR table x := by omega
      rw [hi]
      set c := countBelow ltR table x with hcdef
      have hlo : table.getD (c - 1) 0 < x := (hiff (c - 1) (by omega)).2 (by omega)
      have hhi : x ≤ table.getD c 0 := by
        have := (hiff c hlt).not; simpa using this
      have below : ∀ j, j < table.length → j < c → table.getD j 0 ≤ table.getD (c - 1) 0 :=
        fun j _ hjc => sorted_mono table hs (by omega) (by omega)
      have above : ∀ j, j < table.length → c ≤ j → table.getD c 0 ≤ table.getD j 0 :=
        fun j hj hjc => sorted_mono table hs hjc hj
      split_ifs with hsel
      · refine ⟨hlt, fun j hj => ?_⟩
        rcases Nat.lt_or_ge j c with hjc | hjc
        · have := below j hj hjc
          exact abs_le_abs_of (Or.inr (by linarith)) (Or.inr (by linarith))
        · have := above j hj hjc
          exact abs_le_abs_of (Or.inl (by linarith)) (Or.inl (by linarith))
      · refine ⟨by omega, fun j hj => ?_⟩
        have hsel' := not_lt.1 hsel
        rcases Nat.lt_or_ge j c with hjc | hjc
        · have := below j hj hjc
          exact abs_le_abs_of (Or.inr (by linarith)) (Or.inr (by linarith))
        · have := above j hj hjc
          exact abs_le_abs_of (Or.inl (by linarith)) (Or.inl (by linarith))
    · -- x is above every entry
      have hi : max 1 (min (countBelow ltR table x) (table.length - 1)) = table.length - 1 := by omega
      rw [hi]
      have hall : ∀ j, j < table.length → table.getD j 0 < x := fun j hj => (hiff j hj).2 (by omega)
      have a0 := hall (table.length - 1) (by omega)
      have a1 := hall (table.length - 1 - 1) (by omega)
      rw [if_pos (by linarith)]
      refine ⟨by omega, fun j hj => ?_⟩
      have := sorted_mono table hs (show j ≤ table.length - 1 by omega) (by omega)
      have := hall j hj
      exact abs_le_abs_of (Or.inr (by linarith)) (Or.inr (by linarith))

/-- the same in `table[·]` notation -/
theorem nearestR_optimal_getElem (table : List ℝ) (hs : table.Pairwise (· ≤ ·)) (hn : 2 ≤ table.length) (x : ℝ) :
    ∃ hk : nearestR table x < table.length, ∀ (j : Nat) (hj : j < table.length), |table[nearestR table x] - x| ≤ |table[j] - x| := by
  obtain ⟨hk, h⟩ := nearestR_optimal table hs hn x
  refine ⟨hk, fun j hj => ?_⟩
  have := h j hj
  rwa [getD_eq table _ hk, getD_eq table j hj] at this

/-- **below (or at) the first entry the index is 0** -/
theorem nearestR_below (table : List ℝ) (hs : table.Pairwise (· ≤ ·)) (hn : 2 ≤ table.length) (x : ℝ)
    (hx : x ≤ table.getD 0 0) : nearestR table x = 0 := by
  have hiff := countBelow_lt_iff table hs x
  have h0 : countBelow ltR table x = 0 := by
    by_contra hne
    have := (hiff 0 (by omega)).2 (by omega)
    linarith
  rw [nearestR_eq, h0]
  have hi : max 1 (min 0 (table.length - 1)) = 1 := by simp
  rw [hi]
  have := sorted_mono table hs (show 0 ≤ 1 by omega) (by omega)
  rw [if_neg (by simp only [Nat.sub_self]; linarith)]

/-- **above the last entry the index is n-1** -/
theorem nearestR_above (table : List ℝ) (hs : table.Pairwise (· ≤ ·)) (hn : 2 ≤ table.length) (x : ℝ)
    (hx : table.getD (table.length - 1) 0 < x) : nearestR table x = table.length - 1 := by
  have hiff := countBelow_lt_iff table hs x
  have hc := countBelow_le_length table x
  have hcn : countBelow ltR table x = table.length := by
    have := (hiff (table.length - 1) (by omega)).1 hx
    omega
  rw [nearestR_eq, hcn]
  have hi : max 1 (min table.length (table.length - 1)) = table.length - 1 := by omega
  rw [hi]
  have := sorted_mono table hs (show table.length - 1 - 1 ≤ table.length - 1 by omega) (by omega)
  rw [if_pos (by linarith)]

/-- **ties go to the lower index**: `x` exactly midway between two neighbouring entries of a strictly increasing table -/
theorem nearestR_tie_lower (table : List ℝ) (hs : table.Pairwise (· < ·)) (i : Nat) (hi : i + 1 < table.length)
    (x : ℝ) (hx : x = (table.getD i 0 + table.getD (i + 1) 0) / 2) : nearestR table x = i := by
  have hs' : table.Pairwise (· ≤ ·) := hs.imp le_of_lt
  have hiff := countBelow_lt_iff table hs' x
  have hc := countBelow_le_length table x
  have hlt : table.getD i 0 < table.getD (i + 1) 0 := by
    rw [getD_eq table i (by omega), getD_eq table (i + 1) hi]
    exact List.pairwise_iff_getElem.1 hs i (i + 1) (by omega) hi (by omega)
  have h1 : i < countBelow ltR table x := (hiff i (by omega)).1 (by linarith)
  have h2 : ¬ (i + 1 < countBelow ltR table x) := by
    rw [← hiff (i + 1) hi]; linarith
  have hcn : countBelow ltR table x = i + 1 := by omega
  rw [nearestR_eq, hcn]
  have hidx : max 1 (min (i + 1) (table.length - 1)) = i + 1 := by omega
  rw [hidx, Nat.add_sub_cancel, if_neg (by linarith)]

/-- **table round trip bound**: for `table[0] ≤ x ≤ table[n-1]` there are neighbouring entries bracketing `x`, and the
    selected entry is within half their gap of `x` -/
theorem nearestR_half_gap (table : List ℝ) (hs : table.Pairwise (· ≤ ·)) (hn : 2 ≤ table.length) (x : ℝ)
    (h0 : table.getD 0 0 ≤ x) (h1 : x ≤ table.getD (table.length - 1) 0) :
    ∃ i, i + 1 < table.length ∧ table.getD i 0 ≤ x ∧ x ≤ table.getD (i + 1) 0 ∧
      |table.getD (nearestR table x) 0 - x| ≤ (table.getD (i + 1) 0 - table.getD i 0) / 2 := by
  have hc := countBelow_le_length table x
  have hiff := countBelow_lt_iff table hs x
  have hcn : countBelow ltR table x < table.length := by
    by_contra hge
    have := (hiff (table.length - 1) (by omega)).2 (by omega)
    linarith
  set c := countBelow ltR table x with hcdef
  refine ⟨max 1 c - 1, by omega, ?_, ?_, ?_⟩
  · rcases Nat.eq_zero_or_pos c with hz | hp
    · rw [hz]; simpa using h0
    · exact le_of_lt ((hiff (max 1 c - 1) (by omega)).2 (by omega))
  · have := (hiff (max 1 c - 1 + 1) (by omega)).not
    have h' : ¬ (max 1 c - 1 + 1 < c) := by omega
    exact not_lt.1 (this.2 h')
  · have hopt := (nearestR_optimal table hs hn x).2
    have hA := hopt (max 1 c - 1) (by omega)
    have hB := hopt (max 1 c - 1 + 1) (by omega)
    have lo : table.getD (max 1 c - 1) 0 ≤ x := by
      rcases Nat.eq_zero_or_pos c with hz | hp
      · rw [hz]; simpa using h0
      · exact le_of_lt ((hiff (max 1 c - 1) (by omega)).2 (by omega))
    have hi' : x ≤ table.getD (max 1 c - 1 + 1) 0 := by
      have := (hiff (max 1 c - 1 + 1) (by omega)).not
      have h' : ¬ (max 1 c - 1 + 1 < c) := by omega
      exact not_lt.1 (this.2 h')
    rw [abs_of_nonpos (show table.getD (max 1 c - 1) 0 - x ≤ 0 by linarith)] at hA
    rw [abs_of_nonneg (show 0 ≤ table.getD (max 1 c - 1 + 1) 0 - x by linarith)] at hB
    linarith

/-! satisfiability: a concrete non-decreasing table with a repeated entry, and a strictly increasing one -/
example : ([0, 1, 1, 3, 7] : List ℝ).Pairwise (· ≤ ·) ∧ 2 ≤ ([0, 1, 1, 3, 7] : List ℝ).length := by
  constructor
  · norm_num
  · simp
example : ([0, 1, 3, 7] : List ℝ).Pairwise (· < ·) ∧ 1 + 1 < ([0, 1, 3, 7] : List ℝ).length ∧
    (2 : ℝ) = (([0, 1, 3, 7] : List ℝ).getD 1 0 + ([0, 1, 3, 7] : List ℝ).getD (1 + 1) 0) / 2 := by
  refine ⟨by norm_num, by simp, by norm_num⟩
example : ([0, 1, 3, 7] : List ℝ).getD 0 0 ≤ 2 ∧ (2 : ℝ) ≤ ([0, 1, 3, 7] : List ℝ).getD (([0, 1, 3, 7] : List ℝ).length - 1) 0 := by
  norm_num

/-! ### amplitude scale factor, integer raw formats: one-step bound for every real sample -/

/-- the Spec encoder over ℝ in closed form: each component is `R (v / sf)` -/
theorem encodeAmpSF_eq (R : ℝ → ℤ) (sf x y : ℝ) :
    encodeAmpSF (realOpsR R) sf (x, y) = ((R (x / sf) : ℝ), (R (y / sf) : ℝ)) := by
  simp only [encodeAmpSF, realOpsR, Nat.cast_one]
  rw [one_div, inv_mul_eq_div, inv_mul_eq_div]

/-- **per component: the decoded stored value `sf·n` is within half a scaled step `|sf|/2` of `v`**, every real `v` -/
theorem ampSF_quant_err {R : ℝ → ℤ} (hR : IsNearest R) (sf v : ℝ) (h : sf ≠ 0) : |sf * (R (v / sf) : ℝ) - v| ≤ |sf| / 2 := by
  have e : sf * (R (v / sf) : ℝ) - v = sf * ((R (v / sf) : ℝ) - v / sf) := by field_simp
  rw [e, abs_mul]
  have := hR (v / sf)
  have hs := abs_nonneg sf
  nlinarith [mul_le_mul_of_nonneg_left this hs]

/-- **in range the rounded value is representable** in a signed `bits`-bit integer (so the cast is exact) -/
theorem ampSF_quant_range {R : ℝ → ℤ} (hR : IsNearest R) (bits : Nat) (sf v : ℝ)
    (h0 : -((2 ^ (bits - 1) : ℕ) : ℝ) ≤ v / sf) (h1 : v / sf ≤ ((2 ^ (bits - 1) : ℕ) : ℝ) - 1) :
    -((2 ^ (bits - 1) : ℕ) : ℤ) ≤ R (v / sf) ∧ R (v / sf) ≤ ((2 ^ (bits - 1) : ℕ) : ℤ) - 1 := by
  apply hR.mem_Icc
  · push_cast at h0 ⊢; linarith
  · push_cast at h1 ⊢; linarith

/-- complex form: the squared distance between `z` and the decoded stored sample is at most `sf²/2` -/
theorem ampSF_quant_err_sq {R : ℝ → ℤ} (hR : IsNearest R) (sf x y : ℝ) (h : sf ≠ 0) :
    ((decodeAmpSF (· * ·) sf (encodeAmpSF (realOpsR R) sf (x, y))).1 - x) ^ 2
      + ((decodeAmpSF (· * ·) sf (encodeAmpSF (realOpsR R) sf (x, y))).2 - y) ^ 2 ≤ sf ^ 2 / 2 := by
  rw [encodeAmpSF_eq]
  simp only [decodeAmpSF]
  have a := ampSF_quant_err hR sf x h
  have b := ampSF_quant_err hR sf y h
  have a2 : (sf * (R (x / sf) : ℝ) - x) ^ 2 ≤ (|sf| / 2) ^ 2 := by
    rw [← sq_abs (sf * (R (x / sf) : ℝ) - x)]
    exact pow_le_pow_left₀ (abs_nonneg _) a 2
  have b2 : (sf * (R (y / sf) : ℝ) - y) ^ 2 ≤ (|sf| / 2) ^ 2 := by
    rw [← sq_abs (sf * (R (y / sf) : ℝ) - y)]
    exact pow_le_pow_left₀ (abs_nonneg _) b 2
  have : (|sf| / 2) ^ 2 = sf ^ 2 / 4 := by rw [div_pow, sq_abs]; norm_num
  linarith

/-- **complex form: `|decode(encode z) - z| ≤ |sf|/√2`**, every `z`, every non-zero scale factor -/
theorem ampSF_quant_err_norm {R : ℝ → ℤ} (hR : IsNearest R) (sf x y : ℝ) (h : sf ≠ 0) :
    Real.sqrt (((decodeAmpSF (· * ·) sf (encodeAmpSF (realOpsR R) sf (x, y))).1 - x) ^ 2
      + ((decodeAmpSF (· * ·) sf (encodeAmpSF (realOpsR R) sf (x, y))).2 - y) ^ 2) ≤ |sf| / Real.sqrt 2 := by
  have hsq := ampSF_quant_err_sq hR sf x y h
  have h2 : (0 : ℝ) < Real.sqrt 2 := Real.sqrt_pos.2 (by norm_num)
  have hb : 0 ≤ |sf| / Real.sqrt 2 := div_nonneg (abs_nonneg _) (le_of_lt h2)
  apply Real.sqrt_le_iff.2
  refine ⟨hb, ?_⟩
  rw [div_pow, sq_abs, Real.sq_sqrt (by norm_num)]
  exact hsq

/-- integer samples are fixed points of decode-then-encode for any nearest-integer rule (generalises `ampSF_roundtrip`) -/
theorem ampSF_fixed_point {R : ℝ → ℤ} (hR : IsNearest R) (sf : ℝ) (i q : ℤ) (h : sf ≠ 0) :
    encodeAmpSF (realOpsR R) sf (decodeAmpSF (· * ·) sf ((i : ℝ), (q : ℝ))) = ((i : ℝ), (q : ℝ)) := by
  simp only [decodeAmpSF]
  rw [encodeAmpSF_eq]
  have e1 : sf * (i : ℝ) / sf = i := by field_simp
  have e2 : sf * (q : ℝ) / sf = q := by field_simp
  rw [e1, e2, hR.intCast, hR.intCast]

/-! ### plain IQ / QI integer formats: the cast truncates toward zero -/

/-- truncation toward zero -/
noncomputable def truncZ (x : ℝ) : ℤ := if x < 0 then -⌊-x⌋ else ⌊x⌋

theorem truncZero_eq (R : ℝ → ℤ) (x : ℝ) : truncZero (realOpsR R) x = (truncZ x : ℝ) := by
  simp only [truncZero, realOpsR, truncZ, Nat.cast_zero, decide_eq_true_eq, zero_sub]
  split_ifs <;> simp

/-- **truncation loses less than one step and never increases the magnitude** -/
theorem truncZ_err (x : ℝ) : |(truncZ x : ℝ) - x| < 1 ∧ |(truncZ x : ℝ)| ≤ |x| := by
  unfold truncZ
  split_ifs with h
  · have a := Int.floor_le (-x)
    have b := Int.lt_floor_add_one (-x)
    push_cast
    constructor
    · rw [abs_lt]; constructor <;> linarith
    · have hf : (0 : ℝ) ≤ (⌊-x⌋ : ℝ) := by
        have : (0 : ℤ) ≤ ⌊-x⌋ := Int.floor_nonneg.2 (by linarith)
        exact_mod_cast this
      rw [abs_neg, abs_of_nonneg hf, abs_of_neg h]; linarith
  · have h' := not_lt.1 h
    have a := Int.floor_le x
    have b := Int.lt_floor_add_one x
    constructor
    · rw [abs_lt]; constructor <;> linarith
    · have hf : (0 : ℝ) ≤ (⌊x⌋ : ℝ) := by
        have : (0 : ℤ) ≤ ⌊x⌋ := Int.floor_nonneg.2 h'
        exact_mod_cast this
      rw [abs_of_nonneg hf, abs_of_nonneg h']; linarith

/-- the sign is preserved (or the result is zero) -/
theorem truncZ_sign (x : ℝ) : (0 ≤ x → 0 ≤ truncZ x) ∧ (x ≤ 0 → truncZ x ≤ 0) := by
  unfold truncZ
  constructor
  · intro h
    rw [if_neg (not_lt.2 h)]
    exact Int.floor_nonneg.2 h
  · intro h
    split_ifs with hneg
    · have : (0 : ℤ) ≤ ⌊-x⌋ := Int.floor_nonneg.2 (by linarith)
      omega
    · have : x = 0 := le_antisymm h (not_lt.1 hneg)
      rw [this]; simp

theorem truncZ_intCast (n : ℤ) : truncZ (n : ℝ) = n := by
  unfold truncZ
  split_ifs
  · rw [← Int.cast_neg, Int.floor_intCast]; ring
  · exact Int.floor_intCast n

/-! satisfiability (int8, sf = 1/2, v = 10.3: v/sf = 20.6 is in range) -/
example : (1 / 2 : ℝ) ≠ 0 ∧ -((2 ^ (8 - 1) : ℕ) : ℝ) ≤ (10.3 : ℝ) / (1 / 2) ∧ (10.3 : ℝ) / (1 / 2) ≤ ((2 ^ (8 - 1) : ℕ) : ℝ) - 1 := by
  norm_num

/-! ### why a tie band suffices for the floating-point tie (harness)

  If the un-rounded value `t` is further than `ε` from every half-integer, then every perturbed value `t'` with
  `|t' - t| ≤ ε` (the float32 evaluation of the implementation) rounds to the same integer, for ANY pair of nearest-integer
  rules.  The correspondence check therefore only excuses inputs whose model value is within the band of a half-integer. -/
theorem IsNearest.stable {R R' : ℝ → ℤ} (hR : IsNearest R) (hR' : IsNearest R') (t t' ε : ℝ) (hε : |t' - t| ≤ ε)
    (hfar : ∀ n : ℤ, ε < |t - ((n : ℝ) + 1 / 2)|) : R' t' = R t := by
  have h1 := hR t
  have h2 := hR' t'
  have f1 := hfar (R t)
  have f2 := hfar (R t - 1)
  rw [abs_le] at h1 h2 hε
  push_cast at f2
  rw [abs_of_nonpos (by linarith [h1.1])] at f1
  rw [abs_of_nonneg (by linarith [h1.2])] at f2
  have a : ((R' t' - R t : ℤ) : ℝ) < 1 := by push_cast; linarith [h2.2, hε.2]
  have b : (-1 : ℝ) < ((R' t' - R t : ℤ) : ℝ) := by push_cast; linarith [h2.1, hε.1]
  have a' : R' t' - R t < 1 := by exact_mod_cast a
  have b' : -1 < R' t' - R t := by exact_mod_cast b
  omega

example : ∀ n : ℤ, (1 / 10 : ℝ) < |(3 / 10 : ℝ) - ((n : ℝ) + 1 / 2)| := by
  intro n
  rcases le_or_gt n (-1) with h | h
  · have : (n : ℝ) ≤ -1 := by exact_mod_cast h
    rw [abs_of_nonneg (by linarith)]; linarith
  · have : (0 : ℝ) ≤ n := by exact_mod_cast (show (0 : ℤ) ≤ n by omega)
    rw [abs_of_nonpos (by linarith)]; linarith

end Sarpy.Props.C08
