/-
  C12 (continued) — exactness of the closed-form inverse (Heikkinen's formulas as geocoords.py:70-92 writes them).

  Generic real algebra first (any a² > 0 and squared eccentricity e), then the assembly for the module's constants.

  How the proof goes.  Write the ECF point through its true geodetic coordinates: r = (N+h) cos φ, z = (N(1−e)+h) sin φ,
  foot point radius x₀ = N cos φ.  x₀ is a root of the quartic  (x² − a²)(r − e x)² + (1−e) z² x² = 0.
  The code solves the resolvent cubic by Cardano: S = ∛(1 + C + √(C² + 2C)), σ = S + 1/S satisfies
  (σ+1)²(σ−2) = 2C (`cardano_sigma`); with P = F/(3 G² (σ+1)²) and Q = √(1 + 2e²P) this gives the sextic relation
  (Q²−1)(r²(Q²−1) + G)² = 4 e² b² z²  (`heik_P_sextic`).  Q is irrational (degree 3) in general, so no closed form
  of the intermediates in the true coordinates exists; instead the polynomial identity
      q₁(x, Q) · q₁(x, −Q) = −4 e² Q² · quartic(x) − sextic(Q)          (`heik_factor`, by `ring`)
  shows that the true x₀ annihilates q₁(·, Q) or q₁(·, −Q); the second is strictly negative on the domain
  (`heik_other_factor_neg`), so q₁(x₀, Q) = 0, which says exactly that the quantity under the code's square root is
  (x₀ + β)² with β = P e r / (1+Q) ≥ 0, and R0 = −β + √|(x₀+β)²| = x₀ (`heik_R0_eq`).  The remaining lines
  (T, U, V, z0, latitude, height) are direct.
-/
import SarpyModel.Props.C12Inj

namespace Sarpy.Props.C12
open Sarpy.Spec.Geo

/-! ## 11. generic algebra behind Heikkinen's closed form -/

/-- Cardano step: for `C ≥ 0`, `S = (1 + C + √(C² + 2C))^(1/3)` is positive and `σ₁ = S + 1/S + 1` satisfies
    `σ₁² (σ₁ − 3) = 2C` (i.e. σ = S + 1/S solves σ³ − 3σ − 2 = 2C). -/
theorem cardano_sigma (C : ℝ) (hC : 0 ≤ C) :
    0 < (1 + C + Real.sqrt (C * C + 2 * C)) ^ ((1 : ℝ) / 3) ∧
    ((1 + C + Real.sqrt (C * C + 2 * C)) ^ ((1 : ℝ) / 3) + 1 / (1 + C + Real.sqrt (C * C + 2 * C)) ^ ((1 : ℝ) / 3) + 1) ^ 2 *
      ((1 + C + Real.sqrt (C * C + 2 * C)) ^ ((1 : ℝ) / 3) + 1 / (1 + C + Real.sqrt (C * C + 2 * C)) ^ ((1 : ℝ) / 3) + 1 - 3)
      = 2 * C := by
  have hD : 0 ≤ C * C + 2 * C := by nlinarith
  have hs := Real.mul_self_sqrt hD
  have hs0 := Real.sqrt_nonneg (C * C + 2 * C)
  generalize Real.sqrt (C * C + 2 * C) = d at hs hs0
  have hA : 0 < 1 + C + d := by linarith
  have hS : 0 < (1 + C + d) ^ ((1 : ℝ) / 3) := Real.rpow_pos_of_pos hA _
  have hS3 : ((1 + C + d) ^ ((1 : ℝ) / 3)) ^ (3 : ℕ) = 1 + C + d := by
    rw [← Real.rpow_natCast, ← Real.rpow_mul hA.le]; norm_num
  generalize (1 + C + d) ^ ((1 : ℝ) / 3) = S at hS hS3
  refine ⟨hS, ?_⟩
  have hST : S * (1 / S) = 1 := by field_simp
  have hAB : (1 + C + d) * (1 + C - d) = 1 := by linear_combination (-1 : ℝ) * hs
  have hT3 : (1 / S) ^ (3 : ℕ) = 1 + C - d := by
    have h1 : S ^ (3 : ℕ) * (1 / S) ^ (3 : ℕ) = 1 := by rw [← mul_pow, hST, one_pow]
    have : (1 / S) ^ (3 : ℕ) = (S ^ (3 : ℕ) * (1 / S) ^ (3 : ℕ)) * (1 + C - d) := by
      rw [hS3]; linear_combination (-(1 / S) ^ (3 : ℕ)) * hAB
    rw [this, h1, one_mul]
  generalize 1 / S = T at hST hT3
  linear_combination hS3 + hT3 + 3 * (S + T) * hST

/-- from the Cardano relation to the sextic in Q (written with q = Q² − 1 = 2e²P) -/
theorem heik_P_sextic (e a2 ρ w G σ1 F P : ℝ) (hG : 0 < G) (hσ : 0 < σ1)
    (hF : F = 54 * (a2 * (1 - e)) * w)
    (hcub : σ1 ^ 2 * (σ1 - 3) = 2 * (e * e * F * ρ / (G * G * G)))
    (hP : P = F / (3 * ((G * σ1) * (G * σ1)))) :
    (2 * (e * e) * P) * (ρ * (2 * (e * e) * P) + G) ^ 2 = 4 * (e * e) * (a2 * (1 - e)) * w := by
  have ht : (3 * ((G * σ1) * (G * σ1))) ≠ 0 := by positivity
  have hP' : P * (3 * ((G * σ1) * (G * σ1))) = F := by rw [hP]; field_simp
  have hG3 : G * G * G ≠ 0 := by positivity
  have hcub' : σ1 ^ 2 * (σ1 - 3) * (G * G * G) = 2 * (e * e * F * ρ) := by rw [hcub]; field_simp
  have h1 : 6 * (e * e) * ρ * P = G * (σ1 - 3) := by
    apply mul_right_cancel₀ ht
    calc 6 * (e * e) * ρ * P * (3 * ((G * σ1) * (G * σ1))) = 6 * (e * e) * ρ * (P * (3 * ((G * σ1) * (G * σ1)))) := by ring
      _ = 6 * (e * e) * ρ * F := by rw [hP']
      _ = 3 * (2 * (e * e * F * ρ)) := by ring
      _ = 3 * (σ1 ^ 2 * (σ1 - 3) * (G * G * G)) := by rw [hcub']
      _ = G * (σ1 - 3) * (3 * ((G * σ1) * (G * σ1))) := by ring
  have h2 : ρ * (2 * (e * e) * P) + G = G * σ1 / 3 := by linear_combination (1 / 3 : ℝ) * h1
  rw [h2]
  have : 2 * (e * e) * P * (G * σ1 / 3) ^ 2 = 2 * (e * e) / 27 * (P * (3 * ((G * σ1) * (G * σ1)))) := by ring
  rw [this, hP', hF]; ring

/-- the quadratic (in x) factor of the quartic over the field of Q; `q₁(x, Q) = 0` says
    `(x + (Q−1) r / (2e))² = a²(1+Q)/(2Q) − (Q−1)(1−e) w /(2e²Q) − (Q²−1) r²/(4e²)` -/
def q1 (e a2 r w x Q : ℝ) : ℝ :=
  2 * e ^ 2 * Q * x ^ 2 + 2 * e * Q * (Q - 1) * r * x + Q ^ 2 * (Q - 1) * r ^ 2 - e ^ 2 * a2 * (1 + Q) + (Q - 1) * (1 - e) * w

/-- **the factorisation identity** (found with a Gröbner-basis division, checked here by `ring`) -/
theorem heik_factor (e a2 r w x Q : ℝ) :
    q1 e a2 r w x Q * q1 e a2 r w x (-Q) =
      -(4 * e ^ 2 * Q ^ 2) * ((x ^ 2 - a2) * (r - e * x) ^ 2 + (1 - e) * w * x ^ 2)
      - ((Q ^ 2 - 1) * (r ^ 2 * (Q ^ 2 - 1) + (r ^ 2 + (1 - e) * w - e ^ 2 * a2)) ^ 2 - 4 * e ^ 2 * (a2 * (1 - e)) * w) := by
  unfold q1; ring

/-- the true foot-point radius `x₀ = N c` is a root of the quartic -/
theorem foot_quartic (e a2 N c s h : ℝ) (hcs : s * s + c * c = 1) (hNa : N * N * (1 - e * s * s) = a2) :
    ((N * c) ^ 2 - a2) * ((N + h) * c - e * (N * c)) ^ 2 + (1 - e) * ((N + h - e * N) * s) ^ 2 * (N * c) ^ 2 = 0 := by
  have hc : c * c = 1 - s * s := by linarith
  rw [← hNa]
  have : ((N * c) ^ 2 - N * N * (1 - e * s * s)) * ((N + h) * c - e * (N * c)) ^ 2 + (1 - e) * ((N + h - e * N) * s) ^ 2 * (N * c) ^ 2
      = (N + h - e * N) ^ 2 * N ^ 2 * (c * c) * ((c * c) - (1 - e * s * s) + (1 - e) * (s * s)) := by ring
  rw [this, hc]; ring

/-- on the domain `N(1−e) + h > e N` (everything further than e·N from the axis of the foot point: h > −(1−2e)N)
    the conjugate factor is strictly negative at the true foot point -/
theorem heik_other_factor_neg (e a2 N c s h Q : ℝ) (he0 : 0 < e) (he1 : e < 1) (hN : 0 < N)
    (hcs : s * s + c * c = 1) (hNa : N * N * (1 - e * s * s) = a2) (hB : e * N < N + h - e * N) (hQ : 1 ≤ Q) :
    q1 e a2 ((N + h) * c) (((N + h - e * N) * s) ^ 2) (N * c) (-Q) < 0 := by
  have heN : 0 < e * N := mul_pos he0 hN
  -- brackets
  have hBr2 : 0 < (Q + 1) * (N + h - e * N) ^ 2 - e ^ 2 * (Q - 1) * N ^ 2 := by
    have hsq : (e * N) ^ 2 < (N + h - e * N) ^ 2 := by nlinarith
    nlinarith [mul_pos (by linarith : (0 : ℝ) < Q + 1) (sub_pos.2 hsq), sq_nonneg (e * N)]
  have hA : 2 * (e * N) < N + h := by linarith
  have hBr1 : 0 < Q * (Q * (Q + 1) * (N + h) ^ 2 - 2 * e * (Q + 1) * (N + h) * N + 2 * e ^ 2 * N ^ 2) - e ^ 2 * (Q - 1) * N ^ 2 := by
    have hA0 : 0 < N + h := by linarith
    have h1 : 0 ≤ (Q + 1) * (N + h) * (Q * (N + h) - 2 * (e * N)) := by
      apply mul_nonneg (mul_nonneg (by linarith) hA0.le)
      nlinarith
    have h2 : 0 < e ^ 2 * N ^ 2 := by positivity
    nlinarith [mul_nonneg (by linarith : (0 : ℝ) ≤ Q) h1]
  have hs2 : 0 ≤ s * s := mul_self_nonneg s
  have hc2 : 0 ≤ c * c := mul_self_nonneg c
  have key : -q1 e a2 ((N + h) * c) (((N + h - e * N) * s) ^ 2) (N * c) (-Q)
      = (c * c) * (Q * (Q * (Q + 1) * (N + h) ^ 2 - 2 * e * (Q + 1) * (N + h) * N + 2 * e ^ 2 * N ^ 2) - e ^ 2 * (Q - 1) * N ^ 2)
        + (1 - e) * (s * s) * ((Q + 1) * (N + h - e * N) ^ 2 - e ^ 2 * (Q - 1) * N ^ 2) := by
    unfold q1
    rw [← hNa]
    linear_combination (e ^ 2 * (Q - 1) * N ^ 2) * hcs
  have h1e : 0 < 1 - e := by linarith
  have : 0 < -q1 e a2 ((N + h) * c) (((N + h - e * N) * s) ^ 2) (N * c) (-Q) := by
    rw [key]
    rcases (mul_self_nonneg c).lt_or_eq with hc | hc
    · have t1 := mul_pos hc hBr1
      have t2 := mul_nonneg (mul_nonneg h1e.le hs2) hBr2.le
      linarith
    · have hs1 : s * s = 1 := by linarith
      rw [← hc, hs1]
      have := mul_pos h1e hBr2
      linarith
  linarith

/-- with `q₁(x, Q) = 0`, `x ≥ 0`, the code's expression for R0 (line 76) evaluates to `x` -/
theorem heik_R0_eq (e a2 r z P Q x : ℝ) (he0 : 0 < e) (hQ1 : 1 ≤ Q) (hQP : Q * Q = 1 + 2 * (e * e) * P)
    (hx : 0 ≤ x) (hr : 0 ≤ r) (hq : q1 e a2 r (z * z) x Q = 0) :
    (-P) * e * r / (1 + Q) + Real.sqrt |1 / 2 * a2 * (1 + 1 / Q) - P * (1 - e) * z * z / (Q * (1 + Q)) - 1 / 2 * P * r * r| = x := by
  have hQ0 : 0 < Q := by linarith
  have hQ1' : 0 < 1 + Q := by linarith
  have hP : P = (Q * Q - 1) / (2 * (e * e)) := by
    rw [hQP]; field_simp; ring
  have hβ : (-P) * e * r / (1 + Q) = -((Q - 1) * r / (2 * e)) := by
    rw [hP]; field_simp; ring
  have hβ0 : 0 ≤ (Q - 1) * r / (2 * e) := by
    apply div_nonneg (mul_nonneg (by linarith) hr) (by linarith)
  have hX : 1 / 2 * a2 * (1 + 1 / Q) - P * (1 - e) * z * z / (Q * (1 + Q)) - 1 / 2 * P * r * r
      = (x + (Q - 1) * r / (2 * e)) ^ 2 := by
    have hid : 1 / 2 * a2 * (1 + 1 / Q) - P * (1 - e) * z * z / (Q * (1 + Q)) - 1 / 2 * P * r * r
        - (x + (Q - 1) * r / (2 * e)) ^ 2 = -(q1 e a2 r (z * z) x Q) / (2 * e ^ 2 * Q) := by
      rw [hP]; unfold q1; field_simp; ring
    rw [hq, neg_zero, zero_div] at hid
    linarith
  rw [hβ, hX, abs_of_nonneg (sq_nonneg _), Real.sqrt_sq (by linarith)]
  ring

/-- the validity test of line 66 holds on the domain: `G = r² + (1−e) z² − e² a² > 0` -/
theorem heik_G_pos (e a2 N c s h : ℝ) (he0 : 0 < e) (he1 : e < 1) (hN : 0 < N)
    (hcs : s * s + c * c = 1) (hNa : N * N * (1 - e * s * s) = a2) (hB : e * N < N + h - e * N) :
    0 < ((N + h) * c) * ((N + h) * c) + (1 - e) * ((N + h - e * N) * s) * ((N + h - e * N) * s) - e * (a2 - a2 * (1 - e)) := by
  have h1e : 0 < 1 - e := by linarith
  have heN : 0 < e * N := mul_pos he0 hN
  have hc2 : 0 ≤ c * c := mul_self_nonneg c
  have hs2 : 0 ≤ s * s := mul_self_nonneg s
  have hG' : ((N + h) * c) * ((N + h) * c) + (1 - e) * ((N + h - e * N) * s) * ((N + h - e * N) * s) - e * (a2 - a2 * (1 - e))
      = (c * c) * ((N + h) ^ 2 - (e * N) ^ 2) + (1 - e) * (s * s) * ((N + h - e * N) ^ 2 - (e * N) ^ 2) := by
    rw [← hNa]
    linear_combination (e ^ 2 * N ^ 2) * hcs
  have b1 : 0 < (N + h) ^ 2 - (e * N) ^ 2 := by nlinarith
  have b2 : 0 < (N + h - e * N) ^ 2 - (e * N) ^ 2 := by nlinarith
  rw [hG']
  rcases (mul_self_nonneg c).lt_or_eq with hc' | hc'
  · have t1 := mul_pos hc' b1
    have t2 := mul_nonneg (mul_nonneg h1e.le hs2) b2.le
    linarith
  · have hs1 : s * s = 1 := by linarith
    rw [← hc', hs1]
    have := mul_pos h1e b2
    linarith

/-- **the chain of lines 70-76 returns the foot-point radius** `N c`, for any ellipse and every point whose true
    coordinates satisfy `N(1−e) + h > e N` (generic reals; `c ≥ 0`) -/
theorem heik_chain (e a2 N c s h : ℝ) (he0 : 0 < e) (he1 : e < 1) (ha2 : 0 < a2) (hN : 0 < N)
    (hcs : s * s + c * c = 1) (hNa : N * N * (1 - e * s * s) = a2) (hc : 0 ≤ c) (hB : e * N < N + h - e * N)
    (r z F G C S P Q : ℝ) (hr : r = (N + h) * c) (hz : z = (N + h - e * N) * s)
    (hF : F = 54 * (a2 * (1 - e)) * z * z)
    (hG : G = r * r + (1 - e) * z * z - e * (a2 - a2 * (1 - e)))
    (hC : C = e * e * F * r * r / (G * G * G))
    (hS : S = (1 + C + Real.sqrt (C * C + 2 * C)) ^ ((1 : ℝ) / 3))
    (hP : P = F / (3 * ((G * (S + 1 / S + 1)) * (G * (S + 1 / S + 1)))))
    (hQ : Q = Real.sqrt (1 + 2 * (e * e) * P)) :
    (-P) * e * r / (1 + Q) + Real.sqrt |1 / 2 * a2 * (1 + 1 / Q) - P * (1 - e) * z * z / (Q * (1 + Q)) - 1 / 2 * P * r * r| = N * c := by
  have h1e : 0 < 1 - e := by linarith
  have heN : 0 < e * N := mul_pos he0 hN
  have hA : 0 < N + h := by linarith
  have hr0 : 0 ≤ r := by rw [hr]; exact mul_nonneg hA.le hc
  have hF0 : 0 ≤ F := by
    rw [hF]
    have : 54 * (a2 * (1 - e)) * z * z = 54 * (a2 * (1 - e)) * (z * z) := by ring
    rw [this]; exact mul_nonneg (by positivity) (mul_self_nonneg z)
  have hGpos : 0 < G := by
    rw [hG, hr, hz]; exact heik_G_pos e a2 N c s h he0 he1 hN hcs hNa hB
  have hC0 : 0 ≤ C := by
    rw [hC]
    apply div_nonneg _ (by positivity)
    have : e * e * F * r * r = (e * e) * F * (r * r) := by ring
    rw [this]; exact mul_nonneg (mul_nonneg (by positivity) hF0) (mul_self_nonneg r)
  obtain ⟨hSpos, hcub⟩ := cardano_sigma C hC0
  rw [← hS] at hSpos hcub
  have hσ : 0 < S + 1 / S + 1 := by positivity
  have hP0 : 0 ≤ P := by rw [hP]; exact div_nonneg hF0 (by positivity)
  have hsext := heik_P_sextic e a2 (r * r) (z * z) G (S + 1 / S + 1) F P hGpos hσ (by rw [hF]; ring)
    (by rw [hcub, hC]; ring) hP
  have hrad : 0 ≤ 1 + 2 * (e * e) * P := by positivity
  have hQQ : Q * Q = 1 + 2 * (e * e) * P := by rw [hQ]; exact Real.mul_self_sqrt hrad
  have hQ1 : 1 ≤ Q := by
    rw [hQ, Real.one_le_sqrt]
    have := mul_nonneg (mul_self_nonneg e) hP0
    linarith
  -- the sextic relation in Q
  have hq : (Q ^ 2 - 1) * (r ^ 2 * (Q ^ 2 - 1) + (r ^ 2 + (1 - e) * (z * z) - e ^ 2 * a2)) ^ 2 - 4 * e ^ 2 * (a2 * (1 - e)) * (z * z) = 0 := by
    have e1 : Q ^ 2 - 1 = 2 * (e * e) * P := by rw [pow_two, hQQ]; ring
    have e2 : r ^ 2 + (1 - e) * (z * z) - e ^ 2 * a2 = G := by rw [hG]; ring
    rw [e1, e2]
    linear_combination hsext
  have hquart := foot_quartic e a2 N c s h hcs hNa
  have hfac := heik_factor e a2 r (z * z) (N * c) Q
  have hneg := heik_other_factor_neg e a2 N c s h Q he0 he1 hN hcs hNa hB hQ1
  have hzero : q1 e a2 r (z * z) (N * c) Q = 0 := by
    have hprod : q1 e a2 r (z * z) (N * c) Q * q1 e a2 r (z * z) (N * c) (-Q) = 0 := by
      rw [hfac, hq]
      have : ((N * c) ^ 2 - a2) * (r - e * (N * c)) ^ 2 + (1 - e) * (z * z) * (N * c) ^ 2 = 0 := by
        rw [hr, hz]; linear_combination hquart
      rw [this]; ring
    rcases mul_eq_zero.1 hprod with h0 | h0
    · exact h0
    · exfalso
      have : z * z = ((N + h - e * N) * s) ^ 2 := by rw [hz]; ring
      rw [hr, this] at h0
      linarith
  exact heik_R0_eq e a2 r z P Q (N * c) he0 hQ1 hQQ (mul_nonneg hN.le hc) hr0 hzero

/-! ## 12. the closed-form inverse of geocoords.py inverts the forward map -/

@[simp] theorem pow_real (x y : ℝ) : GeoScalar.pow x y = x ^ y := rfl

/-- the squared eccentricity of the module's constants is small (6.69…e-3) -/
theorem cE2_lt_small : (cE2 : ℝ) < 1 / 100 := by
  simp only [cE2, cA2, cB2, cB, cA, cF, ofNat_real]; norm_num

/-- the height domain of the exactness theorem: everything above `−a(1 − 2e²)` (≈ −6 292 741 m; the points closer to
    the centre than that are within ~85 km of it and are also where line 66 starts to reject points) -/
theorem domain_B (lat h : ℝ) (hh : -((cA : ℝ) * (1 - 2 * cE2)) < h) :
    cE2 * primeVertical lat < primeVertical lat + h - cE2 * primeVertical lat := by
  have hN := primeVertical_ge lat
  have he := cE2_lt_small
  have : 0 ≤ (primeVertical lat - cA) * (1 - 2 * cE2) := mul_nonneg (by linarith) (by linarith)
  nlinarith

/-- **lines 70-76 return the radius of the foot point** `N cos φ`, for the module's constants -/
theorem heikR0_exact (lat h : ℝ) (hl1 : -90 ≤ lat) (hl2 : lat ≤ 90) (hh : -((cA : ℝ) * (1 - 2 * cE2)) < h) :
    heikR0 ((primeVertical lat + h) * Real.cos (lat * (Real.pi / 180)))
        ((primeVertical lat + h - cE2 * primeVertical lat) * Real.sin (lat * (Real.pi / 180)))
      = primeVertical lat * Real.cos (lat * (Real.pi / 180)) := by
  have hNa := primeVertical_sq lat
  have hB := domain_B lat h hh
  simp only [heikR0, heikQ, heikP, heikS, heikC, heikG, heikF, cE4, cOME2, ofNat_real, sqrt_real, abs_real, pow_real,
    Nat.cast_ofNat, Nat.cast_one]
  rw [cB2_eq]
  exact heik_chain cE2 cA2 (primeVertical lat) _ _ h cE2_pos cE2_lt_one cA2_pos (primeVertical_pos lat)
    (sin_cos_unit _) hNa (cos_lat_nonneg lat hl1 hl2) hB _ _ _ _ _ _ _ _ rfl rfl rfl rfl rfl rfl rfl rfl

theorem tail_U (B c s : ℝ) (hB : 0 < B) (hcs : s * s + c * c = 1) :
    Real.sqrt (B * c * (B * c) + B * s * (B * s)) = B := by
  have : B * c * (B * c) + B * s * (B * s) = B * B := by linear_combination (B * B) * hcs
  rw [this, Real.sqrt_mul_self hB.le]

theorem tail_V (B c s e N a : ℝ) (hB : 0 < B) (hN : 0 < N) (ha : 0 < a) (hcs : s * s + c * c = 1)
    (hNa : N * N * (1 - e * s * s) = a * a) :
    Real.sqrt (B * c * (B * c) + (1 - e) * (B * s) * (B * s)) = B * a / N := by
  have hpos : 0 < B * a / N := by positivity
  have : B * c * (B * c) + (1 - e) * (B * s) * (B * s) = (B * a / N) * (B * a / N) := by
    rw [div_mul_div_comm, eq_div_iff (by positivity)]
    linear_combination (B ^ 2 * N ^ 2) * hcs + (B ^ 2) * hNa
  rw [this, Real.sqrt_mul_self hpos.le]

/-- **exactness of the closed-form inverse, latitude and height** (and the longitude as the code computes it): for every
    latitude in [−90, 90], every longitude and every height above −a(1−2e²), lines 57-92 applied to the forward image return
    the latitude and the height exactly. -/
theorem inverse_lat_height_exact (lat lon h : ℝ) (hl1 : -90 ≤ lat) (hl2 : lat ≤ 90) (hh : -((cA : ℝ) * (1 - 2 * cE2)) < h) :
    ecfToGeodeticLL (geodeticToEcfLL lat lon h) =
      ⟨lat, Complex.arg ⟨(geodeticToEcfLL lat lon h).x, (geodeticToEcfLL lat lon h).y⟩ * (180 / Real.pi), h⟩ := by
  have hNa := primeVertical_sq lat
  have hNpos := primeVertical_pos lat
  have hBd := domain_B lat h hh
  have he0 := cE2_pos
  have he1 := cE2_lt_one
  have hA := cA_pos
  have hcp := cos_lat_nonneg lat hl1 hl2
  have hcs := sin_cos_unit (lat * (Real.pi / 180))
  have hl := sin_cos_unit (lon * (Real.pi / 180))
  have hR0 := heikR0_exact lat h hl1 hl2 hh
  have hφ : lat * (Real.pi / 180) ∈ Set.Ioc (-Real.pi) Real.pi := by
    have := lat_rad_mem lat hl1 hl2
    have hpi := Real.pi_pos
    exact ⟨by linarith [this.1], by linarith [this.2]⟩
  have hApos : 0 < primeVertical lat + h := by nlinarith [mul_pos he0 hNpos]
  have harg := arg_polar _ _ hApos hφ
  rw [geodeticToEcfLL_eq]
  generalize primeVertical lat = N at *
  generalize Real.sin (lat * (Real.pi / 180)) = sp at *
  generalize Real.cos (lat * (Real.pi / 180)) = cp at *
  generalize Real.sin (lon * (Real.pi / 180)) = sl at *
  generalize Real.cos (lon * (Real.pi / 180)) = cl at *
  have hBpos : 0 < N + h - cE2 * N := by nlinarith [mul_pos he0 hNpos]
  have hBne := hBpos.ne'
  have hNne := hNpos.ne'
  have hAne := hA.ne'
  have hr : Real.sqrt ((N + h) * cp * cl * ((N + h) * cp * cl) + (N + h) * cp * sl * ((N + h) * cp * sl)) = (N + h) * cp := by
    have : (N + h) * cp * cl * ((N + h) * cp * cl) + (N + h) * cp * sl * ((N + h) * cp * sl) = ((N + h) * cp) * ((N + h) * cp) := by
      linear_combination (((N + h) * cp) * ((N + h) * cp)) * hl
    rw [this, Real.sqrt_mul_self (mul_nonneg hApos.le hcp)]
  rw [V3.eq_iff]
  simp only [ecfToGeodeticLL, rad2deg, atan2_real, sqrt_real, ofNat_real, pi_real, Nat.cast_ofNat, Nat.cast_one, cOME2]
  rw [hr, hR0]
  have hT : (N + h) * cp - cE2 * (N * cp) = (N + h - cE2 * N) * cp := by ring
  rw [hT]
  have hNa' : N * N * (1 - cE2 * sp * sp) = cA * cA := by unfold cA2 at hNa; exact hNa
  rw [tail_U _ _ _ hBpos hcs, tail_V _ _ _ _ N cA hBpos hNpos hA hcs hNa']
  have hb : (cB2 : ℝ) = cA * cA * (1 - cE2) := by have := cB2_eq; unfold cA2 at this; exact this
  have h1e : (1 : ℝ) - cE2 ≠ 0 := by linarith
  generalize hBdef : N + h - cE2 * N = B at *
  have hfrac : (cB2 : ℝ) / (cA * (B * cA / N)) = (1 - cE2) * N / B := by
    rw [hb]; field_simp
  refine ⟨?_, trivial, ?_⟩
  · -- latitude
    have hz0 : (cB2 : ℝ) * (B * sp) / (cA * (B * cA / N)) = (1 - cE2) * N * sp := by
      have : (cB2 : ℝ) * (B * sp) / (cA * (B * cA / N)) = (cB2 / (cA * (B * cA / N))) * (B * sp) := by ring
      rw [this, hfrac]; field_simp
    have hE : (cEB2 : ℝ) * ((1 - cE2) * N * sp) = cE2 * N * sp := by
      unfold cEB2 cA2; rw [hb]; field_simp; ring
    have hz : B * sp + cEB2 * (cB2 * (B * sp) / (cA * (B * cA / N))) = (N + h) * sp := by
      rw [hz0, hE, ← hBdef]; ring
    rw [hz, harg]
    have hpi := Real.pi_ne_zero
    field_simp
  · -- height
    rw [hfrac]
    field_simp
    rw [← hBdef]; ring

/-- **the validity test of line 66 accepts every point of the domain** -/
theorem ecfValid_forward (lat lon h : ℝ) (hl1 : -90 ≤ lat) (hl2 : lat ≤ 90) (hh : -((cA : ℝ) * (1 - 2 * cE2)) < h) :
    ecfValid (geodeticToEcfLL lat lon h) = true := by
  have hNa := primeVertical_sq lat
  have hNpos := primeVertical_pos lat
  have hBd := domain_B lat h hh
  have he0 := cE2_pos
  have hcp := cos_lat_nonneg lat hl1 hl2
  have hcs := sin_cos_unit (lat * (Real.pi / 180))
  have hl := sin_cos_unit (lon * (Real.pi / 180))
  have hG := heik_G_pos cE2 cA2 (primeVertical lat) _ _ h cE2_pos cE2_lt_one hNpos hcs hNa hBd
  have hApos : 0 < primeVertical lat + h := by nlinarith [mul_pos he0 hNpos]
  rw [geodeticToEcfLL_eq]
  generalize primeVertical lat = N at *
  generalize Real.sin (lat * (Real.pi / 180)) = sp at *
  generalize Real.cos (lat * (Real.pi / 180)) = cp at *
  generalize Real.sin (lon * (Real.pi / 180)) = sl at *
  generalize Real.cos (lon * (Real.pi / 180)) = cl at *
  have hr : Real.sqrt ((N + h) * cp * cl * ((N + h) * cp * cl) + (N + h) * cp * sl * ((N + h) * cp * sl)) = (N + h) * cp := by
    have : (N + h) * cp * cl * ((N + h) * cp * cl) + (N + h) * cp * sl * ((N + h) * cp * sl) = ((N + h) * cp) * ((N + h) * cp) := by
      linear_combination (((N + h) * cp) * ((N + h) * cp)) * hl
    rw [this, Real.sqrt_mul_self (mul_nonneg hApos.le hcp)]
  simp only [ecfValid, sqrt_real, lt_real, decide_eq_true_eq]
  rw [hr]
  have hb : (cB : ℝ) * cB = cA2 * (1 - cE2) := by have := cB2_eq; unfold cB2 at this; exact this
  have hb2 : (cB2 : ℝ) = cA2 * (1 - cE2) := cB2_eq
  have hA2 := cA2_pos
  have e1 : ((cA2 : ℝ) - cB2) * (cA2 - cB2) = cA2 * (cE2 * (cA2 - cA2 * (1 - cE2))) := by rw [hb2]; ring
  have e2 : (cA : ℝ) * ((N + h) * cp) * (cA * ((N + h) * cp)) + cB * ((N + h - cE2 * N) * sp) * (cB * ((N + h - cE2 * N) * sp))
      = cA2 * (((N + h) * cp) * ((N + h) * cp) + (1 - cE2) * ((N + h - cE2 * N) * sp) * ((N + h - cE2 * N) * sp)) := by
    have : (cA : ℝ) * ((N + h) * cp) * (cA * ((N + h) * cp)) + cB * ((N + h - cE2 * N) * sp) * (cB * ((N + h - cE2 * N) * sp))
        = (cA * cA) * (((N + h) * cp) * ((N + h) * cp)) + (cB * cB) * (((N + h - cE2 * N) * sp) * ((N + h - cE2 * N) * sp)) := by ring
    rw [this, hb]; unfold cA2; ring
  rw [e1, e2]
  have := mul_pos hA2 hG
  linarith

/-- **exactness of the closed-form inverse on the domain** (off the poles): for latitude in (−90, 90), longitude in
    (−180, 180] and height above −a(1−2e²), `ecf_to_geodetic(geodetic_to_ecf(lat, lon, h)) = (lat, lon, h)` over ℝ, validity
    flag included. -/
theorem inverse_exact_on_domain (lat lon h : ℝ) (hl1 : -90 < lat) (hl2 : lat < 90) (k1 : -180 < lon) (k2 : lon ≤ 180)
    (hh : -((cA : ℝ) * (1 - 2 * cE2)) < h) :
    ecfToGeodetic false (geodeticToEcfLL lat lon h) = some ⟨lat, lon, h⟩ := by
  unfold ecfToGeodetic
  rw [ecfValid_forward lat lon h hl1.le hl2.le hh, if_pos rfl]
  simp only [Bool.false_eq_true, if_false]
  rw [inverse_lat_height_exact lat lon h hl1.le hl2.le hh]
  have hBd := domain_B lat h hh
  have hApos : 0 < primeVertical lat + h := by nlinarith [mul_pos cE2_pos (primeVertical_pos lat)]
  have hlon := inverse_lon_exact_partial lat lon h (mul_pos hApos (cos_lat_pos lat hl1 hl2)) k1 k2
  rw [lon_component] at hlon
  rw [hlon]

/-- **… and at the poles**: every longitude gives latitude ±90, longitude 0 (`arctan2(0, 0)`), and the height -/
theorem inverse_exact_at_poles (lon h : ℝ) (hh : -((cA : ℝ) * (1 - 2 * cE2)) < h) :
    ecfToGeodetic false (geodeticToEcfLL 90 lon h) = some ⟨90, 0, h⟩ ∧
    ecfToGeodetic false (geodeticToEcfLL (-90) lon h) = some ⟨-90, 0, h⟩ := by
  constructor
  · unfold ecfToGeodetic
    rw [ecfValid_forward 90 lon h (by norm_num) (by norm_num) hh, if_pos rfl]
    simp only [Bool.false_eq_true, if_false]
    rw [inverse_lat_height_exact 90 lon h (by norm_num) (by norm_num) hh, forward_at_north_pole]
    have : (⟨0, 0⟩ : ℂ) = 0 := rfl
    simp [this]
  · unfold ecfToGeodetic
    rw [ecfValid_forward (-90) lon h (by norm_num) (by norm_num) hh, if_pos rfl]
    simp only [Bool.false_eq_true, if_false]
    rw [inverse_lat_height_exact (-90) lon h (by norm_num) (by norm_num) hh, forward_at_south_pole]
    have : (⟨0, 0⟩ : ℂ) = 0 := rfl
    simp [this]

/-- the whole height range of the property lies in the domain of the exactness theorems -/
theorem height_range_in_inverse_domain (h : ℝ) (hh : -10000 ≤ h) : -((cA : ℝ) * (1 - 2 * cE2)) < h := by
  have hb : -((cA : ℝ) * (1 - 2 * cE2)) < -10000 := by
    simp only [cE2, cA2, cB2, cB, cA, cF, ofNat_real]; norm_num
  linarith

/-- **the full-strength statement `C12_inverse_exact` (Props/C12.lean, section 8) is a theorem.** -/
theorem inverse_exact : C12_inverse_exact := by
  constructor
  · intro lat lon h a b c d e
    exact inverse_exact_on_domain lat lon h a b c d (height_range_in_inverse_domain h e)
  · intro lon h e
    exact inverse_exact_at_poles lon h (height_range_in_inverse_domain h e)

/-! ### corollaries on the axes, in ECF terms -/

/-- height-0 surface points -/
theorem inverse_exact_on_surface (lat lon : ℝ) (hl1 : -90 < lat) (hl2 : lat < 90) (k1 : -180 < lon) (k2 : lon ≤ 180) :
    ecfToGeodetic false (geodeticToEcfLL lat lon 0) = some ⟨lat, lon, 0⟩ :=
  inverse_exact_on_domain lat lon 0 hl1 hl2 k1 k2 (height_range_in_inverse_domain 0 (by norm_num))

/-- the polar axis `p = 0`: latitude ±90, longitude 0, height `|z| − b`, for every `z` with `|z| > b − a(1−2e²)`
    (≈ 64 km from the centre) -/
theorem inverse_on_polar_axis (z : ℝ) (hz : (cB : ℝ) - cA * (1 - 2 * cE2) < z) :
    ecfToGeodetic false (⟨0, 0, z⟩ : V3 ℝ) = some ⟨90, 0, z - cB⟩ ∧
    ecfToGeodetic false (⟨0, 0, -z⟩ : V3 ℝ) = some ⟨-90, 0, z - cB⟩ := by
  have hh : -((cA : ℝ) * (1 - 2 * cE2)) < z - cB := by linarith
  have := inverse_exact_at_poles 0 (z - cB) hh
  rw [forward_at_north_pole, forward_at_south_pole] at this
  have e1 : (cB : ℝ) + (z - cB) = z := by ring
  rw [e1] at this
  exact this

/-- **a right-inverse check certifies the value**: with injectivity, any geodetic triple of the domain whose forward image is
    `v` IS what the closed form returns for `v` -/
theorem inverse_unique (v : V3 ℝ) (lat lon h : ℝ) (hl1 : -90 < lat) (hl2 : lat < 90) (k1 : -180 < lon) (k2 : lon ≤ 180)
    (hh : -((cA : ℝ) * (1 - 2 * cE2)) < h) (hv : geodeticToEcfLL lat lon h = v) :
    ecfToGeodetic false v = some ⟨lat, lon, h⟩ := by
  rw [← hv]; exact inverse_exact_on_domain lat lon h hl1 hl2 k1 k2 hh

/-- **left inverse on the image of the domain**: for an ECF point that has geodetic coordinates in the domain, converting to
    geodetic and back returns the point.  (That EVERY valid ECF point has such coordinates — surjectivity of the forward map onto
    the region accepted by line 66 — is not proved.) -/
theorem forward_inverse_on_image (v : V3 ℝ) (lat lon h : ℝ) (hl1 : -90 < lat) (hl2 : lat < 90) (k1 : -180 < lon) (k2 : lon ≤ 180)
    (hh : -((cA : ℝ) * (1 - 2 * cE2)) < h) (hv : geodeticToEcfLL lat lon h = v) :
    (ecfToGeodetic false v).map (geodeticToEcf false) = some v := by
  rw [inverse_unique v lat lon h hl1 hl2 k1 k2 hh hv]
  simp [geodeticToEcf, hv]

/-- non-vacuity: a concrete off-axis point of the property's range -/
example : ecfToGeodetic false (geodeticToEcfLL (34.5 : ℝ) (-118.25) 1234.5) = some ⟨34.5, -118.25, 1234.5⟩ :=
  inverse_exact_on_domain _ _ _ (by norm_num) (by norm_num) (by norm_num) (by norm_num)
    (height_range_in_inverse_domain _ (by norm_num))

example : ecfToGeodetic false (geodeticToEcfLL (-89.999 : ℝ) 180 (-10000)) = some ⟨-89.999, 180, -10000⟩ :=
  inverse_exact_on_domain _ _ _ (by norm_num) (by norm_num) (by norm_num) (by norm_num)
    (height_range_in_inverse_domain _ (by norm_num))

/-- the polar-axis hypothesis holds from 64.011 km outwards -/
example : ((cB : ℝ) - cA * (1 - 2 * cE2) < 64011) := by
  simp only [cE2, cA2, cB2, cB, cA, cF, ofNat_real]; norm_num

end Sarpy.Props.C12
