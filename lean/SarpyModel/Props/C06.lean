/-
  C06 — schema-valid metadata in, schema-valid and content-equivalent metadata out.

  Model: `Spec/XsdFmt.lean` (table-driven `parse` / `serialize` of sarpy/io/xml/base.py, an XSD content-model
  fragment, `validB`, `Equiv`, the decidable `Conforms` / `ConformsWeak` relation between a class table and a
  complex type).

  Proved here, for trees of any size and depth:
    * `roundtrip_equiv` / `roundtrip_valid` — if a pairing `R` of classes with complex types is closed under
      children and every table-driven class conforms (weakly) to its type, then for every tree `t` valid for `ty`
      and every `R c ty`:  `serialize (parse t)` is equivalent to `t` (same elements, attributes, values, order;
      attributes up to permutation) and valid for `ty`.
    * `c06_roundtrip_partial` — the same from the decidable closure check `closedB` of a finite presentation
      (what translate/xsd2lean.py emits per bundled schema version).
    * the supporting facts: `select_eq_self` (reading children row by row returns them all, in order),
      `attrs_perm`, `valid_of_equiv`, `contentOK_blocks`.
  The per-(class, type) conformance obligations are `decide`d in the generated `Gen/XsdPairs.lean`.

  PARTIAL with respect to the property as written (hence `_partial`):
    * XSD fragment only: sequences of element particles with minOccurs/maxOccurs, one level of non-repeating
      `choice` between plain sequences, attributes with `use`; no xs:all / xs:any / anyAttribute / mixed content /
      repeating or nested choices / optional or repeating sub-sequences / substitution groups / simple-type facets.
    * classes with hand-written `to_node` / `from_node` (polynomials, GeoInfo, CPHDType, ...) are opaque: the
      theorem carries their subtrees through unchanged, what sarpy does with them is checked by the oracle only.
    * values are opaque strings: "numbers compared numerically" and the float / date text codecs are outside.
    * size / index attributes are ordinary stored attributes here; sarpy recomputes them (equal on documents that
      keep the standards' bookkeeping, which is the property's premise).
-/
import SarpyModel.Spec.XsdFmt

namespace Sarpy.Props.C06
open Sarpy.Spec.XsdFmt

/-! ### lists: selection by key -/

section lists
variable {α : Type} (key : α → Name)

theorem filter_eq_nil_of_forall {l : List α} {p : α → Bool} (h : ∀ x ∈ l, p x = false) : l.filter p = [] := by
  rw [List.filter_eq_nil_iff]
  intro x hx
  simp [h x hx]

theorem filter_eq_self_of_forall {l : List α} {p : α → Bool} (h : ∀ x ∈ l, p x = true) : l.filter p = l := by
  rw [List.filter_eq_self]
  exact h

/-- `l` is a concatenation of blocks, one per particle in order, the block of `p` holding only
    elements keyed `p.tag`, at most `p.max` of them -/
def Blocks : List ElemP → List α → Prop
  | [], l => l = []
  | p :: ps, l => ∃ pre rest, l = pre ++ rest ∧ (∀ x ∈ pre, key x = p.tag) ∧ withinMax pre.length p.max = true ∧ Blocks ps rest

theorem withinMax_zero (m : Option Nat) : withinMax 0 m = true := by
  cases m <;> simp [withinMax]

theorem blocks_nil : ∀ ps : List ElemP, Blocks key ps ([] : List α)
  | [] => rfl
  | p :: ps => ⟨[], [], rfl, by simp, withinMax_zero _, blocks_nil ps⟩

theorem blocks_append : ∀ (ps qs : List ElemP) (l₁ l₂ : List α), Blocks key ps l₁ → Blocks key qs l₂ → Blocks key (ps ++ qs) (l₁ ++ l₂)
  | [], qs, l₁, l₂, h₁, h₂ => by
    have : l₁ = [] := h₁
    subst this; simpa using h₂
  | p :: ps, qs, l₁, l₂, h₁, h₂ => by
    obtain ⟨pre, rest, hl, hk, hm, hb⟩ := h₁
    exact ⟨pre, rest ++ l₂, by rw [hl, List.append_assoc], hk, hm, blocks_append ps qs rest l₂ hb h₂⟩

theorem blocks_keys : ∀ (ps : List ElemP) (l : List α), Blocks key ps l → ∀ x ∈ l, key x ∈ ps.map (·.tag)
  | [], l, h, x, hx => by
    have : l = [] := h
    subst this; cases hx
  | p :: ps, l, h, x, hx => by
    obtain ⟨pre, rest, hl, hk, _, hb⟩ := h
    subst hl
    rcases List.mem_append.mp hx with h1 | h2
    · simp [hk x h1]
    · have := blocks_keys ps rest hb x h2
      simp only [List.map_cons, List.mem_cons]
      exact Or.inr this

theorem blocks_filter : ∀ (ps : List ElemP) (l : List α), Blocks key ps l → (ps.map (·.tag)).Nodup →
    (ps.map (fun p => l.filter (fun x => key x == p.tag))).flatten = l
      ∧ ∀ p ∈ ps, withinMax (l.filter (fun x => key x == p.tag)).length p.max = true
  | [], l, h, _ => by
    have : l = [] := h
    subst this; simp
  | p :: ps, l, h, hnd => by
    obtain ⟨pre, rest, hl, hk, hm, hb⟩ := h
    subst hl
    have hnd' : (ps.map (·.tag)).Nodup := (List.nodup_cons.mp (by simpa using hnd)).2
    have hp : p.tag ∉ ps.map (·.tag) := (List.nodup_cons.mp (by simpa using hnd)).1
    obtain ⟨ih1, ih2⟩ := blocks_filter ps rest hb hnd'
    have hrest : ∀ x ∈ rest, key x ≠ p.tag := fun x hx he => hp (he ▸ blocks_keys key ps rest hb x hx)
    have h1 : (pre ++ rest).filter (fun x => key x == p.tag) = pre := by
      rw [List.filter_append, filter_eq_self_of_forall (fun x hx => by simp [hk x hx]),
        filter_eq_nil_of_forall (fun x hx => by simp [hrest x hx]), List.append_nil]
    have h2 : ∀ q ∈ ps, (pre ++ rest).filter (fun x => key x == q.tag) = rest.filter (fun x => key x == q.tag) := by
      intro q hq
      have hqp : q.tag ≠ p.tag := fun he => hp (he ▸ List.mem_map_of_mem hq)
      rw [List.filter_append, filter_eq_nil_of_forall (fun x hx => by simp [hk x hx, Ne.symm hqp]), List.nil_append]
    constructor
    · have hmap : ps.map (fun q => (pre ++ rest).filter (fun x => key x == q.tag))
          = ps.map (fun q => rest.filter (fun x => key x == q.tag)) := List.map_congr_left (fun q hq => h2 q hq)
      rw [List.map_cons, List.flatten_cons, h1, hmap, ih1]
    · intro q hq
      rcases List.mem_cons.mp hq with rfl | hq
      · rw [h1]; exact hm
      · rw [h2 q hq]; exact ih2 q hq

/-! ### from the greedy content-model matcher to blocks -/

theorem mem_takeWhile_holds {p : α → Bool} : ∀ (l : List α) (x : α), x ∈ l.takeWhile p → p x = true
  | [], x, h => by cases h
  | a :: l, x, h => by
    by_cases ha : p a = true
    · simp only [List.takeWhile_cons, ha, if_true, List.mem_cons] at h
      rcases h with rfl | h
      · exact ha
      · exact mem_takeWhile_holds l x h
    · simp [ha] at h

theorem matchElem_blocks (e : ElemP) (l : List α) (r : List Name) (h : matchElem e (l.map key) = some r) :
    ∃ l₁ l₂, l = l₁ ++ l₂ ∧ r = l₂.map key ∧ (∀ x ∈ l₁, key x = e.tag) ∧ withinMax l₁.length e.max = true := by
  unfold matchElem at h
  simp only [List.takeWhile_map, List.dropWhile_map, List.length_map] at h
  split at h
  · rename_i hc
    refine ⟨l.takeWhile ((fun n => n == e.tag) ∘ key), l.dropWhile ((fun n => n == e.tag) ∘ key), ?_, ?_, ?_, ?_⟩
    · exact (List.takeWhile_append_dropWhile).symm
    · exact (Option.some.inj h).symm
    · intro x hx
      have := mem_takeWhile_holds _ x hx
      simpa using this
    · simp only [Bool.and_eq_true] at hc
      exact hc.2
  · cases h

theorem matchSeq_blocks : ∀ (es : List ElemP) (l : List α) (r : List Name), matchSeq es (l.map key) = some r →
    ∃ l₁ l₂, l = l₁ ++ l₂ ∧ r = l₂.map key ∧ Blocks key es l₁
  | [], l, r, h => by
    refine ⟨[], l, rfl, ?_, rfl⟩
    simpa [matchSeq] using h.symm
  | e :: es, l, r, h => by
    unfold matchSeq at h
    split at h
    · cases h
    · rename_i rest he
      obtain ⟨a, b, hl, hr, hk, hm⟩ := matchElem_blocks key e l rest he
      subst hr
      obtain ⟨c, d, hb, hr2, hbl⟩ := matchSeq_blocks es b r h
      refine ⟨a ++ c, d, by rw [hl, hb, List.append_assoc], hr2, a, c, rfl, hk, hm, hbl⟩

theorem matchGroup_blocks (g : Group) (l : List α) (r : List Name) (h : matchGroup g (l.map key) = some r) :
    ∃ l₁ l₂, l = l₁ ++ l₂ ∧ r = l₂.map key ∧ Blocks key (groupParticles g) l₁ := by
  cases g with
  | elem e =>
    obtain ⟨a, b, hl, hr, hk, hm⟩ := matchElem_blocks key e l r h
    exact ⟨a, b, hl, hr, a, [], by simp, hk, hm, rfl⟩
  | choice opt alts =>
    have hnil : ∃ l₁ l₂, l = l₁ ++ l₂ ∧ l.map key = l₂.map key ∧ Blocks key (groupParticles (.choice opt alts)) l₁ :=
      ⟨[], l, rfl, rfl, blocks_nil key _⟩
    cases l with
    | nil =>
      simp only [List.map_nil, matchGroup] at h
      split at h
      · cases h; exact ⟨[], [], rfl, rfl, blocks_nil key _⟩
      · cases h
    | cons k ks =>
      simp only [List.map_cons, matchGroup] at h
      split at h
      · rename_i a hf
        have ha : a ∈ alts := List.mem_of_find?_eq_some hf
        obtain ⟨s, t, hst⟩ := List.append_of_mem ha
        obtain ⟨c, d, hl, hr, hb⟩ := matchSeq_blocks key a (k :: ks) r (by simpa using h)
        refine ⟨c, d, hl, hr, ?_⟩
        show Blocks key (alts.flatten) c
        rw [hst, List.flatten_append, List.flatten_cons]
        have := blocks_append key s.flatten (a ++ t.flatten) [] c (blocks_nil key _)
          (by simpa using blocks_append key a t.flatten c [] hb (blocks_nil key _))
        simpa using this
      · split at h
        · cases h
          obtain ⟨l₁, l₂, h1, h2, h3⟩ := hnil
          exact ⟨l₁, l₂, h1, by simpa using h2, h3⟩
        · cases h

theorem matchGroups_blocks : ∀ (gs : List Group) (l : List α) (r : List Name), matchGroups gs (l.map key) = some r →
    ∃ l₁ l₂, l = l₁ ++ l₂ ∧ r = l₂.map key ∧ Blocks key (particles gs) l₁
  | [], l, r, h => by
    refine ⟨[], l, rfl, ?_, rfl⟩
    simpa [matchGroups] using h.symm
  | g :: gs, l, r, h => by
    unfold matchGroups at h
    split at h
    · cases h
    · rename_i rest hg
      obtain ⟨a, b, hl, hr, hb⟩ := matchGroup_blocks key g l rest hg
      subst hr
      obtain ⟨c, d, hl2, hr2, hb2⟩ := matchGroups_blocks gs b r h
      refine ⟨a ++ c, d, by rw [hl, hl2, List.append_assoc], hr2, ?_⟩
      show Blocks key ((List.map groupParticles (g :: gs)).flatten) (a ++ c)
      rw [List.map_cons, List.flatten_cons]
      exact blocks_append key _ _ a c hb hb2

theorem contentOK_blocks (gs : List Group) (l : List α) (h : contentOK gs (l.map key) = true) :
    Blocks key (particles gs) l := by
  unfold contentOK at h
  split at h
  · rename_i hm
    obtain ⟨a, b, hl, hr, hb⟩ := matchGroups_blocks key gs l [] hm
    have : b = [] := by simpa using hr.symm
    subst this
    simpa [hl] using hb
  · cases h

/-! ### what a valid child list must contain: required particles are present, and the matcher only eats a prefix -/

theorem matchGroup_suffix (g : Group) (ks r : List Name) (h : matchGroup g ks = some r) : ∃ pre, ks = pre ++ r := by
  obtain ⟨a, b, hl, hr, _⟩ := matchGroup_blocks (fun x : Name => x) g ks r (by simpa using h)
  refine ⟨a, ?_⟩
  rw [hl, hr]; simp

theorem matchElem_required (e : ElemP) (ks r : List Name) (h : matchElem e ks = some r) (hm : 1 ≤ e.min) : e.tag ∈ ks := by
  unfold matchElem at h
  dsimp only at h
  split at h
  · rename_i hc
    simp only [Bool.and_eq_true, decide_eq_true_eq] at hc
    have hlen : 1 ≤ (ks.takeWhile (· == e.tag)).length := Nat.le_trans hm hc.1
    cases ks with
    | nil => simp at hlen
    | cons k ks' =>
      by_cases hk : (k == e.tag) = true
      · have : k = e.tag := by simpa using hk
        simp [this]
      · simp [hk] at hlen
  · cases h

/-- every element particle that stands in the top-level sequence with minOccurs >= 1 occurs among the children -/
theorem required_present : ∀ (gs : List Group) (ks r : List Name), matchGroups gs ks = some r → ∀ n ∈ requiredTags gs, n ∈ ks
  | [], _, _, _, n, hn => by simp [requiredTags] at hn
  | g :: gs, ks, r, h, n, hn => by
    unfold matchGroups at h
    split at h
    · cases h
    · rename_i rest hg
      obtain ⟨pre, hpre⟩ := matchGroup_suffix g ks rest hg
      have ih := required_present gs rest r h
      cases g with
      | elem e =>
        simp only [requiredTags] at hn
        split at hn
        · rename_i hmin
          rcases List.mem_cons.mp hn with rfl | hn'
          · exact matchElem_required e ks rest (by simpa [matchGroup] using hg) hmin
          · rw [hpre]; exact List.mem_append_right _ (ih n hn')
        · rw [hpre]; exact List.mem_append_right _ (ih n hn)
      | choice o alts =>
        simp only [requiredTags] at hn
        rw [hpre]; exact List.mem_append_right _ (ih n hn)

/-- the legacy guards of an overriding from_node never fire on the children of a valid element -/
theorem not_diverted {e : ClassEntry} {m : CModel} (hg : guardsOKB e.divertIf e.divertUnless m = true) (tags : List Name)
    (hv : contentOK m.groups tags = true) : diverted e tags = false := by
  simp only [guardsOKB, Bool.and_eq_true, List.all_eq_true] at hg
  obtain ⟨hIf, hUnless⟩ := hg
  have hB := contentOK_blocks (fun x : Name => x) m.groups tags (by simpa using hv)
  have hkeys := blocks_keys (fun x : Name => x) (particles m.groups) tags hB
  unfold diverted
  rw [Bool.or_eq_false_iff]
  constructor
  · rw [List.any_eq_false]
    intro n hn hc
    have h1 := hIf n hn
    have hmem : n ∈ tags := by simpa using hc
    have : n ∈ modelTags m := hkeys n hmem
    simp [this] at h1
  · rw [List.any_eq_false]
    intro n hn hc
    have h1 := hUnless n hn
    rw [List.contains_iff_mem] at h1
    unfold contentOK at hv
    split at hv
    · rename_i hm
      have := required_present m.groups tags [] hm n h1
      simp [this] at hc
    · cases hv

/-! ### selecting children row by row gives the children back -/

/-- what `parse` keeps of a child list, row by row, in row order -/
def selectG (rows : List Row) (l : List α) : List α :=
  (rows.map (fun r => keep r.kind (l.filter (fun x => key x == r.tag)))).flatten

theorem flatten_map_filter {β : Type} (g : Name → List β) (q : Name → Bool) : ∀ (ts : List Name),
    (∀ t ∈ ts, q t = false → g t = []) → (ts.map g).flatten = ((ts.filter q).map g).flatten
  | [], _ => rfl
  | t :: ts, h => by
    have ih := flatten_map_filter g q ts (fun u hu => h u (List.mem_cons_of_mem _ hu))
    by_cases hq : q t = true
    · simp [hq, ih]
    · have hq' : q t = false := by simpa using hq
      simp [hq', h t (List.mem_cons_self ..) hq', ih]

theorem keep_eq_self {β : Type} (k : RowKind) (l : List β) (h : k = .multi ∨ l.length ≤ 1) : keep k l = l := by
  cases k with
  | multi => rfl
  | attr =>
    rcases h with h | h
    · cases h
    · exact List.take_of_length_le h
  | single =>
    rcases h with h | h
    · cases h
    · exact List.take_of_length_le h
  | derived =>
    rcases h with h | h
    · cases h
    · exact List.take_of_length_le h

theorem select_eq_self (tab : ClassTab) (m : CModel) (l : List α)
    (hc : conformsWeakB tab m = true) (hv : contentOK m.groups (l.map key) = true) :
    selectG key (elemRows tab) l = l := by
  have hB := contentOK_blocks key m.groups l hv
  simp only [conformsWeakB, Bool.and_eq_true, decide_eq_true_eq, beq_iff_eq] at hc
  obtain ⟨⟨⟨⟨⟨hnd, _hrn⟩, _han⟩, hrows⟩, _hattrs⟩, hbounds⟩ := hc
  have hnd' : ((particles m.groups).map (·.tag)).Nodup := hnd
  obtain ⟨hF, hW⟩ := blocks_filter key (particles m.groups) l hB hnd'
  have hkeys := blocks_keys key (particles m.groups) l hB
  -- rows keep everything they select
  have hK : ∀ r ∈ elemRows tab, keep r.kind (l.filter (fun x => key x == r.tag)) = l.filter (fun x => key x == r.tag) := by
    intro r hr
    apply keep_eq_self
    by_cases hm : r.kind = .multi
    · exact Or.inl hm
    · right
      by_cases hin : r.tag ∈ modelTags m
      · obtain ⟨p, hp, hpt⟩ := List.mem_map.mp hin
        have hb := List.all_eq_true.mp hbounds p hp
        have hb2 := List.all_eq_true.mp hb r hr
        have hw := hW p hp
        simp only [Bool.or_eq_true, bne_iff_ne, ne_eq, beq_iff_eq] at hb2
        have hmax : atMostOnce p.max = true := by
          rcases hb2 with (h1 | h2) | h3
          · exact absurd hpt.symm h1
          · exact absurd h2 hm
          · exact h3
        rw [← hpt]
        cases hpm : p.max with
        | none => simp [atMostOnce, hpm] at hmax
        | some mx =>
          simp only [atMostOnce, hpm, decide_eq_true_eq] at hmax
          simp only [withinMax, hpm, decide_eq_true_eq] at hw
          omega
      · have : l.filter (fun x => key x == r.tag) = [] :=
          filter_eq_nil_of_forall (fun x hx => by
            have := hkeys x hx
            have hne : key x ≠ r.tag := fun he => hin (he ▸ this)
            simp [hne])
        simp [this]
  unfold selectG
  rw [List.map_congr_left hK]
  have e1 : (elemRows tab).map (fun r => l.filter (fun x => key x == r.tag))
      = (rowTags tab).map (fun t => l.filter (fun x => key x == t)) := by
    simp [rowTags, List.map_map, Function.comp_def]
  rw [e1, flatten_map_filter (fun t => l.filter (fun x => key x == t)) (fun t => (modelTags m).contains t) (rowTags tab)
    (fun t _ hq => filter_eq_nil_of_forall (fun x hx => by
      have := hkeys x hx
      have hne : key x ≠ t := fun he => by
        have hc : (modelTags m).contains t = true := by
          rw [List.contains_iff_mem]; exact he ▸ this
        rw [hq] at hc; cases hc
      simp [hne])), hrows]
  have e2 : (modelTags m).map (fun t => l.filter (fun x => key x == t))
      = (particles m.groups).map (fun p => l.filter (fun x => key x == p.tag)) := by
    simp [modelTags, List.map_map, Function.comp_def]
  rw [e2, hF]

end lists

/-! ### attributes -/

theorem nodup_of_map {β γ : Type} (f : β → γ) : ∀ l : List β, (l.map f).Nodup → l.Nodup
  | [], _ => List.nodup_nil
  | a :: l, h => by
    have h' : f a ∉ l.map f ∧ (l.map f).Nodup := List.nodup_cons.mp h
    exact List.nodup_cons.mpr ⟨fun hm => h'.1 (List.mem_map_of_mem hm), nodup_of_map f l h'.2⟩

theorem mem_of_mem_keep {β : Type} (k : RowKind) (l : List β) (x : β) (h : x ∈ keep k l) : x ∈ l := by
  cases k <;> simp only [keep] at h <;> first | exact h | exact List.mem_of_mem_take h

theorem lookupAttr_of_mem : ∀ (as : List (Name × String)) (k : Name) (v : String),
    (as.map (·.1)).Nodup → (k, v) ∈ as → lookupAttr k as = some v
  | [], _, _, _, h => by cases h
  | (k', v') :: as, k, v, hnd, h => by
    have hnd' : k' ∉ as.map (·.1) ∧ (as.map (·.1)).Nodup := List.nodup_cons.mp hnd
    rcases List.mem_cons.mp h with he | h'
    · cases he; simp [lookupAttr]
    · have hk : k' ≠ k := fun he => hnd'.1 (he ▸ List.mem_map_of_mem (f := (·.1)) h')
      simp only [lookupAttr, beq_iff_eq, hk, if_false]
      exact lookupAttr_of_mem as k v hnd'.2 h'

theorem mem_of_lookupAttr : ∀ (as : List (Name × String)) (k : Name) (v : String), lookupAttr k as = some v → (k, v) ∈ as
  | [], _, _, h => by cases h
  | (k', v') :: as, k, v, h => by
    by_cases hk : k' = k
    · subst hk
      simp only [lookupAttr, beq_self_eq_true, if_true, Option.some.injEq] at h
      subst h; exact List.mem_cons_self ..
    · simp only [lookupAttr, beq_iff_eq, hk, if_false] at h
      exact List.mem_cons_of_mem _ (mem_of_lookupAttr as k v h)

theorem slotAttrs_lookup (as : List (Name × String)) : ∀ rows : List Row,
    slotAttrs rows (rows.map (fun r => lookupAttr r.tag as))
      = rows.filterMap (fun r => (lookupAttr r.tag as).map (fun v => (r.tag, v)))
  | [] => rfl
  | r :: rows => by
    cases h : lookupAttr r.tag as with
    | none => simp [slotAttrs, h, slotAttrs_lookup as rows]
    | some v => simp [slotAttrs, h, slotAttrs_lookup as rows]

theorem mem_attrOut (as : List (Name × String)) (k : Name) (v : String) : ∀ rows : List Row,
    ((k, v) ∈ rows.filterMap (fun r => (lookupAttr r.tag as).map (fun v => (r.tag, v))))
      ↔ (k ∈ rows.map (·.tag) ∧ lookupAttr k as = some v) := by
  intro rows
  simp only [List.mem_filterMap, Option.map_eq_some_iff, Prod.mk.injEq, List.mem_map]
  constructor
  · rintro ⟨r, hr, w, hw, rfl, rfl⟩
    exact ⟨⟨r, hr, rfl⟩, hw⟩
  · rintro ⟨⟨r, hr, rfl⟩, hw⟩
    exact ⟨r, hr, v, hw, rfl, rfl⟩

theorem nodup_attrOut (as : List (Name × String)) : ∀ rows : List Row, (rows.map (·.tag)).Nodup →
    (rows.filterMap (fun r => (lookupAttr r.tag as).map (fun v => (r.tag, v)))).Nodup
  | [], _ => List.nodup_nil
  | r :: rows, h => by
    have h' : r.tag ∉ rows.map (·.tag) ∧ (rows.map (·.tag)).Nodup := List.nodup_cons.mp h
    have ih := nodup_attrOut as rows h'.2
    cases hl : lookupAttr r.tag as with
    | none => simpa [List.filterMap_cons, hl] using ih
    | some v =>
      simp only [List.filterMap_cons, hl, Option.map_some]
      refine List.nodup_cons.mpr ⟨?_, ih⟩
      intro hm
      exact h'.1 ((mem_attrOut as r.tag v rows).mp hm).1

/-- the attributes written back are the attributes read, up to order -/
theorem attrs_perm (rows : List Row) (as : List (Name × String))
    (hnd : (as.map (·.1)).Nodup) (hrn : (rows.map (·.tag)).Nodup)
    (hall : ∀ k ∈ as.map (·.1), k ∈ rows.map (·.tag)) :
    (slotAttrs rows (rows.map (fun r => lookupAttr r.tag as))).Perm as := by
  rw [slotAttrs_lookup]
  refine (List.perm_ext_iff_of_nodup (nodup_attrOut as rows hrn) (nodup_of_map _ as hnd)).mpr ?_
  rintro ⟨k, v⟩
  rw [mem_attrOut]
  constructor
  · rintro ⟨_, hl⟩; exact mem_of_lookupAttr as k v hl
  · intro hm
    exact ⟨hall k (List.mem_map_of_mem (f := (·.1)) hm), lookupAttr_of_mem as k v hnd hm⟩

/-! ### the codec, unfolded -/

theorem tagsOf_eq : ∀ ks : List Xml, tagsOf ks = ks.map rootTag
  | [] => by simp [tagsOf]
  | k :: ks => by simp [tagsOf, tagsOf_eq ks]

theorem validKids_iff (S : Schema) (child : Name → TypeId) : ∀ ks : List Xml,
    validKids S child ks = true ↔ ∀ k ∈ ks, validB S (child (rootTag k)) k = true
  | [] => by simp [validKids]
  | k :: ks => by simp [validKids, validKids_iff S child ks]

theorem parseKids_eq (T : Tabs) (c : ClassId) (tag : Name) : ∀ ks : List Xml,
    parseKids T c tag ks = (ks.filter (fun k => rootTag k == tag)).map (parse T c)
  | [] => by simp [parseKids]
  | k :: ks => by
    by_cases h : rootTag k = tag
    · simp [parseKids, h, parseKids_eq T c tag ks]
    · simp [parseKids, h, parseKids_eq T c tag ks]

theorem serializeAll_eq (T : Tabs) (child : Name → ClassId) : ∀ vs : List Val,
    serializeAll T child vs = vs.map (fun v => serialize T (child (valTag v)) v)
  | [] => by simp [serializeAll]
  | v :: vs => by simp [serializeAll, serializeAll_eq T child vs]

theorem valTag_parse (T : Tabs) (c : ClassId) : ∀ k : Xml, valTag (parse T c k) = rootTag k
  | .node t as x ks => by
    cases h : T c with
    | none => simp [parse, h, valTag, rootTag]
    | some e =>
      simp only [parse, h, rootTag]
      split <;> simp [valTag]

theorem keep_map {β γ : Type} (f : β → γ) (k : RowKind) (l : List β) : keep k (l.map f) = (keep k l).map f := by
  cases k <;> simp [keep, List.map_take]

/-- what `serialize (parse ·)` writes for one element row: the derived element, or the kept children round-tripped -/
def rowOut (T : Tabs) (e : ClassEntry) (ks : List Xml) (r : Row) : List Xml :=
  if r.kind == .derived then derivedOut e r.tag ks
  else (keep r.kind (ks.filter (fun k => rootTag k == r.tag))).map (fun k => roundtrip T (e.child (rootTag k)) k)

theorem serialize_raw (T : Tabs) (c : ClassId) (t : Xml) : serialize T c (.raw t) = t := by
  simp [serialize]

/-- `serialize (parse t)` for a table-driven class whose legacy guards do not fire: attributes by row, children by row -/
theorem roundtrip_node (T : Tabs) (c : ClassId) (e : ClassEntry) (h : T c = some e)
    (t : Name) (as : List (Name × String)) (x : String) (ks : List Xml) (hd : diverted e (tagsOf ks) = false) :
    roundtrip T c (.node t as x ks)
      = .node t (slotAttrs (attrRows e.tab) ((attrRows e.tab).map (fun r => lookupAttr r.tag as))) x
          (((elemRows e.tab).map (rowOut T e ks)).flatten) := by
  unfold roundtrip
  simp only [parse, h, hd, Bool.false_eq_true, if_false, serialize, serializeAll_eq, List.map_flatten, List.map_map]
  congr 2
  apply List.map_congr_left
  intro r _
  simp only [Function.comp_def, rowOut]
  split
  · simp only [List.map_map]
    conv => rhs; rw [← List.map_id (derivedOut e r.tag ks)]
    apply List.map_congr_left
    intro k _
    simp [serialize_raw]
  · simp only [parseKids_eq, keep_map, List.map_map]
    apply List.map_congr_left
    intro k hk
    have hk' : k ∈ ks.filter (fun k => rootTag k == r.tag) := mem_of_mem_keep _ _ _ hk
    have : rootTag k = r.tag := by simpa using (List.mem_filter.mp hk').2
    simp [valTag_parse, this, roundtrip]

theorem roundtrip_opaque (T : Tabs) (c : ClassId) (h : T c = none) (t : Xml) : roundtrip T c t = t := by
  cases t with
  | node tg as x ks => simp [roundtrip, parse, h, serialize]

/-! ### equivalence is reflexive; validity only depends on the equivalence class -/

mutual
theorem equiv_refl : ∀ t : Xml, Equiv t t
  | .node _ as _ ks => Equiv.node (List.Perm.refl as) (equivList_refl ks)
theorem equivList_refl : ∀ ks : List Xml, EquivList ks ks
  | [] => EquivList.nil
  | k :: ks => EquivList.cons (equiv_refl k) (equivList_refl ks)
end

theorem attrsOK_perm (decls : List AttrDecl) (as bs : List (Name × String)) (h : as.Perm bs) :
    attrsOK decls as = attrsOK decls bs := by
  have hk : (as.map (·.1)).Perm (bs.map (·.1)) := h.map _
  unfold attrsOK
  have h1 : decide (as.map (·.1)).Nodup = decide (bs.map (·.1)).Nodup := by
    simp only [decide_eq_decide]; exact hk.nodup_iff
  have h2 : (as.map (·.1)).all (fun k => decls.any (fun d => d.name == k)) = (bs.map (·.1)).all (fun k => decls.any (fun d => d.name == k)) := by
    rw [Bool.eq_iff_iff]; simp only [List.all_eq_true]
    exact ⟨fun H k hk' => H k (hk.mem_iff.mpr hk'), fun H k hk' => H k (hk.mem_iff.mp hk')⟩
  have h3 : decls.all (fun d => !d.required || (as.map (·.1)).contains d.name) = decls.all (fun d => !d.required || (bs.map (·.1)).contains d.name) := by
    congr 1; funext d
    have : (as.map (·.1)).contains d.name = (bs.map (·.1)).contains d.name := by
      rw [Bool.eq_iff_iff, List.contains_iff_mem, List.contains_iff_mem]; exact hk.mem_iff
    rw [this]
  simp only [h1, h2, h3]

mutual
theorem equiv_rootTag : ∀ (a b : Xml), Equiv a b → rootTag a = rootTag b
  | _, _, .node _ _ => rfl
end

theorem equivList_tags : ∀ (ks ls : List Xml), EquivList ks ls → tagsOf ks = tagsOf ls
  | _, _, .nil => rfl
  | _, _, .cons h hs => by
    simp only [tagsOf, equiv_rootTag _ _ h, equivList_tags _ _ hs]

mutual
/-- a tree equivalent to a valid tree is valid -/
theorem valid_of_equiv (S : Schema) : ∀ (a b : Xml) (ty : TypeId), Equiv a b → validB S ty b = true → validB S ty a = true
  | _, _, ty, .node hp hk, hv => by
    cases hS : S ty with
    | none => simp [validB, hS]
    | some te =>
      simp only [validB, hS, Bool.and_eq_true] at hv ⊢
      obtain ⟨⟨ha, hc⟩, hkids⟩ := hv
      refine ⟨⟨?_, ?_⟩, validKids_of_equiv S te.child _ _ hk hkids⟩
      · rw [attrsOK_perm _ _ _ hp]; exact ha
      · rw [equivList_tags _ _ hk]; exact hc
theorem validKids_of_equiv (S : Schema) (child : Name → TypeId) : ∀ (ks ls : List Xml), EquivList ks ls →
    validKids S child ls = true → validKids S child ks = true
  | _, _, .nil, _ => by simp [validKids]
  | _, _, .cons h hs, hv => by
    simp only [validKids, Bool.and_eq_true] at hv ⊢
    rw [equiv_rootTag _ _ h]
    exact ⟨valid_of_equiv S _ _ _ h hv.1, validKids_of_equiv S child _ _ hs hv.2⟩
end

/-! ### lists of trees: equivalence of concatenations; the bookkeeping premise unfolded -/

theorem equivList_append : ∀ {a b c d : List Xml}, EquivList a b → EquivList c d → EquivList (a ++ c) (b ++ d)
  | _, _, _, _, .nil, h => by simpa using h
  | _, _, _, _, .cons h hs, h' => by simpa using EquivList.cons h (equivList_append hs h')

theorem equivList_flatten {β : Type} (f g : β → List Xml) : ∀ rows : List β, (∀ r ∈ rows, EquivList (f r) (g r)) →
    EquivList ((rows.map f).flatten) ((rows.map g).flatten)
  | [], _ => by simpa using EquivList.nil
  | r :: rows, h => by
    simp only [List.map_cons, List.flatten_cons]
    exact equivList_append (h r (List.mem_cons_self ..)) (equivList_flatten f g rows (fun r' hr' => h r' (List.mem_cons_of_mem _ hr')))

theorem equivList_map (f : Xml → Xml) : ∀ l : List Xml, (∀ k ∈ l, Equiv (f k) k) → EquivList (l.map f) l
  | [], _ => EquivList.nil
  | k :: l, h => EquivList.cons (h k (List.mem_cons_self ..)) (equivList_map f l (fun k' hk' => h k' (List.mem_cons_of_mem _ hk')))

theorem equivList_map_inv (f : Xml → Xml) : ∀ l : List Xml, EquivList (l.map f) l → ∀ k ∈ l, Equiv (f k) k
  | [], _, _, hk => nomatch hk
  | a :: l, h, k, hk => by
    simp only [List.map_cons] at h
    cases h with
    | cons h1 h2 =>
      rcases List.mem_cons.mp hk with rfl | hk'
      · exact h1
      · exact equivList_map_inv f l h2 k hk'

theorem bookkeptKids_iff (T : Tabs) (child : Name → ClassId) : ∀ ks : List Xml,
    bookkeptKids T child ks = true ↔ ∀ k ∈ ks, bookkeptB T (child (rootTag k)) k = true
  | [] => by simp [bookkeptKids]
  | k :: ks => by simp [bookkeptKids, bookkeptKids_iff T child ks]

/-- under the bookkeeping premise the children named like a derived row are exactly what the class writes there -/
theorem derivedOK_eq (e : ClassEntry) (tag : Name) (ks : List Xml) (h : derivedOK e tag ks = true) :
    ks.filter (fun k => rootTag k == tag) = derivedOut e tag ks := by
  unfold derivedOK at h
  unfold derivedOut
  split at h
  · rename_i s t x hd hf
    have hx : x = s := by simpa using h
    have hmem : (Xml.node t [] x []) ∈ ks.filter (fun k => rootTag k == tag) := by rw [hf]; simp
    have ht : t = tag := by simpa [rootTag] using (List.mem_filter.mp hmem).2
    rw [hd, hf, hx, ht]
  · rename_i hd hf
    rw [hd, hf]
  · cases h

theorem keep_derivedOut (k : RowKind) (e : ClassEntry) (tag : Name) (ks : List Xml) :
    keep k (derivedOut e tag ks) = derivedOut e tag ks := by
  unfold derivedOut
  split <;> cases k <;> simp [keep]

/-! ### the property -/

/-- `R` pairs classes with complex types, is closed under children, every table-driven class it mentions
    conforms (weakly) to the type it is paired with, and the legacy guards of its from_node override (if any)
    cannot fire on a tree valid for that type.  Opaque classes (`T c = none`) may be paired with anything:
    their subtrees are carried through unchanged.  (Hook for C05X: a class with a hand-written codec - polynomial
    coefficient arrays, indexed arrays, parameter collections - enters here as soon as its own round-trip lemma
    exists; until then it is opaque and listed by the translator.) -/
structure Closed (T : Tabs) (S : Schema) (R : ClassId → TypeId → Prop) : Prop where
  step : ∀ c ty, R c ty → ∀ e, T c = some e →
    ∃ te, S ty = some te ∧ ConformsWeak e.tab te.model ∧ guardsOKB e.divertIf e.divertUnless te.model = true
      ∧ ∀ n ∈ modelTags te.model, R (e.child n) (te.child n)

section main
variable {T : Tabs} {S : Schema} {R : ClassId → TypeId → Prop}

theorem declared_has_row {tab : ClassTab} {m : CModel} (hc : conformsWeakB tab m = true) {as : List (Name × String)}
    (ha : attrsOK m.attrs as = true) : ∀ k ∈ as.map (·.1), k ∈ (attrRows tab).map (·.tag) := by
  intro k hk
  simp only [conformsWeakB, Bool.and_eq_true, decide_eq_true_eq] at hc
  obtain ⟨⟨⟨⟨⟨_, _⟩, _⟩, _⟩, hattrs⟩, _⟩ := hc
  simp only [attrsOK, Bool.and_eq_true, decide_eq_true_eq] at ha
  obtain ⟨⟨_, hdecl⟩, _⟩ := ha
  have := List.all_eq_true.mp hdecl k hk
  obtain ⟨d, hd, hdk⟩ := List.any_eq_true.mp this
  have hdk' : d.name = k := by simpa using hdk
  have := List.all_eq_true.mp hattrs d hd
  rw [List.contains_iff_mem] at this
  exact hdk' ▸ this

mutual
theorem roundtrip_equiv_aux (hC : Closed T S R) : ∀ (t : Xml) (c : ClassId) (ty : TypeId), R c ty → validB S ty t = true →
    bookkeptB T c t = true → Equiv (roundtrip T c t) t
  | .node tg as x ks, c, ty, hR, hv, hb => by
    cases hT : T c with
    | none => rw [roundtrip_opaque T c hT]; exact equiv_refl _
    | some e =>
      obtain ⟨te, hS, hconf, hg, hch⟩ := hC.step c ty hR e hT
      simp only [validB, hS, Bool.and_eq_true] at hv
      obtain ⟨⟨ha, hcont⟩, hkids⟩ := hv
      rw [roundtrip_node T c e hT tg as x ks (not_diverted hg (tagsOf ks) hcont)]
      simp only [bookkeptB, hT, Bool.and_eq_true] at hb
      obtain ⟨hder, hbk⟩ := hb
      rw [tagsOf_eq] at hcont
      have hsel := select_eq_self rootTag e.tab te.model ks hconf hcont
      have hkeys := blocks_keys rootTag _ ks (contentOK_blocks rootTag te.model.groups ks hcont)
      have hnodup : (as.map (·.1)).Nodup := by
        simp only [attrsOK, Bool.and_eq_true, decide_eq_true_eq] at ha
        exact ha.1.1
      have hrn : ((attrRows e.tab).map (·.tag)).Nodup := by
        have hc := hconf
        simp only [ConformsWeak, conformsWeakB, Bool.and_eq_true, decide_eq_true_eq] at hc
        exact hc.1.1.1.2
      refine Equiv.node (attrs_perm _ as hnodup hrn (declared_has_row hconf ha)) ?_
      have hpoint := equivList_map_inv _ ks (roundtrip_equiv_kids hC ks e.child te.child (fun k hk => hch _ (hkeys k hk))
        ((validKids_iff S te.child ks).mp hkids) ((bookkeptKids_iff T e.child ks).mp hbk))
      have hrows : EquivList (((elemRows e.tab).map (rowOut T e ks)).flatten) (selectG rootTag (elemRows e.tab) ks) := by
        unfold selectG
        apply equivList_flatten
        intro r hr
        unfold rowOut
        split
        · rename_i hk
          have hk' : r.kind = .derived := by simpa using hk
          have hok : derivedOK e r.tag ks = true := by
            have := List.all_eq_true.mp hder r hr
            simpa [hk'] using this
          rw [derivedOK_eq e r.tag ks hok, keep_derivedOut]
          exact equivList_refl _
        · exact equivList_map _ _ (fun k hk => hpoint k (List.mem_filter.mp (mem_of_mem_keep _ _ _ hk)).1)
      rw [hsel] at hrows
      exact hrows
theorem roundtrip_equiv_kids (hC : Closed T S R) : ∀ (ks : List Xml) (cc : Name → ClassId) (ct : Name → TypeId),
    (∀ k ∈ ks, R (cc (rootTag k)) (ct (rootTag k))) → (∀ k ∈ ks, validB S (ct (rootTag k)) k = true) →
    (∀ k ∈ ks, bookkeptB T (cc (rootTag k)) k = true) →
    EquivList (ks.map (fun k => roundtrip T (cc (rootTag k)) k)) ks
  | [], _, _, _, _, _ => EquivList.nil
  | k :: ks, cc, ct, hR, hv, hb =>
    EquivList.cons (roundtrip_equiv_aux hC k _ _ (hR k (List.mem_cons_self ..)) (hv k (List.mem_cons_self ..)) (hb k (List.mem_cons_self ..)))
      (roundtrip_equiv_kids hC ks cc ct (fun k' hk' => hR k' (List.mem_cons_of_mem _ hk')) (fun k' hk' => hv k' (List.mem_cons_of_mem _ hk'))
        (fun k' hk' => hb k' (List.mem_cons_of_mem _ hk')))
end

/-- **C06, content**: for every tree `t` valid for type `ty` that keeps the bookkeeping of the classes reading it, if
    class `c` is paired with `ty` by a closed conforming pairing, parsing `t` into class `c` and serialising it again
    gives the same elements, attributes and values in the same order.  Unbounded in the size and depth of `t`. -/
theorem roundtrip_equiv (hC : Closed T S R) (c : ClassId) (ty : TypeId) (hR : R c ty) (t : Xml) (hv : Valid S ty t)
    (hb : Bookkept T c t) : Equiv (serialize T c (parse T c t)) t :=
  roundtrip_equiv_aux hC t c ty hR hv hb

/-- **C06, validity**: ... and the output is valid for the same type. -/
theorem roundtrip_valid (hC : Closed T S R) (c : ClassId) (ty : TypeId) (hR : R c ty) (t : Xml) (hv : Valid S ty t)
    (hb : Bookkept T c t) : Valid S ty (serialize T c (parse T c t)) :=
  valid_of_equiv S _ _ ty (roundtrip_equiv hC c ty hR t hv hb) hv

/-- no class has a read-only property among its rows (the situation of the first version of this model) -/
def NoDerived (T : Tabs) : Prop := ∀ c e, T c = some e → ∀ r ∈ elemRows e.tab, r.kind ≠ .derived

mutual
theorem bookkept_of_noDerived (h : NoDerived T) : ∀ (t : Xml) (c : ClassId), bookkeptB T c t = true
  | .node tg as x ks, c => by
    cases hT : T c with
    | none => simp [bookkeptB, hT]
    | some e =>
      simp only [bookkeptB, hT, Bool.and_eq_true]
      refine ⟨?_, bookkeptKids_of_noDerived h ks e.child⟩
      rw [List.all_eq_true]
      intro r hr
      have := h c e hT r hr
      simp [this]
theorem bookkeptKids_of_noDerived (h : NoDerived T) : ∀ (ks : List Xml) (cc : Name → ClassId), bookkeptKids T cc ks = true
  | [], _ => by simp [bookkeptKids]
  | k :: ks, cc => by
    simp only [bookkeptKids, Bool.and_eq_true]
    exact ⟨bookkept_of_noDerived h k _, bookkeptKids_of_noDerived h ks cc⟩
end

/-- the statement of the first version (no derived rows: no bookkeeping premise needed) is a corollary -/
theorem roundtrip_equiv_plain (hC : Closed T S R) (hN : NoDerived T) (c : ClassId) (ty : TypeId) (hR : R c ty) (t : Xml)
    (hv : Valid S ty t) : Equiv (serialize T c (parse T c t)) t :=
  roundtrip_equiv hC c ty hR t hv (bookkept_of_noDerived hN t c)

theorem roundtrip_valid_plain (hC : Closed T S R) (hN : NoDerived T) (c : ClassId) (ty : TypeId) (hR : R c ty) (t : Xml)
    (hv : Valid S ty t) : Valid S ty (serialize T c (parse T c t)) :=
  roundtrip_valid hC c ty hR t hv (bookkept_of_noDerived hN t c)

end main

/-- strict conformance (no row without a particle) implies the weak one the theorems use -/
theorem conforms_weak_of_conforms (tab : ClassTab) (m : CModel) (h : Conforms tab m) : ConformsWeak tab m := by
  unfold Conforms conformsB at h
  simp only [Bool.and_eq_true] at h
  exact h.1.1

/-- the tables of a presentation do not depend on what the derived properties write, except for `derive` itself -/
theorem mkTabsD_some (D : Deriver) (cs : List ClassData) (c : ClassId) (e : ClassEntry) (h : mkTabsD D cs c = some e) :
    ∃ e0, mkTabs cs c = some e0 ∧ e0.tab = e.tab ∧ e0.child = e.child ∧ e0.divertIf = e.divertIf ∧ e0.divertUnless = e.divertUnless := by
  unfold mkTabs
  unfold mkTabsD at h ⊢
  cases hf : cs.find? (fun d => d.id == c) with
  | none => simp [hf] at h
  | some d =>
    simp only [hf, Option.map_some, Option.some.injEq] at h ⊢
    subst h
    exact ⟨_, rfl, rfl, rfl, rfl, rfl⟩

/-- the decidable closure check of a finite presentation gives `Closed`, whatever the derived properties write -/
theorem closed_of_closedB (D : Deriver) (cs : List ClassData) (ts : List TypeData) (pairs : List (ClassId × TypeId))
    (h : closedB cs ts pairs = true) : Closed (mkTabsD D cs) (mkSchema ts) (fun c ty => (c, ty) ∈ pairs) := by
  constructor
  intro c ty hR e hT
  obtain ⟨e0, hT0, htab, hchild, hif, hun⟩ := mkTabsD_some D cs c e hT
  have hp := List.all_eq_true.mp h (c, ty) hR
  simp only [hT0] at hp
  split at hp
  · cases hp
  · rename_i te hS
    simp only [Bool.and_eq_true] at hp
    refine ⟨te, hS, ?_, ?_, ?_⟩
    · rw [← htab]; exact hp.1.1
    · rw [← hif, ← hun]; exact hp.1.2
    · intro n hn
      have := List.all_eq_true.mp hp.2 n hn
      rw [List.contains_iff_mem] at this
      rw [← hchild]
      exact this

/-- **C06 on the modelled fragment** (partial: see the header for what the fragment leaves out).
    For a schema version presented by finite tables whose closure check passes, every tree valid for a listed
    type that keeps the classes' bookkeeping (whatever function `D` the read-only properties compute), parsed into
    the class paired with it and serialised again, is valid for the same type and has the same elements,
    attributes and values in the same order.  No bound on the size of the tree. -/
theorem c06_roundtrip_partial (D : Deriver) (cs : List ClassData) (ts : List TypeData) (pairs : List (ClassId × TypeId))
    (h : closedB cs ts pairs = true) (c : ClassId) (ty : TypeId) (hp : (c, ty) ∈ pairs) (t : Xml)
    (hv : Valid (mkSchema ts) ty t) (hb : Bookkept (mkTabsD D cs) c t) :
    Valid (mkSchema ts) ty (serialize (mkTabsD D cs) c (parse (mkTabsD D cs) c t))
      ∧ Equiv (serialize (mkTabsD D cs) c (parse (mkTabsD D cs) c t)) t :=
  ⟨roundtrip_valid (closed_of_closedB D cs ts pairs h) c ty hp t hv hb,
   roundtrip_equiv (closed_of_closedB D cs ts pairs h) c ty hp t hv hb⟩

/-- a presentation without derived rows: `NoDerived` -/
def noDerivedB (cs : List ClassData) : Bool := cs.all (fun d => (elemRows d.tab).all (fun r => r.kind != .derived))

theorem noDerived_of_noDerivedB (D : Deriver) (cs : List ClassData) (h : noDerivedB cs = true) : NoDerived (mkTabsD D cs) := by
  intro c e hT r hr
  unfold mkTabsD at hT
  cases hf : cs.find? (fun d => d.id == c) with
  | none => simp [hf] at hT
  | some d =>
    simp only [hf, Option.map_some, Option.some.injEq] at hT
    subst hT
    have hd : d ∈ cs := List.mem_of_find?_eq_some hf
    have := List.all_eq_true.mp (List.all_eq_true.mp h d hd) r hr
    simpa using this

/-- the statement of the first version of this file, as a corollary: presentations without derived rows need no
    bookkeeping premise -/
theorem c06_roundtrip_plain_partial (cs : List ClassData) (ts : List TypeData) (pairs : List (ClassId × TypeId))
    (h : closedB cs ts pairs = true) (hn : noDerivedB cs = true) (c : ClassId) (ty : TypeId) (hp : (c, ty) ∈ pairs) (t : Xml)
    (hv : Valid (mkSchema ts) ty t) :
    Valid (mkSchema ts) ty (serialize (mkTabs cs) c (parse (mkTabs cs) c t))
      ∧ Equiv (serialize (mkTabs cs) c (parse (mkTabs cs) c t)) t :=
  c06_roundtrip_partial noDerive cs ts pairs h c ty hp t hv (bookkept_of_noDerived (noDerived_of_noDerivedB noDerive cs hn) t c)

/-! ### the hypotheses are satisfiable, and each conformance condition is needed -/

section examples

/-- names: 1 Root, 2 Name, 3 Item, 4 Point, 5 Line, 6 X, 7 Y, 8 NumItems (read-only counter), 9 OldItem (legacy child),
    10 id (attribute), 11 index (attribute), 12 note (attribute) -/
def exClasses : List ClassData := [
  ⟨0, [], [], [], []⟩,                                                            -- leaf values
  ⟨1, [⟨10, .attr⟩, ⟨12, .attr⟩, ⟨2, .single⟩, ⟨8, .derived⟩, ⟨3, .multi⟩, ⟨4, .single⟩, ⟨5, .single⟩], [(3, 2), (4, 3), (5, 3)],
      [9], [2]⟩,                                                                  -- Root: from_node diverts on OldItem / on a missing Name
  ⟨2, [⟨11, .attr⟩, ⟨6, .single⟩], [], [], []⟩,                                    -- Item: index attribute + X
  ⟨3, [⟨6, .single⟩, ⟨7, .single⟩], [], [], []⟩]                                   -- Point / Line: X, Y

def exTypes : List TypeData := [
  ⟨1, ⟨[], []⟩, []⟩,                                                              -- simple content
  ⟨2, ⟨[⟨10, true⟩, ⟨12, false⟩], [.elem ⟨2, 1, some 1⟩, .elem ⟨8, 1, some 1⟩, .elem ⟨3, 0, none⟩,
        .choice false [[⟨4, 1, some 1⟩], [⟨5, 1, some 1⟩]]]⟩,
      [(2, 1), (8, 1), (3, 3), (4, 4), (5, 4)]⟩,
  ⟨3, ⟨[⟨11, true⟩], [.elem ⟨6, 1, some 1⟩]⟩, [(6, 1)]⟩,
  ⟨4, ⟨[], [.elem ⟨6, 1, some 1⟩, .elem ⟨7, 0, some 1⟩]⟩, [(6, 1), (7, 1)]⟩]

def exPairs : List (ClassId × TypeId) := [(1, 2), (0, 1), (2, 3), (3, 4)]

/-- what the read-only property of Root writes: the number of Item children -/
def exD : Deriver := fun c tag ks =>
  if c == 1 && tag == 8 then
    some (match (ks.filter (fun k => rootTag k == 3)).length with | 0 => "0" | 1 => "1" | 2 => "2" | _ => "many")
  else none

def exDoc : Xml :=
  .node 1 [(12, "n"), (10, "a7")] "" [
    .node 2 [] "name" [],
    .node 8 [] "2" [],
    .node 3 [(11, "1")] "" [.node 6 [] "1.5" []],
    .node 3 [(11, "2")] "" [.node 6 [] "2.5" []],
    .node 5 [] "" [.node 6 [] "0" [], .node 7 [] "1" []]]

example : closedB exClasses exTypes exPairs = true := by decide
example : Valid (mkSchema exTypes) 2 exDoc := by decide
example : Bookkept (mkTabsD exD exClasses) 1 exDoc := by decide
example : Conforms [⟨10, .attr⟩, ⟨12, .attr⟩, ⟨2, .single⟩, ⟨8, .derived⟩, ⟨3, .multi⟩, ⟨4, .single⟩, ⟨5, .single⟩]
    ⟨[⟨10, true⟩, ⟨12, false⟩], [.elem ⟨2, 1, some 1⟩, .elem ⟨8, 1, some 1⟩, .elem ⟨3, 0, none⟩,
      .choice false [[⟨4, 1, some 1⟩], [⟨5, 1, some 1⟩]]]⟩ := by decide

/-- the theorem applied to the example document -/
example : Valid (mkSchema exTypes) 2 (serialize (mkTabsD exD exClasses) 1 (parse (mkTabsD exD exClasses) 1 exDoc))
    ∧ Equiv (serialize (mkTabsD exD exClasses) 1 (parse (mkTabsD exD exClasses) 1 exDoc)) exDoc :=
  c06_roundtrip_partial exD exClasses exTypes exPairs (by decide) 1 2 (by decide) exDoc (by decide) (by decide)

/-- and the output, computed: attributes come out in row order, children as they were, the counter re-derived -/
example : roundtrip (mkTabsD exD exClasses) 1 exDoc =
    .node 1 [(10, "a7"), (12, "n")] "" [
      .node 2 [] "name" [],
      .node 8 [] "2" [],
      .node 3 [(11, "1")] "" [.node 6 [] "1.5" []],
      .node 3 [(11, "2")] "" [.node 6 [] "2.5" []],
      .node 5 [] "" [.node 6 [] "0" [], .node 7 [] "1" []]] := by rfl

/-- the bookkeeping premise is needed: a document whose counter disagrees with its children is valid, but the class
    writes the count it derives, so the output differs from the input -/
def badCount : Xml :=
  .node 1 [(10, "a7")] "" [.node 2 [] "name" [], .node 8 [] "7" [], .node 3 [(11, "1")] "" [.node 6 [] "1.5" []], .node 4 [] "" [.node 6 [] "0" []]]
example : Valid (mkSchema exTypes) 2 badCount ∧ ¬ Bookkept (mkTabsD exD exClasses) 1 badCount := by decide
example : roundtrip (mkTabsD exD exClasses) 1 badCount =
    .node 1 [(10, "a7")] "" [.node 2 [] "name" [], .node 8 [] "1" [], .node 3 [(11, "1")] "" [.node 6 [] "1.5" []], .node 4 [] "" [.node 6 [] "0" []]] := by rfl

/-- the guard conditions are needed: if the legacy tag OldItem (9) were an element of the type, or the guarded element
    Name (2) were optional, `guardsOKB` fails - and a valid tree can then take the unmodelled legacy path -/
example : guardsOKB [9] [2] ⟨[], [.elem ⟨2, 1, some 1⟩, .elem ⟨9, 0, some 1⟩]⟩ = false := by decide
example : guardsOKB [9] [2] ⟨[], [.elem ⟨2, 0, some 1⟩]⟩ = false := by decide
example : guardsOKB [9] [2] ⟨[], [.choice false [[⟨2, 1, some 1⟩], [⟨4, 1, some 1⟩]]]⟩ = false := by decide
example : roundtrip (mkTabsD exD exClasses) 1 (.node 1 [(10, "a")] "" [.node 9 [] "" []]) = .node 1 [] "" [] := by rfl

/-- a class table that lacks the row of a required attribute (the shape of the CPHD `index` defect): not conforming,
    and the attribute is lost, the output invalid -/
def dropClasses : List ClassData := [⟨0, [], [], [], []⟩, ⟨2, [⟨6, .single⟩], [], [], []⟩]
example : conformsWeakB [⟨6, .single⟩] ⟨[⟨11, true⟩], [.elem ⟨6, 1, some 1⟩]⟩ = false := by decide
example : roundtrip (mkTabs dropClasses) 2 (.node 3 [(11, "1")] "" [.node 6 [] "1.5" []]) = .node 3 [] "" [.node 6 [] "1.5" []] := by rfl
example : validB (mkSchema exTypes) 3 (.node 3 [(11, "1")] "" [.node 6 [] "1.5" []]) = true
    ∧ validB (mkSchema exTypes) 3 (roundtrip (mkTabs dropClasses) 2 (.node 3 [(11, "1")] "" [.node 6 [] "1.5" []])) = false := by decide

/-- rows in another order than the particles (the shape of the CPHD `NumSegments` defect): not conforming, output invalid -/
def orderClasses : List ClassData := [⟨0, [], [], [], []⟩, ⟨3, [⟨7, .single⟩, ⟨6, .single⟩], [], [], []⟩]
example : conformsWeakB [⟨7, .single⟩, ⟨6, .single⟩] ⟨[], [.elem ⟨6, 1, some 1⟩, .elem ⟨7, 0, some 1⟩]⟩ = false := by decide
example : validB (mkSchema exTypes) 4 (.node 4 [] "" [.node 6 [] "0" [], .node 7 [] "1" []]) = true
    ∧ validB (mkSchema exTypes) 4 (roundtrip (mkTabs orderClasses) 3 (.node 4 [] "" [.node 6 [] "0" [], .node 7 [] "1" []])) = false := by decide

/-- a single-valued row facing a repeatable element: not conforming, the second occurrence is lost -/
example : conformsWeakB [⟨3, .single⟩] ⟨[], [.elem ⟨3, 0, none⟩]⟩ = false := by decide

/-- a presentation without derived rows needs no bookkeeping premise (the first version's statement) -/
def plainClasses : List ClassData := [⟨0, [], [], [], []⟩, ⟨3, [⟨6, .single⟩, ⟨7, .single⟩], [], [], []⟩]
example (t : Xml) (hv : Valid (mkSchema exTypes) 4 t) :
    Valid (mkSchema exTypes) 4 (serialize (mkTabs plainClasses) 3 (parse (mkTabs plainClasses) 3 t))
      ∧ Equiv (serialize (mkTabs plainClasses) 3 (parse (mkTabs plainClasses) 3 t)) t :=
  c06_roundtrip_plain_partial plainClasses exTypes [(3, 4), (0, 1)] (by decide) (by decide) 3 4 (by decide) t hv

end examples

end Sarpy.Props.C06
