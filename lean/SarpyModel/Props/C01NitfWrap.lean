/-
  C01Nitf, part 5: the outermost segment (`wrap`): well-formedness, advertised shape and what it shows, for any raw node that shows
  `P y x b` at the raw index of (band b, row y, column x);  well-formedness of the raw nodes `rawBPR` / `rawS`.
-/
import SarpyModel.Props.C01NitfOrient

namespace Sarpy.Props.C01.Nitf
open Sarpy Sarpy.Spec Sarpy.Spec.NitfAssembly Sarpy.Props.C01Seg

/-- the raw node `X` shows `P y x b` at the raw index of band b, row y, column x -/
def RawSpec (X : Seg) (nrows ncols nbands bd : Nat) (P : Nat → Nat → Nat → Src) : Prop :=
  ∀ pt : Idx, 0 ≤ pt (axY nbands bd) → pt (axY nbands bd) < (nrows : Int) → 0 ≤ pt (axX nbands bd) → pt (axX nbands bd) < (ncols : Int) →
    ∀ b : Nat, (nbands ≠ 1 → pt (axB nbands bd) = (b : Int) ∧ b < nbands) →
      X.fullSrc.get pt = P (pt (axY nbands bd)).toNat (pt (axX nbands bd)).toNat b

def rcShape (nrows ncols : Nat) (o : ReaderOptions) : List Nat := if o.transpose then [ncols, nrows] else [nrows, ncols]

theorem wrap_wf (X : Seg) (nrows ncols nbands bd : Nat) (o : ReaderOptions) (w : Option Bool × List Nat × List Nat)
    (hw : OrientOK nrows ncols nbands bd o w) (hX : X.wf = true) (hXs : X.fshape = getShape nrows ncols nbands bd)
    (hc : ∀ iq, w.1 = some iq → nbands = 2) : (wrap w X).wf = true := by
  unfold wrap
  cases hw1 : w.1 with
  | none =>
    simp only [Seg.wf, hX, hXs, getShape_length, hw.perm, hw.rev, Bool.and_self]
  | some iq =>
    have h2 := hc iq hw1
    have hsh := hw.shape
    simp only [Seg.wf, hX, hXs, getShape_length, hw.perm, hw.rev, Bool.and_self, Bool.true_and, Bool.and_eq_true, decide_eq_true_eq]
    rw [hsh]
    subst h2
    refine ⟨by simp [rankOf], ?_⟩
    cases o.transpose <;> simp [dimAt]

theorem wrap_fshape (X : Seg) (nrows ncols nbands bd : Nat) (o : ReaderOptions) (w : Option Bool × List Nat × List Nat)
    (hw : OrientOK nrows ncols nbands bd o w) (hXs : X.fshape = getShape nrows ncols nbands bd)
    (hc : ∀ iq, w.1 = some iq → nbands = 2) :
    (wrap w X).fshape = match w.1 with
      | none => rcShape nrows ncols o ++ (if nbands = 1 then [] else [nbands])
      | some _ => rcShape nrows ncols o := by
  unfold wrap
  cases hw1 : w.1 with
  | none => show gather w.2.2 X.fshape = _; rw [hXs, hw.shape]; rfl
  | some iq =>
    have h2 := hc iq hw1
    show delAt 2 (gather w.2.2 X.fshape) = _
    rw [hXs, hw.shape]
    subst h2
    unfold rcShape
    cases o.transpose <;> simp [delAt]

/-- the outermost segment refuses no normalised subscript when what lies below does not -/
theorem wrap_total (w : Option Bool × List Nat × List Nat) (X : Seg) (hX : X.total = true) : (wrap w X).total = true := by
  unfold wrap; cases w.1 <;> exact hX

/-- the raw node below the outermost segment -/
theorem wrap_below (w : Option Bool × List Nat × List Nat) (X : Seg) : below (wrap w X) = X := by
  unfold wrap; cases w.1 <;> rfl

theorem insAx2 (k : Int) (idx : Idx) : insAx 2 k idx 0 = idx 0 ∧ insAx 2 k idx 1 = idx 1 ∧ insAx 2 k idx 2 = k := by
  simp [insAx]

/-- **what the outermost segment shows**: at formatted index (r, c, b) the sample `P` of band b at the image position the options
    name: row/col swapped by transpose_axes, flipped by reverse_axes; for an I/Q pair the complex sample of the two bands -/
theorem wrap_spec (X : Seg) (nrows ncols nbands bd : Nat) (o : ReaderOptions) (w : Option Bool × List Nat × List Nat)
    (P : Nat → Nat → Nat → Src) (hw : OrientOK nrows ncols nbands bd o w) (hX : X.wf = true)
    (hXs : X.fshape = getShape nrows ncols nbands bd) (hc : ∀ iq, w.1 = some iq → nbands = 2)
    (hraw : RawSpec X nrows ncols nbands bd P) (idx : Idx)
    (h00 : 0 ≤ idx 0) (h01 : idx 0 < ((if o.transpose then ncols else nrows : Nat) : Int))
    (h10 : 0 ≤ idx 1) (h11 : idx 1 < ((if o.transpose then nrows else ncols : Nat) : Int))
    (hb : w.1 = none → nbands ≠ 1 → 0 ≤ idx 2 ∧ idx 2 < (nbands : Int)) :
    (wrap w X).fullSrc.get idx =
      match w.1 with
      | none => P (imgRow nrows o (idx 0).toNat (idx 1).toNat) (imgCol ncols o (idx 0).toNat (idx 1).toNat) (idx 2).toNat
      | some true => Src.pair (P (imgRow nrows o (idx 0).toNat (idx 1).toNat) (imgCol ncols o (idx 0).toNat (idx 1).toNat) 0)
                              (P (imgRow nrows o (idx 0).toNat (idx 1).toNat) (imgCol ncols o (idx 0).toNat (idx 1).toNat) 1)
      | some false => Src.pair (P (imgRow nrows o (idx 0).toNat (idx 1).toNat) (imgCol ncols o (idx 0).toNat (idx 1).toNat) 1)
                               (P (imgRow nrows o (idx 0).toNat (idx 1).toNat) (imgCol ncols o (idx 0).toNat (idx 1).toNat) 0) := by
  have hsh : (X.full Src.leaf Src.fill).shape = getShape nrows ncols nbands bd := by
    rw [full_shape Src.leaf Src.fill X hX, hXs]
  -- one raw index
  have one : ∀ (j : Idx) (b : Nat), j 0 = idx 0 → j 1 = idx 1 → (nbands ≠ 1 → j 2 = (b : Int) ∧ b < nbands) →
      (X.full Src.leaf Src.fill).get (rawIdx (X.full Src.leaf Src.fill).shape w.2.1 (invPerm w.2.2) j) =
        P (imgRow nrows o (idx 0).toNat (idx 1).toNat) (imgCol ncols o (idx 0).toNat (idx 1).toNat) b := by
    intro j b hj0 hj1 hj2
    rw [hsh]
    obtain ⟨⟨hy0, hy1, hy⟩, ⟨hx0, hx1, hx⟩, hbb⟩ := hw.coords j (hj0 ▸ h00) (hj0 ▸ h01) (hj1 ▸ h10) (hj1 ▸ h11)
      (fun hne => by obtain ⟨e, hlt⟩ := hj2 hne; rw [e]; omega)
    have := hraw _ hy0 hy1 hx0 hx1 b (fun hne => ⟨by rw [hbb hne]; exact (hj2 hne).1, (hj2 hne).2⟩)
    rw [show X.fullSrc = X.full Src.leaf Src.fill from rfl] at this
    rw [this, hy, hx, hj0, hj1]
  unfold wrap
  cases hw1 : w.1 with
  | none =>
    show ((Seg.orient w.2.1 w.2.2 X).full Src.leaf Src.fill).get idx = _
    rw [orient_get]
    apply one idx _ rfl rfl
    intro hne
    obtain ⟨hb0, hb1⟩ := hb hw1 hne
    exact ⟨by omega, by omega⟩
  | some iq =>
    have h2 := hc iq hw1
    obtain ⟨e0, e1, e2⟩ := insAx2 0 idx
    obtain ⟨f0, f1, f2⟩ := insAx2 1 idx
    show ((Seg.cplx (ordOf iq) w.2.1 w.2.2 2 X).full Src.leaf Src.fill).get idx = _
    rw [cplx_get]
    rw [one (insAx 2 0 idx) 0 e0 e1 (fun _ => ⟨by rw [e2]; rfl, by omega⟩),
        one (insAx 2 1 idx) 1 f0 f1 (fun _ => ⟨by rw [f2]; rfl, by omega⟩)]
    cases iq <;> rfl

/-- the same without a format function, for any band number `b` that names the band axis entry (none when there is one band) -/
theorem wrap_spec_plain (X : Seg) (nrows ncols nbands bd : Nat) (o : ReaderOptions) (w : Option Bool × List Nat × List Nat)
    (P : Nat → Nat → Nat → Src) (hw : OrientOK nrows ncols nbands bd o w) (hX : X.wf = true)
    (hXs : X.fshape = getShape nrows ncols nbands bd) (hn : w.1 = none)
    (hraw : RawSpec X nrows ncols nbands bd P) (idx : Idx)
    (h00 : 0 ≤ idx 0) (h01 : idx 0 < ((if o.transpose then ncols else nrows : Nat) : Int))
    (h10 : 0 ≤ idx 1) (h11 : idx 1 < ((if o.transpose then nrows else ncols : Nat) : Int))
    (b : Nat) (hb : nbands ≠ 1 → idx 2 = (b : Int) ∧ b < nbands) :
    (wrap w X).fullSrc.get idx = P (imgRow nrows o (idx 0).toNat (idx 1).toNat) (imgCol ncols o (idx 0).toNat (idx 1).toNat) b := by
  have hsh : (X.full Src.leaf Src.fill).shape = getShape nrows ncols nbands bd := by
    rw [full_shape Src.leaf Src.fill X hX, hXs]
  unfold wrap
  rw [hn]
  show ((Seg.orient w.2.1 w.2.2 X).full Src.leaf Src.fill).get idx = _
  rw [orient_get, hsh]
  obtain ⟨⟨hy0, hy1, hy⟩, ⟨hx0, hx1, hx⟩, hbb⟩ := hw.coords idx h00 h01 h10 h11
    (fun hne => by obtain ⟨e, hlt⟩ := hb hne; rw [e]; omega)
  have := hraw _ hy0 hy1 hx0 hx1 b (fun hne => ⟨by rw [hbb hne]; exact (hb hne).1, (hb hne).2⟩)
  rw [show X.fullSrc = X.full Src.leaf Src.fill from rfl] at this
  rw [this, hy, hx]

end Sarpy.Props.C01.Nitf
