/-
  Props.HdrCommon — what the SICD (Props/C02Hdr.lean) and the SIDD (Props/C10Hdr.lean) header theorems share:
    * the interpretation of an image subheader reads PVTYPE, NBPP, IC, IMODE, Bands and the mask flag only (congruence lemmas, by which
      a statement decided in the kernel on one header is lifted to every segment size and identifier);
    * `get_complex_order` for band lists of ANY length (`complexOrder_iff`);
    * the writers' block fields (`0` beyond 8192 pixels, one block per row and column) describe one block covering the segment, for
      every size, for the reference and for the regenerated `_construct_block_bounds` (`writer_blocks`, `gen_writer_blocks`);
    * a sample written with a raw dtype and read with the same dtype is unchanged, for any item size and byte order (`bytes_roundtrip`).
-/
import SarpyModel.Spec.Hdr
import SarpyModel.Spec.Loops
import SarpyModel.Bridge.Hdr
import SarpyModel.Bridge.Loops
namespace Sarpy.Props.Hdr
open Sarpy.Spec.Hdr

/-! ### 0. the interpretation reads six fields only -/

/-- the fields of an image subheader that decide how its samples are interpreted -/
def enc (h : ImgHdr) : String × Nat × String × String × List Band × Bool := (h.pvtype, h.nbpp, h.ic, h.imode, h.bands, h.masked)

theorem enc_fields {h h' : ImgHdr} (e : enc h = enc h') :
    h.pvtype = h'.pvtype ∧ h.nbpp = h'.nbpp ∧ h.ic = h'.ic ∧ h.imode = h'.imode ∧ h.bands = h'.bands ∧ h.masked = h'.masked := by
  simp only [enc, Prod.mk.injEq] at e
  exact e

theorem getDtype_congr {h h' : ImgHdr} (e : enc h = enc h') : getDtype h = getDtype h' := by
  obtain ⟨e1, e2, _, _, e5, _⟩ := enc_fields e
  simp only [getDtype, e1, e2, e5]

theorem interp_congr {h h' : ImgHdr} (e : enc h = enc h') (ff) : interp h ff = interp h' ff := by
  obtain ⟨_, _, e3, e4, e5, _⟩ := enc_fields e
  simp only [interp, route, getDtype_congr e, e3, e4, e5]

theorem nitfReaderCompliance_congr {h h' : ImgHdr} (e : enc h = enc h') (p : Bool) : nitfReaderCompliance h p = nitfReaderCompliance h' p := by
  obtain ⟨_, e2, e3, _, _, _⟩ := enc_fields e
  simp only [nitfReaderCompliance, e2, e3]

theorem nitfWriterCompliance_congr {h h' : ImgHdr} (e : enc h = enc h') (p : Bool) : nitfWriterCompliance h p = nitfWriterCompliance h' p := by
  obtain ⟨_, e2, e3, e4, _, e6⟩ := enc_fields e
  simp only [nitfWriterCompliance, e2, e3, e4, e6]

/-! ### 2'. the complex order for band lists of ANY length -/

/-- every consecutive pair of labels concatenates to `order`; an odd leftover is not a pair -/
def pairsAll (order : String) : List String → Bool
  | [] => true
  | [_] => false
  | a :: b :: rest => (a ++ b == order) && pairsAll order rest

theorem pyRange_two_nil (a : Nat) : pyRange a a 2 = [] := by
  simp [pyRange]

theorem pyRange_two_step (a m : Nat) : pyRange a (a + (m + 2)) 2 = a :: pyRange (a + 2) (a + (m + 2)) 2 := by
  unfold pyRange
  have h1 : (a + (m + 2) - a + (2 - 1)) / 2 = (a + (m + 2) - (a + 2) + (2 - 1)) / 2 + 1 := by omega
  rw [h1, List.range_succ_eq_map, List.map_cons, List.map_map]
  congr 1
  apply List.map_congr_left
  intro k _
  simp only [Function.comp, Nat.succ_eq_add_one]
  omega

theorem pyIdx_append_left {α : Type} (pre : List α) (x : α) (rest : List α) : pyIdx (pre ++ x :: rest) pre.length = .ok x := by
  simp [pyIdx]

theorem pyIdx_append_left1 {α : Type} (pre : List α) (x y : α) (rest : List α) : pyIdx (pre ++ x :: y :: rest) (pre.length + 1) = .ok y := by
  have : pre ++ x :: y :: rest = (pre ++ [x]) ++ y :: rest := by simp
  rw [this]
  have h2 := pyIdx_append_left (pre ++ [x]) y rest
  simpa using h2

/-- the search loop of `get_complex_order` over the pairs after a prefix: it finds a differing pair iff not all pairs agree -/
theorem anyM_pairs (order : String) : ∀ (rest pre : List Band), rest.length % 2 = 0 →
    anyM (pairDiffers (pre ++ rest) order) (pyRange pre.length (pre.length + rest.length) 2) =
      .ok (!pairsAll order (rest.map Band.isubcat))
  | [], pre, _ => by simp [pyRange_two_nil, anyM, pairsAll]
  | [_], _, h => by simp at h
  | x :: y :: rest, pre, h => by
    have hr : rest.length % 2 = 0 := by simp only [List.length_cons] at h; omega
    have hlen : pre.length + (x :: y :: rest).length = pre.length + (rest.length + 2) := by simp
    rw [hlen, pyRange_two_step]
    have ih := anyM_pairs order rest (pre ++ [x, y]) hr
    have e1 : pre ++ [x, y] ++ rest = pre ++ x :: y :: rest := by simp
    have e2 : (pre ++ [x, y]).length = pre.length + 2 := by simp
    rw [e1, e2] at ih
    have e3 : pre.length + 2 + rest.length = pre.length + (rest.length + 2) := by omega
    rw [e3] at ih
    have hh : pairDiffers (pre ++ x :: y :: rest) order pre.length = .ok (decide (order ≠ x.isubcat ++ y.isubcat)) := by
      simp only [pairDiffers, pairAt, pyIdx_append_left, pyIdx_append_left1, Except.map]
    simp only [anyM, hh]
    by_cases hxy : x.isubcat ++ y.isubcat = order
    · have : decide (order ≠ x.isubcat ++ y.isubcat) = false := by simp [hxy]
      simp only [this]
      rw [ih]
      simp [pairsAll, hxy]
    · have : decide (order ≠ x.isubcat ++ y.isubcat) = true := by
        simp only [ne_eq, decide_eq_true_eq]; exact fun h => hxy h.symm
      simp only [this]
      simp [pairsAll, hxy]

theorem pairsAll_even (order : String) : ∀ (l : List String), pairsAll order l = true → l.length % 2 = 0
  | [], _ => rfl
  | [_], h => by simp [pairsAll] at h
  | _ :: _ :: rest, h => by
    simp only [pairsAll, Bool.and_eq_true] at h
    have := pairsAll_even order rest h.2
    simp only [List.length_cons]; omega

/-- **`get_complex_order` for band lists of any length**: an order is announced exactly when the first pair's labels concatenate
    to one of the four orders, every pair (the last included) concatenates to the same, and the PVTYPE fits; an odd or
    mixed list announces none; a pixel value type that contradicts the labels is refused -/
theorem complexOrder_iff (pv : String) (a b : Band) (rest : List Band) :
    complexOrder pv (a :: b :: rest) =
      (if (a.isubcat ++ b.isubcat) ∈ orders ∧ pairsAll (a.isubcat ++ b.isubcat) (rest.map Band.isubcat) = true then
        (if pvtypeFits (a.isubcat ++ b.isubcat) pv then .ok (some (a.isubcat ++ b.isubcat)) else .error "ValueError")
       else .ok none) := by
  unfold complexOrder
  by_cases hlen : (a :: b :: rest).length % 2 ≠ 0
  · rw [if_pos hlen]
    have : pairsAll (a.isubcat ++ b.isubcat) (rest.map Band.isubcat) ≠ true := by
      intro hp
      have := pairsAll_even _ _ hp
      simp only [List.length_map] at this
      simp only [List.length_cons] at hlen
      omega
    simp [this]
  · rw [if_neg hlen]
    have hr : rest.length % 2 = 0 := by simp only [List.length_cons] at hlen; omega
    have h0 : pairAt (a :: b :: rest) 0 = .ok (a.isubcat ++ b.isubcat) := rfl
    simp only [h0]
    by_cases ho : (a.isubcat ++ b.isubcat) ∈ orders
    · simp only [ho, not_true_eq_false, if_false, true_and]
      have hl := anyM_pairs (a.isubcat ++ b.isubcat) rest [a, b] hr
      have e1 : ([a, b] : List Band) ++ rest = a :: b :: rest := rfl
      have e2 : ([a, b] : List Band).length = 2 := rfl
      rw [e1, e2] at hl
      have e3 : (a :: b :: rest).length = 2 + rest.length := by simp only [List.length_cons]; omega
      rw [e3, hl]
      cases pairsAll (a.isubcat ++ b.isubcat) (rest.map Band.isubcat) <;> simp
    · simp [ho]

/-- no band pair at all: one band announces nothing; zero bands make the lookup of band 0 fail -/
theorem complexOrder_short (pv : String) (a : Band) : complexOrder pv [a] = .ok none ∧ complexOrder pv [] = .error "IndexError" := by
  constructor <;> rfl

example : complexOrder "R" [band "I" "", band "Q" "", band "I" "", band "Q" ""] = .ok (some "IQ") := by decide
example : complexOrder "R" [band "I" "", band "Q" "", band "Q" "", band "I" ""] = .ok none := by decide
example : complexOrder "INT" [band "I" "", band "Q" ""] = .error "ValueError" := by decide
/-- the labels are concatenated before they are compared: an empty label next to a two-letter one is read as that order -/
example : complexOrder "R" [band "" "", band "IQ" ""] = .ok (some "IQ") := by decide

/-! ### 5. NPPBH / NPPBV: one block covering the segment -/

open Sarpy.Spec.L in
/-- **(5)** for every segment of at least one row and one column: the writer's block fields (`0` beyond 8192, NBPR = NBPC = 1)
    pass the reader's two validity checks and its block-bound construction yields exactly one block, the whole segment -/
theorem writer_blocks (rows cols : Nat) (hr : 1 ≤ rows) (hc : 1 ≤ cols) :
    blockBounds rows cols (nppb rows) (nppb cols) 1 1 = some [((0 : Int), (rows : Int), (0 : Int), (cols : Int))] := by
  unfold blockBounds blocksFit Sarpy.Spec.K2.effBlock nppb
  have h1 : (1 : Int).toNat = 1 := rfl
  by_cases h8 : rows > 8192 <;> by_cases h9 : cols > 8192 <;>
    simp only [h8, h9, if_true, if_false, Nat.cast_zero, h1, blockGrid, blockRow, List.range_one, List.flatMap_cons, List.flatMap_nil,
      List.map_cons, List.map_nil, List.append_nil, Nat.cast_ofNat] <;>
    (rw [if_pos (by constructor <;> constructor <;> (try split_ifs) <;> omega)]; simp <;> split_ifs <;> omega)

open Sarpy.Spec.L in
/-- the same for `_construct_block_bounds` as regenerated from the source (Bridge/Loops.lean) -/
theorem gen_writer_blocks (rows cols : Nat) (hr : 1 ≤ rows) (hc : 1 ≤ cols) :
    Gen.L.construct_block_bounds rows cols (nppb rows) (nppb cols) 1 1 = .ok [((0 : Int), (rows : Int), (0 : Int), (cols : Int))] := by
  rw [Bridge.L.gen_construct_block_bounds, writer_blocks rows cols hr hc]

example : nppb 8192 = 8192 ∧ nppb 8193 = 0 := by decide

/-! ### 6. bytes: the raw dtype's byte order -/

/-- the `size` bytes of `n`, most significant first when `big` -/
def toBytesBE : Nat → Nat → List Nat
  | 0, _ => []
  | s + 1, n => (n / 256 ^ s) % 256 :: toBytesBE s n

def ofBytesBE (bs : List Nat) : Nat := bs.foldl (fun acc b => acc * 256 + b) 0

def toBytes (big : Bool) (size n : Nat) : List Nat := if big then toBytesBE size n else (toBytesBE size n).reverse
def ofBytes (big : Bool) (bs : List Nat) : Nat := if big then ofBytesBE bs else ofBytesBE bs.reverse

theorem ofBytesBE_aux (bs : List Nat) (acc : Nat) : bs.foldl (fun acc b => acc * 256 + b) acc = acc * 256 ^ bs.length + ofBytesBE bs := by
  induction bs generalizing acc with
  | nil => simp [ofBytesBE]
  | cons b rest ih =>
    simp only [List.foldl_cons, List.length_cons, ofBytesBE]
    rw [ih, ih (0 * 256 + b)]
    ring

theorem toBytesBE_length (s n : Nat) : (toBytesBE s n).length = s := by
  induction s with
  | zero => rfl
  | succ s ih => simp [toBytesBE, ih]

theorem ofBytesBE_toBytesBE (s n : Nat) : ofBytesBE (toBytesBE s n) = n % 256 ^ s := by
  induction s with
  | zero => simp [toBytesBE, ofBytesBE, Nat.mod_one]
  | succ s ih =>
    simp only [toBytesBE, ofBytesBE, List.foldl_cons]
    rw [ofBytesBE_aux, toBytesBE_length, ih]
    have h1 : n % 256 ^ (s + 1) = (n / 256 ^ s % 256) * 256 ^ s + n % 256 ^ s := by
      rw [Nat.pow_succ, Nat.mod_mul, Nat.mul_comm]
      omega
    rw [h1]; ring

/-- **a sample written with a raw dtype and read with the same dtype is unchanged** (any item size, either byte order) -/
theorem bytes_roundtrip (big : Bool) (size n : Nat) (hn : n < 256 ^ size) : ofBytes big (toBytes big size n) = n := by
  cases big <;> simp [ofBytes, toBytes, ofBytesBE_toBytesBE, Nat.mod_eq_of_lt hn]

/-- the byte order is not decoration: a two-byte sample read with the other order is another number -/
example : ofBytes false (toBytes true 2 1) = 256 := by decide
example : ofBytes true (toBytes true 2 0x1234) = 0x1234 ∧ toBytes true 2 0x1234 = [0x12, 0x34] := by decide

theorem map_roundtrip {α β : Type} (enc : α → β) (dec : β → α) (l : List α) (h : ∀ x ∈ l, dec (enc x) = x) : (l.map enc).map dec = l := by
  rw [List.map_map]
  conv_rhs => rw [← List.map_id l]
  exact List.map_congr_left (fun x hx => by simp [h x hx])

end Sarpy.Props.Hdr
