/-
  C12 — geodetic / ECF / local-frame conversions (sarpy/geometry/geocoords.py).

  The definitions of `Spec.Geo` are instantiated at ℝ (`Real.sin`, `Real.cos`, `Real.sqrt`, …) and the
  property's algebraic core is proved for all real inputs:

    * the NED and ENU matrices the code builds are orthogonal (both `M Mᵀ = 1` and `Mᵀ M = 1`) with
      determinant +1, for every latitude / longitude;
    * ECF→NED→ECF, NED→ECF→NED, ECF→ENU→ECF, ENU→ECF→ENU are identities in absolute and relative
      mode, for every reference point (whatever latitude / longitude the inverse returned for it);
      they preserve Euclidean length;
    * `wgs_84_norm` has unit length for every non-zero input;
    * the forward map puts height-0 points on the ellipsoid x²/a² + y²/a² + z²/b² = 1 (with the
      code's a, b), a point of height h is the surface point plus h times `wgs_84_norm` of the surface
      point, and that normal is the third ("up") column of the ENU matrix;
    * ordering (`latlong` / `longlat`) and array-shape handling are permutation / map lemmas.

  The closed-form inverse (`ecfToGeodeticLL`, Heikkinen's formulas as coded): this file states the full-strength
  proposition `C12_inverse_exact` (section 8) and proves the longitude component and the equatorial case (section 9);
  `Props/C12Inj.lean` proves injectivity of the forward map on the property's domain (latitude in [-90, 90], height above
  -b²/a), `Props/C12Inv.lean` proves `inverse_exact : C12_inverse_exact` (exactness over ℝ for every latitude in [-90, 90],
  longitude in (-180, 180] and height above -a(1-2e²), validity flag included, poles included).
-/
import SarpyModel.Spec.Geo
import Mathlib.Analysis.SpecialFunctions.Trigonometric.Basic
import Mathlib.Analysis.SpecialFunctions.Pow.Real
import Mathlib.Analysis.SpecialFunctions.Complex.Arg
import Mathlib.Analysis.Real.Sqrt
import Mathlib.Tactic.Ring
import Mathlib.Tactic.LinearCombination
import Mathlib.Tactic.FieldSimp
import Mathlib.Tactic.NormNum
import Mathlib.Tactic.Positivity
import Mathlib.Tactic.Linarith

namespace Sarpy.Props.C12
open Sarpy.Spec.Geo

/-- the scalar operations at ℝ -/
noncomputable instance instGeoScalarReal : GeoScalar ℝ where
  ofNat n := (n : ℝ)
  sqrt := Real.sqrt
  sin := Real.sin
  cos := Real.cos
  atan2 y x := Complex.arg ⟨x, y⟩
  pow x y := x ^ y
  abs x := |x|
  pi := Real.pi
  lt a b := decide (a < b)

@[simp] theorem ofNat_real (n : Nat) : (GeoScalar.ofNat n : ℝ) = (n : ℝ) := rfl
@[simp] theorem sqrt_real (x : ℝ) : GeoScalar.sqrt x = Real.sqrt x := rfl
@[simp] theorem sin_real (x : ℝ) : GeoScalar.sin x = Real.sin x := rfl
@[simp] theorem cos_real (x : ℝ) : GeoScalar.cos x = Real.cos x := rfl
@[simp] theorem pi_real : (GeoScalar.pi : ℝ) = Real.pi := rfl
@[simp] theorem abs_real (x : ℝ) : GeoScalar.abs x = |x| := rfl
@[simp] theorem lt_real (a b : ℝ) : GeoScalar.lt a b = decide (a < b) := rfl

/-! ## 1. vectors and matrices over ℝ -/

theorem V3.eq_iff (a b : V3 ℝ) : a = b ↔ a.x = b.x ∧ a.y = b.y ∧ a.z = b.z := by
  cases a; cases b; simp

theorem M3.eq_iff (a b : M3 ℝ) : a = b ↔ a.r0 = b.r0 ∧ a.r1 = b.r1 ∧ a.r2 = b.r2 := by
  cases a; cases b; simp

/-- squared Euclidean length -/
def normSq (v : V3 ℝ) : ℝ := v.x * v.x + v.y * v.y + v.z * v.z

/-- both one-sided inverse laws (numpy convention: vectors are rows, `v.dot(M)`) -/
def IsOrthogonal (m : M3 ℝ) : Prop :=
  matMul m m.transpose = M3.one ∧ matMul m.transpose m = M3.one

theorem vecMat_one (v : V3 ℝ) : vecMat v M3.one = v := by
  rw [V3.eq_iff]
  simp [vecMat, V3.dot, M3.one, M3.col0, M3.col1, M3.col2]

theorem vecMat_vecMat (v : V3 ℝ) (m n : M3 ℝ) : vecMat (vecMat v m) n = vecMat v (matMul m n) := by
  rw [V3.eq_iff]
  simp only [vecMat, V3.dot, matMul, M3.col0, M3.col1, M3.col2]
  refine ⟨?_, ?_, ?_⟩ <;> ring

theorem sub_add_cancel_v3 (v o : V3 ℝ) : V3.add (V3.sub v o) o = v := by
  rw [V3.eq_iff]; simp [V3.add, V3.sub]

theorem add_sub_cancel_v3 (v o : V3 ℝ) : V3.sub (V3.add v o) o = v := by
  rw [V3.eq_iff]; simp [V3.add, V3.sub]

/-- **generic round trip**: with an orthogonal matrix, `fromLocal` undoes `toLocal` in both modes -/
theorem fromLocal_toLocal (m : M3 ℝ) (h : IsOrthogonal m) (v orp : V3 ℝ) (absolute : Bool) :
    fromLocal m (toLocal m v orp absolute) orp absolute = v := by
  cases absolute <;> simp [fromLocal, toLocal, vecMat_vecMat, h.1, vecMat_one, sub_add_cancel_v3]

/-- … and `toLocal` undoes `fromLocal` -/
theorem toLocal_fromLocal (m : M3 ℝ) (h : IsOrthogonal m) (n orp : V3 ℝ) (absolute : Bool) :
    toLocal m (fromLocal m n orp absolute) orp absolute = n := by
  cases absolute <;> simp [fromLocal, toLocal, vecMat_vecMat, h.2, vecMat_one, add_sub_cancel_v3]

/-- an orthogonal matrix preserves Euclidean length -/
theorem normSq_vecMat (m : M3 ℝ) (h : IsOrthogonal m) (v : V3 ℝ) : normSq (vecMat v m) = normSq v := by
  have h1 := h.1
  rw [M3.eq_iff] at h1
  simp only [V3.eq_iff, matMul, vecMat, V3.dot, M3.transpose, M3.col0, M3.col1, M3.col2, M3.one, ofNat_real,
    Nat.cast_zero, Nat.cast_one] at h1
  obtain ⟨⟨a00, a01, a02⟩, ⟨a10, a11, a12⟩, ⟨a20, a21, a22⟩⟩ := h1
  simp only [normSq, vecMat, V3.dot, M3.col0, M3.col1, M3.col2]
  linear_combination (v.x * v.x) * a00 + (2 * v.x * v.y) * a01 + (2 * v.x * v.z) * a02
    + (v.y * v.y) * a11 + (2 * v.y * v.z) * a12 + (v.z * v.z) * a22

/-! ## 2. the NED / ENU matrices -/

/-- the matrix `matrix1.dot(matrix2)` of lines 179-185, multiplied out, from the two angle sines / cosines -/
def rot (c1 s1 c2 s2 : ℝ) : M3 ℝ :=
  ⟨⟨c1 * c2, -s1, c1 * s2⟩, ⟨s1 * c2, c1, s1 * s2⟩, ⟨-s2, 0, c2⟩⟩

/-- longitude angle `deg2rad(lon)` -/
noncomputable def angle1 (lon : ℝ) : ℝ := lon * (Real.pi / 180)
/-- latitude angle `deg2rad(-90 - lat)` -/
noncomputable def angle2 (lat : ℝ) : ℝ := (-90 - lat) * (Real.pi / 180)

theorem nedMatrix_eq (lat lon : ℝ) :
    nedMatrix lat lon = rot (Real.cos (angle1 lon)) (Real.sin (angle1 lon)) (Real.cos (angle2 lat)) (Real.sin (angle2 lat)) := by
  rw [M3.eq_iff]
  simp [nedMatrix, rot, matMul, vecMat, V3.dot, M3.col0, M3.col1, M3.col2, deg2rad, angle1, angle2]

theorem rot_orthogonal (c1 s1 c2 s2 : ℝ) (h1 : s1 * s1 + c1 * c1 = 1) (h2 : s2 * s2 + c2 * c2 = 1) :
    IsOrthogonal (rot c1 s1 c2 s2) := by
  constructor
  · rw [M3.eq_iff]
    simp only [V3.eq_iff, rot, matMul, vecMat, V3.dot, M3.transpose, M3.col0, M3.col1, M3.col2, M3.one, ofNat_real,
      Nat.cast_zero, Nat.cast_one]
    refine ⟨⟨?_, ?_, ?_⟩, ⟨?_, ?_, ?_⟩, ⟨?_, ?_, ?_⟩⟩
    · linear_combination (c1 * c1) * h2 + h1
    · linear_combination (c1 * s1) * h2
    · ring
    · linear_combination (c1 * s1) * h2
    · linear_combination (s1 * s1) * h2 + h1
    · ring
    · ring
    · ring
    · linear_combination h2
  · rw [M3.eq_iff]
    simp only [V3.eq_iff, rot, matMul, vecMat, V3.dot, M3.transpose, M3.col0, M3.col1, M3.col2, M3.one, ofNat_real,
      Nat.cast_zero, Nat.cast_one]
    refine ⟨⟨?_, ?_, ?_⟩, ⟨?_, ?_, ?_⟩, ⟨?_, ?_, ?_⟩⟩
    · linear_combination (c2 * c2) * h1 + h2
    · ring
    · linear_combination (c2 * s2) * h1
    · ring
    · linear_combination h1
    · ring
    · linear_combination (c2 * s2) * h1
    · ring
    · linear_combination (s2 * s2) * h1 + h2

theorem rot_det (c1 s1 c2 s2 : ℝ) (h1 : s1 * s1 + c1 * c1 = 1) (h2 : s2 * s2 + c2 * c2 = 1) :
    (rot c1 s1 c2 s2).det = 1 := by
  simp only [M3.det, rot]
  linear_combination (c2 * c2 + s2 * s2) * h1 + h2

theorem sin_cos_unit (t : ℝ) : Real.sin t * Real.sin t + Real.cos t * Real.cos t = 1 := by
  have := Real.sin_sq_add_cos_sq t
  nlinarith [this]

/-- **the ECF→NED matrix is orthogonal** for every latitude and longitude (degrees, any real) -/
theorem ned_matrix_orthogonal (lat lon : ℝ) : IsOrthogonal (nedMatrix lat lon) := by
  rw [nedMatrix_eq]
  exact rot_orthogonal _ _ _ _ (sin_cos_unit _) (sin_cos_unit _)

/-- … and a proper rotation -/
theorem ned_matrix_det (lat lon : ℝ) : (nedMatrix lat lon).det = 1 := by
  rw [nedMatrix_eq]
  exact rot_det _ _ _ _ (sin_cos_unit _) (sin_cos_unit _)

/-- the axis permutation `ned_to_enu` of line 266 is orthogonal -/
theorem nedToEnu_orthogonal : IsOrthogonal (nedToEnu : M3 ℝ) := by
  constructor <;>
  · rw [M3.eq_iff]
    simp [nedToEnu, matMul, vecMat, V3.dot, M3.transpose, M3.col0, M3.col1, M3.col2, M3.one]

theorem matMul_assoc (a b c : M3 ℝ) : matMul (matMul a b) c = matMul a (matMul b c) := by
  rw [M3.eq_iff]
  simp [matMul, vecMat_vecMat]

theorem transpose_matMul (a b : M3 ℝ) : (matMul a b).transpose = matMul b.transpose a.transpose := by
  rw [M3.eq_iff]
  simp only [V3.eq_iff, matMul, vecMat, V3.dot, M3.transpose, M3.col0, M3.col1, M3.col2]
  refine ⟨⟨?_, ?_, ?_⟩, ⟨?_, ?_, ?_⟩, ⟨?_, ?_, ?_⟩⟩ <;> ring

theorem matMul_one (a : M3 ℝ) : matMul a M3.one = a := by
  rw [M3.eq_iff]; simp [matMul, vecMat_one]

theorem one_matMul (a : M3 ℝ) : matMul M3.one a = a := by
  rw [M3.eq_iff]
  simp [matMul, vecMat, V3.dot, M3.col0, M3.col1, M3.col2, M3.one]

/-- a product of orthogonal matrices is orthogonal -/
theorem IsOrthogonal.mul {a b : M3 ℝ} (ha : IsOrthogonal a) (hb : IsOrthogonal b) : IsOrthogonal (matMul a b) := by
  constructor
  · rw [transpose_matMul, matMul_assoc, ← matMul_assoc b, hb.1, one_matMul, ha.1]
  · rw [transpose_matMul, matMul_assoc, ← matMul_assoc a.transpose, ha.2, one_matMul, hb.2]

/-- **the ECF→ENU matrix is orthogonal** for every latitude and longitude -/
theorem enu_matrix_orthogonal (lat lon : ℝ) : IsOrthogonal (enuMatrix lat lon) :=
  (ned_matrix_orthogonal lat lon).mul nedToEnu_orthogonal

theorem det_matMul (a b : M3 ℝ) : (matMul a b).det = a.det * b.det := by
  simp only [M3.det, matMul, vecMat, V3.dot, M3.col0, M3.col1, M3.col2]
  ring

theorem enu_matrix_det (lat lon : ℝ) : (enuMatrix lat lon).det = 1 := by
  rw [enuMatrix, det_matMul, ned_matrix_det]
  simp [M3.det, nedToEnu]

/-! ## 3. local-frame conversions invert each other (absolute and relative mode) -/

/-- ECF → NED → ECF, with the matrix of any latitude / longitude -/
theorem ned_roundtrip (lat lon : ℝ) (v orp : V3 ℝ) (absolute : Bool) :
    fromLocal (nedMatrix lat lon) (toLocal (nedMatrix lat lon) v orp absolute) orp absolute = v :=
  fromLocal_toLocal _ (ned_matrix_orthogonal lat lon) v orp absolute

/-- NED → ECF → NED -/
theorem ned_roundtrip' (lat lon : ℝ) (n orp : V3 ℝ) (absolute : Bool) :
    toLocal (nedMatrix lat lon) (fromLocal (nedMatrix lat lon) n orp absolute) orp absolute = n :=
  toLocal_fromLocal _ (ned_matrix_orthogonal lat lon) n orp absolute

/-- ECF → ENU → ECF -/
theorem enu_roundtrip (lat lon : ℝ) (v orp : V3 ℝ) (absolute : Bool) :
    fromLocal (enuMatrix lat lon) (toLocal (enuMatrix lat lon) v orp absolute) orp absolute = v :=
  fromLocal_toLocal _ (enu_matrix_orthogonal lat lon) v orp absolute

/-- ENU → ECF → ENU -/
theorem enu_roundtrip' (lat lon : ℝ) (n orp : V3 ℝ) (absolute : Bool) :
    toLocal (enuMatrix lat lon) (fromLocal (enuMatrix lat lon) n orp absolute) orp absolute = n :=
  toLocal_fromLocal _ (enu_matrix_orthogonal lat lon) n orp absolute

/-- the functions as the code composes them (reference point → inverse → latitude/longitude → matrix):
    whenever `ecf_to_ned` produces a row, `ned_to_ecf` with the same reference point returns the input -/
theorem ecfToNed_nedToEcf (v orp n : V3 ℝ) (absolute : Bool) (h : ecfToNed v orp absolute = some n) :
    nedToEcf n orp absolute = some v := by
  unfold ecfToNed at h
  unfold nedToEcf
  cases hll : orpLatLon orp with
  | none => simp [hll] at h
  | some ll =>
    simp only [hll, Option.map_some, Option.some.injEq] at h ⊢
    rw [← h]; exact ned_roundtrip _ _ _ _ _

theorem nedToEcf_ecfToNed (n orp v : V3 ℝ) (absolute : Bool) (h : nedToEcf n orp absolute = some v) :
    ecfToNed v orp absolute = some n := by
  unfold nedToEcf at h
  unfold ecfToNed
  cases hll : orpLatLon orp with
  | none => simp [hll] at h
  | some ll =>
    simp only [hll, Option.map_some, Option.some.injEq] at h ⊢
    rw [← h]; exact ned_roundtrip' _ _ _ _ _

theorem ecfToEnu_enuToEcf (v orp n : V3 ℝ) (absolute : Bool) (h : ecfToEnu v orp absolute = some n) :
    enuToEcf n orp absolute = some v := by
  unfold ecfToEnu at h
  unfold enuToEcf
  cases hll : orpLatLon orp with
  | none => simp [hll] at h
  | some ll =>
    simp only [hll, Option.map_some, Option.some.injEq] at h ⊢
    rw [← h]; exact enu_roundtrip _ _ _ _ _

theorem enuToEcf_ecfToEnu (n orp v : V3 ℝ) (absolute : Bool) (h : enuToEcf n orp absolute = some v) :
    ecfToEnu v orp absolute = some n := by
  unfold enuToEcf at h
  unfold ecfToEnu
  cases hll : orpLatLon orp with
  | none => simp [hll] at h
  | some ll =>
    simp only [hll, Option.map_some, Option.some.injEq] at h ⊢
    rw [← h]; exact enu_roundtrip' _ _ _ _ _

/-- rigid: relative-mode conversion preserves length, absolute-mode conversion preserves the distance to the
    reference point -/
theorem ned_preserves_length (lat lon : ℝ) (v orp : V3 ℝ) :
    normSq (toLocal (nedMatrix lat lon) v orp false) = normSq v ∧
    normSq (toLocal (nedMatrix lat lon) v orp true) = normSq (V3.sub v orp) := by
  simp [toLocal, normSq_vecMat _ (ned_matrix_orthogonal lat lon)]

theorem enu_preserves_length (lat lon : ℝ) (v orp : V3 ℝ) :
    normSq (toLocal (enuMatrix lat lon) v orp false) = normSq v ∧
    normSq (toLocal (enuMatrix lat lon) v orp true) = normSq (V3.sub v orp) := by
  simp [toLocal, normSq_vecMat _ (enu_matrix_orthogonal lat lon)]

/-- the reference point itself maps to the local origin (absolute mode) -/
theorem toLocal_orp (m : M3 ℝ) (orp : V3 ℝ) : toLocal m orp orp true = ⟨0, 0, 0⟩ := by
  rw [V3.eq_iff]
  simp [toLocal, vecMat, V3.dot, V3.sub]

/-! ## 4. the WGS-84 constants as the code derives them (lines 12-22), over ℝ -/

theorem cA_pos : 0 < (cA : ℝ) := by simp only [cA, ofNat_real]; norm_num
theorem cB_pos : 0 < (cB : ℝ) := by simp only [cB, cA, cF, ofNat_real]; norm_num
theorem cB_lt_cA : (cB : ℝ) < cA := by simp only [cB, cA, cF, ofNat_real]; norm_num
theorem cA2_pos : 0 < (cA2 : ℝ) := by unfold cA2; exact mul_pos cA_pos cA_pos
theorem cB2_pos : 0 < (cB2 : ℝ) := by unfold cB2; exact mul_pos cB_pos cB_pos
theorem cB2_lt_cA2 : (cB2 : ℝ) < cA2 := by
  unfold cA2 cB2; exact mul_lt_mul'' cB_lt_cA cB_lt_cA cB_pos.le cB_pos.le

/-- first eccentricity squared lies strictly between 0 and 1 -/
theorem cE2_pos : 0 < (cE2 : ℝ) := by
  unfold cE2; exact div_pos (sub_pos.2 cB2_lt_cA2) cA2_pos
theorem cE2_lt_one : (cE2 : ℝ) < 1 := by
  unfold cE2; rw [div_lt_one cA2_pos]; linarith [cB2_pos]

/-- `b² = a² (1 − e²)` -/
theorem cB2_eq : (cB2 : ℝ) = cA2 * (1 - cE2) := by
  unfold cE2; field_simp [cA2_pos.ne']; ring

/-- the semi-axes are the WGS-84 values: a = 6378137 m, 1/f = 298.257223563 -/
theorem constants_are_wgs84 : (cA : ℝ) = 6378137 ∧ ((cA : ℝ) - cB) / cA = 1 / 298.257223563 := by
  simp only [cB, cA, cF, ofNat_real]; norm_num

/-! ## 5. the ellipsoid normal -/

theorem unit_of_div_sqrt (a b c : ℝ) (h : 0 < a * a + b * b + c * c) :
    normSq ⟨a / Real.sqrt (a * a + b * b + c * c), b / Real.sqrt (a * a + b * b + c * c),
      c / Real.sqrt (a * a + b * b + c * c)⟩ = 1 := by
  have hs := Real.mul_self_sqrt h.le
  have hne : Real.sqrt (a * a + b * b + c * c) ≠ 0 := (Real.sqrt_pos.2 h).ne'
  simp only [normSq]
  generalize Real.sqrt (a * a + b * b + c * c) = s at hs hne ⊢
  field_simp
  nlinarith [hs]

/-- **`wgs_84_norm` returns a unit vector** for every ECF point other than the origin -/
theorem norm_unit (v : V3 ℝ) (hv : v ≠ ⟨0, 0, 0⟩) : normSq (wgs84Norm v) = 1 := by
  have hpos : 0 < (v.x / cA2) * (v.x / cA2) + (v.y / cA2) * (v.y / cA2) + (v.z / cB2) * (v.z / cB2) := by
    by_contra hcon
    have h0 := mul_self_nonneg (v.x / cA2)
    have h1 := mul_self_nonneg (v.y / cA2)
    have h2 := mul_self_nonneg (v.z / cB2)
    have e0 : v.x / cA2 = 0 := by nlinarith
    have e1 : v.y / cA2 = 0 := by nlinarith
    have e2 : v.z / cB2 = 0 := by nlinarith
    apply hv
    rw [V3.eq_iff]
    refine ⟨?_, ?_, ?_⟩
    · simpa [cA2_pos.ne'] using e0
    · simpa [cA2_pos.ne'] using e1
    · simpa [cB2_pos.ne'] using e2
  exact unit_of_div_sqrt _ _ _ hpos

/-- geodetic "up" at latitude / longitude (degrees): (cos φ cos λ, cos φ sin λ, sin φ) -/
noncomputable def up (lat lon : ℝ) : V3 ℝ :=
  ⟨Real.cos (lat * (Real.pi / 180)) * Real.cos (lon * (Real.pi / 180)),
   Real.cos (lat * (Real.pi / 180)) * Real.sin (lon * (Real.pi / 180)),
   Real.sin (lat * (Real.pi / 180))⟩

theorem up_unit (lat lon : ℝ) : normSq (up lat lon) = 1 := by
  simp only [normSq, up]
  have h1 := sin_cos_unit (lat * (Real.pi / 180))
  have h2 := sin_cos_unit (lon * (Real.pi / 180))
  linear_combination (Real.cos (lat * (Real.pi / 180)) * Real.cos (lat * (Real.pi / 180))) * h2 + h1

theorem sin_angle2 (lat : ℝ) : Real.sin (angle2 lat) = -Real.cos (lat * (Real.pi / 180)) := by
  have : angle2 lat = -(lat * (Real.pi / 180) + Real.pi / 2) := by unfold angle2; ring
  rw [this, Real.sin_neg, Real.sin_add_pi_div_two]

theorem cos_angle2 (lat : ℝ) : Real.cos (angle2 lat) = -Real.sin (lat * (Real.pi / 180)) := by
  have : angle2 lat = -(lat * (Real.pi / 180) + Real.pi / 2) := by unfold angle2; ring
  rw [this, Real.cos_neg, Real.cos_add_pi_div_two]

/-- the third ENU axis, written out -/
theorem enu_col2 (lat lon : ℝ) : (enuMatrix lat lon).col2 = up lat lon := by
  rw [enuMatrix, nedMatrix_eq, V3.eq_iff]
  simp [rot, nedToEnu, matMul, vecMat, V3.dot, M3.col0, M3.col1, M3.col2, up, sin_angle2, cos_angle2, angle1]
  constructor <;> ring

/-- the first ENU axis is east (−sin λ, cos λ, 0), the second is north (−sin φ cos λ, −sin φ sin λ, cos φ) -/
theorem enu_col0 (lat lon : ℝ) :
    (enuMatrix lat lon).col0 = ⟨-Real.sin (lon * (Real.pi / 180)), Real.cos (lon * (Real.pi / 180)), 0⟩ := by
  rw [enuMatrix, nedMatrix_eq, V3.eq_iff]
  simp [rot, nedToEnu, matMul, vecMat, V3.dot, M3.col0, M3.col1, M3.col2, angle1]

theorem enu_col1 (lat lon : ℝ) :
    (enuMatrix lat lon).col1 =
      ⟨-(Real.sin (lat * (Real.pi / 180)) * Real.cos (lon * (Real.pi / 180))),
       -(Real.sin (lat * (Real.pi / 180)) * Real.sin (lon * (Real.pi / 180))),
       Real.cos (lat * (Real.pi / 180))⟩ := by
  rw [enuMatrix, nedMatrix_eq, V3.eq_iff]
  simp [rot, nedToEnu, matMul, vecMat, V3.dot, M3.col0, M3.col1, M3.col2, sin_angle2, cos_angle2, angle1]
  constructor <;> ring

/-- NED: north, east, down = −up -/
theorem ned_cols (lat lon : ℝ) :
    (nedMatrix lat lon).col0 = (enuMatrix lat lon).col1 ∧ (nedMatrix lat lon).col1 = (enuMatrix lat lon).col0 ∧
    (nedMatrix lat lon).col2 = V3.smul (-1) (up lat lon) := by
  rw [← enu_col2]
  simp [enuMatrix, nedToEnu, matMul, vecMat, V3.dot, M3.col0, M3.col1, M3.col2, V3.smul]

/-! ## 6. the forward map -/

/-- 1 − e² sin² φ is positive -/
theorem W_pos (lat : ℝ) :
    0 < 1 - cE2 * Real.sin (lat * (Real.pi / 180)) * Real.sin (lat * (Real.pi / 180)) := by
  have h := sin_cos_unit (lat * (Real.pi / 180))
  have hc := mul_self_nonneg (Real.cos (lat * (Real.pi / 180)))
  have hs := mul_self_nonneg (Real.sin (lat * (Real.pi / 180)))
  nlinarith [cE2_pos, cE2_lt_one]

theorem primeVertical_eq (lat : ℝ) :
    primeVertical lat = cA / Real.sqrt (1 - cE2 * Real.sin (lat * (Real.pi / 180)) * Real.sin (lat * (Real.pi / 180))) := by
  simp [primeVertical, deg2rad]

theorem primeVertical_pos (lat : ℝ) : 0 < primeVertical lat := by
  rw [primeVertical_eq]; exact div_pos cA_pos (Real.sqrt_pos.2 (W_pos lat))

/-- N² (1 − e² sin² φ) = a² -/
theorem primeVertical_sq (lat : ℝ) :
    primeVertical lat * primeVertical lat *
      (1 - cE2 * Real.sin (lat * (Real.pi / 180)) * Real.sin (lat * (Real.pi / 180))) = cA2 := by
  rw [primeVertical_eq]
  have hs := Real.mul_self_sqrt (W_pos lat).le
  have hne := (Real.sqrt_pos.2 (W_pos lat)).ne'
  unfold cA2
  generalize Real.sin (lat * (Real.pi / 180)) = sp at hs hne ⊢
  generalize Real.sqrt (1 - cE2 * sp * sp) = s at hs hne ⊢
  field_simp
  linear_combination (-(cA : ℝ) ^ 2) * hs

theorem geodeticToEcfLL_eq (lat lon h : ℝ) :
    geodeticToEcfLL lat lon h =
      ⟨(primeVertical lat + h) * Real.cos (lat * (Real.pi / 180)) * Real.cos (lon * (Real.pi / 180)),
       (primeVertical lat + h) * Real.cos (lat * (Real.pi / 180)) * Real.sin (lon * (Real.pi / 180)),
       (primeVertical lat + h - cE2 * primeVertical lat) * Real.sin (lat * (Real.pi / 180))⟩ := by
  simp [geodeticToEcfLL, deg2rad]

/-- **a point of height h is the height-0 point moved h along `up`** (any real h) -/
theorem forward_eq_surface_add_up (lat lon h : ℝ) :
    geodeticToEcfLL lat lon h = V3.add (geodeticToEcfLL lat lon 0) (V3.smul h (up lat lon)) := by
  rw [geodeticToEcfLL_eq, geodeticToEcfLL_eq, V3.eq_iff]
  simp only [V3.add, V3.smul, up]
  refine ⟨?_, ?_, ?_⟩ <;> ring

/-- **height-0 points lie on the ellipsoid** x²/a² + y²/a² + z²/b² = 1 with the code's a and b -/
theorem forward_on_ellipsoid (lat lon : ℝ) :
    (geodeticToEcfLL lat lon 0).x * (geodeticToEcfLL lat lon 0).x / cA2
      + (geodeticToEcfLL lat lon 0).y * (geodeticToEcfLL lat lon 0).y / cA2
      + (geodeticToEcfLL lat lon 0).z * (geodeticToEcfLL lat lon 0).z / cB2 = 1 := by
  rw [geodeticToEcfLL_eq, cB2_eq]
  have hN := primeVertical_sq lat
  have h1 := sin_cos_unit (lat * (Real.pi / 180))
  have h2 := sin_cos_unit (lon * (Real.pi / 180))
  have hA := cA2_pos.ne'
  have hE : (1 : ℝ) - cE2 ≠ 0 := by linarith [cE2_lt_one]
  generalize primeVertical lat = N at *
  generalize Real.sin (lat * (Real.pi / 180)) = sp at *
  generalize Real.cos (lat * (Real.pi / 180)) = cp at *
  generalize Real.sin (lon * (Real.pi / 180)) = sl at *
  generalize Real.cos (lon * (Real.pi / 180)) = cl at *
  generalize (cE2 : ℝ) = e at *
  generalize (cA2 : ℝ) = A2 at *
  dsimp only
  field_simp
  linear_combination (N * N * cp * cp * (1 - e)) * h2 + (N * N * (1 - e)) * h1 + (1 - e) * hN

/-- for every height: (x² + y²)/(N+h)² + z²/(N(1−e²)+h)² = 1, the scaled-ellipse form of lines 128-130
    (N the prime-vertical radius at that latitude), wherever the two denominators do not vanish -/
theorem forward_on_scaled_ellipsoid (lat lon h : ℝ) (h1 : primeVertical lat + h ≠ 0)
    (h2 : primeVertical lat + h - cE2 * primeVertical lat ≠ 0) :
    ((geodeticToEcfLL lat lon h).x * (geodeticToEcfLL lat lon h).x
        + (geodeticToEcfLL lat lon h).y * (geodeticToEcfLL lat lon h).y)
        / ((primeVertical lat + h) * (primeVertical lat + h))
      + (geodeticToEcfLL lat lon h).z * (geodeticToEcfLL lat lon h).z
        / ((primeVertical lat + h - cE2 * primeVertical lat) * (primeVertical lat + h - cE2 * primeVertical lat)) = 1 := by
  rw [geodeticToEcfLL_eq]
  have e1 := sin_cos_unit (lat * (Real.pi / 180))
  have e2 := sin_cos_unit (lon * (Real.pi / 180))
  generalize primeVertical lat = N at *
  generalize Real.sin (lat * (Real.pi / 180)) = sp at *
  generalize Real.cos (lat * (Real.pi / 180)) = cp at *
  generalize Real.sin (lon * (Real.pi / 180)) = sl at *
  generalize Real.cos (lon * (Real.pi / 180)) = cl at *
  generalize (cE2 : ℝ) = e at *
  dsimp only
  rw [div_add_div _ _ (mul_ne_zero h1 h1) (mul_ne_zero h2 h2), div_eq_one_iff_eq (mul_ne_zero (mul_ne_zero h1 h1) (mul_ne_zero h2 h2))]
  linear_combination ((N + h) ^ 2 * (N + h - e * N) ^ 2 * cp * cp) * e2 + ((N + h) ^ 2 * (N + h - e * N) ^ 2) * e1

/-- a positive multiple of a unit vector, normalised as `wgs_84_norm` does it, is that unit vector -/
theorem normalise_scaled_unit (k : ℝ) (hk : 0 < k) (u : V3 ℝ) (hu : normSq u = 1) :
    (⟨k * u.x / Real.sqrt (k * u.x * (k * u.x) + k * u.y * (k * u.y) + k * u.z * (k * u.z)),
      k * u.y / Real.sqrt (k * u.x * (k * u.x) + k * u.y * (k * u.y) + k * u.z * (k * u.z)),
      k * u.z / Real.sqrt (k * u.x * (k * u.x) + k * u.y * (k * u.y) + k * u.z * (k * u.z))⟩ : V3 ℝ) = u := by
  have hS : k * u.x * (k * u.x) + k * u.y * (k * u.y) + k * u.z * (k * u.z) = k * k := by
    simp only [normSq] at hu
    linear_combination (k * k) * hu
  rw [hS, Real.sqrt_mul_self hk.le, V3.eq_iff]
  refine ⟨?_, ?_, ?_⟩ <;> field_simp

/-- **the ellipsoid normal at a height-0 point is the geodetic up direction** -/
theorem norm_surface_eq_up (lat lon : ℝ) : wgs84Norm (geodeticToEcfLL lat lon 0) = up lat lon := by
  have hk : 0 < primeVertical lat / cA2 := div_pos (primeVertical_pos lat) cA2_pos
  have hE : (1 : ℝ) - cE2 ≠ 0 := by linarith [cE2_lt_one]
  have hA := cA2_pos.ne'
  have key := normalise_scaled_unit _ hk (up lat lon) (up_unit lat lon)
  have gx : (geodeticToEcfLL lat lon 0).x / cA2 = primeVertical lat / cA2 * (up lat lon).x := by
    rw [geodeticToEcfLL_eq]; simp only [up]; field_simp; ring
  have gy : (geodeticToEcfLL lat lon 0).y / cA2 = primeVertical lat / cA2 * (up lat lon).y := by
    rw [geodeticToEcfLL_eq]; simp only [up]; field_simp; ring
  have gz : (geodeticToEcfLL lat lon 0).z / cB2 = primeVertical lat / cA2 * (up lat lon).z := by
    rw [geodeticToEcfLL_eq, cB2_eq]; simp only [up]; field_simp; ring
  simp only [wgs84Norm, sqrt_real, gx, gy, gz]
  exact key

/-- **the ENU up axis equals the ellipsoid normal** (third column of the ECF→ENU matrix built from a latitude /
    longitude = `wgs_84_norm` of the ellipsoid point with that latitude / longitude) -/
theorem enu_up_eq_normal (lat lon : ℝ) : (enuMatrix lat lon).col2 = wgs84Norm (geodeticToEcfLL lat lon 0) := by
  rw [enu_col2, norm_surface_eq_up]

/-- **the forward map is "surface point plus height times ellipsoid normal"**: the WGS-84 definition of height -/
theorem forward_height_along_normal (lat lon h : ℝ) :
    geodeticToEcfLL lat lon h =
      V3.add (geodeticToEcfLL lat lon 0) (V3.smul h (wgs84Norm (geodeticToEcfLL lat lon 0))) := by
  rw [norm_surface_eq_up]; exact forward_eq_surface_add_up lat lon h

/-- seen from the height-0 point in its own ENU frame, the point of height h is (0, 0, h) -/
theorem enu_of_raised_point (lat lon h : ℝ) :
    toLocal (enuMatrix lat lon) (geodeticToEcfLL lat lon h) (geodeticToEcfLL lat lon 0) true = ⟨0, 0, h⟩ := by
  have hd : V3.sub (geodeticToEcfLL lat lon h) (geodeticToEcfLL lat lon 0) = V3.smul h (up lat lon) := by
    rw [forward_eq_surface_add_up lat lon h, V3.eq_iff]
    simp [V3.add, V3.sub, V3.smul]
  have e1 := sin_cos_unit (lat * (Real.pi / 180))
  have e2 := sin_cos_unit (lon * (Real.pi / 180))
  simp only [toLocal, if_true, hd, vecMat, enu_col0, enu_col1, enu_col2]
  rw [V3.eq_iff]
  simp only [V3.dot, V3.smul, up]
  refine ⟨?_, ?_, ?_⟩
  · ring
  · linear_combination (-(h * Real.cos (lat * (Real.pi / 180)) * Real.sin (lat * (Real.pi / 180)))) * e2
  · linear_combination (h * Real.cos (lat * (Real.pi / 180)) * Real.cos (lat * (Real.pi / 180))) * e2 + h * e1

/-! ## 7. coordinate ordering and array shape -/

/-- `ordering='longlat'` on `[lon, lat, h]` is `ordering='latlong'` on `[lat, lon, h]` (any scalar type) -/
theorem forward_ordering {α : Type} [Add α] [Sub α] [Mul α] [Div α] [Neg α] [GeoScalar α] (lat lon h : α) :
    geodeticToEcf true ⟨lon, lat, h⟩ = geodeticToEcf false ⟨lat, lon, h⟩ := rfl

/-- the two orderings of the inverse differ by swapping the first two outputs; validity does not depend on it -/
theorem inverse_ordering {α : Type} [Add α] [Sub α] [Mul α] [Div α] [Neg α] [GeoScalar α] (v : V3 α) :
    ecfToGeodetic true v = (ecfToGeodetic false v).map (fun g => ⟨g.y, g.x, g.z⟩) := by
  unfold ecfToGeodetic
  cases ecfValid v <;> simp

/-- height is the third component in either ordering -/
theorem inverse_height_ordering {α : Type} [Add α] [Sub α] [Mul α] [Div α] [Neg α] [GeoScalar α] (v : V3 α) :
    (ecfToGeodetic true v).map (·.z) = (ecfToGeodetic false v).map (·.z) := by
  unfold ecfToGeodetic
  cases ecfValid v <;> simp

/-- row-wise: an (n, 3) array gives an (n, 3) array whose row i depends on input row i only -/
theorem forward_arr_length {α : Type} [Add α] [Sub α] [Mul α] [Div α] [Neg α] [GeoScalar α] (o : Bool) (rows : List (V3 α)) :
    (geodeticToEcfArr o rows).length = rows.length := by simp [geodeticToEcfArr]

theorem forward_arr_get {α : Type} [Add α] [Sub α] [Mul α] [Div α] [Neg α] [GeoScalar α] (o : Bool) (rows : List (V3 α))
    (i : Nat) (hi : i < rows.length) :
    (geodeticToEcfArr o rows)[i]'(by simpa [geodeticToEcfArr] using hi) = geodeticToEcf o rows[i] := by
  simp [geodeticToEcfArr]

theorem inverse_arr_length {α : Type} [Add α] [Sub α] [Mul α] [Div α] [Neg α] [GeoScalar α] (o : Bool) (rows : List (V3 α)) :
    (ecfToGeodeticArr o rows).length = rows.length := by simp [ecfToGeodeticArr]

theorem inverse_arr_get {α : Type} [Add α] [Sub α] [Mul α] [Div α] [Neg α] [GeoScalar α] (o : Bool) (rows : List (V3 α))
    (i : Nat) (hi : i < rows.length) :
    (ecfToGeodeticArr o rows)[i]'(by simpa [ecfToGeodeticArr] using hi) = ecfToGeodetic o rows[i] := by
  simp [ecfToGeodeticArr]

/-- concatenating arrays and converting = converting and concatenating (chunk independence) -/
theorem forward_arr_append {α : Type} [Add α] [Sub α] [Mul α] [Div α] [Neg α] [GeoScalar α] (o : Bool) (a b : List (V3 α)) :
    geodeticToEcfArr o (a ++ b) = geodeticToEcfArr o a ++ geodeticToEcfArr o b := by simp [geodeticToEcfArr]

theorem unflatten_flatten {β : Type} (a : List (List β)) : unflatten (a.map List.length) a.flatten = a := by
  induction a with
  | nil => rfl
  | cons l rest ih => simp [unflatten, ih]

/-- **shape (m, n, 3)**: flatten – convert row-wise – reshape back is the same as converting every row in place -/
theorem forward_nested {α : Type} [Add α] [Sub α] [Mul α] [Div α] [Neg α] [GeoScalar α] (o : Bool) (a : List (List (V3 α))) :
    geodeticToEcfNested o a = a.map (fun block => block.map (geodeticToEcf o)) := by
  unfold geodeticToEcfNested geodeticToEcfArr
  have h := unflatten_flatten (a.map (fun block => block.map (geodeticToEcf o)))
  simp only [List.map_map] at h
  rw [List.map_flatten]
  convert h using 2
  apply List.map_congr_left
  intro l _
  simp

/-! ## 8. domain facts, the unproved full statement, instances -/

/-- N ≥ a -/
theorem primeVertical_ge (lat : ℝ) : (cA : ℝ) ≤ primeVertical lat := by
  rw [primeVertical_eq]
  have hW := W_pos lat
  have hs := mul_self_nonneg (Real.sin (lat * (Real.pi / 180)))
  have hle : Real.sqrt (1 - cE2 * Real.sin (lat * (Real.pi / 180)) * Real.sin (lat * (Real.pi / 180))) ≤ 1 := by
    rw [Real.sqrt_le_one]; nlinarith [cE2_pos]
  rw [le_div_iff₀ (Real.sqrt_pos.2 hW)]
  nlinarith [cA_pos]

/-- for every height above −b²/a (≈ −6 335 439 m, the smallest radius of curvature) the two denominators of
    `forward_on_scaled_ellipsoid` are positive, so that theorem applies on the whole domain of the property -/
theorem forward_denominators_pos (lat h : ℝ) (hh : -(cB2 / cA) < h) :
    0 < primeVertical lat + h ∧ 0 < primeVertical lat + h - cE2 * primeVertical lat := by
  have hN := primeVertical_ge lat
  have hb : (cB2 : ℝ) / cA = cA * (1 - cE2) := by
    rw [cB2_eq]; unfold cA2; field_simp [cA_pos.ne']
  have h1 : (0 : ℝ) < 1 - cE2 := by linarith [cE2_lt_one]
  rw [hb] at hh
  constructor
  · nlinarith [cE2_pos, cA_pos]
  · nlinarith [cE2_pos, cA_pos]

/-- for fixed latitude / longitude the forward map is injective in the height -/
theorem forward_injective_in_height (lat lon h h' : ℝ)
    (heq : geodeticToEcfLL lat lon h = geodeticToEcfLL lat lon h') : h = h' := by
  rw [forward_eq_surface_add_up lat lon h, forward_eq_surface_add_up lat lon h', V3.eq_iff] at heq
  simp only [V3.add, V3.smul, add_right_inj] at heq
  obtain ⟨hx, hy, hz⟩ := heq
  have hu := up_unit lat lon
  simp only [normSq] at hu
  have : (h - h') * 1 = 0 := by
    rw [← hu]
    linear_combination (up lat lon).x * hx + (up lat lon).y * hy + (up lat lon).z * hz
  linarith

/-- **the full-strength statement about the closed-form inverse**: over ℝ, the formulas of lines 57-91 invert the forward map
    exactly on the property's domain (away from the poles the longitude is recovered in (−180, 180]; at a pole the code
    returns longitude 0).  This is the definition of the proposition; it is PROVED as `inverse_exact` in
    `Props/C12Inv.lean` (on the larger height domain h > −a(1−2e²)).  The check additionally ties the floating-point
    evaluation numerically: sarpy's results against a 50-digit forward evaluation, on a seeded grid. -/
def C12_inverse_exact : Prop :=
  (∀ lat lon h : ℝ, -90 < lat → lat < 90 → -180 < lon → lon ≤ 180 → -10000 ≤ h →
      ecfToGeodetic false (geodeticToEcfLL lat lon h) = some ⟨lat, lon, h⟩) ∧
  (∀ lon h : ℝ, -10000 ≤ h →
      ecfToGeodetic false (geodeticToEcfLL 90 lon h) = some ⟨90, 0, h⟩ ∧
      ecfToGeodetic false (geodeticToEcfLL (-90) lon h) = some ⟨-90, 0, h⟩)

/-! ## 9. what is proved about the closed-form inverse (partial) -/

@[simp] theorem atan2_real (y x : ℝ) : GeoScalar.atan2 y x = Complex.arg ⟨x, y⟩ := rfl

theorem arg_polar (p θ : ℝ) (hp : 0 < p) (hθ : θ ∈ Set.Ioc (-Real.pi) Real.pi) :
    Complex.arg ⟨p * Real.cos θ, p * Real.sin θ⟩ = θ := by
  have : (⟨p * Real.cos θ, p * Real.sin θ⟩ : ℂ) = (p : ℂ) * (Complex.cos θ + Complex.sin θ * Complex.I) := by
    apply Complex.ext <;> simp [← Complex.ofReal_cos, ← Complex.ofReal_sin]
  rw [this]; exact Complex.arg_mul_cos_add_sin_mul_I hp hθ

theorem lon_component (v : V3 ℝ) : (ecfToGeodeticLL v).y = Complex.arg ⟨v.x, v.y⟩ * (180 / Real.pi) := by
  simp [ecfToGeodeticLL, rad2deg]

/-- **partial (longitude only)**: away from the polar axis the inverse returns exactly the longitude that went into the
    forward map, for every longitude in (−180, 180].  (Latitude and height: `inverse_lat_height_exact` in `Props/C12Inv.lean`.) -/
theorem inverse_lon_exact_partial (lat lon h : ℝ)
    (hp : 0 < (primeVertical lat + h) * Real.cos (lat * (Real.pi / 180))) (h1 : -180 < lon) (h2 : lon ≤ 180) :
    (ecfToGeodeticLL (geodeticToEcfLL lat lon h)).y = lon := by
  rw [lon_component, geodeticToEcfLL_eq]
  have hpi := Real.pi_pos
  have hθ : lon * (Real.pi / 180) ∈ Set.Ioc (-Real.pi) Real.pi := by
    constructor
    · nlinarith [mul_pos (by linarith : (0 : ℝ) < lon + 180) hpi]
    · nlinarith [mul_nonneg (by linarith : (0 : ℝ) ≤ 180 - lon) hpi.le]
  rw [arg_polar _ _ hp hθ]
  field_simp

/-- the closed-form inverse on the equatorial plane z = 0 (outside the disc of radius e²a ≈ 42.7 km that the validity
    test excludes): latitude 0, longitude = atan2(y, x), height = √(x²+y²) − a -/
theorem inverse_equatorial_plane (x y : ℝ) (hr : cE2 * cA < Real.sqrt (x * x + y * y)) :
    ecfToGeodeticLL ⟨x, y, 0⟩ = ⟨0, Complex.arg ⟨x, y⟩ * (180 / Real.pi), Real.sqrt (x * x + y * y) - cA⟩ := by
  rw [V3.eq_iff]
  generalize hrr : Real.sqrt (x * x + y * y) = r at hr
  simp [ecfToGeodeticLL, heikR0, heikQ, heikP, heikS, heikC, heikG, heikF, rad2deg, hrr]
  have hA := cA_pos
  have hR0 : (Real.sqrt 2)⁻¹ * Real.sqrt |(cA2 : ℝ)| * Real.sqrt |(1:ℝ) + 1| = cA := by
    have h2 : |(1:ℝ) + 1| = 2 := by norm_num
    rw [h2, abs_of_pos cA2_pos]
    unfold cA2
    rw [Real.sqrt_mul_self hA.le]
    have : Real.sqrt 2 ≠ 0 := by positivity
    field_simp
  rw [hR0]
  have hT : 0 < r - cE2 * cA := by linarith
  have hr0 : 0 ≤ r := by nlinarith [cE2_pos]
  rw [Real.sqrt_mul_self hT.le]
  constructor
  · exact Complex.arg_ofReal_of_nonneg hr0
  · have hne := hT.ne'
    rw [cB2_eq]; unfold cA2; field_simp; ring

/-- the forward map at latitude 0 -/
theorem forward_equator (lon h : ℝ) :
    geodeticToEcfLL 0 lon h = ⟨(cA + h) * Real.cos (lon * (Real.pi / 180)), (cA + h) * Real.sin (lon * (Real.pi / 180)), 0⟩ := by
  rw [geodeticToEcfLL_eq, primeVertical_eq, V3.eq_iff]
  simp

/-- the validity test of line 66 on the equatorial plane is r > e²a -/
theorem ecfValid_equatorial (x y : ℝ) (hr : cE2 * cA < Real.sqrt (x * x + y * y)) : ecfValid (⟨x, y, 0⟩ : V3 ℝ) = true := by
  generalize hrr : Real.sqrt (x * x + y * y) = r at hr
  simp only [ecfValid, sqrt_real, lt_real, hrr, decide_eq_true_eq]
  have hA := cA_pos
  have hE : (cA2 : ℝ) - cB2 = cE2 * cA * cA := by
    rw [cB2_eq]; unfold cA2; ring
  rw [hE]
  have h0 : (0 : ℝ) < cE2 * cA := mul_pos cE2_pos hA
  nlinarith [mul_pos h0 hA, mul_pos (sub_pos.2 hr) hA, mul_pos hA hA]

/-- **partial (latitude 0 only)**: on the equator the closed-form inverse inverts the forward map exactly, for every longitude
    in (−180, 180] and every height above −b²/a, including the validity flag.  (Kept under its historical name; the general
    case is `inverse_exact_on_domain` in `Props/C12Inv.lean`.  Here the height domain is the larger h > −b²/a.) -/
theorem inverse_exact_on_equator_partial (lon h : ℝ) (h1 : -180 < lon) (h2 : lon ≤ 180) (hh : -(cB2 / cA) < h) :
    ecfToGeodetic false (geodeticToEcfLL 0 lon h) = some ⟨0, lon, h⟩ := by
  have hA := cA_pos
  have hb : (cB2 : ℝ) / cA = cA * (1 - cE2) := by
    rw [cB2_eq]; unfold cA2; field_simp
  rw [hb] at hh
  have hp : 0 < cA + h := by nlinarith [cE2_pos, cE2_lt_one]
  have hpi := Real.pi_pos
  have hθ : lon * (Real.pi / 180) ∈ Set.Ioc (-Real.pi) Real.pi := by
    constructor
    · nlinarith [mul_pos (by linarith : (0 : ℝ) < lon + 180) hpi]
    · nlinarith [mul_nonneg (by linarith : (0 : ℝ) ≤ 180 - lon) hpi.le]
  have hr : Real.sqrt ((cA + h) * Real.cos (lon * (Real.pi / 180)) * ((cA + h) * Real.cos (lon * (Real.pi / 180)))
      + (cA + h) * Real.sin (lon * (Real.pi / 180)) * ((cA + h) * Real.sin (lon * (Real.pi / 180)))) = cA + h := by
    have e := sin_cos_unit (lon * (Real.pi / 180))
    have : (cA + h) * Real.cos (lon * (Real.pi / 180)) * ((cA + h) * Real.cos (lon * (Real.pi / 180)))
      + (cA + h) * Real.sin (lon * (Real.pi / 180)) * ((cA + h) * Real.sin (lon * (Real.pi / 180))) = (cA + h) * (cA + h) := by
      linear_combination ((cA + h) * (cA + h)) * e
    rw [this, Real.sqrt_mul_self hp.le]
  have hbig : cE2 * cA < cA + h := by nlinarith
  rw [forward_equator]
  unfold ecfToGeodetic
  rw [ecfValid_equatorial _ _ (by rw [hr]; exact hbig), if_pos rfl]
  simp only [Bool.false_eq_true, if_false]
  rw [inverse_equatorial_plane _ _ (by rw [hr]; exact hbig), hr, arg_polar _ _ hp hθ]
  congr 2
  · field_simp
  · ring

/-! ### the hypotheses are satisfiable on concrete instances -/

/-- a non-zero ECF point -/
example : normSq (wgs84Norm (⟨6378137, 0, 0⟩ : V3 ℝ)) = 1 :=
  norm_unit _ (by rw [Ne, V3.eq_iff]; norm_num)

/-- the whole height range of the property satisfies the denominator hypotheses -/
example (lat lon h : ℝ) (hh : -10000 ≤ h) :
    ((geodeticToEcfLL lat lon h).x * (geodeticToEcfLL lat lon h).x
        + (geodeticToEcfLL lat lon h).y * (geodeticToEcfLL lat lon h).y)
        / ((primeVertical lat + h) * (primeVertical lat + h))
      + (geodeticToEcfLL lat lon h).z * (geodeticToEcfLL lat lon h).z
        / ((primeVertical lat + h - cE2 * primeVertical lat) * (primeVertical lat + h - cE2 * primeVertical lat)) = 1 := by
  have hb : -((cB2 : ℝ) / cA) < -10000 := by
    simp only [cB2, cB, cA, cF, ofNat_real]; norm_num
  obtain ⟨h1, h2⟩ := forward_denominators_pos lat h (by linarith)
  exact forward_on_scaled_ellipsoid lat lon h h1.ne' h2.ne'

/-- latitude 0, longitude 0, height 0 is the point (a, 0, 0); its ENU frame is east = +y, north = +z, up = +x -/
example : geodeticToEcfLL (0 : ℝ) 0 0 = ⟨6378137, 0, 0⟩ := by
  rw [geodeticToEcfLL_eq, primeVertical_eq, V3.eq_iff]
  simp [cA]

example : up 0 0 = ⟨1, 0, 0⟩ := by simp [up]

/-- an orthogonal matrix that is not the identity: the frame at latitude 0, longitude 0 -/
example : IsOrthogonal (enuMatrix 0 0) ∧ (enuMatrix (0 : ℝ) 0).col2 = ⟨1, 0, 0⟩ :=
  ⟨enu_matrix_orthogonal 0 0, by rw [enu_col2]; simp [up]⟩

/-- a concrete local-frame round trip with a reference point off the axes, both modes -/
example (absolute : Bool) :
    fromLocal (nedMatrix 34.5 (-118.25)) (toLocal (nedMatrix 34.5 (-118.25)) ⟨1, 2, 3⟩ ⟨-2491110, -4636181, 3592991⟩ absolute)
      ⟨-2491110, -4636181, 3592991⟩ absolute = (⟨1, 2, 3⟩ : V3 ℝ) :=
  ned_roundtrip _ _ _ _ _

/-- the equator theorem applies on the whole height range of the property -/
example : ecfToGeodetic false (geodeticToEcfLL (0 : ℝ) 100 (-10000)) = some ⟨0, 100, -10000⟩ :=
  inverse_exact_on_equator_partial 100 (-10000) (by norm_num) (by norm_num)
    (by simp only [cB2, cB, cA, cF, ofNat_real]; norm_num)

/-- the longitude theorem's hypothesis (positive distance from the polar axis) holds e.g. at latitude 0 -/
example : (ecfToGeodeticLL (geodeticToEcfLL (0 : ℝ) (-118.25) 1234.5)).y = -118.25 :=
  inverse_lon_exact_partial 0 (-118.25) 1234.5
    (by have := primeVertical_pos 0; simp only [zero_mul, Real.cos_zero, mul_one]; linarith) (by norm_num) (by norm_num)

end Sarpy.Props.C12
