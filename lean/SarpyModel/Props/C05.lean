/-
  C05 — metadata structures survive XML, dict and copy round trips without loss.

  Unbounded theorems about the table-driven codec of `Spec.XmlFmt` (the model of `Serializable.to_node / from_node /
  to_dict / from_dict / copy`, sarpy/io/xml/base.py): for EVERY well-formed set of class tables (`WF`, decidable; the tables
  of the current source are regenerated on every run and `WF` is re-decided in `Gen/XmlTables.lean`), every class, every
  tag, every depth and every value that is well formed for its class (any combination of optional fields, collections of any
  length, arbitrarily nested):
    * `parse (serialize v) = some v`                      (nothing is lost, order and lengths of collections included)
    * `serialize (parse-result) = serialize v`            (text stability)
    * `ofDict (toDict v) = some v`, `copy v = some v`     (dict form and copy)
  The primitive text codecs are an abstract parameter with the round-trip law as an explicit hypothesis (`Codec.RoundTrip`);
  that law is what the harness tests on the implementation (floats bit for bit).  Classes with hand-written XML logic are
  `opaque` in the tables: the theorems cover the generic machinery around them and treat their XML body as a black box.
-/
import SarpyModel.Props.C05Poly

namespace Sarpy.Props.C05
open Sarpy.Spec.XmlFmt

/-! ### list lemmas -/

theorem mapOpt_eq_of_forall₂ {α β : Type} (f : α → Option β) :
    ∀ (as : List α) (bs : List β), as.length = bs.length → (∀ p ∈ as.zip bs, f p.1 = some p.2) → mapOpt f as = some bs
  | [], [], _, _ => rfl
  | [], _ :: _, h, _ => by simp at h
  | _ :: _, [], h, _ => by simp at h
  | a :: as, b :: bs, hl, h => by
    have h1 : f a = some b := h (a, b) (by simp)
    have h2 : mapOpt f as = some bs :=
      mapOpt_eq_of_forall₂ f as bs (by simpa using hl) (fun p hp => h p (by simp [hp]))
    simp [mapOpt, h1, h2]

theorem mapOpt_map {α β : Type} (g : β → α) (f : α → Option β) :
    ∀ (bs : List β), (∀ b ∈ bs, f (g b) = some b) → mapOpt f (bs.map g) = some bs
  | [], _ => rfl
  | b :: bs, h => by
    have h1 : f (g b) = some b := h b (by simp)
    have h2 := mapOpt_map g f bs (fun x hx => h x (by simp [hx]))
    simp [mapOpt, h1, h2]

/-- in a concatenation of per-item contributions, filtering by the key of one item returns exactly its contribution when no
    other item contributes under that key -/
theorem filter_flatMap_key {α β κ : Type} [BEq κ] [LawfulBEq κ] (key : β → κ) (f : α → List β) (k : κ)
    (pre post : List α) (a : α)
    (ha : ∀ b ∈ f a, key b = k) (hpre : ∀ x ∈ pre, ∀ b ∈ f x, key b ≠ k) (hpost : ∀ x ∈ post, ∀ b ∈ f x, key b ≠ k) :
    ((pre ++ a :: post).flatMap f).filter (fun b => key b == k) = f a := by
  have e1 : (pre.flatMap f).filter (fun b => key b == k) = [] := by
    rw [List.filter_eq_nil_iff]
    intro b hb
    rcases List.mem_flatMap.1 hb with ⟨x, hx, hbx⟩
    simpa using hpre x hx b hbx
  have e2 : (post.flatMap f).filter (fun b => key b == k) = [] := by
    rw [List.filter_eq_nil_iff]
    intro b hb
    rcases List.mem_flatMap.1 hb with ⟨x, hx, hbx⟩
    simpa using hpost x hx b hbx
  have e3 : (f a).filter (fun b => key b == k) = f a := by
    rw [List.filter_eq_self]
    intro b hb
    simpa using ha b hb
  simp [List.flatMap_append, List.flatMap_cons, List.filter_append, e1, e2, e3]

theorem pairwiseB_cons {α : Type} (r : α → α → Bool) (a : α) (as : List α) :
    pairwiseB r (a :: as) = true ↔ (∀ b ∈ as, r a b = true) ∧ pairwiseB r as = true := by
  simp [pairwiseB]

/-- from the pairwise check: an item in the middle is compatible with everything before and after it (`r` symmetric) -/
theorem pairwiseB_split {α : Type} (r : α → α → Bool) (hs : ∀ a b, r a b = r b a) :
    ∀ (pre : List α) (a : α) (post : List α), pairwiseB r (pre ++ a :: post) = true →
      (∀ x ∈ pre, r a x = true) ∧ (∀ x ∈ post, r a x = true)
  | [], a, post, h => by
    rw [List.nil_append, pairwiseB_cons] at h
    exact ⟨by simp, h.1⟩
  | p :: pre, a, post, h => by
    rw [List.cons_append, pairwiseB_cons] at h
    have ih := pairwiseB_split r hs pre a post h.2
    refine ⟨?_, ih.2⟩
    intro x hx
    rcases List.mem_cons.1 hx with rfl | hx
    · rw [hs]; exact h.1 a (by simp)
    · exact ih.1 x hx

theorem all2_length {α β : Type} (f : α → β → Bool) : ∀ (as : List α) (bs : List β), all2 f as bs = true → as.length = bs.length
  | [], [], _ => rfl
  | [], _ :: _, h => by simp [all2] at h
  | _ :: _, [], h => by simp [all2] at h
  | a :: as, b :: bs, h => by
    simp only [all2, Bool.and_eq_true] at h
    simp [all2_length f as bs h.2]

theorem all2_zip {α β : Type} (f : α → β → Bool) : ∀ (as : List α) (bs : List β), all2 f as bs = true →
    ∀ p ∈ as.zip bs, f p.1 p.2 = true
  | [], [], _ => by simp
  | [], _ :: _, h => by simp [all2] at h
  | _ :: _, [], h => by simp [all2] at h
  | a :: as, b :: bs, h => by
    simp only [all2, Bool.and_eq_true] at h
    intro p hp
    rcases List.mem_cons.1 (by simpa using hp) with rfl | hp
    · exact h.1
    · exact all2_zip f as bs h.2 p hp

/-- a member of `as.zip bs` splits the zip around itself, and the left components split `as` -/
theorem zip_split {α β : Type} : ∀ (as : List α) (bs : List β) (p : α × β), p ∈ as.zip bs →
    ∃ pre post, as.zip bs = pre ++ p :: post ∧ ∃ apre apost, as = apre ++ p.1 :: apost ∧
      (∀ x ∈ pre, x.1 ∈ apre) ∧ (∀ x ∈ post, x.1 ∈ apost)
  | [], _, p, h => by simp at h
  | _ :: _, [], p, h => by simp at h
  | a :: as, b :: bs, p, h => by
    rcases List.mem_cons.1 (by simpa using h) with rfl | hp
    · exact ⟨[], as.zip bs, by simp, [], as, by simp, by simp, fun x hx => (List.of_mem_zip hx).1⟩
    · rcases zip_split as bs p hp with ⟨pre, post, e, apre, apost, ea, h1, h2⟩
      refine ⟨(a, b) :: pre, post, by simp [e], a :: apre, apost, by simp [ea], ?_, h2⟩
      intro x hx
      rcases List.mem_cons.1 hx with rfl | hx
      · simp
      · simp [h1 x hx]

/-! ### XML codec -/

section xml
variable {P S : Type} (C : Codec P S) (T : Tabs)

theorem serializeN_tag (n : Nat) (c : ClassId) (t : QName) (v : Val P S) : (serializeN C T n c t v).tag = t := by
  cases n with
  | zero => rfl
  | succ n =>
    unfold serializeN
    split
    · rfl
    · rfl
    · unfold serializePoly; split <;> rfl
    · rfl

/-- every element contributed by an element row carries the row's tag -/
theorem emitRow_tag (ser : ClassId → QName → Val P S → XmlNode S) (hser : ∀ c t v, (ser c t v).tag = t)
    (kids : List (Val P S)) (r : Row) (v : Val P S) : ∀ x ∈ emitRow C ser kids r v, x.tag = r.tag := by
  intro x hx
  unfold emitRow at hx
  split at hx
  · simp only [List.mem_singleton] at hx; subst hx; rfl
  · simp only [List.mem_singleton] at hx; subst hx; rfl
  · split at hx
    · simp only [List.mem_singleton] at hx; subst hx; rfl
    · simp at hx
  · simp at hx
  · simp only [List.mem_singleton] at hx; subst hx; rfl
  · simp only [List.mem_singleton] at hx; subst hx; exact hser _ _ _
  · rcases List.mem_map.1 hx with ⟨y, _, rfl⟩; exact hser _ _ _
  · split at hx
    · simp at hx
    · simp only [List.mem_singleton] at hx; subst hx; rfl
  · rcases List.mem_filterMap.1 hx with ⟨y, _, hy⟩
    cases y with
    | prim z => simp only [primNode?, Option.some.injEq] at hy; subst hy; rfl
    | absent => simp [primNode?] at hy
    | node k => simp [primNode?] at hy
    | blob a b c => simp [primNode?] at hy
  · split at hx
    · simp at hx
    · simp only [List.mem_singleton] at hx; subst hx; rfl
  · rcases List.mem_map.1 hx with ⟨y, _, rfl⟩; exact hser _ _ _
  · split at hx
    · simp at hx
    · simp only [List.mem_singleton] at hx; subst hx; rfl
  · simp at hx

theorem emitRow_nonElem (ser : ClassId → QName → Val P S → XmlNode S) (kids : List (Val P S)) (r : Row) (v : Val P S)
    (h : r.kind.isElem = false) : emitRow C ser kids r v = [] := by
  unfold emitRow
  split <;> simp_all [Kind.isElem]

theorem emitAttr_nonAttr (r : Row) (v : Val P S) (h : r.kind.isAttr = false) : emitAttr C r v = [] := by
  unfold emitAttr
  split <;> simp_all [Kind.isAttr]

theorem emitText_nonText (r : Row) (v : Val P S) (h : r.kind.isText = false) : emitText C r v = [] := by
  unfold emitText
  split <;> simp_all [Kind.isText]

theorem emitAttr_key (r : Row) (v : Val P S) : ∀ a ∈ emitAttr C r v, a.1 = r.tag := by
  intro a ha
  unfold emitAttr at ha
  split at ha
  · simp only [List.mem_singleton] at ha; subst ha; rfl
  · simp only [List.mem_singleton] at ha; subst ha; rfl
  · simp at ha

theorem compat_symm (a b : Row) : Row.compat a b = Row.compat b a := by
  unfold Row.compat
  have h : (a.tag == b.tag) = (b.tag == a.tag) := BEq.comm
  rw [h]
  cases a.kind.isElem <;> cases b.kind.isElem <;> cases a.kind.isAttr <;> cases b.kind.isAttr <;>
    cases a.kind.isText <;> cases b.kind.isText <;> cases (b.tag == a.tag) <;> rfl

/-- the three projections of a class node, seen from one row: filtering the node's children / attributes by the row's tag
    returns exactly what that row wrote, and the node text is the text row's -/
theorem row_view (ser : ClassId → QName → Val P S → XmlNode S) (hser : ∀ c t v, (ser c t v).tag = t)
    (all : List (Val P S)) (rs : List Row) (kids : List (Val P S)) (hcompat : pairwiseB Row.compat rs = true)
    (p : Row × Val P S) (hp : p ∈ rs.zip kids) :
    (p.1.kind.isElem = true →
      ((rs.zip kids).flatMap (fun q => emitRow C ser all q.1 q.2)).filter (hasTag p.1.tag) = emitRow C ser all p.1 p.2) ∧
    (p.1.kind.isAttr = true →
      ((rs.zip kids).flatMap (fun q => emitAttr C q.1 q.2)).filter (fun a => a.1 == p.1.tag) = emitAttr C p.1 p.2) ∧
    (p.1.kind.isText = true →
      ((rs.zip kids).flatMap (fun q => emitText C q.1 q.2)) = emitText C p.1 p.2) := by
  rcases zip_split rs kids p hp with ⟨pre, post, e, apre, apost, ea, h1, h2⟩
  rw [ea] at hcompat
  have hc := pairwiseB_split Row.compat compat_symm apre p.1 apost hcompat
  have other : ∀ x : Row × Val P S, (x ∈ pre ∨ x ∈ post) → Row.compat p.1 x.1 = true := by
    intro x hx
    rcases hx with hx | hx
    · exact hc.1 _ (h1 x hx)
    · exact hc.2 _ (h2 x hx)
  refine ⟨fun hk => ?_, fun hk => ?_, fun hk => ?_⟩
  · rw [e]
    have key : ∀ x : Row × Val P S, (x ∈ pre ∨ x ∈ post) → ∀ b ∈ emitRow C ser all x.1 x.2, b.tag ≠ p.1.tag := by
      intro x hx b hb
      cases hxe : x.1.kind.isElem with
      | false => rw [emitRow_nonElem C ser all _ _ hxe] at hb; simp at hb
      | true =>
        have hcx := other x hx
        rw [emitRow_tag C ser hser all _ _ b hb]
        intro heq
        simp [Row.compat, hk, hxe, heq] at hcx
    exact filter_flatMap_key (fun b : XmlNode S => b.tag) (fun q => emitRow C ser all q.1 q.2) p.1.tag pre post p
      (emitRow_tag C ser hser all p.1 p.2) (fun x hx => key x (Or.inl hx)) (fun x hx => key x (Or.inr hx))
  · rw [e]
    have key : ∀ x : Row × Val P S, (x ∈ pre ∨ x ∈ post) → ∀ b ∈ emitAttr C x.1 x.2, b.1 ≠ p.1.tag := by
      intro x hx b hb
      cases hxe : x.1.kind.isAttr with
      | false => rw [emitAttr_nonAttr C _ _ hxe] at hb; simp at hb
      | true =>
        have hcx := other x hx
        rw [emitAttr_key C _ _ b hb]
        intro heq
        simp [Row.compat, hk, hxe, heq] at hcx
    exact filter_flatMap_key (fun b : QName × S => b.1) (fun q => emitAttr C q.1 q.2) p.1.tag pre post p
      (emitAttr_key C p.1 p.2) (fun x hx => key x (Or.inl hx)) (fun x hx => key x (Or.inr hx))
  · rw [e]
    have key : ∀ x : Row × Val P S, (x ∈ pre ∨ x ∈ post) → emitText C x.1 x.2 = [] := by
      intro x hx
      cases hxe : x.1.kind.isText with
      | false => exact emitText_nonText C _ _ hxe
      | true =>
        have hcx := other x hx
        simp [Row.compat, hk, hxe] at hcx
    have e1 : pre.flatMap (fun q => emitText C q.1 q.2) = [] := by
      rw [List.flatMap_eq_nil_iff]; exact fun x hx => key x (Or.inl hx)
    have e2 : post.flatMap (fun q => emitText C q.1 q.2) = [] := by
      rw [List.flatMap_eq_nil_iff]; exact fun x hx => key x (Or.inr hx)
    simp [List.flatMap_append, List.flatMap_cons, e1, e2]


theorem textNode_text {S : Type} (t : QName) (s : S) : (textNode t s).text = some s := rfl

theorem primList_parse (hC : C.RoundTrip) (p : PrimId) (t : QName) : ∀ (items : List (Val P S)),
    items.all (isPrimOk C p) = true →
    mapOpt (parsePrim (P := P) C p) (items.filterMap (primNode? C t p)) = some items ∧
    ((items.filterMap (primNode? C t p)).isEmpty = items.isEmpty)
  | [], _ => by simp [mapOpt]
  | i :: items, h => by
    simp only [List.all_cons, Bool.and_eq_true] at h
    have ih := primList_parse hC p t items h.2
    cases i with
    | prim x =>
      have hx : C.ok p x = true := by simpa [isPrimOk] using h.1
      simp [mapOpt, parsePrim, primNode?, textNode_text, hC p x hx, ih.1]
    | absent => simp [isPrimOk] at h
    | node k => simp [isPrimOk] at h
    | blob a x ch => simp [isPrimOk] at h

/-- float arrays: the children written for `items` are read back, in document order, as `items`; there is one child per
    entry and every child carries the child tag (the `index` attribute plays no role) -/
theorem farr_parse (hC : C.RoundTrip) (f : FArrSpec) : ∀ (items : List (Val P S)) (k : Nat),
    items.all (isPrimOk C f.prim) = true →
    mapOpt (parsePrim (P := P) C f.prim) (farrNodes C f k items) = some items ∧
    (farrNodes C f k items).length = items.length ∧ (∀ x ∈ farrNodes C f k items, x.tag = f.childTag)
  | [], _, _ => by simp [mapOpt, farrNodes]
  | i :: items, k, h => by
    simp only [List.all_cons, Bool.and_eq_true] at h
    have ih := farr_parse hC f items (k + 1) h.2
    cases i with
    | prim x =>
      have hx : C.ok f.prim x = true := by simpa [isPrimOk] using h.1
      refine ⟨by simp [farrNodes, mapOpt, parsePrim, XmlNode.text, hC f.prim x hx, ih.1], by simp [farrNodes, ih.2.1], ?_⟩
      intro y hy
      simp only [farrNodes, List.mem_cons] at hy
      rcases hy with rfl | hy
      · rfl
      · exact ih.2.2 y hy
    | absent => simp [isPrimOk] at h
    | node k => simp [isPrimOk] at h
    | blob a x ch => simp [isPrimOk] at h

/-- the size attribute an object array writes passes the reader's check -/
theorem sizeOk_written (hC : C.Laws) (t : QName) (a : ArrSpec) (ha : a.wf = true) (n : Nat) (ch : List (XmlNode S)) :
    sizeOk C (.mk t (match a.sizeAttr with | none => [] | some q => [(q, C.sizeText n)]) none ch) a.pSizeAttr n = true := by
  simp only [ArrSpec.wf, Bool.and_eq_true, beq_iff_eq] at ha
  cases hs : a.sizeAttr with
  | none => simp [sizeOk, XmlNode.attrs]
  | some q =>
    have hq : q = a.pSizeAttr := by simpa [hs] using ha.2
    subst hq
    simp [sizeOk, XmlNode.attrs, hC.size]

/-- one field: what `from_node` extracts for a row from the node `to_node` wrote is the value that was written -/
theorem parseRow_serialized (hC : C.Laws) (n : Nat)
    (ih : ∀ c t v, wfValN C T true n c v = true → parseN C T n c (serializeN C T n c t v) = some v)
    (rs : List Row) (kids : List (Val P S)) (hwf : rs.all (Row.wf T.length) = true)
    (hcompat : pairwiseB Row.compat rs = true) (t : QName)
    (p : Row × Val P S) (hp : p ∈ rs.zip kids) (hv : wfField C true (wfValN C T true n) p.1 p.2 = true) :
    parseRow C (parseN C T n)
      (.mk t ((rs.zip kids).flatMap (fun q => emitAttr C q.1 q.2))
             ((rs.zip kids).flatMap (fun q => emitText C q.1 q.2)).head?
             ((rs.zip kids).flatMap (fun q => emitRow C (serializeN C T n) kids q.1 q.2))) p.1 = some p.2 := by
  have view := row_view C (serializeN C T n) (serializeN_tag C T n) kids rs kids hcompat p hp
  have hr : Row.wf T.length p.1 = true := (List.all_eq_true.1 hwf) p.1 (List.of_mem_zip hp).1
  rcases p with ⟨⟨name, tag, ptag, kind, req⟩, v⟩
  simp only [Row.wf, Bool.and_eq_true, beq_iff_eq] at hr
  obtain ⟨htag, hk⟩ := hr
  subst htag
  cases kind with
  | prim q =>
    have e := view.1 rfl
    clear view
    simp only [parseRow, XmlNode.children, ← List.head?_filter, e]
    cases v with
    | absent => simp [emitRow]
    | prim x =>
      have hx : C.ok q x = true := by simpa [wfField] using hv
      simp [emitRow, parsePrim, textNode, XmlNode.text, hC.rt q x hx]
    | node k => simp [wfField] at hv
    | blob a x ch => simp [wfField] at hv
  | attr q =>
    have e := view.2.1 rfl
    clear view
    simp only [parseRow, XmlNode.attrs, ← List.head?_filter, e]
    cases v with
    | absent => simp [emitAttr]
    | prim x =>
      have hx : C.ok q x = true := by simpa [wfField] using hv
      simp [emitAttr, hC.rt q x hx]
    | node k => simp [wfField] at hv
    | blob a x ch => simp [wfField] at hv
  | text q =>
    have e := view.2.2 rfl
    clear view
    simp only [parseRow, XmlNode.text, e]
    cases v with
    | absent => simp [emitText]
    | prim x =>
      have hx : C.ok q x = true := by simpa [wfField] using hv
      simp [emitText, hC.rt q x hx]
    | node k => simp [wfField] at hv
    | blob a x ch => simp [wfField] at hv
  | child c =>
    have e := view.1 rfl
    clear view
    simp only [parseRow, XmlNode.children, ← List.head?_filter, e]
    cases v with
    | absent => simp [emitRow]
    | prim x => simpa [emitRow] using ih c tag _ (by simpa [wfField] using hv)
    | node k => simpa [emitRow] using ih c tag _ (by simpa [wfField] using hv)
    | blob a x ch => simpa [emitRow] using ih c tag _ (by simpa [wfField] using hv)
  | list c =>
    have e := view.1 rfl
    clear view
    simp only [parseRow, XmlNode.children, e]
    cases v with
    | absent => simp [emitRow]
    | prim x => simp [wfField] at hv
    | blob a x ch => simp [wfField] at hv
    | node items =>
      simp only [wfField, Bool.not_true, Bool.false_or, Bool.and_eq_true, Bool.not_eq_true',
        List.all_eq_true] at hv
      have hm := mapOpt_map (serializeN C T n c tag) (parseN C T n c) items (fun b hb => ih c tag b (hv.2 b hb))
      cases items with
      | nil => simp at hv
      | cons i items => simpa [emitRow] using hm
  | array c a =>
    have e := view.1 rfl
    clear view
    simp only [Bool.and_eq_true, decide_eq_true_eq] at hk
    obtain ⟨_, ha⟩ := hk
    have hct : a.childTag = a.pChildTag := by
      simp only [ArrSpec.wf, Bool.and_eq_true, beq_iff_eq] at ha; exact ha.1
    simp only [parseRow, XmlNode.children, ← List.head?_filter, e]
    cases v with
    | absent => simp [emitRow]
    | prim x => simp [wfField] at hv
    | blob a x ch => simp [wfField] at hv
    | node items =>
      simp only [wfField, Bool.not_true, Bool.false_or, Bool.and_eq_true, Bool.not_eq_true',
        List.all_eq_true] at hv
      obtain ⟨⟨⟨hne, hall⟩, hlen⟩, hcanon⟩ := hv
      have hm := mapOpt_map (serializeN C T n c a.childTag) (parseN C T n c) items (fun b hb => ih c a.childTag b (hall b hb))
      have hf : (items.map (serializeN C T n c a.childTag)).filter (hasTag a.pChildTag) = items.map (serializeN C T n c a.childTag) := by
        rw [List.filter_eq_self]
        intro x hx
        rcases List.mem_map.1 hx with ⟨y, _, rfl⟩
        simp [hasTag, serializeN_tag, hct]
      have hsz := sizeOk_written C hC tag a ha items.length (items.map (serializeN C T n c a.childTag))
      have hfin := finishArr_of_wf C hC.peq a items (by simpa using hlen) hcanon
      simp only [emitRow, hne, Bool.false_eq_true, if_false, List.head?_cons, hf, List.length_map,
        hm, Option.bind_some, hfin]
      simp
      exact hsz
  | primList q =>
    have e := view.1 rfl
    clear view
    simp only [parseRow, XmlNode.children, e]
    cases v with
    | absent => simp [emitRow]
    | prim x => simp [wfField] at hv
    | blob a x ch => simp [wfField] at hv
    | node items =>
      simp only [wfField, Bool.not_true, Bool.false_or, Bool.and_eq_true, Bool.not_eq_true'] at hv
      have hm := primList_parse C hC.rt q tag items hv.2
      simp only [emitRow, hm.2, hv.1, hm.1]
      simp
  | floatArr f =>
    have e := view.1 rfl
    clear view
    simp only [FArrSpec.wf, Bool.and_eq_true, beq_iff_eq] at hk
    simp only [parseRow, XmlNode.children, ← List.head?_filter, e]
    cases v with
    | absent => simp [emitRow]
    | prim x => simp [wfField] at hv
    | blob a x ch => simp [wfField] at hv
    | node items =>
      simp only [wfField, Bool.not_true, Bool.false_or, Bool.and_eq_true, Bool.not_eq_true'] at hv
      have hm := farr_parse C hC.rt f items 0 hv.2
      have hf : (farrNodes C f 0 items).filter (hasTag f.pChildTag) = farrNodes C f 0 items := by
        rw [← hk.1]; exact filter_hasTag_self _ _ hm.2.2
      simp only [emitRow, hv.1, Bool.false_eq_true, if_false, List.head?_cons, ← hk.2, attrNat_head C hC, hf,
        hm.2.1, beq_self_eq_true, if_true, hm.1, Option.map_some]
  | params c w =>
    have e := view.1 rfl
    clear view
    cases w with
    | none =>
      simp only [parseRow, XmlNode.children, e]
      cases v with
      | absent => simp [emitRow]
      | prim x => simp [wfField] at hv
      | blob a x ch => simp [wfField] at hv
      | node items =>
        simp only [wfField, Bool.not_true, Bool.false_or, Bool.and_eq_true, Bool.not_eq_true',
          List.all_eq_true] at hv
        have hm := mapOpt_map (serializeN C T n c tag) (parseN C T n c) items (fun b hb => ih c tag b (hv.1.2 b hb))
        have hd := dedupe_of_distinct C items hv.2
        have hne' : (items.map (serializeN C T n c tag)).isEmpty = false := by simpa using hv.1.1
        simp only [emitRow, hne', Bool.false_eq_true, if_false, hm, Option.map_some, hd]
    | some w =>
      simp only [Bool.and_eq_true, decide_eq_true_eq, beq_iff_eq] at hk
      simp only [parseRow, XmlNode.children, ← List.head?_filter, e]
      cases v with
      | absent => simp [emitRow]
      | prim x => simp [wfField] at hv
      | blob a x ch => simp [wfField] at hv
      | node items =>
        simp only [wfField, Bool.not_true, Bool.false_or, Bool.and_eq_true, Bool.not_eq_true',
          List.all_eq_true] at hv
        have hm := mapOpt_map (serializeN C T n c w.1) (parseN C T n c) items (fun b hb => ih c w.1 b (hv.1.2 b hb))
        have hf : (items.map (serializeN C T n c w.1)).filter (hasTag w.2) = items.map (serializeN C T n c w.1) := by
          rw [List.filter_eq_self]
          intro x hx
          rcases List.mem_map.1 hx with ⟨y, _, rfl⟩
          simp [hasTag, serializeN_tag, hk.2]
        have hd := dedupe_of_distinct C items hv.2
        simp [emitRow, hv.1.1, hf, hm, hd]
  | count q src =>
    cases v <;> simp [wfField] at hv
    simp [parseRow]
  | const q k asAttr =>
    cases v <;> simp [wfField] at hv
    simp [parseRow]
  | which q alts =>
    cases v <;> simp [wfField] at hv
    simp [parseRow]

theorem tab_wf_of_get {T : Tabs} (hT : WF T) {c : ClassId} {tab : ClassTab} (h : T[c]? = some tab) :
    ClassTab.wf T.length tab = true :=
  (List.all_eq_true.1 hT) tab (List.mem_of_getElem? h)

/-- **parse ∘ serialize = id** for every well-formed table set, class, tag, depth and well-formed value -/
theorem parse_serialize (hC : C.Laws) (hT : WF T) :
    ∀ (n : Nat) (c : ClassId) (t : QName) (v : Val P S), WFVal C T n c v →
      parseN C T n c (serializeN C T n c t v) = some v
  | 0, _, _, _, h => by simp [WFVal, wfValN] at h
  | n + 1, c, t, v, h => by
    have ih := parse_serialize hC hT n
    unfold WFVal wfValN at h
    unfold serializeN parseN
    cases hTc : T[c]? with
    | none => simp [hTc] at h
    | some tab =>
      have htab := tab_wf_of_get hT hTc
      cases tab with
      | custom =>
        cases v with
        | blob a x ch => simp [XmlNode.attrs, XmlNode.text, XmlNode.children]
        | absent => simp [hTc] at h
        | prim x => simp [hTc] at h
        | node k => simp [hTc] at h
      | poly s =>
        simp only [hTc] at h
        have hv : wfPoly C s v = true := by cases v <;> simpa using h
        have := parsePoly_serializePoly C hC s (by simpa [ClassTab.wf] using htab) t v hv
        cases v <;> simpa using this
      | rows rs =>
        cases v with
        | blob a x ch => simp [hTc] at h
        | absent => simp [hTc] at h
        | prim x => simp [hTc] at h
        | node kids =>
          simp only [hTc] at h
          simp only [ClassTab.wf, Bool.and_eq_true] at htab
          have hrows := mapOpt_eq_of_forall₂
            (parseRow C (parseN C T n)
              (.mk t ((rs.zip kids).flatMap (fun q => emitAttr C q.1 q.2))
                ((rs.zip kids).flatMap (fun q => emitText C q.1 q.2)).head?
                ((rs.zip kids).flatMap (fun q => emitRow C (serializeN C T n) kids q.1 q.2))))
            rs kids (all2_length _ _ _ h)
            (fun p hp => parseRow_serialized C T hC n ih rs kids htab.1 htab.2 t p hp (all2_zip _ _ _ h p hp))
          simp [hrows]

/-- **text stability**: serialising what was parsed back reproduces the serialisation -/
theorem serialize_parse_serialize (hC : C.Laws) (hT : WF T) (n : Nat) (c : ClassId) (t : QName) (v : Val P S)
    (h : WFVal C T n c v) :
    (parseN C T n c (serializeN C T n c t v)).map (serializeN C T n c t) = some (serializeN C T n c t v) := by
  rw [parse_serialize C T hC hT n c t v h]; rfl

/-- the root tag is whatever the caller asked for, and a second pass through XML changes nothing -/
theorem parse_serialize_twice (hC : C.Laws) (hT : WF T) (n : Nat) (c : ClassId) (t : QName) (v : Val P S)
    (h : WFVal C T n c v) :
    ((parseN C T n c (serializeN C T n c t v)).bind fun w => parseN C T n c (serializeN C T n c t w)) = some v := by
  simp [parse_serialize C T hC hT n c t v h]

/-! #### canonical forms: what the reader returns for values that are not canonical -/

/-- **object arrays: parse ∘ serialize = canon** with `canon = reindex` (`_check_indices`): entries that carry arbitrary (stale)
    indices, each otherwise well formed, within the length bounds of the container, are written as they are and read back
    renumbered by position; `reindex` is idempotent (`reindex_idem`) and the identity on canonical entries (`reindex_of_canon`) -/
theorem parseArray_canon (hC : C.Laws) (hT : WF T) (n : Nat) (c : ClassId) (a : ArrSpec) (ha : a.wf = true)
    (name : Nat) (tag t : QName) (req : Bool) (kids items : List (Val P S))
    (hall : ∀ b ∈ items, WFVal C T n c b) (hmin : a.minLen ≤ items.length) (hmax : items.length ≤ a.maxLen) (hne : items ≠ []) :
    parseRow C (parseN C T n) (.mk t [] none (emitRow C (serializeN C T n) kids ⟨name, tag, tag, .array c a, req⟩ (.node items)))
      ⟨name, tag, tag, .array c a, req⟩ = some (.node (reindex C a items)) := by
  have hct : a.childTag = a.pChildTag := by
    simp only [ArrSpec.wf, Bool.and_eq_true, beq_iff_eq] at ha; exact ha.1
  have hemp : items.isEmpty = false := by cases items <;> simp_all
  have hm := mapOpt_map (serializeN C T n c a.childTag) (parseN C T n c) items
    (fun b hb => parse_serialize C T hC hT n c a.childTag b (hall b hb))
  have hf : (items.map (serializeN C T n c a.childTag)).filter (hasTag a.pChildTag) = items.map (serializeN C T n c a.childTag) := by
    rw [List.filter_eq_self]
    intro x hx
    rcases List.mem_map.1 hx with ⟨y, _, rfl⟩
    simp [hasTag, serializeN_tag, hct]
  have hsz := sizeOk_written C hC tag a ha items.length (items.map (serializeN C T n c a.childTag))
  have hfin : finishArr C a items = some (.node (reindex C a items)) := by
    unfold finishArr; simp [hmin, hmax]
  simp only [parseRow, emitRow, hemp, Bool.false_eq_true, if_false, XmlNode.children, List.find?, hasTag, XmlNode.tag,
    beq_self_eq_true, hf, List.length_map, hm, Option.bind_some, hfin]
  simp
  exact hsz

/-- **parameter collections: parse ∘ serialize = canon** with `canon = dedupe` (OrderedDict semantics): entries are written in
    the order given and read back in insertion order, a repeated name keeping its first position and taking its last value;
    `dedupe` is idempotent (`dedupe_idem`) and the identity when the names are pairwise different (`dedupe_of_distinct`) -/
theorem parseParams_canon (hC : C.Laws) (hT : WF T) (n : Nat) (c : ClassId)
    (name : Nat) (tag t : QName) (req : Bool) (kids items : List (Val P S))
    (hall : ∀ b ∈ items, WFVal C T n c b) (hne : items ≠ []) :
    parseRow C (parseN C T n) (.mk t [] none (emitRow C (serializeN C T n) kids ⟨name, tag, tag, .params c none, req⟩ (.node items)))
      ⟨name, tag, tag, .params c none, req⟩ = some (.node (dedupe C items)) := by
  have hm := mapOpt_map (serializeN C T n c tag) (parseN C T n c) items
    (fun b hb => parse_serialize C T hC hT n c tag b (hall b hb))
  have hf : (items.map (serializeN C T n c tag)).filter (hasTag tag) = items.map (serializeN C T n c tag) := by
    rw [List.filter_eq_self]
    intro x hx
    rcases List.mem_map.1 hx with ⟨y, _, rfl⟩
    simp [hasTag, serializeN_tag]
  have hne' : (items.map (serializeN C T n c tag)).isEmpty = false := by cases items <;> simp_all
  simp only [parseRow, emitRow, XmlNode.children, hf, hne', Bool.false_eq_true, if_false, hm, Option.map_some]

end xml

/-! ### dict codec and copy -/

section dict
variable {P S : Type} (C : Codec P S) (T : Tabs)

theorem dEmit_key (ser : ClassId → Val P S → DVal P S) (kids : List (Val P S)) (r : Row) (v : Val P S) :
    ∀ e ∈ dEmit C ser kids r v, e.1 = r.name := by
  intro e he
  unfold dEmit at he
  split at he
  all_goals try (split at he)
  all_goals first
    | (simp only [List.mem_singleton] at he; subst he; rfl)
    | (simp at he)

theorem name_ne_symm (a b : Row) : (a.name != b.name) = (b.name != a.name) := by
  simp only [bne]; rw [BEq.comm]

theorem dict_row_view (ser : ClassId → Val P S → DVal P S) (all : List (Val P S)) (rs : List Row) (kids : List (Val P S))
    (hnames : pairwiseB (fun a b : Row => a.name != b.name) rs = true) (p : Row × Val P S) (hp : p ∈ rs.zip kids) :
    ((rs.zip kids).flatMap (fun q => dEmit C ser all q.1 q.2)).filter (fun e => e.1 == p.1.name) = dEmit C ser all p.1 p.2 := by
  rcases zip_split rs kids p hp with ⟨pre, post, e, apre, apost, ea, h1, h2⟩
  rw [ea] at hnames
  have hc := pairwiseB_split (fun a b : Row => a.name != b.name) name_ne_symm apre p.1 apost hnames
  have key : ∀ x : Row × Val P S, (x ∈ pre ∨ x ∈ post) → ∀ b ∈ dEmit C ser all x.1 x.2, b.1 ≠ p.1.name := by
    intro x hx b hb
    rw [dEmit_key C ser all _ _ b hb]
    have hne : (p.1.name != x.1.name) = true := by
      rcases hx with hx | hx
      · exact hc.1 _ (h1 x hx)
      · exact hc.2 _ (h2 x hx)
    intro heq
    simp [heq] at hne
  rw [e]
  exact filter_flatMap_key (fun b : Nat × DVal P S => b.1) (fun q => dEmit C ser all q.1 q.2) p.1.name pre post p
    (dEmit_key C ser all p.1 p.2) (fun x hx => key x (Or.inl hx)) (fun x hx => key x (Or.inr hx))

theorem dPrim_list : ∀ (items : List (Val P S)) (q : PrimId), items.all (isPrimOk C q) = true →
    mapOpt (dPrim (P := P) (S := S)) (items.filterMap dPrimOf) = some items :=
  fun items q h => dPrim_filterMap C q items h

theorem dParseRow_toDict (hC : C.Laws) (n : Nat)
    (ih : ∀ c v, wfValN C T false n c v = true → ofDictN C T n c (toDictN C T n c v) = some v)
    (rs : List Row) (kids : List (Val P S)) (hnames : pairwiseB (fun a b : Row => a.name != b.name) rs = true)
    (p : Row × Val P S) (hp : p ∈ rs.zip kids) (hv : wfField C false (wfValN C T false n) p.1 p.2 = true) :
    dParseRow C (ofDictN C T n) ((rs.zip kids).flatMap (fun q => dEmit C (toDictN C T n) kids q.1 q.2)) p.1 = some p.2 := by
  have e := dict_row_view C (toDictN C T n) kids rs kids hnames p hp
  rcases p with ⟨⟨name, tag, ptag, kind, req⟩, v⟩
  simp only [dParseRow, ← List.head?_filter, e]
  cases kind with
  | prim q => cases v <;> simp_all [dEmit, wfField, Kind.isDerived]
  | attr q => cases v <;> simp_all [dEmit, wfField, Kind.isDerived]
  | text q => cases v <;> simp_all [dEmit, wfField, Kind.isDerived]
  | child c =>
    cases v with
    | absent => simp [dEmit, Kind.isDerived]
    | prim x => simpa [dEmit, Kind.isDerived] using ih c _ (by simpa [wfField] using hv)
    | node k => simpa [dEmit, Kind.isDerived] using ih c _ (by simpa [wfField] using hv)
    | blob a x ch => simpa [dEmit, Kind.isDerived] using ih c _ (by simpa [wfField] using hv)
  | list c =>
    cases v with
    | absent => simp [dEmit, Kind.isDerived]
    | prim x => simp [wfField] at hv
    | blob a x ch => simp [wfField] at hv
    | node items =>
      simp only [wfField, Bool.not_false, Bool.true_or, Bool.true_and, List.all_eq_true] at hv
      have hm := mapOpt_map (toDictN C T n c) (ofDictN C T n c) items (fun b hb => ih c b (hv b hb))
      simp [dEmit, hm, Kind.isDerived]
  | array c a =>
    cases v with
    | absent => simp [dEmit, Kind.isDerived]
    | prim x => simp [wfField] at hv
    | blob a x ch => simp [wfField] at hv
    | node items =>
      simp only [wfField, Bool.not_false, Bool.true_or, Bool.true_and, Bool.and_eq_true, List.all_eq_true] at hv
      obtain ⟨⟨hall, hlen⟩, hcanon⟩ := hv
      have hm := mapOpt_map (toDictN C T n c) (ofDictN C T n c) items (fun b hb => ih c b (hall b hb))
      have hfin := finishArr_of_wf C hC.peq a items (by simpa using hlen) hcanon
      simp [dEmit, hm, Kind.isDerived, hfin]
  | primList q =>
    cases v with
    | absent => simp [dEmit, Kind.isDerived]
    | prim x => simp [wfField] at hv
    | blob a x ch => simp [wfField] at hv
    | node items =>
      simp only [wfField, Bool.not_false, Bool.true_or, Bool.true_and] at hv
      simp [dEmit, dPrim_list C items q hv, Kind.isDerived]
  | floatArr f =>
    cases v with
    | absent => simp [dEmit, Kind.isDerived]
    | prim x => simp [wfField] at hv
    | blob a x ch => simp [wfField] at hv
    | node items =>
      simp only [wfField, Bool.not_false, Bool.true_or, Bool.true_and] at hv
      simp [dEmit, dPrim_list C items f.prim hv, Kind.isDerived]
  | params c w =>
    cases v with
    | absent => simp [dEmit, Kind.isDerived]
    | prim x => simp [wfField] at hv
    | blob a x ch => simp [wfField] at hv
    | node items =>
      simp only [wfField, Bool.not_false, Bool.true_or, Bool.true_and, Bool.and_eq_true, List.all_eq_true] at hv
      have hm := mapOpt_map (toDictN C T n c) (ofDictN C T n c) items (fun b hb => ih c b (hv.1 b hb))
      simp [dEmit, hm, Kind.isDerived]
  | count q src => cases v <;> simp [wfField] at hv; simp [Kind.isDerived]
  | const q k asAttr => cases v <;> simp [wfField] at hv; simp [Kind.isDerived]
  | which q alts => cases v <;> simp [wfField] at hv; simp [Kind.isDerived]

/-- **from_dict ∘ to_dict = id** (fields found by name; None fields left out; empty collections kept) -/
theorem ofDict_toDict (hC : C.Laws) (hT : DWF T) :
    ∀ (n : Nat) (c : ClassId) (v : Val P S), WFValD C T n c v → ofDictN C T n c (toDictN C T n c v) = some v
  | 0, _, _, h => by simp [WFValD, wfValN] at h
  | n + 1, c, v, h => by
    have ih := ofDict_toDict hC hT n
    unfold WFValD wfValN at h
    unfold toDictN ofDictN
    cases hTc : T[c]? with
    | none => simp [hTc] at h
    | some tab =>
      have htab : ClassTab.dwf T.length tab = true := (List.all_eq_true.1 hT) tab (List.mem_of_getElem? hTc)
      cases tab with
      | custom =>
        cases v with
        | blob a x ch => simp
        | absent => simp [hTc] at h
        | prim x => simp [hTc] at h
        | node k => simp [hTc] at h
      | poly s =>
        simp only [hTc] at h
        have hv : wfPoly C s v = true := by cases v <;> simpa using h
        have := polyOfDict_polyToDict C s v hv
        cases v <;> simpa using this
      | rows rs =>
        cases v with
        | blob a x ch => simp [hTc] at h
        | absent => simp [hTc] at h
        | prim x => simp [hTc] at h
        | node kids =>
          simp only [hTc] at h
          simp only [ClassTab.dwf, Bool.and_eq_true] at htab
          have hrows := mapOpt_eq_of_forall₂
            (dParseRow C (ofDictN C T n) ((rs.zip kids).flatMap (fun q => dEmit C (toDictN C T n) kids q.1 q.2)))
            rs kids (all2_length _ _ _ h)
            (fun p hp => dParseRow_toDict C T hC n ih rs kids htab.1 p hp (all2_zip _ _ _ h p hp))
          simp [hrows]

/-- **copy** returns an equal structure -/
theorem copy_eq (hC : C.Laws) (hT : DWF T) (n : Nat) (c : ClassId) (v : Val P S) (h : WFValD C T n c v) : copyN C T n c v = some v :=
  ofDict_toDict C T hC hT n c v h

theorem all2_mono {α β : Type} (f g : α → β → Bool) (hfg : ∀ a b, f a b = true → g a b = true) :
    ∀ (as : List α) (bs : List β), all2 f as bs = true → all2 g as bs = true
  | [], [], _ => rfl
  | [], _ :: _, h => by simp [all2] at h
  | _ :: _, [], h => by simp [all2] at h
  | a :: as, b :: bs, h => by
    simp only [all2, Bool.and_eq_true] at h ⊢
    exact ⟨hfg _ _ h.1, all2_mono f g hfg as bs h.2⟩

/-- well-formedness of a field is monotone in the well-formedness of nested values, and dropping the non-emptiness
    requirement keeps it -/
theorem wfField_mono (ne ne' : Bool) (hne : ne' = true → ne = true) (wf wf' : ClassId → Val P S → Bool)
    (hw : ∀ c v, wf c v = true → wf' c v = true) (r : Row) (v : Val P S)
    (h : wfField C ne wf r v = true) : wfField C ne' wf' r v = true := by
  have hE : ∀ items : List (Val P S), (!ne || !items.isEmpty) = true → (!ne' || !items.isEmpty) = true := by
    intro items h1
    cases hn : ne' with
    | false => simp
    | true => simpa [hne hn] using h1
  have hA : ∀ (c : ClassId) (items : List (Val P S)), items.all (wf c) = true → items.all (wf' c) = true := by
    intro c items h1
    rw [List.all_eq_true] at h1 ⊢
    exact fun x hx => hw _ _ (h1 x hx)
  rcases r with ⟨name, tag, ptag, kind, req⟩
  cases kind with
  | prim q => cases v <;> simpa [wfField] using h
  | attr q => cases v <;> simpa [wfField] using h
  | text q => cases v <;> simpa [wfField] using h
  | count q src => cases v <;> simpa [wfField] using h
  | const q k a => cases v <;> simpa [wfField] using h
  | which q alts => cases v <;> simpa [wfField] using h
  | child c =>
    cases v with
    | absent => simp [wfField]
    | prim x => simp only [wfField] at h ⊢; exact hw _ _ h
    | node k => simp only [wfField] at h ⊢; exact hw _ _ h
    | blob a x ch => simp only [wfField] at h ⊢; exact hw _ _ h
  | list c =>
    cases v with
    | node items =>
      simp only [wfField, Bool.and_eq_true] at h ⊢
      exact ⟨hE items h.1, hA c items h.2⟩
    | absent => simp [wfField]
    | prim x => simp [wfField] at h
    | blob a x ch => simp [wfField] at h
  | array c a =>
    cases v with
    | node items =>
      simp only [wfField, Bool.and_eq_true] at h ⊢
      exact ⟨⟨⟨hE items h.1.1.1, hA c items h.1.1.2⟩, h.1.2⟩, h.2⟩
    | absent => simp [wfField]
    | prim x => simp [wfField] at h
    | blob a x ch => simp [wfField] at h
  | primList q =>
    cases v with
    | node items =>
      simp only [wfField, Bool.and_eq_true] at h ⊢
      exact ⟨hE items h.1, h.2⟩
    | absent => simp [wfField]
    | prim x => simp [wfField] at h
    | blob a x ch => simp [wfField] at h
  | floatArr f =>
    cases v with
    | node items =>
      simp only [wfField, Bool.and_eq_true] at h ⊢
      exact ⟨hE items h.1, h.2⟩
    | absent => simp [wfField]
    | prim x => simp [wfField] at h
    | blob a x ch => simp [wfField] at h
  | params c w =>
    cases v with
    | node items =>
      simp only [wfField, Bool.and_eq_true] at h ⊢
      exact ⟨⟨hE items h.1.1, hA c items h.1.2⟩, h.2⟩
    | absent => simp [wfField]
    | prim x => simp [wfField] at h
    | blob a x ch => simp [wfField] at h

/-- a value well formed for the XML form is well formed for the dict form -/
theorem WFVal.toD : ∀ (n : Nat) (c : ClassId) (v : Val P S), WFVal C T n c v → WFValD C T n c v
  | 0, _, _, h => by simp [WFVal, wfValN] at h
  | n + 1, c, v, h => by
    unfold WFVal wfValN at h
    unfold WFValD wfValN
    split <;> simp_all
    rename_i rs kids hT
    exact all2_mono _ _ (wfField_mono C true false (by simp) _ _ (WFVal.toD n)) rs kids h

/-! ### the depth bound is only a bound: any larger one does as well -/

theorem wfValN_mono (ne : Bool) : ∀ (n : Nat) (c : ClassId) (v : Val P S),
    wfValN C T ne n c v = true → wfValN C T ne (n + 1) c v = true
  | 0, _, _, h => by simp [wfValN] at h
  | n + 1, c, v, h => by
    unfold wfValN at h
    unfold wfValN
    split <;> simp_all
    rename_i rs kids hT
    exact all2_mono _ _ (wfField_mono C ne ne (fun h => h) _ _ (wfValN_mono ne n)) rs kids h

theorem wfValN_le (ne : Bool) (n m : Nat) (h : n ≤ m) (c : ClassId) (v : Val P S)
    (hv : wfValN C T ne n c v = true) : wfValN C T ne m c v = true := by
  induction h with
  | refl => exact hv
  | step _ ih => exact wfValN_mono C T ne _ c v ih

/-- a value that is well formed at some depth bound round-trips at every larger bound: the fuel is not part of the statement -/
theorem parse_serialize_any_fuel (hC : C.Laws) (hT : WF T) (n : Nat) (c : ClassId) (t : QName) (v : Val P S)
    (h : WFVal C T n c v) (m : Nat) (hm : n ≤ m) : parseN C T m c (serializeN C T m c t v) = some v :=
  parse_serialize C T hC hT m c t v (wfValN_le C T true n m hm c v h)

theorem copy_eq_any_fuel (hC : C.Laws) (hT : DWF T) (n : Nat) (c : ClassId) (v : Val P S) (h : WFValD C T n c v) (m : Nat) (hm : n ≤ m) :
    copyN C T m c v = some v :=
  copy_eq C T hC hT m c v (wfValN_le C T false n m hm c v h)

end dict

/-! ### children taken over by a parent of another namespace context

  Serialisation is a function of the value and of the table of the class that is being written (`serializeN C T n c t v` has no
  other argument): a child does not carry a context of its own.  Together with `wfValN_variant` (what a class may hold does not
  depend on its tags) this gives: a value that was read in one context and is written and read in another comes back unchanged. -/

section moved
variable {P S : Type} (C : Codec P S) (T : Tabs)

theorem all2_congr_left {α α' β : Type} (f : α → β → Bool) (g : α' → β → Bool) (rel : α → α' → Bool)
    (h : ∀ a a' b, rel a a' = true → f a b = g a' b) :
    ∀ (as : List α) (as' : List α') (bs : List β), all2 rel as as' = true → all2 f as bs = all2 g as' bs
  | [], [], bs, _ => by cases bs <;> rfl
  | [], _ :: _, _, hr => by simp [all2] at hr
  | _ :: _, [], _, hr => by simp [all2] at hr
  | _ :: _, _ :: _, [], _ => rfl
  | a :: as, a' :: as', b :: bs, hr => by
    simp only [all2, Bool.and_eq_true] at hr
    simp only [all2, h a a' b hr.1, all2_congr_left f g rel h as as' bs hr.2]

theorem isCanonArr_sameShape (a b : ArrSpec) (h : a.sameShape b = true) (items : List (Val P S)) :
    isCanonArr C a items = isCanonArr C b items := by
  simp only [ArrSpec.sameShape, Bool.and_eq_true, beq_iff_eq] at h
  obtain ⟨⟨⟨⟨_, _⟩, h3⟩, h4⟩, h5⟩ := h
  simp only [isCanonArr, h3, h4, h5]

theorem wfField_variant (ne : Bool) (wf : ClassId → Val P S → Bool) (vr : ClassId → ClassId → Bool)
    (hv : ∀ c d v, vr c d = true → wf c v = wf d v) (r r' : Row) (v : Val P S)
    (h : Kind.variant vr r.kind r'.kind = true) : wfField C ne wf r v = wfField C ne wf r' v := by
  rcases r with ⟨n1, t1, p1, k, q1⟩
  rcases r' with ⟨n2, t2, p2, k', q2⟩
  cases k <;> cases k' <;> simp only [Kind.variant, Bool.false_eq_true, Bool.and_eq_true, beq_iff_eq] at h
  case prim.prim => subst h; cases v <;> rfl
  case attr.attr => subst h; cases v <;> rfl
  case text.text => subst h; cases v <;> rfl
  case primList.primList => subst h; cases v <;> rfl
  case child.child c d =>
    have e : wf c = wf d := funext (fun x => hv c d x h)
    cases v <;> simp only [wfField, e]
  case list.list c d =>
    have e : wf c = wf d := funext (fun x => hv c d x h)
    cases v <;> simp only [wfField, e]
  case array.array c a d b =>
    have e : wf c = wf d := funext (fun x => hv c d x h.1)
    have hs := h.2
    have ec := isCanonArr_sameShape C a b hs
    simp only [ArrSpec.sameShape, Bool.and_eq_true, beq_iff_eq] at hs
    cases v <;> simp only [wfField, e, ec, hs.1.1.1.1, hs.1.1.1.2]
  case floatArr.floatArr f g => cases v <;> simp only [wfField, h]
  case params.params c w d w' =>
    have e : wf c = wf d := funext (fun x => hv c d x h)
    cases v <;> simp only [wfField, e]
  case count.count => cases v <;> rfl
  case const.const => cases v <;> rfl
  case which.which => cases v <;> rfl

/-- what a class may hold does not depend on the namespace context it is seen from -/
theorem wfValN_variant (ne : Bool) : ∀ (n : Nat) (c d : ClassId) (v : Val P S), variantN n T c d = true →
    wfValN C T ne n c v = wfValN C T ne n d v
  | 0, _, _, _, _ => rfl
  | n + 1, c, d, v, h => by
    unfold variantN at h
    unfold wfValN
    cases hc : T[c]? with
    | none => simp [hc] at h
    | some tc =>
      cases hd : T[d]? with
      | none => cases tc <;> simp [hc, hd] at h
      | some td =>
        cases tc <;> cases td <;> simp only [hc, hd, Bool.false_eq_true] at h
        case rows.rows rs rs' =>
          cases v with
          | node kids =>
            exact all2_congr_left _ _ _
              (fun r r' b hr => wfField_variant C ne _ _ (fun c d v hcd => wfValN_variant ne n c d v hcd) r r' b hr) rs rs' kids h
          | absent => rfl
          | prim x => rfl
          | blob a x ch => rfl
        case custom.custom => cases v <;> rfl
        case poly.poly s s' =>
          simp only [Bool.and_eq_true, beq_iff_eq] at h
          cases v <;> simp only [wfPoly, h.1.1, h.1.2, h.2]

/-- **a value taken over by a parent of another namespace context round-trips there**: well formed as class `c`, written and read
    as the variant `d` of the class -/
theorem moved_roundtrip (hC : C.Laws) (hT : WF T) (n : Nat) (c d : ClassId) (t : QName) (v : Val P S)
    (hcd : variantN n T c d = true) (h : WFVal C T n c v) : parseN C T n d (serializeN C T n d t v) = some v :=
  parse_serialize C T hC hT n d t v (by unfold WFVal at h ⊢; rw [← wfValN_variant C T true n c d v hcd]; exact h)

/-- ... in particular a child that was itself read from a document of the other context: read as `c`, then written and read as `d` -/
theorem moved_after_parse (hC : C.Laws) (hT : WF T) (n : Nat) (c d : ClassId) (t t' : QName) (v : Val P S)
    (hcd : variantN n T c d = true) (h : WFVal C T n c v) :
    ((parseN C T n c (serializeN C T n c t v)).bind fun w => parseN C T n d (serializeN C T n d t' w)) = some v := by
  rw [parse_serialize C T hC hT n c t v h]
  exact moved_roundtrip C T hC hT n c d t' v hcd h

/-- what is written for a child that was read elsewhere is what is written for its value: no state travels with the child -/
theorem serialize_moved_eq (hC : C.Laws) (hT : WF T) (n : Nat) (c d : ClassId) (t t' : QName) (v : Val P S) (h : WFVal C T n c v) :
    (parseN C T n c (serializeN C T n c t v)).map (serializeN C T n d t') = some (serializeN C T n d t' v) := by
  rw [parse_serialize C T hC hT n c t v h]; rfl

/-- dict form and copy of the moved value -/
theorem moved_copy (hC : C.Laws) (hT : DWF T) (n : Nat) (c d : ClassId) (v : Val P S)
    (hcd : variantN n T c d = true) (h : WFValD C T n c v) : copyN C T n d v = some v :=
  copy_eq C T hC hT n d v (by unfold WFValD at h ⊢; rw [← wfValN_variant C T false n c d v hcd]; exact h)

end moved

/-! ### non-vacuity: a concrete table set, value and codec -/

namespace Example
def arr : ArrSpec := { childTag := (0, 15), pChildTag := (0, 15), sizeAttr := some (0, 16), pSizeAttr := (0, 16),
                       minLen := 1, maxLen := 3, idxPos := some 2, idxLabels := [], idxLimit := 3 }
def farr : FArrSpec := { prim := 4, childTag := (0, 41), pChildTag := (0, 41), sizeAttr := (0, 16), pSizeAttr := (0, 16),
                         idxAttr := (0, 42), base := 1 }
/-- `<.. order1="n-1"><Coef exponent1="i">..` -/
def p1 : PolySpec := { two := false, coefTag := (0, 50), pCoefTag := (0, 50), dim1 := (0, 51), pDim1 := (0, 51), dim2 := (0, 52),
                       pDim2 := (0, 52), exp1 := (0, 53), pExp1 := (0, 53), exp2 := (0, 54), pExp2 := (0, 54), dimOff := 1,
                       wrapper := none, prim := 4, dname := 30, fill := 0 }
/-- `<..><Filter num1="n1" num2="n2"><Coef exponent1="i" exponent2="j">..` -/
def p2 : PolySpec := { p1 with two := true, dimOff := 0, wrapper := some ((0, 55), (0, 55)) }
/-- class 0: attribute `id`, text child `Name`, nested child `Pos` (class 1), a list of class 1 under `Pt`, an array
    `Pts size=..` of class 3 children `P` (1..3 entries, the container numbers them), a list of integers `N`, a black-box child,
    a float array, a parameter collection directly under the node and one under a wrapper, the derived fields `NumPt` (length
    of the list), `Format` (constant), `res` (constant attribute), `Kind` (which of Pos / Pt is populated), a 1-D and a 2-D
    coefficient array; class 1: two text children; class 2: hand-written; class 3: two text children + attribute `index`;
    class 4: one parameter; classes 5, 6: coefficient arrays -/
def tabs : Tabs := [
  .rows [⟨0, (0, 10), (0, 10), .attr 4, true⟩, ⟨1, (0, 11), (0, 11), .prim 0, true⟩, ⟨2, (1, 12), (1, 12), .child 1, false⟩,
         ⟨3, (0, 13), (0, 13), .list 1, false⟩, ⟨4, (0, 14), (0, 14), .array 3 arr, false⟩,
         ⟨5, (0, 17), (0, 17), .primList 4, false⟩, ⟨6, (0, 18), (0, 18), .child 2, false⟩,
         ⟨9, (0, 40), (0, 40), .floatArr farr, false⟩, ⟨10, (0, 43), (0, 43), .params 4 none, false⟩,
         ⟨11, (0, 44), (0, 44), .params 4 (some ((0, 43), (0, 43))), false⟩, ⟨12, (0, 45), (0, 45), .count 4 3, true⟩,
         ⟨13, (0, 46), (0, 46), .const 4 1 false, true⟩, ⟨14, (0, 47), (0, 47), .const 4 2 true, true⟩,
         ⟨15, (0, 48), (0, 48), .which 4 [(2, 3), (3, 4)], false⟩, ⟨16, (0, 56), (0, 56), .child 5, false⟩,
         ⟨17, (0, 57), (0, 57), .child 6, false⟩],
  .rows [⟨7, (0, 20), (0, 20), .prim 4, true⟩, ⟨8, (0, 21), (0, 21), .prim 4, true⟩],
  .custom,
  .rows [⟨7, (0, 20), (0, 20), .prim 4, true⟩, ⟨8, (0, 21), (0, 21), .prim 4, true⟩, ⟨18, (0, 22), (0, 22), .attr 4, true⟩],
  .rows [⟨19, (0, 23), (0, 23), .attr 4, true⟩, ⟨20, (0, 24), (0, 24), .text 4, true⟩],
  .poly p1, .poly p2]
/-- primitives are numbers, text is a list of decimal digits (least significant first) -/
def digits : Nat → Nat → List Nat
  | 0, _ => []
  | f + 1, n => if n < 10 then [n] else n % 10 :: digits f (n / 10)
def undigits : List Nat → Nat
  | [] => 0
  | d :: ds => d + 10 * undigits ds
def codec : Codec Nat (List Nat) :=
  { toText := fun _ n => digits 64 n, ofText := fun _ s => some (undigits s), ok := fun _ n => decide (n < 1000),
    sizeText := fun n => digits (n + 1) n, ofSize := fun s => some (undigits s), natVal := fun n => n,
    constVal := fun k => if k = 0 then 0 else 500 + k, peq := fun a b => a == b }
def pt (a b : Nat) : Val Nat (List Nat) := .node [.prim a, .prim b]
def ipt (a b i : Nat) : Val Nat (List Nat) := .node [.prim a, .prim b, .prim i]
def par (k x : Nat) : Val Nat (List Nat) := .node [.prim k, .prim x]
def v : Val Nat (List Nat) :=
  .node [.prim 7, .prim 42, pt 1 2, .node [pt 3 4, pt 5 6, pt 7 8], .node [ipt 9 10 1, ipt 11 12 2], .node [.prim 11, .prim 12],
         .blob [((0, 30), [1])] (some [2]) [.mk (0, 31) [] none []],
         .node [.prim 5, .prim 0, .prim 6], .node [par 2 20, par 1 10], .node [par 3 30], .absent, .absent, .absent, .absent,
         .node [.prim 0, .prim 0, .prim 9, .prim 0], .node [.node [.prim 1, .prim 0, .prim 2], .node [.prim 0, .prim 3, .prim 0]]]
def w : Val Nat (List Nat) :=
  .node [.absent, .prim 42, .absent, .absent, .absent, .absent, .absent, .absent, .absent, .absent, .absent, .absent, .absent,
         .absent, .absent, .absent]

example : WF tabs := by decide
example : DWF tabs := by decide
example : WFVal codec tabs 3 0 v := by decide
example : WFVal codec tabs 3 0 w := by decide
example : parseN codec tabs 3 0 (serializeN codec tabs 3 0 (0, 1) v) = some v := by rfl
/-- `w`: the text child plus the three derived elements that are always written (`NumPt` = 0, `Format`; `Kind` is absent) -/
example : (serializeN codec tabs 3 0 (0, 1) w).children.length = 3 := by decide
example : (serializeN codec tabs 3 0 (0, 1) v).children.length = 18 := by decide
example : (serializeN codec tabs 3 0 (0, 1) v).attrs = [((0, 10), [7]), ((0, 47), [2, 0, 5])] := by decide
example : ofDictN codec tabs 3 0 (toDictN codec tabs 3 0 v) = some v := by rfl

theorem undigits_digits : ∀ f n, n < 10 ^ f → undigits (digits f n) = n := by
  intro f
  induction f with
  | zero => intro n hn; simp at hn; subst hn; rfl
  | succ f ih =>
    intro n hn
    unfold digits
    split
    · simp [undigits]
    · have : n / 10 < 10 ^ f := by
        rw [Nat.div_lt_iff_lt_mul (by decide)]; rw [Nat.pow_succ] at hn; exact hn
      simp [undigits, ih _ this]; omega

theorem codec_laws : codec.Laws where
  rt := by
    intro k p h
    have hp : p < 1000 := by simpa [codec] using h
    show some (undigits (digits 64 p)) = some p
    rw [undigits_digits 64 p (Nat.lt_of_lt_of_le hp (by decide))]
  size := by
    intro n
    show some (undigits (digits (n + 1) n)) = some n
    rw [undigits_digits (n + 1) n (Nat.lt_of_lt_of_le (Nat.lt_pow_self (by decide : 1 < 10)) (Nat.pow_le_pow_right (by decide) (Nat.le_succ n)))]
  peq := by intro a b; simp [codec]

/-- the general theorem applied to the example -/
example : parseN codec tabs 3 0 (serializeN codec tabs 3 0 (0, 1) v) = some v :=
  parse_serialize codec tabs codec_laws (by decide) 3 0 (0, 1) v (by decide)

/-- the well-formedness conditions are needed: with two rows sharing a tag the second field is lost -/
def badTabs : Tabs := [.rows [⟨0, (0, 1), (0, 1), .prim 0, true⟩, ⟨1, (0, 1), (0, 1), .prim 0, true⟩]]
example : ¬ WF badTabs := by decide
example : parseN codec badTabs 2 0 (serializeN codec badTabs 2 0 (0, 9) (.node [.prim 1, .prim 2])) = some (.node [.prim 1, .prim 1]) := by
  rfl
/-- ... and with a reader that looks an attribute up under another name than the writer used, the attribute is lost -/
def badNs : Tabs := [.rows [⟨0, (1, 1), (0, 1), .attr 0, true⟩]]
example : ¬ WF badNs := by decide
example : parseN codec badNs 2 0 (serializeN codec badNs 2 0 (0, 9) (.node [.prim 1])) = some (.node [.absent]) := by rfl

/-- canonical forms are needed in `WFVal`: an array entry carrying a stale `index` comes back renumbered ... -/
def stale : Val Nat (List Nat) :=
  .node [.prim 7, .prim 42, .absent, .absent, .node [ipt 9 10 5, ipt 11 12 5], .absent, .absent, .absent, .absent, .absent, .absent,
         .absent, .absent, .absent, .absent, .absent]
def fresh : Val Nat (List Nat) :=
  .node [.prim 7, .prim 42, .absent, .absent, .node [ipt 9 10 1, ipt 11 12 2], .absent, .absent, .absent, .absent, .absent, .absent,
         .absent, .absent, .absent, .absent, .absent]
example : ¬ WFVal codec tabs 3 0 stale := by decide
example : parseN codec tabs 3 0 (serializeN codec tabs 3 0 (0, 1) stale) = some fresh := by rfl
/-- ... an array longer than its container allows is refused by the reader ... -/
def long : Val Nat (List Nat) :=
  .node [.prim 7, .prim 42, .absent, .absent, .node [ipt 1 1 1, ipt 2 2 2, ipt 3 3 3, ipt 4 4 4], .absent, .absent, .absent, .absent,
         .absent, .absent, .absent, .absent, .absent, .absent, .absent]
example : parseN codec tabs 3 0 (serializeN codec tabs 3 0 (0, 1) long) = none := by rfl
/-- ... and a parameter list with a repeated name collapses (first position, last value) -/
example : dedupe codec [par 2 20, par 1 10, par 2 30] = [par 2 30, par 1 10] := by rfl
/-- the order of the `Coef` children does not matter, and zero coefficients may be left out of the document -/
example : parsePoly codec p1 (.mk (0, 1) [((0, 51), [3])] none
    [.mk (0, 50) [((0, 53), [2])] (some [9]) []]) = some (.node [.prim 0, .prim 0, .prim 9, .prim 0]) := by rfl
example : parsePoly codec p1 (.mk (0, 1) [((0, 51), [1])] none
    [.mk (0, 50) [((0, 53), [1])] (some [5]) [], .mk (0, 50) [((0, 53), [0])] (some [4]) []]) = some (.node [.prim 4, .prim 5]) := by rfl
/-- a float array is read in document order whatever the `index` attributes say -/
example : parseN codec tabs 3 0 (.mk (0, 1) [] none [.mk (0, 11) [] (some [1]) [],
    .mk (0, 40) [((0, 16), [2])] none [.mk (0, 41) [((0, 42), [2])] (some [5]) [], .mk (0, 41) [((0, 42), [1])] (some [6]) []]])
    = some (.node [.absent, .prim 1, .absent, .absent, .absent, .absent, .absent, .node [.prim 5, .prim 6], .absent, .absent,
                   .absent, .absent, .absent, .absent, .absent, .absent]) := by rfl
/-- the same class seen from two namespace contexts (tags differ, fields and kinds agree): a value read in one is written and
    read in the other -/
def tabsV : Tabs := [.rows [⟨0, (0, 10), (0, 10), .attr 4, true⟩, ⟨2, (0, 12), (0, 12), .child 2, false⟩],
                     .rows [⟨0, (0, 10), (0, 10), .attr 4, true⟩, ⟨2, (1, 12), (1, 12), .child 3, false⟩],
                     .rows [⟨7, (0, 20), (0, 20), .prim 4, true⟩], .rows [⟨7, (1, 20), (1, 20), .prim 4, true⟩]]
example : variantN 3 tabsV 0 1 = true := by decide
example : WF tabsV := by decide
example : ((parseN codec tabsV 3 0 (serializeN codec tabsV 3 0 (0, 1) (.node [.prim 5, .node [.prim 6]]))).bind
    fun w => parseN codec tabsV 3 1 (serializeN codec tabsV 3 1 (1, 1) w)) = some (.node [.prim 5, .node [.prim 6]]) :=
  moved_after_parse codec tabsV codec_laws (by decide) 3 0 1 (0, 1) (1, 1) _ (by decide) (by decide)
/-- ... and kinds that differ are not variants -/
example : variantN 3 tabs 1 3 = false := by decide
end Example

end Sarpy.Props.C05
