/-
  C13x — conditional, length-prefixed and computed-length parts of the NITF headers (extension of C13).

  Theorems about EVERY description `f : Fmt` of the extended format language `Spec.FieldFmt2` (conditional parts, length-prefixed
  areas, counts / lengths computed from earlier fields, big-endian binary integers, nesting), every parameter environment `env0`
  and every accepted value `v`, under the decidable well-formedness `wellFormed f params`:
    decode_encode            decode env0 f (encode env0 f v ++ rest) = some (v, rest)            (round trip, prefix-safe)
    encode_length            (encode env0 f v).length = length env0 f v                           (length accounting; no wf needed)
    reencode / conformant_iff / reencode_conformant
                             conformant bytes (= accepted by the strict decoder, decidable on the bytes) are exactly the encodings
                             of accepted values followed by anything; decoding them and encoding again gives the same bytes
    decode_consumes_length / decode_rest_independent / encode_injective
                             the decoder stops exactly at the reported length, what follows is untouched and irrelevant
    decodeAll_encodeAll      a byte area filled by self-delimiting items (TRE envelopes) is read back item by item
  The core inductions are `dec_enc` (encoder sees the whole record, decoder only the earlier fields: `Agree`, `Binds`),
  `enc_length`, `dec_strict_sound`, `dec_strict_lenient`.  Examples: DES-like conditional pair, image-band-like computed-length LUT
  with the NBANDS/XBANDS escape, user-header area, mask-table-like description with parameters, TRE envelope list; and a NEGATIVE
  example (`illFormed_loses_round_trip`): a condition on a LATER field is rejected by `wellFormed` and really loses the round trip.
  The descriptions of the current sarpy tree are generated (Gen/NitfTables2Defs.lean) and each is proved well formed by the kernel
  (Gen/NitfTables2.lean), where these theorems are instantiated on all of them.
-/
import SarpyModel.Spec.FieldFmt2
import SarpyModel.Props.C13

namespace Sarpy.Props.C13x
open Sarpy.Spec.FieldFmt (Bytes acceptInt encInt decInt acceptStr encStr decStr isSpace rstrip)
open Sarpy.Spec.FieldFmt2
open Sarpy.Props.C13 (encInt_length decInt_encInt encStr_length decStr_encStr)

/-! ### environments -/

/-- the decoder's environment `d` and the encoder's environment `e` give the same answer for every name in scope -/
def Agree (sc : List Name) (d e : Env) : Prop := ∀ x, x ∈ sc → lookup d x = lookup e x

/-- the encoder's environment binds every field of the record (rest) `f` to its value in `v` -/
def Binds (e : Env) : Fmt → Val → Prop
  | .seq x _ tl, .cons v vs => lookup e x = some v ∧ Binds e tl vs
  | _, _ => True

theorem cond_congr (c : Cond) (d e : Env) (h : ∀ x ∈ c.vars, lookup d x = lookup e x) : c.eval d = c.eval e := by
  induction c with
  | strIn x s cs => simp [Cond.eval, h x (by simp [Cond.vars])]
  | pos x => simp [Cond.eval, h x (by simp [Cond.vars])]
  | posDec x => simp [Cond.eval, h x (by simp [Cond.vars])]
  | bit x m => simp [Cond.eval, h x (by simp [Cond.vars])]
  | not c ih => simp [Cond.eval, ih h]
  | and a b iha ihb =>
    simp only [Cond.vars, List.mem_append] at h
    simp [Cond.eval, iha (fun x hx => h x (Or.inl hx)), ihb (fun x hx => h x (Or.inr hx))]

theorem expr_congr (a : Expr) (d e : Env) (h : ∀ x ∈ a.vars, lookup d x = lookup e x) : a.eval d = a.eval e := by
  induction a with
  | lit n => rfl
  | var x => simp [Expr.eval, h x (by simp [Expr.vars])]
  | mul a b iha ihb =>
    simp only [Expr.vars, List.mem_append] at h
    simp [Expr.eval, iha (fun x hx => h x (Or.inl hx)), ihb (fun x hx => h x (Or.inr hx))]
  | add a b iha ihb =>
    simp only [Expr.vars, List.mem_append] at h
    simp [Expr.eval, iha (fun x hx => h x (Or.inl hx)), ihb (fun x hx => h x (Or.inr hx))]
  | ceilDiv a k ih => simp [Expr.eval, ih h]
  | sub a b iha ihb =>
    simp only [Expr.vars, List.mem_append] at h
    simp [Expr.eval, iha (fun x hx => h x (Or.inl hx)), ihb (fun x hx => h x (Or.inr hx))]
  | div a k ih => simp [Expr.eval, ih h]
  | dec x => simp [Expr.eval, h x (by simp [Expr.vars])]
  | be x => simp [Expr.eval, h x (by simp [Expr.vars])]
  | ite c a b iha ihb =>
    simp only [Expr.vars, List.mem_append] at h
    simp [Expr.eval, cond_congr c d e (fun x hx => h x (Or.inl hx)),
      iha (fun x hx => h x (Or.inr (Or.inl hx))), ihb (fun x hx => h x (Or.inr (Or.inr hx)))]

theorem vars_in_scope {vs sc : List Name} (h : vs.all (fun x => sc.contains x) = true) : ∀ x ∈ vs, x ∈ sc := by
  intro x hx
  have := List.all_eq_true.mp h x hx
  simpa using this

theorem cond_agree {c : Cond} {sc : List Name} {d e : Env} (hw : c.vars.all (fun x => sc.contains x) = true)
    (ha : Agree sc d e) : c.eval d = c.eval e :=
  cond_congr c d e (fun x hx => ha x (vars_in_scope hw x hx))

theorem expr_agree {a : Expr} {sc : List Name} {d e : Env} (hw : a.vars.all (fun x => sc.contains x) = true)
    (ha : Agree sc d e) : a.eval d = a.eval e :=
  expr_congr a d e (fun x hx => ha x (vars_in_scope hw x hx))

theorem lookup_append_skip (pre e : Env) (x : Name) (h : ∀ p ∈ pre, p.1 ≠ x) : lookup (pre ++ e) x = lookup e x := by
  induction pre with
  | nil => rfl
  | cons p pre ih =>
    obtain ⟨k, v⟩ := p
    have hk : k ≠ x := h (k, v) (by simp)
    simp only [List.cons_append, lookup, if_neg hk]
    exact ih (fun q hq => h q (by simp [hq]))

theorem keys_bindings (f : Fmt) (v : Val) : ∀ p ∈ bindings f v, p.1 ∈ chainNames f := by
  induction f generalizing v with
  | seq x hd tl _ iht =>
    cases v with
    | cons a as =>
      intro p hp
      simp only [bindings, List.mem_cons] at hp
      rcases hp with rfl | hp
      · simp [chainNames]
      · simp [chainNames, iht as p hp]
    | _ => intro p hp; simp [bindings] at hp
  | _ => intro p hp; simp [bindings] at hp

theorem chain_fresh {f : Fmt} {sc : List Name} (h : wf f sc = true) : ∀ m ∈ chainNames f, m ∉ sc := by
  induction f generalizing sc with
  | seq x hd tl _ iht =>
    simp only [wf, Bool.and_eq_true, Bool.not_eq_true', ] at h
    intro m hm
    simp only [chainNames, List.mem_cons] at hm
    rcases hm with rfl | hm
    · simpa using h.1.1
    · intro hc
      exact iht h.2 m hm (by simp [hc])
  | _ => intro m hm; simp [chainNames] at hm

/-- entering the scope of a sub-record does not disturb what the names already in scope mean -/
theorem agree_enter {f : Fmt} {sc : List Name} {d e : Env} (v : Val) (h : wf f sc = true) (ha : Agree sc d e) :
    Agree sc d (bindings f v ++ e) := by
  intro x hx
  rw [lookup_append_skip _ _ _ (fun p hp hpx => chain_fresh h _ (keys_bindings f v p hp) (hpx ▸ hx))]
  exact ha x hx

theorem binds_cons {f : Fmt} {e : Env} {v : Val} (x : Name) (w : Val) (hx : x ∉ chainNames f) (h : Binds e f v) :
    Binds ((x, w) :: e) f v := by
  induction f generalizing v with
  | seq y hd tl _ iht =>
    cases v with
    | cons a as =>
      simp only [chainNames, List.mem_cons, not_or] at hx
      simp only [Binds] at h ⊢
      refine ⟨?_, iht hx.2 h.2⟩
      simp only [lookup, if_neg hx.1]
      exact h.1
    | _ => simp [Binds]
  | _ => simp [Binds]

theorem binds_self {f : Fmt} {sc : List Name} (e : Env) (v : Val) (h : wf f sc = true) : Binds (bindings f v ++ e) f v := by
  induction f generalizing v sc with
  | seq x hd tl _ iht =>
    cases v with
    | cons a as =>
      simp only [wf, Bool.and_eq_true] at h
      simp only [bindings, List.cons_append, Binds, lookup, if_true, true_and]
      refine binds_cons x a ?_ (iht as h.2)
      intro hc
      exact chain_fresh h.2 x hc (by simp)
    | _ => simp [Binds]
  | _ => simp [Binds]

/-! ### leaves -/

theorem chk_true (s : Bool) (r : Option (Val × Bytes)) : chk s true r = r := by simp [chk]
theorem chk_lenient (ok : Bool) (r : Option (Val × Bytes)) : chk false ok r = r := by simp [chk]
theorem chk_strict_some {ok : Bool} {r : Option (Val × Bytes)} {x : Val × Bytes} (h : chk true ok r = some x) :
    ok = true ∧ r = some x := by
  cases ok <;> simp_all [chk]

theorem take_pre {a b : Bytes} {n : Nat} (h : a.length = n) : (a ++ b).take n = a := List.take_left' h
theorem drop_pre {a b : Bytes} {n : Nat} (h : a.length = n) : (a ++ b).drop n = b := List.drop_left' h
theorem not_short {a b : Bytes} {n : Nat} (h : a.length = n) : ¬ (a ++ b).length < n := by
  simp only [List.length_append, h]; omega

theorem encBin_length (w n : Nat) : (encBin w n).length = w := by
  induction w generalizing n with
  | zero => rfl
  | succ w ih => simp [encBin, ih]

theorem decBin_snoc (xs : Bytes) (b : Nat) : decBin (xs ++ [b]) = 256 * decBin xs + b := by
  simp [decBin, List.foldl_append]

theorem decBin_encBin (w n : Nat) : decBin (encBin w n) = n % 256 ^ w := by
  induction w generalizing n with
  | zero => simp [encBin, decBin, Nat.mod_one]
  | succ w ih =>
    simp only [encBin, decBin_snoc, ih]
    rw [pow_succ', Nat.mod_mul]; ring

theorem dec_int (s : Bool) (d : Env) {w : Nat} {x : Int} (rest : Bytes) (h : acceptInt w x = true) :
    dec s (.int w) d (encInt w x ++ rest) = some (.int x, rest) := by
  have hl := encInt_length h
  simp only [dec, if_neg (not_short hl), take_pre hl, drop_pre hl, decInt_encInt h, h, beq_self_eq_true,
    Bool.and_self, chk_true]

theorem dec_str (s : Bool) (d : Env) {w : Nat} {x : Bytes} (rest : Bytes) (h : acceptStr w x = true) :
    dec s (.str w) d (encStr w x ++ rest) = some (.str x, rest) := by
  have hl := encStr_length h
  simp only [dec, if_neg (not_short hl), take_pre hl, drop_pre hl, decStr_encStr h, h, beq_self_eq_true,
    Bool.and_self, chk_true]

theorem acceptTStr_iff {w : Nat} {x : Bytes} : acceptTStr w x = true ↔ acceptStr w x = true ∧ lstrip x = x := by
  simp [acceptTStr]

/-- Python `strip()` undoes the blank padding of a value without leading / trailing blanks -/
theorem strip_encStr {w : Nat} {x : Bytes} (h : acceptTStr w x = true) : strip (encStr w x) = x := by
  obtain ⟨h1, h2⟩ := acceptTStr_iff.mp h
  have := decStr_encStr h1
  simp only [decStr] at this
  simp only [strip, this, h2]

theorem dec_tstr (s : Bool) {n : Expr} (d : Env) {w : Nat} (hn : n.eval d = w) {x : Bytes} (rest : Bytes)
    (h : acceptTStr w x = true) :
    dec s (.tstr n) d (encStr w x ++ rest) = some (.str x, rest) := by
  have hl := encStr_length (acceptTStr_iff.mp h).1
  simp only [dec, hn, if_neg (not_short hl), take_pre hl, drop_pre hl, strip_encStr h, h, beq_self_eq_true,
    Bool.and_self, chk_true]

theorem dec_bin (s : Bool) (d : Env) {w n : Nat} (rest : Bytes) (h : n < 256 ^ w) :
    dec s (.bin w) d (encBin w n ++ rest) = some (.nat n, rest) := by
  have hl := encBin_length w n
  have hv : decBin (encBin w n) = n := by rw [decBin_encBin, Nat.mod_eq_of_lt h]
  simp only [dec, if_neg (not_short hl), take_pre hl, drop_pre hl, hv, h, decide_true, beq_self_eq_true,
    Bool.and_self, chk_true]

theorem acceptInt_zero (w : Nat) : acceptInt w 0 = true := by
  rw [Sarpy.Props.C13.acceptInt_iff]
  constructor
  · have : (0 : Int) < 10 ^ (w - 1) := pow_pos (by norm_num) _
    omega
  · exact pow_pos (by norm_num) _

theorem dec_blob (s : Bool) (d : Env) {w k : Nat} {v : Val} (rest : Bytes) (h : accBlob w k v = true) :
    dec s (.blob w k) d (encBlob w k v ++ rest) = some (v, rest) := by
  unfold accBlob at h
  split at h
  · have h0 := acceptInt_zero w
    have hl := encInt_length h0
    have hd : decInt (encInt w 0) = some (Int.ofNat 0) := decInt_encInt h0
    simp only [dec, encBlob, decBlob, if_neg (not_short hl), take_pre hl, drop_pre hl, hd, if_true,
      beq_self_eq_true, chk_true]
  · rename_i ofl dd
    simp only [Bool.and_eq_true, decide_eq_true_eq] at h
    obtain ⟨⟨⟨hpos, hL⟩, _⟩, hofl⟩ := h
    have hl := encInt_length hL
    have hk := encInt_length hofl
    have hd : decInt (encInt w ((dd.length + k : Nat) : Int)) = some (Int.ofNat (dd.length + k)) := decInt_encInt hL
    have hne : ¬ (dd.length + k = 0) := by omega
    have hge : ¬ (dd.length + k < k) := by omega
    have hlen : ¬ ((encInt k ofl ++ (dd ++ rest)).length < dd.length + k) := by
      simp only [List.length_append, hk]; omega
    have e1 : (encInt k ofl ++ (dd ++ rest)).take k = encInt k ofl := take_pre hk
    have hkd : (encInt k ofl ++ dd).length = dd.length + k := by simp only [List.length_append, hk]; omega
    have e2 : (encInt k ofl ++ (dd ++ rest)).take (dd.length + k) = encInt k ofl ++ dd := by
      rw [← List.append_assoc]; exact take_pre hkd
    have e3 : (encInt k ofl ++ (dd ++ rest)).drop (dd.length + k) = rest := by
      rw [← List.append_assoc]; exact drop_pre hkd
    have e4 : (encInt k ofl ++ dd).drop k = dd := drop_pre hk
    have hwl : (encInt w ((dd.length + k : Nat) : Int) ++ (encInt k ofl ++ dd)).length = w + (dd.length + k) := by
      simp only [List.length_append, hl, hk]; omega
    have e5 : (encInt w ((dd.length + k : Nat) : Int) ++ (encInt k ofl ++ (dd ++ rest))).take (w + (dd.length + k)) =
        encInt w ((dd.length + k : Nat) : Int) ++ (encInt k ofl ++ dd) := by
      have : encInt w ((dd.length + k : Nat) : Int) ++ (encInt k ofl ++ (dd ++ rest)) =
          (encInt w ((dd.length + k : Nat) : Int) ++ (encInt k ofl ++ dd)) ++ rest := by simp only [List.append_assoc]
      rw [this]; exact take_pre hwl
    have hacc : accBlob w k (.cons (.int ofl) (.raw dd)) = true := by
      simp only [accBlob, Bool.and_eq_true, decide_eq_true_eq]; exact ⟨⟨⟨hpos, hL⟩, by assumption⟩, hofl⟩
    simp only [dec, encBlob, decBlob, List.append_assoc, if_neg (not_short hl), take_pre hl, drop_pre hl, hd, if_neg hne,
      if_neg hge, if_neg hlen, e1, e2, e3, e4, e5, decInt_encInt hofl, hacc, beq_self_eq_true, Bool.and_self, chk_true]
  · simp at h

/-! ### loops -/

theorem decItems_encItems (df : Bytes → Option (Val × Bytes)) (g : Val → Bytes) (p : Val → Bool)
    (h : ∀ x rest, p x = true → df (g x ++ rest) = some (x, rest)) :
    ∀ (vs : Val) (rest : Bytes), accItems p vs = true → decItems df (count vs) (encItems g vs ++ rest) = some (vs, rest) := by
  intro vs
  induction vs with
  | nil => intro rest _; simp [count, decItems, encItems]
  | cons x xs _ ihx =>
    intro rest ha
    simp only [accItems, Bool.and_eq_true] at ha
    simp only [count, decItems, encItems, List.append_assoc, h x _ ha.1, ihx rest ha.2]
  | _ => intro rest ha; simp [accItems] at ha

/-! ### the round trip -/

/-- **decode ∘ encode = id**, for every description, prefix-safe, in lenient and in strict mode.
    `d` is what the decoder knows (earlier fields), `e` what the encoder knows (the whole record). -/
theorem dec_enc (strict : Bool) (f : Fmt) : ∀ (sc : List Name) (d e : Env) (v : Val) (rest : Bytes),
    wf f sc = true → Agree sc d e → Binds e f v → acc f e v = true →
    dec strict f d (enc f e v ++ rest) = some (v, rest) := by
  induction f with
  | int w =>
    intro sc d e v rest _ _ _ ha
    cases v <;> simp only [acc] at ha <;> try (exact absurd ha (by decide))
    exact dec_int strict d rest ha
  | str w =>
    intro sc d e v rest _ _ _ ha
    cases v <;> simp only [acc] at ha <;> try (exact absurd ha (by decide))
    exact dec_str strict d rest ha
  | tstr n =>
    intro sc d e v rest hw hag _ ha
    cases v <;> simp only [acc] at ha <;> try (exact absurd ha (by decide))
    simp only [wf] at hw
    simp only [enc]
    exact dec_tstr strict d (expr_agree hw hag) rest ha
  | raw n =>
    intro sc d e v rest hw hag hb ha
    cases v <;> simp only [acc] at ha <;> try (exact absurd ha (by decide))
    rename_i s
    simp only [decide_eq_true_eq] at ha
    simp only [wf] at hw
    have hn : n.eval d = s.length := by rw [expr_agree hw hag, ha]
    simp only [enc, dec, hn, if_neg (not_short rfl), take_pre rfl, drop_pre rfl]
  | bin w =>
    intro sc d e v rest _ _ _ ha
    cases v <;> simp only [acc] at ha <;> try (exact absurd ha (by decide))
    simp only [decide_eq_true_eq] at ha
    exact dec_bin strict d rest ha
  | blob w k =>
    intro sc d e v rest _ _ _ ha
    simp only [acc] at ha
    simp only [enc]
    exact dec_blob strict d rest ha
  | unit =>
    intro sc d e v rest _ _ _ ha
    cases v <;> simp only [acc] at ha <;> try (exact absurd ha (by decide))
    simp [enc, dec]
  | seq x hd tl ihh iht =>
    intro sc d e v rest hw hag hb ha
    cases v with
    | cons a as =>
      simp only [wf, Bool.and_eq_true, Bool.not_eq_true'] at hw
      simp only [acc, Bool.and_eq_true] at ha
      obtain ⟨hbx, hbt⟩ := hb
      have hxs : x ∉ sc := by simpa using hw.1.1
      have h1 := ihh sc d (bindings hd a ++ e) a (enc tl e as ++ rest) hw.1.2 (agree_enter a hw.1.2 hag)
        (binds_self e a hw.1.2) ha.1
      have hag' : Agree (x :: sc) ((x, a) :: d) e := by
        intro y hy
        simp only [List.mem_cons] at hy
        rcases hy with rfl | hy
        · simp [lookup, hbx]
        · have : x ≠ y := fun h => hxs (h ▸ hy)
          simp only [lookup, if_neg this]
          exact hag y hy
      have h2 := iht (x :: sc) ((x, a) :: d) e as rest hw.2 hag' hbt ha.2
      simp only [enc, dec, List.append_assoc, h1, h2]
    | _ => simp only [acc] at ha; exact absurd ha (by decide)
  | cond c f ih =>
    intro sc d e v rest hw hag _ ha
    simp only [wf, Bool.and_eq_true] at hw
    have hc := cond_agree hw.1 hag
    simp only [acc] at ha
    simp only [enc, dec, hc]
    by_cases h : c.eval e = true
    · simp only [h, if_true] at ha ⊢
      exact ih sc d _ v rest hw.2 (agree_enter v hw.2 hag) (binds_self e v hw.2) ha
    · have h' : c.eval e = false := by simpa using h
      simp only [h'] at ha ⊢
      have hv : v = .none := by simpa using ha
      subst hv
      simp
  | loop n item ih =>
    intro sc d e v rest hw hag _ ha
    simp only [wf, Bool.and_eq_true] at hw
    simp only [acc, Bool.and_eq_true, decide_eq_true_eq] at ha
    have hn : n.eval d = count v := by rw [expr_agree hw.1 hag, ha.1]
    simp only [enc, dec, hn]
    exact decItems_encItems _ _ (fun x => acc item (bindings item x ++ e) x)
      (fun x r hx => ih sc d _ x r hw.2 (agree_enter x hw.2 hag) (binds_self e x hw.2) hx) v rest ha.2

/-! ### length accounting -/

theorem encBlob_length {w k : Nat} {v : Val} (h : accBlob w k v = true) : (encBlob w k v).length = lenBlob w k v := by
  unfold accBlob at h
  split at h
  · simp only [encBlob, lenBlob]; exact encInt_length (acceptInt_zero w)
  · simp only [Bool.and_eq_true, decide_eq_true_eq] at h
    simp only [encBlob, lenBlob, List.length_append, encInt_length h.1.1.2, encInt_length h.2]
  · simp at h

theorem encItems_length (g : Val → Bytes) (l : Val → Nat) (p : Val → Bool)
    (h : ∀ x, p x = true → (g x).length = l x) :
    ∀ vs : Val, accItems p vs = true → (encItems g vs).length = lenItems l vs := by
  intro vs
  induction vs with
  | cons x xs _ ihx =>
    intro ha
    simp only [accItems, Bool.and_eq_true] at ha
    simp only [encItems, lenItems, List.length_append, h x ha.1, ihx ha.2]
  | _ => intro _; simp [encItems, lenItems]

/-- the encoding of an accepted value is exactly as long as the length function says (no well-formedness needed) -/
theorem enc_length (f : Fmt) : ∀ (e : Env) (v : Val), acc f e v = true → (enc f e v).length = len f e v := by
  induction f with
  | int w =>
    intro e v ha
    cases v <;> simp only [acc] at ha <;> try (exact absurd ha (by decide))
    simpa [enc, len] using encInt_length ha
  | str w =>
    intro e v ha
    cases v <;> simp only [acc] at ha <;> try (exact absurd ha (by decide))
    simpa [enc, len] using encStr_length ha
  | tstr n =>
    intro e v ha
    cases v <;> simp only [acc] at ha <;> try (exact absurd ha (by decide))
    simpa [enc, len] using encStr_length (acceptTStr_iff.mp ha).1
  | raw n =>
    intro e v ha
    cases v <;> simp only [acc] at ha <;> try (exact absurd ha (by decide))
    simpa [enc, len] using ha
  | bin w =>
    intro e v ha
    cases v <;> simp only [acc] at ha <;> try (exact absurd ha (by decide))
    simp [enc, len, encBin_length]
  | blob w k =>
    intro e v ha
    simp only [acc] at ha
    simpa [enc, len] using encBlob_length ha
  | unit => intro e v _; cases v <;> simp [enc, len]
  | seq x hd tl ihh iht =>
    intro e v ha
    cases v with
    | cons a as =>
      simp only [acc, Bool.and_eq_true] at ha
      simp only [enc, len, List.length_append, ihh _ _ ha.1, iht _ _ ha.2]
    | _ => simp only [acc] at ha; exact absurd ha (by decide)
  | cond c f ih =>
    intro e v ha
    simp only [acc] at ha
    simp only [enc, len]
    by_cases h : c.eval e = true
    · simp only [h, if_true] at ha ⊢; exact ih _ _ ha
    · have h' : c.eval e = false := by simpa using h
      simp [h']
  | loop n item ih =>
    intro e v ha
    simp only [acc, Bool.and_eq_true] at ha
    simp only [enc, len]
    exact encItems_length _ _ (fun x => acc item (bindings item x ++ e) x) (fun x hx => ih _ _ hx) v ha.2

/-! ### strict decoding: exactly the conformant byte strings -/

theorem agree_bind {sc : List Name} {d e : Env} {x : Name} {a : Val} (hx : x ∉ sc) (hb : lookup e x = some a)
    (hag : Agree sc d e) : Agree (x :: sc) ((x, a) :: d) e := by
  intro y hy
  simp only [List.mem_cons] at hy
  rcases hy with rfl | hy
  · simp [lookup, hb]
  · have : x ≠ y := fun h => hx (h ▸ hy)
    simp only [lookup, if_neg this]
    exact hag y hy

theorem decBlob_sound {w k : Nat} {bs : Bytes} {v : Val} {rest : Bytes} (h : decBlob true w k bs = some (v, rest)) :
    accBlob w k v = true ∧ bs = encBlob w k v ++ rest := by
  unfold decBlob at h
  split at h
  · exact absurd h (by simp)
  · split at h
    · rename_i l hl
      simp only at h
      split at h
      · obtain ⟨hok, hr⟩ := chk_strict_some h
        simp only [beq_iff_eq] at hok
        simp only [Option.some.injEq, Prod.mk.injEq] at hr
        obtain ⟨rfl, rfl⟩ := hr
        refine ⟨rfl, ?_⟩
        simp only [encBlob, hok, List.take_append_drop]
      · split at h
        · exact absurd h (by simp)
        · split at h
          · exact absurd h (by simp)
          · split at h
            · rename_i ofl hofl
              obtain ⟨hok, hr⟩ := chk_strict_some h
              simp only [Bool.and_eq_true, beq_iff_eq] at hok
              simp only [Option.some.injEq, Prod.mk.injEq] at hr
              obtain ⟨rfl, rfl⟩ := hr
              refine ⟨hok.1, ?_⟩
              rw [hok.2, List.drop_drop, List.take_append_drop]
            · exact absurd h (by simp)
    · exact absurd h (by simp)

theorem decItems_sound (df : Bytes → Option (Val × Bytes)) (g : Val → Bytes) (p : Val → Bool)
    (h : ∀ b x r, df b = some (x, r) → p x = true ∧ b = g x ++ r) :
    ∀ (n : Nat) (bs : Bytes) (vs : Val) (rest : Bytes), Sarpy.Spec.FieldFmt2.decItems df n bs = some (vs, rest) →
      accItems p vs = true ∧ count vs = n ∧ bs = encItems g vs ++ rest := by
  intro n
  induction n with
  | zero =>
    intro bs vs rest hd
    simp only [Sarpy.Spec.FieldFmt2.decItems, Option.some.injEq, Prod.mk.injEq] at hd
    obtain ⟨rfl, rfl⟩ := hd
    simp [accItems, count, encItems]
  | succ n ih =>
    intro bs vs rest hd
    simp only [Sarpy.Spec.FieldFmt2.decItems] at hd
    split at hd
    · exact absurd hd (by simp)
    · rename_i x r h1
      split at hd
      · exact absurd hd (by simp)
      · rename_i xs r' h2
        simp only [Option.some.injEq, Prod.mk.injEq] at hd
        obtain ⟨rfl, rfl⟩ := hd
        obtain ⟨hp, hb⟩ := h _ _ _ h1
        obtain ⟨ha, hc, hb2⟩ := ih _ _ _ h2
        refine ⟨by simp [accItems, hp, ha], by simp [count, hc], ?_⟩
        simp only [encItems, List.append_assoc]
        rw [← hb2]; exact hb

/-- what the strict decoder accepts is an accepted value together with its own encoding: strictly decodable bytes
    are conformant, and re-encoding the decoded value reproduces them byte for byte -/
theorem dec_strict_sound (f : Fmt) : ∀ (sc : List Name) (d e : Env) (bs : Bytes) (v : Val) (rest : Bytes),
    wf f sc = true → Agree sc d e → Binds e f v → dec true f d bs = some (v, rest) →
    acc f e v = true ∧ bs = enc f e v ++ rest := by
  induction f with
  | int w =>
    intro sc d e bs v rest _ _ _ hd
    simp only [dec] at hd
    split at hd
    · exact absurd hd (by simp)
    · split at hd
      · exact absurd hd (by simp)
      · obtain ⟨hok, hr⟩ := chk_strict_some hd
        simp only [Bool.and_eq_true, beq_iff_eq] at hok
        simp only [Option.some.injEq, Prod.mk.injEq] at hr
        obtain ⟨rfl, rfl⟩ := hr
        refine ⟨by simpa [acc] using hok.1, ?_⟩
        simp only [enc, hok.2, List.take_append_drop]
  | str w =>
    intro sc d e bs v rest _ _ _ hd
    simp only [dec] at hd
    split at hd
    · exact absurd hd (by simp)
    · obtain ⟨hok, hr⟩ := chk_strict_some hd
      simp only [Bool.and_eq_true, beq_iff_eq] at hok
      simp only [Option.some.injEq, Prod.mk.injEq] at hr
      obtain ⟨rfl, rfl⟩ := hr
      refine ⟨by simpa [acc] using hok.1, ?_⟩
      simp only [enc, hok.2, List.take_append_drop]
  | tstr n =>
    intro sc d e bs v rest hw hag _ hd
    simp only [dec] at hd
    simp only [wf] at hw
    have hn := expr_agree hw hag
    split at hd
    · exact absurd hd (by simp)
    · obtain ⟨hok, hr⟩ := chk_strict_some hd
      simp only [Bool.and_eq_true, beq_iff_eq] at hok
      simp only [Option.some.injEq, Prod.mk.injEq] at hr
      obtain ⟨rfl, rfl⟩ := hr
      refine ⟨by simpa [acc, ← hn] using hok.1, ?_⟩
      simp only [enc, ← hn, hok.2, List.take_append_drop]
  | raw n =>
    intro sc d e bs v rest hw hag _ hd
    simp only [dec] at hd
    simp only [wf] at hw
    split at hd
    · exact absurd hd (by simp)
    · rename_i hlen
      simp only [Option.some.injEq, Prod.mk.injEq] at hd
      obtain ⟨rfl, rfl⟩ := hd
      refine ⟨?_, by simp only [enc, List.take_append_drop]⟩
      simp only [acc, decide_eq_true_eq, List.length_take, ← expr_agree hw hag]
      omega
  | bin w =>
    intro sc d e bs v rest _ _ _ hd
    simp only [dec] at hd
    split at hd
    · exact absurd hd (by simp)
    · obtain ⟨hok, hr⟩ := chk_strict_some hd
      simp only [Bool.and_eq_true, beq_iff_eq, decide_eq_true_eq] at hok
      simp only [Option.some.injEq, Prod.mk.injEq] at hr
      obtain ⟨rfl, rfl⟩ := hr
      refine ⟨by simpa [acc] using hok.1, ?_⟩
      simp only [enc, hok.2, List.take_append_drop]
  | blob w k =>
    intro sc d e bs v rest _ _ _ hd
    simp only [dec] at hd
    simpa [acc, enc] using decBlob_sound hd
  | unit =>
    intro sc d e bs v rest _ _ _ hd
    simp only [dec, Option.some.injEq, Prod.mk.injEq] at hd
    obtain ⟨rfl, rfl⟩ := hd
    simp [acc, enc]
  | seq x hd tl ihh iht =>
    intro sc d e bs v rest hw hag hb hdec
    simp only [wf, Bool.and_eq_true, Bool.not_eq_true'] at hw
    have hxs : x ∉ sc := by simpa using hw.1.1
    simp only [dec] at hdec
    split at hdec
    · exact absurd hdec (by simp)
    · rename_i a r h1
      split at hdec
      · exact absurd hdec (by simp)
      · rename_i as r' h2
        simp only [Option.some.injEq, Prod.mk.injEq] at hdec
        obtain ⟨rfl, rfl⟩ := hdec
        obtain ⟨hbx, hbt⟩ := hb
        obtain ⟨ha1, hb1⟩ := ihh sc d (bindings hd a ++ e) bs a r hw.1.2 (agree_enter a hw.1.2 hag)
          (binds_self e a hw.1.2) h1
        obtain ⟨ha2, hb2⟩ := iht (x :: sc) ((x, a) :: d) e r as r' hw.2 (agree_bind hxs hbx hag) hbt h2
        refine ⟨by simp [acc, ha1, ha2], ?_⟩
        simp only [enc, List.append_assoc]
        rw [← hb2]; exact hb1
  | cond c f ih =>
    intro sc d e bs v rest hw hag _ hd
    simp only [wf, Bool.and_eq_true] at hw
    have hc := cond_agree hw.1 hag
    simp only [dec, hc] at hd
    simp only [acc, enc]
    by_cases h : c.eval e = true
    · simp only [h, if_true] at hd ⊢
      exact ih sc d _ bs v rest hw.2 (agree_enter v hw.2 hag) (binds_self e v hw.2) hd
    · have h' : c.eval e = false := by simpa using h
      simp only [h'] at hd ⊢
      simp only [Bool.false_eq_true, if_false, Option.some.injEq, Prod.mk.injEq] at hd
      obtain ⟨rfl, rfl⟩ := hd
      simp
  | loop n item ih =>
    intro sc d e bs v rest hw hag _ hd
    simp only [wf, Bool.and_eq_true] at hw
    simp only [dec] at hd
    obtain ⟨ha, hc, hb⟩ := decItems_sound _ (fun x => enc item (bindings item x ++ e) x)
      (fun x => acc item (bindings item x ++ e) x)
      (fun b x r hx => ih sc d _ b x r hw.2 (agree_enter x hw.2 hag) (binds_self e x hw.2) hx) _ _ _ _ hd
    refine ⟨?_, by simpa [enc] using hb⟩
    simp only [acc, Bool.and_eq_true, decide_eq_true_eq]
    exact ⟨by rw [hc, expr_agree hw.1 hag], ha⟩

/-! ### the lenient decoder accepts everything the strict one accepts, with the same result -/

theorem chk_strict_lenient {ok : Bool} {r : Option (Val × Bytes)} {x : Val × Bytes} (h : chk true ok r = some x) :
    chk false ok r = some x := by
  rw [chk_lenient]; exact (chk_strict_some h).2

theorem decBlob_lenient {w k : Nat} {bs : Bytes} {r : Val × Bytes} (h : decBlob true w k bs = some r) :
    decBlob false w k bs = some r := by
  unfold decBlob at h ⊢
  by_cases hs : bs.length < w
  · simp [hs] at h
  · simp only [if_neg hs] at h ⊢
    cases hv : decInt (List.take w bs) with
    | none => simp [hv] at h
    | some z =>
      cases z with
      | negSucc m => simp [hv] at h
      | ofNat l =>
        simp only [hv] at h ⊢
        by_cases h0 : l = 0
        · simp only [if_pos h0] at h ⊢; exact chk_strict_lenient h
        · simp only [if_neg h0] at h ⊢
          by_cases h1 : l < k
          · rw [if_pos h1] at h; exact absurd h (by simp)
          · simp only [if_neg h1] at h ⊢
            by_cases h2 : (List.drop w bs).length < l
            · rw [if_pos h2] at h; exact absurd h (by simp)
            · simp only [if_neg h2] at h ⊢
              cases ho : decInt (List.take k (List.drop w bs)) with
              | none => simp [ho] at h
              | some ofl => simp only [ho] at h ⊢; exact chk_strict_lenient h

theorem decItems_mono (d1 d2 : Bytes → Option (Val × Bytes)) (h : ∀ b r, d1 b = some r → d2 b = some r) :
    ∀ (n : Nat) (bs : Bytes) (r : Val × Bytes), Sarpy.Spec.FieldFmt2.decItems d1 n bs = some r →
      Sarpy.Spec.FieldFmt2.decItems d2 n bs = some r := by
  intro n
  induction n with
  | zero => intro bs r hd; simpa [Sarpy.Spec.FieldFmt2.decItems] using hd
  | succ n ih =>
    intro bs r hd
    simp only [Sarpy.Spec.FieldFmt2.decItems] at hd ⊢
    split at hd
    · exact absurd hd (by simp)
    · rename_i x r1 h1
      rw [h _ _ h1]
      split at hd
      · exact absurd hd (by simp)
      · rename_i xs r2 h2
        simp only [ih _ _ h2]
        exact hd

theorem dec_strict_lenient (f : Fmt) : ∀ (d : Env) (bs : Bytes) (r : Val × Bytes),
    dec true f d bs = some r → dec false f d bs = some r := by
  induction f with
  | int w =>
    intro d bs r h
    simp only [dec] at h ⊢
    by_cases hs : bs.length < w
    · simp [hs] at h
    · simp only [if_neg hs] at h ⊢
      cases hv : decInt (List.take w bs) with
      | none => simp [hv] at h
      | some v => simp only [hv] at h ⊢; exact chk_strict_lenient h
  | str w =>
    intro d bs r h
    simp only [dec] at h ⊢
    split at h
    · exact absurd h (by simp)
    · rename_i hs; rw [if_neg hs]; exact chk_strict_lenient h
  | tstr n =>
    intro d bs r h
    simp only [dec] at h ⊢
    split at h
    · exact absurd h (by simp)
    · rename_i hs; rw [if_neg hs]; exact chk_strict_lenient h
  | raw n => intro d bs r h; simpa [dec] using h
  | bin w =>
    intro d bs r h
    simp only [dec] at h ⊢
    split at h
    · exact absurd h (by simp)
    · rename_i hs; rw [if_neg hs]; exact chk_strict_lenient h
  | blob w k => intro d bs r h; simp only [dec] at h ⊢; exact decBlob_lenient h
  | unit => intro d bs r h; simpa [dec] using h
  | seq x hd tl ihh iht =>
    intro d bs r h
    simp only [dec] at h ⊢
    split at h
    · exact absurd h (by simp)
    · rename_i a r1 h1
      rw [ihh _ _ _ h1]
      split at h
      · exact absurd h (by simp)
      · rename_i as r2 h2
        simp only [iht _ _ _ h2]
        exact h
  | cond c f ih =>
    intro d bs r h
    simp only [dec] at h ⊢
    split at h
    · rename_i hc; rw [if_pos hc]; exact ih _ _ _ h
    · rename_i hc; rw [if_neg hc]; exact h
  | loop n item ih =>
    intro d bs r h
    simp only [dec] at h ⊢
    exact decItems_mono _ _ (fun b r hb => ih d b r hb) _ _ _ h

/-! ### top level statements (what the harness and the generated tables use) -/

theorem agree_top {f : Fmt} {ps : List Name} (env0 : Env) (v : Val) (h : wf f ps = true) :
    Agree ps env0 (bindings f v ++ env0) := agree_enter v h (fun _ _ => rfl)

/-- **C13x-1** decode (encode v ++ rest) = (v, rest) for every well-formed description and accepted value -/
theorem decode_encode {f : Fmt} {ps : List Name} (hw : wellFormed f ps = true) (env0 : Env) {v : Val}
    (ha : accept env0 f v = true) (rest : Bytes) :
    decode env0 f (encode env0 f v ++ rest) = some (v, rest) :=
  dec_enc false f ps env0 _ v rest hw (agree_top env0 v hw) (binds_self env0 v hw) ha

/-- the same for the strict decoder: every encoding of an accepted value is conformant -/
theorem decodeStrict_encode {f : Fmt} {ps : List Name} (hw : wellFormed f ps = true) (env0 : Env) {v : Val}
    (ha : accept env0 f v = true) (rest : Bytes) :
    decodeStrict env0 f (encode env0 f v ++ rest) = some (v, rest) :=
  dec_enc true f ps env0 _ v rest hw (agree_top env0 v hw) (binds_self env0 v hw) ha

/-- **C13x-2** the encoding has exactly the reported length -/
theorem encode_length (env0 : Env) (f : Fmt) {v : Val} (ha : accept env0 f v = true) :
    (encode env0 f v).length = length env0 f v := enc_length f _ v ha

/-- **C13x-3** conformant bytes: the decoded value is accepted and re-encodes to the same bytes -/
theorem reencode {f : Fmt} {ps : List Name} (hw : wellFormed f ps = true) (env0 : Env) {bs : Bytes} {v : Val} {rest : Bytes}
    (hd : decodeStrict env0 f bs = some (v, rest)) :
    accept env0 f v = true ∧ encode env0 f v ++ rest = bs := by
  obtain ⟨ha, hb⟩ := dec_strict_sound f ps env0 _ bs v rest hw (agree_top env0 v hw) (binds_self env0 v hw) hd
  exact ⟨ha, hb.symm⟩

theorem decodeStrict_decode {env0 : Env} {f : Fmt} {bs : Bytes} {r : Val × Bytes} (h : decodeStrict env0 f bs = some r) :
    decode env0 f bs = some r := dec_strict_lenient f env0 bs r h

/-- conformant bytes are exactly the encodings of accepted values followed by anything -/
theorem conformant_iff {f : Fmt} {ps : List Name} (hw : wellFormed f ps = true) (env0 : Env) (bs : Bytes) :
    conformant env0 f bs = true ↔ ∃ v rest, accept env0 f v = true ∧ bs = encode env0 f v ++ rest := by
  constructor
  · intro h
    simp only [conformant, Option.isSome_iff_exists] at h
    obtain ⟨⟨v, rest⟩, hd⟩ := h
    obtain ⟨ha, hb⟩ := reencode hw env0 hd
    exact ⟨v, rest, ha, hb.symm⟩
  · rintro ⟨v, rest, ha, rfl⟩
    simp [conformant, decodeStrict_encode hw env0 ha rest]

/-- **C13x-3'** decoding conformant bytes (with the ordinary decoder) and encoding again gives the same bytes -/
theorem reencode_conformant {f : Fmt} {ps : List Name} (hw : wellFormed f ps = true) (env0 : Env) {bs : Bytes}
    (hc : conformant env0 f bs = true) :
    ∃ v rest, decode env0 f bs = some (v, rest) ∧ accept env0 f v = true ∧ encode env0 f v ++ rest = bs := by
  simp only [conformant, Option.isSome_iff_exists] at hc
  obtain ⟨⟨v, rest⟩, hd⟩ := hc
  obtain ⟨ha, hb⟩ := reencode hw env0 hd
  exact ⟨v, rest, decodeStrict_decode hd, ha, hb⟩

/-- **C13x-4** prefix-freeness: the decoder stops exactly at the reported length and what follows is untouched -/
theorem decode_consumes_length {f : Fmt} {ps : List Name} (hw : wellFormed f ps = true) (env0 : Env) {v : Val}
    (ha : accept env0 f v = true) (rest : Bytes) :
    ∃ r, decode env0 f (encode env0 f v ++ rest) = some (v, r) ∧ r = rest ∧
      (encode env0 f v ++ rest).length = length env0 f v + r.length := by
  refine ⟨rest, decode_encode hw env0 ha rest, rfl, ?_⟩
  rw [List.length_append, encode_length env0 f ha]

/-- the decoded value does not depend on what follows the encoding -/
theorem decode_rest_independent {f : Fmt} {ps : List Name} (hw : wellFormed f ps = true) (env0 : Env) {v : Val}
    (ha : accept env0 f v = true) (r1 r2 : Bytes) :
    (decode env0 f (encode env0 f v ++ r1)).map Prod.fst = (decode env0 f (encode env0 f v ++ r2)).map Prod.fst := by
  rw [decode_encode hw env0 ha r1, decode_encode hw env0 ha r2]; rfl

/-- two accepted values with the same encoding are equal (the encoding is injective on accepted values) -/
theorem encode_injective {f : Fmt} {ps : List Name} (hw : wellFormed f ps = true) (env0 : Env) {v1 v2 : Val}
    (h1 : accept env0 f v1 = true) (h2 : accept env0 f v2 = true) (h : encode env0 f v1 = encode env0 f v2) : v1 = v2 := by
  have a := decode_encode hw env0 h1 []
  have b := decode_encode hw env0 h2 []
  rw [h, b] at a
  simpa using a.symm

/-! ### capacity of count and length fields: an accepted value never announces more than its digits can hold

    In the format language a count is a FIELD (`int w`, `blob w k`), so its capacity `10^w - 1` is part of acceptance: a loop with more
    items than the count field can announce, or a data area longer than its length prefix can announce, is not an accepted value, and
    for accepted values `encode_length` gives the exact length.  (What the Python SETTERS let through is the other half:
    Props/C13a.lean `slot_accepts_fits`, Gen/NitfSlots.lean.) -/

theorem acc_int_lt {w : Nat} {e : Env} {v : Int} (h : acc (.int w) e (.int v) = true) : v < 10 ^ w := by
  simp only [acc] at h
  exact ((Sarpy.Props.C13.acceptInt_iff w v).mp h).2

/-- a length-prefixed area: data + overflow field fit the `w` digits of the prefix -/
theorem accBlob_lt {w k : Nat} {ofl : Int} {d : Bytes} (h : accBlob w k (.cons (.int ofl) (.raw d)) = true) :
    ((d.length + k : Nat) : Int) < 10 ^ w := by
  simp only [accBlob, Bool.and_eq_true, decide_eq_true_eq] at h
  exact ((Sarpy.Props.C13.acceptInt_iff w _).mp h.1.1.2).2

/-- a counted loop `x : int w ; y : loop (var x) item`: the number of items of an accepted value is the count field and below `10^w` -/
theorem loop_count_lt {w : Nat} {x y : Name} {item tl : Fmt} {e : Env} {n : Int} {vs rest : Val}
    (h : acc (.seq x (.int w) (.seq y (.loop (.var x) item) tl)) ((x, .int n) :: e) (.cons (.int n) (.cons vs rest)) = true) :
    count vs = n.toNat ∧ ((count vs : Nat) : Int) < 10 ^ w := by
  simp only [acc, Bool.and_eq_true, decide_eq_true_eq, Expr.eval, bindings, List.nil_append, lookup, if_true, natOf] at h
  obtain ⟨hn, ⟨hc, _⟩, _⟩ := h
  have hlt := ((Sarpy.Props.C13.acceptInt_iff w n).mp hn).2
  refine ⟨hc, ?_⟩
  rw [hc]
  have : ((n.toNat : Nat) : Int) ≤ max n 0 := by omega
  have h0 : (0 : Int) < 10 ^ w := pow_pos (by norm_num) _
  omega

/-! ### the encoding is a function of the field values alone (mutation histories)

    In the model an element IS its value: there is no other state.  So whatever sequence of re-assignments produced the
    current field values - crossing conditional thresholds in either direction, from a constructed or a decoded start -
    the bytes, the length and the decoded value are those of a freshly built element with the same field values.  This is
    true of the description language by construction; the content is the TIE: sarpy's elements carry extra state
    (`ImageBands._count_size`, cached tables, ...) and the harness (harness/c13x.py, histories) requires after every public
    re-assignment that `to_bytes()` equals the bytes of a freshly constructed element with the same field values and the
    model's encoding of those values. -/

/-- a mutation history: any sequence of re-assignments, each an arbitrary function of the current field values -/
def runHistory (steps : List (Val → Val)) (v0 : Val) : Val := steps.foldl (fun v g => g v) v0

/-- **C13x-6** two histories that end in the same field values give the same bytes and the same length -/
theorem encode_history_independent (env0 : Env) (f : Fmt) (h1 h2 : List (Val → Val)) (a b : Val)
    (h : runHistory h1 a = runHistory h2 b) :
    encode env0 f (runHistory h1 a) = encode env0 f (runHistory h2 b) ∧
      length env0 f (runHistory h1 a) = length env0 f (runHistory h2 b) := by
  rw [h]; exact ⟨rfl, rfl⟩

/-- in particular the element reached by a history encodes like the freshly built element `v` with the same field values -/
theorem encode_after_history (env0 : Env) (f : Fmt) (steps : List (Val → Val)) (v0 v : Val) (h : runHistory steps v0 = v) :
    encode env0 f (runHistory steps v0) = encode env0 f v := by rw [h]

/-- and it decodes back to exactly those field values, whatever follows -/
theorem history_round_trip {f : Fmt} {ps : List Name} (hw : wellFormed f ps = true) (env0 : Env) (steps : List (Val → Val)) (v0 : Val)
    (ha : accept env0 f (runHistory steps v0) = true) (rest : Bytes) :
    decode env0 f (encode env0 f (runHistory steps v0) ++ rest) = some (runHistory steps v0, rest) ∧
      (encode env0 f (runHistory steps v0)).length = length env0 f (runHistory steps v0) :=
  ⟨decode_encode hw env0 ha rest, encode_length env0 f ha⟩

/-- the bytes say exactly what the field values are: equal bytes iff equal values (nothing else can enter the encoding) -/
theorem encode_eq_iff {f : Fmt} {ps : List Name} (hw : wellFormed f ps = true) (env0 : Env) {v1 v2 : Val}
    (h1 : accept env0 f v1 = true) (h2 : accept env0 f v2 = true) : encode env0 f v1 = encode env0 f v2 ↔ v1 = v2 :=
  ⟨encode_injective hw env0 h1 h2, fun h => by rw [h]⟩

/-! ### a byte area filled exactly by self-delimiting items (TRE list inside a user header) -/

theorem decMany_encItems (df : Bytes → Option (Val × Bytes)) (g : Val → Bytes) (p : Val → Bool)
    (h : ∀ x rest, p x = true → df (g x ++ rest) = some (x, rest)) (hne : ∀ x, p x = true → g x ≠ []) :
    ∀ (vs : Val) (fuel : Nat), accItems p vs = true → (encItems g vs).length ≤ fuel →
      decMany df fuel (encItems g vs) = some vs := by
  intro vs
  induction vs with
  | nil => intro fuel _ _; cases fuel <;> simp [encItems, decMany]
  | cons x xs _ ihx =>
    intro fuel ha hf
    simp only [accItems, Bool.and_eq_true] at ha
    have hx := hne x ha.1
    have hdx := h x (encItems g xs) ha.1
    simp only [encItems] at hf ⊢
    cases hg : g x with
    | nil => exact absurd hg hx
    | cons b t =>
      rw [hg] at hf hdx
      cases fuel with
      | zero => simp at hf
      | succ fuel =>
        simp only [List.cons_append] at hdx ⊢
        simp only [List.cons_append, List.length_cons, List.length_append] at hf
        simp only [decMany, hdx, ihx fuel ha.2 (by omega)]
  | _ => intro fuel ha _; simp [accItems] at ha

/-- **C13x-5** a list of items written back to back is read back item by item until the area is used up -/
theorem decodeAll_encodeAll {f : Fmt} {ps : List Name} (hw : wellFormed f ps = true) (env0 : Env)
    (hpos : ∀ x, accept env0 f x = true → 0 < length env0 f x) {vs : Val}
    (ha : accItems (accept env0 f) vs = true) :
    decodeAll env0 f (encodeAll env0 f vs) = some vs := by
  unfold decodeAll encodeAll
  refine decMany_encItems _ _ (accept env0 f) (fun x rest hx => decode_encode hw env0 hx rest) ?_ vs _ ha (Nat.le_refl _)
  intro x hx hnil
  have := hpos x hx
  rw [← encode_length env0 f hx, hnil] at this
  simp at this

/-! ### examples (non-vacuity) -/

/-- "TRE_OVERFLOW" -/
def treOverflow : Bytes := [84, 82, 69, 95, 79, 86, 69, 82, 70, 76, 79, 87]

/-- a DES-like subheader: DE(2) DESID(25) DESVER(2), then DESOFLW(6) and DESITEM(3) iff DESID is TRE_OVERFLOW, then a
    4-digit length-prefixed user-defined subheader -/
def desLike : Fmt :=
  .seq 1 (.str 2) (.seq 2 (.str 25) (.seq 3 (.int 2)
    (.seq 4 (.cond (.strIn 2 true [treOverflow]) (.str 6))
      (.seq 5 (.cond (.strIn 2 true [treOverflow]) (.int 3))
        (.seq 6 (.blob 4 0) .unit)))))

theorem desLike_wf : wellFormed desLike [] = true := by decide +kernel

def desPresent : Val :=
  .cons (.str [68, 69]) (.cons (.str treOverflow) (.cons (.int 1)
    (.cons (.str [85, 68, 72, 68]) (.cons (.int 7) (.cons (.cons (.int 0) (.raw [1, 2, 3])) .nil)))))
def desAbsent : Val :=
  .cons (.str [68, 69]) (.cons (.str [88, 77, 76]) (.cons (.int 1) (.cons .none (.cons .none (.cons .none .nil)))))

example : accept [] desLike desPresent = true ∧ accept [] desLike desAbsent = true := by decide
example : length [] desLike desPresent = 2 + 25 + 2 + 6 + 3 + 4 + 3 ∧ length [] desLike desAbsent = 2 + 25 + 2 + 4 := by decide
example : (encode [] desLike desPresent).length = 45 := by decide
/-- the conditional pair must be present exactly when DESID says so -/
example : accept [] desLike (.cons (.str [68, 69]) (.cons (.str treOverflow) (.cons (.int 1)
    (.cons .none (.cons .none (.cons .none .nil)))))) = false := by decide
example (rest : Bytes) : decode [] desLike (encode [] desLike desPresent ++ rest) = some (desPresent, rest) :=
  decode_encode desLike_wf [] (by decide) rest
example (rest : Bytes) : decode [] desLike (encode [] desLike desAbsent ++ rest) = some (desAbsent, rest) :=
  decode_encode desLike_wf [] (by decide) rest
example : conformant [] desLike (encode [] desLike desPresent ++ [9, 9]) = true := by decide

/-- an image-band-like record: IREPBAND(2) NLUTS(1), then NELUT(5) and LUTD of NLUTS*NELUT bytes iff NLUTS > 0 -/
def bandLike : Fmt :=
  .seq 1 (.str 2) (.seq 2 (.int 1) (.seq 3 (.cond (.pos 2) (.int 5))
    (.seq 4 (.cond (.pos 2) (.raw (.mul (.var 2) (.var 3)))) .unit)))

theorem bandLike_wf : wellFormed bandLike [] = true := by decide +kernel

def bandLut : Val := .cons (.str [77]) (.cons (.int 2) (.cons (.int 3) (.cons (.raw [1, 2, 3, 4, 5, 6]) .nil)))
def bandNoLut : Val := .cons (.str [77]) (.cons (.int 0) (.cons .none (.cons .none .nil)))

example : encode [] bandLike bandLut = [77, 32, 50, 48, 48, 48, 48, 51, 1, 2, 3, 4, 5, 6] := by decide
example : encode [] bandLike bandNoLut = [77, 32, 48] := by decide
/-- a LUT whose size is not NLUTS*NELUT is not accepted -/
example : accept [] bandLike (.cons (.str [77]) (.cons (.int 2) (.cons (.int 3) (.cons (.raw [1, 2, 3, 4, 5]) .nil)))) = false := by
  decide
example (rest : Bytes) : decode [] bandLike (encode [] bandLike bandLut ++ rest) = some (bandLut, rest) :=
  decode_encode bandLike_wf [] (by decide) rest
/-- a loop of bands whose count is an earlier field, with the NBANDS / XBANDS escape -/
def bandsLike : Fmt :=
  .seq 10 (.int 1) (.seq 11 (.cond (.not (.pos 10)) (.int 5))
    (.seq 12 (.loop (.ite (.pos 10) (.var 10) (.var 11)) bandLike) .unit))
theorem bandsLike_wf : wellFormed bandsLike [] = true := by decide +kernel
example (rest : Bytes) :
    decode [] bandsLike (encode [] bandsLike (.cons (.int 2) (.cons .none (.cons (.cons bandLut (.cons bandNoLut .nil)) .nil))) ++ rest) =
      some (.cons (.int 2) (.cons .none (.cons (.cons bandLut (.cons bandNoLut .nil)) .nil)), rest) :=
  decode_encode bandsLike_wf [] (by decide) rest

/-- a band loop re-assigned from 12 bands (XBANDS form) to 3 bands: the count fields are part of the value, and the only accepted
    value with three bands in the one-digit form encodes with a one-byte count -/
example : (encode [] bandsLike (.cons (.int 3) (.cons .none (.cons (.cons bandNoLut (.cons bandNoLut (.cons bandNoLut .nil))) .nil)))).take 1 = [51] := by
  decide

/-- a user-header area: 5-digit length, then (if > 0) a 3-digit overflow field and the data -/
def userHeader : Fmt := .blob 5 3
theorem userHeader_wf : wellFormed userHeader [] = true := by decide +kernel
example : encode [] userHeader .none = [48, 48, 48, 48, 48] := by decide
example : encode [] userHeader (.cons (.int 7) (.raw [65, 66])) = [48, 48, 48, 48, 53, 48, 48, 55, 65, 66] := by decide
example (rest : Bytes) : decode [] userHeader (encode [] userHeader (.cons (.int 7) (.raw [65, 66])) ++ rest) =
    some (.cons (.int 7) (.raw [65, 66]), rest) := decode_encode userHeader_wf [] (by decide) rest
/-- a length field that disagrees with the standard (2 < 3) is not conformant -/
example : conformant [] userHeader [48, 48, 48, 48, 50, 65, 66] = false := by decide

/-- a mask-table-like description with parameters 100 (band_depth) and 101 (blocks): big-endian header fields,
    a pad-pixel code of ceil(TPXCDLNTH/8) bytes, tables of band_depth*blocks 4-byte offsets present iff their length
    field is non-zero -/
def maskLike : Fmt :=
  .seq 1 (.bin 4) (.seq 2 (.bin 2) (.seq 3 (.bin 2) (.seq 4 (.bin 2) (.seq 5 (.raw (.ceilDiv (.var 4) 8))
    (.seq 6 (.cond (.pos 2) (.loop (.mul (.var 100) (.var 101)) (.bin 4)))
      (.seq 7 (.cond (.pos 3) (.loop (.mul (.var 100) (.var 101)) (.bin 4))) .unit))))))
theorem maskLike_wf : wellFormed maskLike [100, 101] = true := by decide +kernel
def maskEnv : Env := [(100, .nat 1), (101, .nat 3)]
def maskVal : Val :=
  .cons (.nat 36) (.cons (.nat 4) (.cons (.nat 0) (.cons (.nat 12) (.cons (.raw [1, 2])
    (.cons (.cons (.nat 0) (.cons (.nat 4294967295) (.cons (.nat 2048) .nil))) (.cons .none .nil))))))
example : encode maskEnv maskLike maskVal =
    [0, 0, 0, 36, 0, 4, 0, 0, 0, 12, 1, 2, 0, 0, 0, 0, 255, 255, 255, 255, 0, 0, 8, 0] := by decide
example (rest : Bytes) : decode maskEnv maskLike (encode maskEnv maskLike maskVal ++ rest) = some (maskVal, rest) :=
  decode_encode maskLike_wf maskEnv (by decide) rest
example : (encode maskEnv maskLike maskVal).length = length maskEnv maskLike maskVal := encode_length _ _ (by decide)

/-- the TRE envelope: 6-character tag, 5-digit length, payload; a user-header area is filled by such items -/
def treLike : Fmt := .seq 1 (.str 6) (.seq 2 (.int 5) (.seq 3 (.raw (.var 2)) .unit))
theorem treLike_wf : wellFormed treLike [] = true := by decide +kernel
example : decodeAll [] treLike (encodeAll [] treLike
    (.cons (.cons (.str [65, 66, 67]) (.cons (.int 2) (.cons (.raw [1, 2]) .nil)))
      (.cons (.cons (.str [88]) (.cons (.int 0) (.cons (.raw []) .nil))) .nil))) =
    some (.cons (.cons (.str [65, 66, 67]) (.cons (.int 2) (.cons (.raw [1, 2]) .nil)))
      (.cons (.cons (.str [88]) (.cons (.int 0) (.cons (.raw []) .nil))) .nil)) := by decide

/-! ### NEGATIVE example: well-formedness is needed.
    The condition of field 1 looks at field 2, which comes LATER.  The encoder (which sees the whole record) writes
    the part; the decoder (which has not yet seen field 2) skips it: the round trip is lost. -/
def illFormed : Fmt := .seq 1 (.cond (.pos 2) (.int 2)) (.seq 2 (.int 1) .unit)
def illValue : Val := .cons (.int 7) (.cons (.int 1) .nil)
example : wellFormed illFormed [] = false := by decide
example : accept [] illFormed illValue = true := by decide
example : encode [] illFormed illValue = [48, 55, 49] := by decide
example : decode [] illFormed (encode [] illFormed illValue) = some (.cons .none (.cons (.int 0) .nil), [55, 49]) := by decide
theorem illFormed_loses_round_trip : decode [] illFormed (encode [] illFormed illValue) ≠ some (illValue, []) := by decide
/-- a re-used name is rejected too (the later binding would be shadowed in one direction only) -/
example : wellFormed (.seq 1 (.int 1) (.seq 1 (.int 1) .unit)) [] = false := by decide

end Sarpy.Props.C13x
