/-
  C01, completeness of the subscript gate: `verify_slice` / `verify_subscript` refuse ONLY what the property
  allows them to refuse.

  `Props/C01.lean` and `Props/C01Nd.lean` prove soundness (whatever is accepted selects numpy's indices and is
  non-empty).  This file proves the converse and so the exact acceptance set:

  * `Supported n s`      : declarative, decidable, written with numpy's `npIndices` only (no reference to
                           `verifySlice`): step ≠ 0, start / stop (when given) in `[-n, n]`, numpy's selection
                           non-empty.
  * `verify_slice_accepts_iff` : `(verifySlice n s).isSome ↔ Supported n s`, every `n`, start, stop, step of
                           either sign, `None` anywhere.
  * `verify_int_accepts_iff`   : `(verifyInt n i).isSome ↔ -n ≤ i < n`.
  * `verify_sub_accepts_iff`   : N-d lift - accepted iff the Ellipsis expansion is not refused and every expanded
                           item is supported on its axis.
  * `gen_*`              : the same for `Gen.verify_slice`, the translation of /repo's current Python
                           (regenerated on every run) - it raises iff the item is not supported.

  Proof idea: inside the bounds `check_bound` is the map `x ↦ if x < 0 then x + n else x`, and on `[-n, n]`
  CPython's clamp (`PySlice_AdjustIndices`) is the same map (capped at `n - 1` for a negative step, which is
  sarpy's `start == max_element` special case); emptiness of an arithmetic progression is `cnt span step = 0`
  which is `span ≤ 0`; sarpy's `sign(stop - start) != sign(step)` is then literally the same inequality.
-/
import SarpyModel.Props.C01Nd
import SarpyModel.Spec.Supported
import Mathlib.Tactic.SplitIfs

namespace Sarpy.Props.C01
open Sarpy Sarpy.Spec

/-! The declarative predicates `InBound`, `Supported`, `SupportedInt`, `SupportedItem`, `AxesSupported` live in
    `Spec/Supported.lean` (import-free, so the same definitions are *executed* by `Drivers/Supported.lean` in the
    correspondence check against numpy and the real `verify_slice`). -/

/-! ### emptiness of numpy's selection -/

theorem ap_eq_nil_iff (a s : Int) (c : Nat) : ap a s c = [] ↔ c = 0 := by
  constructor
  · intro h
    have := congrArg List.length h
    simpa using this
  · intro h; subst h; rfl

theorem cnt_eq_zero_iff {span s : Int} (hs : 0 < s) : cnt span s = 0 ↔ span ≤ 0 := by
  constructor
  · intro h
    by_contra hc
    have := cnt_pos hs (show 0 < span by omega)
    omega
  · exact cnt_eq_zero hs

theorem np_nonempty_pos {n : Nat} {s : PySlice} (hc : 0 < s.step.getD 1) :
    npIndices n s ≠ [] ↔ npStartPos n s.start < npStopPos n s.stop := by
  unfold npIndices
  simp only [gt_iff_lt, hc, if_true, ne_eq, ap_eq_nil_iff, cnt_eq_zero_iff hc]
  omega

theorem np_nonempty_neg {n : Nat} {s : PySlice} (hc : s.step.getD 1 < 0) :
    npIndices n s ≠ [] ↔ npStopNeg n s.stop < npStartNeg n s.start := by
  unfold npIndices
  have h1 : ¬ (0 < s.step.getD 1) := by omega
  have h2 : 0 < -(s.step.getD 1) := by omega
  simp only [gt_iff_lt, h1, hc, if_true, if_false, ne_eq, ap_eq_nil_iff, cnt_eq_zero_iff h2]
  omega

theorem np_empty_zero {n : Nat} {s : PySlice} (hc : s.step.getD 1 = 0) : npIndices n s = [] := by
  unfold npIndices
  simp [hc]

/-! ### `check_bound` is total exactly on `[-n, n]` -/

/-- the in-range normalisation shared by `check_bound` and CPython -/
def wrap (n x : Int) : Int := if x < 0 then x + n else x

theorem checkBound_inBound {n : Int} {e : Option Int} (h : InBound n e) :
    checkBound n e = some (e.map (wrap n)) := by
  cases e with
  | none => rfl
  | some x =>
    obtain ⟨h1, h2⟩ := h
    unfold checkBound wrap
    simp only [Option.map_some]
    split_ifs <;> first | rfl | omega

theorem checkBound_not_inBound {n : Int} {e : Option Int} (h : ¬ InBound n e) : checkBound n e = none := by
  cases e with
  | none => exact absurd trivial h
  | some x =>
    unfold checkBound
    simp only
    split_ifs with h1 h2
    · exact absurd ⟨h1.1, by omega⟩ h
    · exact absurd ⟨by omega, h2.2⟩ h
    · rfl

theorem checkBound_isSome_iff (n : Int) (e : Option Int) : (checkBound n e).isSome ↔ InBound n e := by
  by_cases h : InBound n e
  · simp [checkBound_inBound h, h]
  · simp [checkBound_not_inBound h, h]

/-! ### sarpy's sign test is an inequality -/

theorem sign_ne_of_pos {d c : Int} (hc : 0 < c) : Int.sign d ≠ Int.sign c ↔ d ≤ 0 := by
  rw [Int.sign_eq_one_of_pos hc, ne_eq, Int.sign_eq_one_iff_pos]
  omega

theorem sign_ne_of_neg {d c : Int} (hc : c < 0) : Int.sign d ≠ Int.sign c ↔ 0 ≤ d := by
  rw [Int.sign_eq_neg_one_of_neg hc, ne_eq, Int.sign_eq_neg_one_iff_neg]
  omega

/-! ### `verifySlice` in closed form, by the sign of the step -/

theorem verifySlice_out_of_bounds {n : Int} {s : PySlice} (h : ¬ (InBound n s.start ∧ InBound n s.stop)) :
    verifySlice n s = none := by
  unfold verifySlice
  split_ifs with hn
  · rfl
  · by_cases hA : InBound n s.start
    · have hB : ¬ InBound n s.stop := fun hB => h ⟨hA, hB⟩
      rw [checkBound_inBound hA, checkBound_not_inBound hB]
    · rw [checkBound_not_inBound hA]

theorem verifySlice_small {n : Int} (hn : n < 1) (s : PySlice) : verifySlice n s = none := by
  unfold verifySlice
  rw [if_pos hn]

theorem verifySlice_zero_step {n : Int} {s : PySlice} (hc : s.step.getD 1 = 0) : verifySlice n s = none := by
  by_cases h : InBound n s.start ∧ InBound n s.stop
  · unfold verifySlice
    split_ifs with hn
    · rfl
    · rw [checkBound_inBound h.1, checkBound_inBound h.2]
      simp [hc]
  · exact verifySlice_out_of_bounds h

theorem verifySlice_pos_isSome {n : Int} (hn : 1 ≤ n) {s : PySlice} (hA : InBound n s.start) (hB : InBound n s.stop)
    (hc : 0 < s.step.getD 1) :
    (verifySlice n s).isSome ↔ (s.start.map (wrap n)).getD 0 < (s.stop.map (wrap n)).getD n := by
  unfold verifySlice
  rw [if_neg (by omega), checkBound_inBound hA, checkBound_inBound hB]
  simp only [gt_iff_lt, hc, if_true]
  by_cases hd : (s.stop.map (wrap n)).getD n - (s.start.map (wrap n)).getD 0 ≤ 0
  · rw [if_pos ((sign_ne_of_pos hc).2 hd)]
    simp only [Option.isSome_none, Bool.false_eq_true, false_iff]
    omega
  · rw [if_neg (fun h => hd ((sign_ne_of_pos hc).1 h))]
    simp only [Option.isSome_some, true_iff]
    omega

theorem verifySlice_neg_isSome {n : Int} (hn : 1 ≤ n) {s : PySlice} (hA : InBound n s.start) (hB : InBound n s.stop)
    (hc : s.step.getD 1 < 0) :
    (verifySlice n s).isSome ↔ (s.stop.map (wrap n)).getD (-1) < negStart n (s.start.map (wrap n)) := by
  have hnn : 0 ≤ negStart n (s.start.map (wrap n)) := by
    cases hs : s.start with
    | none => simp only [Option.map_none, negStart]; omega
    | some x =>
      rw [hs] at hA
      obtain ⟨h1, h2⟩ := hA
      simp only [Option.map_some, negStart, wrap]
      split_ifs <;> omega
  unfold verifySlice
  rw [if_neg (by omega), checkBound_inBound hA, checkBound_inBound hB]
  have h1 : ¬ (0 < s.step.getD 1) := by omega
  simp only [gt_iff_lt, h1, hc, if_true, if_false]
  cases hb : s.stop with
  | none =>
    simp only [Option.map_none, Option.isSome_some, Option.getD_none, true_iff]
    omega
  | some y =>
    simp only [Option.map_some, Option.getD_some]
    by_cases hd : 0 ≤ wrap n y - negStart n (s.start.map (wrap n))
    · rw [if_pos ((sign_ne_of_neg hc).2 hd)]
      simp only [Option.isSome_none, Bool.false_eq_true, false_iff]
      omega
    · rw [if_neg (fun h => hd ((sign_ne_of_neg hc).1 h))]
      simp only [Option.isSome_some, true_iff]
      omega

/-! ### numpy's clamped bounds inside `[-n, n]` -/

theorem npStartPos_inBound {n : Int} (_hn : 0 ≤ n) {e : Option Int} (h : InBound n e) :
    npStartPos n e = (e.map (wrap n)).getD 0 := by
  cases e with
  | none => rfl
  | some x =>
    obtain ⟨h1, h2⟩ := h
    simp only [npStartPos, npClamp, wrap, Option.map_some, Option.getD_some]
    split_ifs <;> omega

theorem npStopPos_inBound {n : Int} (_hn : 0 ≤ n) {e : Option Int} (h : InBound n e) :
    npStopPos n e = (e.map (wrap n)).getD n := by
  cases e with
  | none => rfl
  | some x =>
    obtain ⟨h1, h2⟩ := h
    simp only [npStopPos, npClamp, wrap, Option.map_some, Option.getD_some]
    split_ifs <;> omega

theorem npStartNeg_inBound {n : Int} (_hn : 0 ≤ n) {e : Option Int} (h : InBound n e) :
    npStartNeg n e = negStart n (e.map (wrap n)) := by
  cases e with
  | none => rfl
  | some x =>
    obtain ⟨h1, h2⟩ := h
    simp only [npStartNeg, npClamp, negStart, wrap, Option.map_some]
    split_ifs <;> omega

/-- numpy caps the stop of a negative-step slice at `n - 1`; the cap never changes emptiness because the
    start is at most `n - 1` -/
theorem npStopNeg_inBound {n : Int} (hn : 0 ≤ n) {e : Option Int} (h : InBound n e) :
    npStopNeg n e = min ((e.map (wrap n)).getD (-1)) (n - 1) := by
  cases e with
  | none => simp only [npStopNeg, Option.map_none, Option.getD_none]; omega
  | some x =>
    obtain ⟨h1, h2⟩ := h
    simp only [npStopNeg, npClamp, wrap, Option.map_some, Option.getD_some]
    split_ifs <;> omega

theorem negStart_le {n : Int} (_hn : 0 ≤ n) {e : Option Int} (h : InBound n e) :
    negStart n (e.map (wrap n)) ≤ n - 1 := by
  cases e with
  | none => simp [negStart]
  | some x =>
    obtain ⟨h1, h2⟩ := h
    simp only [negStart, wrap, Option.map_some]
    split_ifs <;> omega

/-! ### completeness of `verify_slice` -/

/-- numpy never selects anything from an empty axis -/
theorem np_empty_axis (s : PySlice) : npIndices 0 s = [] := by
  by_contra h
  rcases Int.lt_trichotomy (s.step.getD 1) 0 with hc | hc | hc
  · have := (np_nonempty_neg (n := 0) hc).1 h
    revert this
    cases s.start <;> cases s.stop <;> simp only [npStartNeg, npStopNeg, npClamp, Nat.cast_zero] <;> (try split_ifs) <;> omega
  · exact h (np_empty_zero hc)
  · have := (np_nonempty_pos (n := 0) hc).1 h
    revert this
    cases s.start <;> cases s.stop <;> simp only [npStartPos, npStopPos, npClamp, Nat.cast_zero] <;> (try split_ifs) <;> omega

theorem supported_pos {n : Nat} {s : PySlice} (h : Supported n s) : 1 ≤ n := by
  rcases Nat.eq_zero_or_pos n with h0 | h0
  · subst h0; exact absurd (np_empty_axis s) h.2.2.2
  · exact h0

/-- **exact acceptance set of `verify_slice` on slice items**: it accepts precisely the in-range, non-empty,
    non-zero-step selections - for every axis length, every start / stop / step of either sign, `None` anywhere. -/
theorem verify_slice_accepts_iff (n : Nat) (s : PySlice) : (verifySlice n s).isSome ↔ Supported n s := by
  by_cases hn : n = 0
  · subst hn
    rw [verifySlice_small (by simp)]
    simp only [Option.isSome_none, Bool.false_eq_true, false_iff]
    exact fun h => absurd (supported_pos h) (by omega)
  have hn1 : (1 : Int) ≤ n := by omega
  have hn0 : (0 : Int) ≤ n := by omega
  by_cases hAB : InBound n s.start ∧ InBound n s.stop
  · obtain ⟨hA, hB⟩ := hAB
    unfold Supported
    rcases Int.lt_trichotomy (s.step.getD 1) 0 with hc | hc | hc
    · rw [verifySlice_neg_isSome hn1 hA hB hc, np_nonempty_neg hc, npStartNeg_inBound hn0 hA, npStopNeg_inBound hn0 hB]
      have := negStart_le hn0 hA
      constructor
      · intro h; exact ⟨by omega, hA, hB, by omega⟩
      · intro h; have := h.2.2.2; omega
    · rw [verifySlice_zero_step hc]
      simp [hc]
    · rw [verifySlice_pos_isSome hn1 hA hB hc, np_nonempty_pos hc, npStartPos_inBound hn0 hA, npStopPos_inBound hn0 hB]
      constructor
      · intro h; exact ⟨by omega, hA, hB, h⟩
      · intro h; exact h.2.2.2
  · rw [verifySlice_out_of_bounds hAB]
    simp only [Option.isSome_none, Bool.false_eq_true, false_iff]
    exact fun h => hAB ⟨h.2.1, h.2.2.1⟩

/-- `verify_slice` refuses exactly: zero step, or a bound outside `[-n, n]`, or an empty numpy selection -/
theorem verify_slice_refuses_iff (n : Nat) (s : PySlice) : verifySlice n s = none ↔ ¬ Supported n s := by
  rw [← verify_slice_accepts_iff]
  cases verifySlice n s <;> simp

/-- the refusal set spelled out -/
theorem verify_slice_refuses_iff' (n : Nat) (s : PySlice) :
    verifySlice n s = none ↔
      s.step.getD 1 = 0 ∨ ¬ InBound n s.start ∨ ¬ InBound n s.stop ∨ npIndices n s = [] := by
  rw [verify_slice_refuses_iff]
  unfold Supported
  by_cases h1 : s.step.getD 1 = 0 <;> by_cases h2 : InBound n s.start <;> by_cases h3 : InBound n s.stop <;>
    by_cases h4 : npIndices n s = [] <;> simp [h1, h2, h3, h4]

/-- accepted, hence (soundness) the returned slice selects exactly numpy's non-empty selection: the two halves
    together say `verify_slice` is the identity on supported selections and an error elsewhere -/
theorem verify_slice_total_on_supported {n : Nat} {s : PySlice} (h : Supported n s) :
    ∃ t, verifySlice n s = some t ∧ t.Normal n ∧ t.indices = npIndices n s := by
  have := (verify_slice_accepts_iff n s).2 h
  obtain ⟨t, ht⟩ := Option.isSome_iff_exists.1 this
  obtain ⟨h1, h2, _⟩ := verify_slice_sound ht
  exact ⟨t, ht, h1, h2⟩

/-! ### integer items -/

theorem verify_int_accepts_iff (n : Nat) (i : Int) : (verifyInt n i).isSome ↔ SupportedInt n i := by
  unfold verifyInt SupportedInt
  split_ifs with h1 h2 h3 <;> simp <;> omega

theorem verify_int_refuses_iff (n : Nat) (i : Int) : verifyInt n i = none ↔ ¬ SupportedInt n i := by
  rw [← verify_int_accepts_iff]
  cases verifyInt n i <;> simp

/-- an integer item is supported iff the one-element slice `i : i+1` (resp. `-1 :` for `i = -1`) would be:
    numpy's integer indexing and slicing agree on what is in range -/
theorem supportedInt_iff_np (n : Nat) (i : Int) : SupportedInt n i ↔ npItem n (.int i) ≠ [] := by
  unfold SupportedInt
  simp only [npItem]
  split_ifs with h <;> simp [h]

/-! ### N-d lift: `verify_subscript` -/

/-- the full-axis item is supported exactly on non-empty axes -/
theorem supported_full_iff (n : Nat) : Supported n ⟨none, none, none⟩ ↔ 1 ≤ n := by
  constructor
  · exact supported_pos
  · intro h
    refine ⟨by simp, trivial, trivial, ?_⟩
    rw [np_nonempty_pos (by simp)]
    simp only [npStartPos, npStopPos]
    omega

theorem supportedItem_pos {n : Nat} {it : PyItem} (h : SupportedItem n it) : 1 ≤ n := by
  cases it with
  | none => exact supported_pos h
  | slice s => exact supported_pos h
  | int i =>
    obtain ⟨h1, h2⟩ := h
    omega

theorem verify_item_accepts_iff (n : Nat) (it : PyItem) : (verifyItem n it).isSome ↔ SupportedItem n it := by
  cases it with
  | none => exact verify_slice_accepts_iff n ⟨none, none, none⟩
  | int i => exact verify_int_accepts_iff n i
  | slice s => exact verify_slice_accepts_iff n s

theorem verify_axes_accepts_iff : ∀ (shape : List Nat) (its : List PyItem),
    (verifyAxes shape its).isSome ↔ AxesSupported shape its
  | [], [] => by simp [verifyAxes, AxesSupported]
  | [], _ :: _ => by simp [verifyAxes, AxesSupported]
  | _ :: _, [] => by simp [verifyAxes, AxesSupported]
  | n :: ns, it :: its => by
    have ih := verify_axes_accepts_iff ns its
    have h1 := verify_item_accepts_iff n it
    unfold verifyAxes AxesSupported
    cases hv : verifyItem n it with
    | none =>
      rw [hv] at h1
      simp only [Option.isSome_none, Bool.false_eq_true, false_iff] at h1 ⊢
      exact fun h => h1 h.1
    | some t =>
      rw [hv] at h1
      cases hw : verifyAxes ns its with
      | none =>
        rw [hw] at ih
        simp only [Option.isSome_none, Bool.false_eq_true, false_iff] at ih ⊢
        exact fun h => ih h.2
      | some ts =>
        rw [hw] at ih
        simp only [Option.isSome_some, true_iff] at h1 ih ⊢
        exact ⟨h1, ih⟩

theorem axesSupported_pos : ∀ {shape : List Nat} {its : List PyItem}, AxesSupported shape its →
    its.length = shape.length ∧ ∀ n ∈ shape, 1 ≤ n
  | [], [], _ => by simp
  | [], _ :: _, h => by simp [AxesSupported] at h
  | _ :: _, [], h => by simp [AxesSupported] at h
  | n :: ns, it :: its, h => by
    obtain ⟨h1, h2⟩ := axesSupported_pos h.2
    refine ⟨by simp [h1], ?_⟩
    intro m hm
    rcases List.mem_cons.1 hm with rfl | hm
    · exact supportedItem_pos h.1
    · exact h2 m hm

/-- **exact acceptance set of `verify_subscript`** on tuple subscripts: accepted iff the Ellipsis expansion is
    not refused and every expanded item is supported on its axis -/
theorem verify_sub_accepts_iff_expand (shape : List Nat) (l : List SubEntry) :
    (verifySub shape l).isSome ↔ ∃ its, expandSub shape.length l = some its ∧ AxesSupported shape its := by
  unfold verifySub
  cases he : expandSub shape.length l with
  | none => simp
  | some its =>
    simp only [Option.some.injEq, exists_eq_left']
    exact verify_axes_accepts_iff shape its

/-- the same with the expansion spelled out: at most one Ellipsis, no more items than axes, and the items in
    front of / behind the Ellipsis and the full-axis fillers between them are supported axis by axis -/
theorem verify_sub_accepts_iff (shape : List Nat) (l : List SubEntry) :
    (verifySub shape l).isSome ↔ SupportedSub shape l := by
  unfold SupportedSub
  rw [verify_sub_accepts_iff_expand]
  unfold expandSub
  split_ifs with h1 h2
  · simp only [false_and, exists_false, false_iff]
    omega
  · simp only [false_and, exists_false, false_iff]
    omega
  · simp only [Option.some.injEq, exists_eq_left']
    constructor
    · intro h; exact ⟨by omega, by omega, h⟩
    · intro h; exact h.2.2

theorem verify_sub_refuses_iff (shape : List Nat) (l : List SubEntry) :
    verifySub shape l = none ↔
      1 < countEll l ∨ shape.length < (subItems l).length ∨
      ¬ AxesSupported shape
        (beforeEll l ++ List.replicate (shape.length - (subItems l).length) PyItem.none ++ afterEll l) := by
  have := verify_sub_accepts_iff shape l
  unfold SupportedSub at this
  cases hv : verifySub shape l with
  | none =>
    rw [hv] at this
    simp only [Option.isSome_none, Bool.false_eq_true, false_iff, not_and] at this
    simp only [true_iff]
    by_cases h1 : countEll l ≤ 1
    · by_cases h2 : (subItems l).length ≤ shape.length
      · exact Or.inr (Or.inr (this h1 h2))
      · exact Or.inr (Or.inl (by omega))
    · exact Or.inl (by omega)
  | some ts =>
    rw [hv] at this
    simp only [Option.isSome_some, true_iff] at this
    simp only [reduceCtorEq, false_iff, not_or, not_not]
    exact ⟨by omega, by omega, this.2.2⟩

/-- an accepted subscript needs every axis non-empty -/
theorem verify_sub_accepts_pos {shape : List Nat} {l : List SubEntry} (h : (verifySub shape l).isSome) :
    ∀ n ∈ shape, 1 ≤ n := by
  obtain ⟨its, _, hs⟩ := (verify_sub_accepts_iff_expand shape l).1 h
  exact (axesSupported_pos hs).2

/-! ### the code that is in /repo now (`Gen.verify_slice` is regenerated from the Python source each run) -/

theorem toOption_isSome_iff {ε α : Type} (x : Except ε α) : x.toOption.isSome ↔ ∃ v, x = .ok v := by
  cases x <;> simp [Except.toOption]

theorem toOption_isNone_iff {ε α : Type} (x : Except ε α) : x.toOption = none ↔ ∃ e, x = .error e := by
  cases x <;> simp [Except.toOption]

/-- the current `verify_slice` returns (does not raise) exactly on supported slices -/
theorem gen_verify_slice_accepts_iff (n : Nat) (s : PySlice) :
    (∃ r, Gen.verify_slice (.slice s) n = .ok r) ↔ Supported n s := by
  rw [← toOption_isSome_iff, gen_verify_slice, Option.isSome_map, verify_slice_accepts_iff]

/-- the current `verify_slice` raises exactly on unsupported slices -/
theorem gen_verify_slice_raises_iff (n : Nat) (s : PySlice) :
    (∃ e, Gen.verify_slice (.slice s) n = .error e) ↔ ¬ Supported n s := by
  rw [← toOption_isNone_iff, gen_verify_slice, Option.map_eq_none_iff, verify_slice_refuses_iff]

theorem gen_verify_int_accepts_iff (n : Nat) (i : Int) :
    (∃ r, Gen.verify_slice (.int i) n = .ok r) ↔ SupportedInt n i := by
  rw [← toOption_isSome_iff, gen_verify_int, Option.isSome_map, verify_int_accepts_iff]

theorem gen_verify_int_raises_iff (n : Nat) (i : Int) :
    (∃ e, Gen.verify_slice (.int i) n = .error e) ↔ ¬ SupportedInt n i := by
  rw [← toOption_isNone_iff, gen_verify_int, Option.map_eq_none_iff, verify_int_refuses_iff]

/-- the `None` item (full axis) through the current code: same gate as the slice `::` -/
theorem gen_verify_none (n : Int) :
    (Gen.verify_slice .none n).toOption = (verifySlice n ⟨none, none, none⟩).map NSlice.toPy := by
  open Sarpy.Bridge in
  unfold Gen.verify_slice verifySlice
  by_cases hn : n < 1
  · py_simp [hn, Except.toOption]
  · have : Int.sign (n - 0) = 1 := Int.sign_eq_one_of_pos (by omega)
    py_simp [hn, Except.toOption, PyItem.isNone, checkBound, NSlice.toPy, this]
    omega

theorem gen_verify_none_accepts_iff (n : Nat) : (∃ r, Gen.verify_slice .none n = .ok r) ↔ 1 ≤ n := by
  rw [← toOption_isSome_iff, gen_verify_none, Option.isSome_map, verify_slice_accepts_iff, supported_full_iff]

/-- one statement for all three item kinds: the current `verify_slice` raises iff the item is not supported -/
theorem gen_verify_item_raises_iff (n : Nat) (it : PyItem) :
    (∃ e, Gen.verify_slice it n = .error e) ↔ ¬ SupportedItem n it := by
  cases it with
  | none =>
    rw [← toOption_isNone_iff, gen_verify_none, Option.map_eq_none_iff, verify_slice_refuses_iff]
    rfl
  | int i => exact gen_verify_int_raises_iff n i
  | slice s => exact gen_verify_slice_raises_iff n s

/-- a supported slice is returned normalised to numpy's exact selection by the current code -/
theorem gen_verify_slice_total_on_supported {n : Nat} {s : PySlice} (h : Supported n s) :
    ∃ t : NSlice, (Gen.verify_slice (.slice s) n).toOption = some t.toPy ∧ t.Normal n ∧ t.indices = npIndices n s := by
  obtain ⟨t, ht, h1, h2⟩ := verify_slice_total_on_supported h
  exact ⟨t, by rw [gen_verify_slice, ht]; rfl, h1, h2⟩

/-! ### corner cases, decided by evaluation -/

-- accepted
example : Supported 5 ⟨some 0, some 5, none⟩ := by decide                       -- stop = n
example : (verifySlice 5 ⟨some 0, some 5, none⟩).isSome = true := by decide
example : Supported 5 ⟨some 5, none, some (-1)⟩ := by decide                    -- start = n, negative step
example : verifySlice 5 ⟨some 5, none, some (-1)⟩ = some ⟨4, none, -1⟩ := by decide
example : Supported 5 ⟨some (-5), none, some 2⟩ := by decide                    -- start = -n
example : verifySlice 5 ⟨some (-5), none, some 2⟩ = some ⟨0, some 5, 2⟩ := by decide
example : Supported 5 ⟨none, some (-5), some (-2)⟩ := by decide                 -- stop = -n, negative step
example : verifySlice 5 ⟨none, some (-5), some (-2)⟩ = some ⟨4, some 0, -2⟩ := by decide
example : Supported 5 ⟨some 2, none, some (-3)⟩ := by decide                    -- stop None, negative step
example : verifySlice 5 ⟨some 2, none, some (-3)⟩ = some ⟨2, none, -3⟩ := by decide
example : Supported 1 ⟨none, none, none⟩ := by decide                           -- n = 1
example : Supported 1 ⟨some (-1), some 1, some 7⟩ := by decide
example : Supported 1 ⟨some 1, none, some (-1)⟩ := by decide
example : verifySlice 1 ⟨some 1, none, some (-1)⟩ = some ⟨0, none, -1⟩ := by decide
example : SupportedInt 1 (-1) ∧ SupportedInt 1 0 := by decide
-- refused
example : ¬ Supported 5 ⟨some 5, some 5, none⟩ := by decide                     -- start = n, positive step: empty
example : verifySlice 5 ⟨some 5, some 5, none⟩ = none := by decide
example : ¬ Supported 5 ⟨some 5, some 4, some (-1)⟩ := by decide                -- start clamps to n-1 = stop: empty
example : verifySlice 5 ⟨some 5, some 4, some (-1)⟩ = none := by decide
example : ¬ Supported 5 ⟨none, some 5, some (-1)⟩ := by decide                  -- stop = n, negative step: empty
example : verifySlice 5 ⟨none, some 5, some (-1)⟩ = none := by decide
example : ¬ Supported 5 ⟨some 0, some (-5), some (-1)⟩ := by decide             -- stop = -n wraps to 0 = start: empty
example : ¬ Supported 5 ⟨some 0, some 6, none⟩ := by decide                     -- stop = n + 1: out of range
example : verifySlice 5 ⟨some 0, some 6, none⟩ = none := by decide
example : ¬ Supported 5 ⟨some (-6), none, none⟩ := by decide                    -- start = -n - 1: out of range
example : ¬ Supported 5 ⟨none, none, some 0⟩ := by decide                       -- zero step
example : ¬ Supported 5 ⟨some 3, some 1, none⟩ := by decide                     -- backwards with positive step
example : ¬ Supported 1 ⟨some 1, none, none⟩ := by decide                       -- n = 1, start = n
example : ¬ Supported 0 ⟨none, none, none⟩ := by decide                         -- empty axis
example : ¬ SupportedInt 5 5 ∧ ¬ SupportedInt 5 (-6) := by decide
-- N-d
example : AxesSupported [4, 3] [.none, .slice ⟨some 3, none, some (-2)⟩] := by decide
example : (verifySub [4, 3] [.ell, .item (.slice ⟨some 3, none, some (-2)⟩)]).isSome = true := by decide
example : ¬ AxesSupported [4, 3] [.int 4, .none] := by decide
example : verifySub [4, 3] [.item (.int 4), .ell] = none := by decide
example : SupportedSub [4, 3] [.item (.int (-4)), .ell, .item (.slice ⟨none, some (-3), some (-1)⟩)] := by decide
example : ¬ SupportedSub [4, 3] [.ell, .item .none, .ell] := by decide
example : ¬ SupportedSub [4, 3] [.item .none, .item .none, .item .none] := by decide
example : verifySub [4, 0] [.ell] = none := by decide

end Sarpy.Props.C01
