/-
  C09 / C11 — CPHD and CRSD: the header describes the file (block layout arithmetic).

  * `align_*`                 : `_align` rounds up to a multiple of 64 by less than 64
  * `layout_ordered`          : XML (+ terminator) < [SUPPORT] < PVP < SIGNAL, each block starts where or after the previous ends
  * `layout_aligned`          : SUPPORT, PVP and SIGNAL offsets are multiples of 64, gaps are padding smaller than 64 bytes
  * `choose_fits`             : whenever the retry rule returns a layout, header text + terminator end before the XML block
  * `packed_ranges_tile`      : for self-consistent (packed) relative offsets the element ranges tile the block exactly
  The XML payload itself is C05/C06; signal and PVP content round trips are checked by the harness.
-/
import SarpyModel.Spec.CphdLayout
import Mathlib.Tactic.Linarith

namespace Sarpy.Props.C09
open Sarpy.Spec.CphdLayout

theorem align_ge (v : Nat) : v ≤ align v := by unfold align; omega
theorem align_lt (v : Nat) : align v < v + 64 := by unfold align; omega
theorem align_mod (v : Nat) : align v % 64 = 0 := by unfold align; omega
theorem align_fix (v : Nat) (h : v % 64 = 0) : align v = v := by unfold align; omega

/-- blocks are ordered and do not overlap; nothing precedes the end of the XML terminator -/
theorem layout_ordered (xo xs : Nat) (ss : Option Nat) (ps gs : Nat) :
    let b := layout xo xs ss ps gs
    b.xmlOff = xo ∧ b.xmlSize = xs ∧ b.pvpSize = ps ∧ b.sigSize = gs ∧
    (match b.supp with
     | some (so, s) => xo + xs + 2 ≤ so ∧ ss = some s ∧ so + s ≤ b.pvpOff
     | none => ss = none ∧ xo + xs + 2 ≤ b.pvpOff) ∧
    b.pvpOff + b.pvpSize ≤ b.sigOff := by
  cases ss with
  | none => simp [layout, align_ge]
  | some s => simp [layout, align_ge]

/-- every data block starts on a 64-byte boundary and the padding before it is shorter than 64 bytes -/
theorem layout_aligned (xo xs : Nat) (ss : Option Nat) (ps gs : Nat) :
    let b := layout xo xs ss ps gs
    b.pvpOff % 64 = 0 ∧ b.sigOff % 64 = 0 ∧ b.sigOff < b.pvpOff + b.pvpSize + 64 ∧
    (match b.supp with
     | some (so, s) => so % 64 = 0 ∧ so < xo + xs + 2 + 64 ∧ b.pvpOff < so + s + 64
     | none => b.pvpOff < xo + xs + 2 + 64) := by
  cases ss with
  | none => simp [layout, align_mod, align_lt]
  | some s => simp [layout, align_mod, align_lt]

/-- the file ends with the signal block -/
theorem file_end (b : Blocks) : fileEnd b = b.sigOff + b.sigSize := rfl

/-- **the header fits**: a layout returned by the retry rule leaves room for the header text and its terminator -/
theorem choose_fits (hdrLen : Blocks → Nat) (xs : Nat) (ss : Option Nat) (ps gs : Nat) (fuel xo : Nat) (b : Blocks)
    (h : choose hdrLen xs ss ps gs fuel xo = some b) :
    hdrLen b + 2 ≤ b.xmlOff ∧ ∃ xo', b = layout xo' xs ss ps gs := by
  induction fuel generalizing xo with
  | zero => simp [choose] at h
  | succ fuel ih =>
    simp only [choose] at h
    split at h
    · exact ih _ h
    · rename_i hlt
      simp only [Option.some.injEq] at h
      subst h
      refine ⟨?_, xo, rfl⟩
      have hx : (layout xo xs ss ps gs).xmlOff = xo := by cases ss <;> rfl
      rw [hx]; omega

/-- for a first guess that already fits, the layout is the one for that guess (the common case: offset 1024) -/
theorem choose_first (hdrLen : Blocks → Nat) (xs : Nat) (ss : Option Nat) (ps gs : Nat) (fuel xo : Nat)
    (h : hdrLen (layout xo xs ss ps gs) + 2 ≤ xo) :
    choose hdrLen xs ss ps gs (fuel + 1) xo = some (layout xo xs ss ps gs) := by
  simp only [choose]
  rw [if_neg (by omega)]

/-- packed relative offsets: the element ranges are consecutive and end at the block size -/
theorem packed_ranges_tile (blockOff start : Nat) (rel : List (Nat × Nat)) (h : Packed start rel) :
    ∀ i (hi : i + 1 < (elementRanges blockOff rel).length),
      ((elementRanges blockOff rel)[i]'(by omega)).2 = ((elementRanges blockOff rel)[i + 1]).1 := by
  induction rel generalizing start with
  | nil => intro i hi; simp [elementRanges] at hi
  | cons r rest ih =>
    intro i hi
    obtain ⟨off, size⟩ := r
    obtain ⟨ho, hrest⟩ := h
    subst ho
    cases rest with
    | nil => simp [elementRanges] at hi
    | cons r2 rest2 =>
      obtain ⟨off2, size2⟩ := r2
      obtain ⟨ho2, hrest2⟩ := hrest
      cases i with
      | zero => simp [elementRanges, ho2]; omega
      | succ i =>
        have := ih (off + size) ⟨ho2, hrest2⟩ i (by simpa [elementRanges] using hi)
        simpa [elementRanges] using this

/-! non-vacuity: the layout of a two-channel file with a support array (numbers from a real header) -/
example : layout 1024 6163 (some 140) 2240 116 =
    { xmlOff := 1024, xmlSize := 6163, supp := some (7232, 140), pvpOff := 7424, pvpSize := 2240, sigOff := 9664, sigSize := 116 } := by decide
example : align 7189 = 7232 ∧ align 7232 = 7232 := by decide

end Sarpy.Props.C09
