/-
  C06, version / urn selection on output.  Model: Spec/XsdVersion.lean.

  Proved, for any number of versions, features and present blocks:
    * `required_eq_list`      the recursion the classes perform (`version_required` block by block) is the flat maximum over all
                              present contributions;
    * `requiredList_ge` / `requiredList_base_le` / `requiredList_least` / `requiredList_mem`
                              the flat maximum dominates every contribution and the base, is the least such version, and is the base
                              or one of the contributions (so it is a real version of the family);
    * `chosen_declares`       if the declaration table is upward closed (kernel-decided on the table regenerated from the XSDs) the
                              version chosen for a set of present features declares every one of them: the chosen schema version
                              admits every present element;
    * `chosen_least`          and no older version from the base on declares them all (oldest compatible version);
    * `older_misses`          a version below the `since` of a present feature does not declare it: answering below the structural
                              requirement (the seeded `_required` instead of `_fields` loop) writes an element its schema rejects.
  Not modelled: contributions that depend on values (polarisation strings) - harness: implementation >= model, lxml on the output.
-/
import SarpyModel.Spec.XsdVersion

namespace Sarpy.Props.C06Version
open Sarpy.Spec.XsdVersion

theorem foldl_max_ge_acc : ∀ (vs : List Ver) (a : Ver), a ≤ vs.foldl max a
  | [], a => Nat.le_refl a
  | v :: vs, a => Nat.le_trans (Nat.le_max_left a v) (foldl_max_ge_acc vs (max a v))

theorem foldl_max_ge_mem : ∀ (vs : List Ver) (a : Ver) (s : Ver), s ∈ vs → s ≤ vs.foldl max a
  | [], _, _, h => nomatch h
  | v :: vs, a, s, h => by
    rcases List.mem_cons.mp h with rfl | h'
    · exact Nat.le_trans (Nat.le_max_right a s) (foldl_max_ge_acc vs (max a s))
    · exact foldl_max_ge_mem vs (max a v) s h'

theorem foldl_max_le : ∀ (vs : List Ver) (a v : Ver), a ≤ v → (∀ s ∈ vs, s ≤ v) → vs.foldl max a ≤ v
  | [], _, _, ha, _ => ha
  | w :: vs, a, v, ha, h =>
    foldl_max_le vs (max a w) v (Nat.max_le.mpr ⟨ha, h w (List.mem_cons_self ..)⟩) (fun s hs => h s (List.mem_cons_of_mem _ hs))

theorem foldl_max_mem : ∀ (vs : List Ver) (a : Ver), vs.foldl max a = a ∨ vs.foldl max a ∈ vs
  | [], a => Or.inl rfl
  | w :: vs, a => by
    rcases foldl_max_mem vs (max a w) with h | h
    · simp only [List.foldl_cons, h]
      rcases Nat.le_total a w with hw | hw
      · right; rw [Nat.max_eq_right hw]; exact List.mem_cons_self ..
      · left; exact Nat.max_eq_left hw
    · right; exact List.mem_cons_of_mem _ h

/-- every present contribution is at most the version chosen -/
theorem requiredList_ge (base : Ver) (vs : List Ver) (s : Ver) (h : s ∈ vs) : s ≤ requiredList base vs :=
  foldl_max_ge_mem vs base s h

theorem requiredList_base_le (base : Ver) (vs : List Ver) : base ≤ requiredList base vs :=
  foldl_max_ge_acc vs base

/-- the version chosen is the least one from the base on that covers every contribution -/
theorem requiredList_least (base : Ver) (vs : List Ver) (v : Ver) (hb : base ≤ v) (h : ∀ s ∈ vs, s ≤ v) : requiredList base vs ≤ v :=
  foldl_max_le vs base v hb h

/-- the version chosen is the base or one of the contributions: never a number that is not a version -/
theorem requiredList_mem (base : Ver) (vs : List Ver) : requiredList base vs = base ∨ requiredList base vs ∈ vs :=
  foldl_max_mem vs base

theorem foldl_max_append (a : Ver) (xs ys : List Ver) : (xs ++ ys).foldl max a = ys.foldl max (xs.foldl max a) :=
  List.foldl_append ..

mutual
/-- the block-by-block recursion of `version_required` is the flat maximum over all present contributions -/
theorem required_eq_list : ∀ b : Block, ∀ a : Ver, max a (required b) = (contributions b).foldl max a
  | .node own kids, a => by
    simp only [required, contributions, List.foldl_cons]
    rw [← requiredKids_eq_list kids (max a own)]
    exact requiredKids_max kids a own
theorem requiredKids_eq_list : ∀ (ks : List Block) (a : Ver), requiredKids a ks = (contributionsKids ks).foldl max a
  | [], a => rfl
  | k :: ks, a => by
    simp only [requiredKids, contributionsKids, List.foldl_append]
    rw [required_eq_list k a]
    exact requiredKids_eq_list ks _
theorem requiredKids_max : ∀ (ks : List Block) (a own : Ver), max a (requiredKids own ks) = requiredKids (max a own) ks
  | [], _, _ => rfl
  | k :: ks, a, own => by
    simp only [requiredKids]
    rw [requiredKids_max ks a (max own (required k)), Nat.max_assoc]
end

/-- `version_required` of the root block, started at the family's base version, is `requiredList` over every present block -/
theorem required_root (base : Ver) (kids : List Block) :
    required (.node base kids) = requiredList base (contributionsKids kids) := by
  simp only [required, requiredList]
  exact requiredKids_eq_list kids base

/-! ### the schema side -/

theorem mem_versions_of_closed {n : Nat} {ds : List Decl} (h : upwardClosedB n ds = true) {d : Decl} (hd : d ∈ ds) (v : Ver) :
    v ∈ d.versions ↔ (v < n ∧ since n d ≤ v) := by
  have := List.all_eq_true.mp h d hd
  simp only [Bool.and_eq_true, beq_iff_eq, decide_eq_true_eq] at this
  rw [this.1]
  simp [List.mem_filter, List.mem_range]

theorem sinceOf_lt {n : Nat} {ds : List Decl} (h : upwardClosedB n ds = true) {f : Nat} (hf : ∃ d ∈ ds, d.feature = f) :
    sinceOf n ds f < n := by
  unfold sinceOf
  obtain ⟨d, hd, hdf⟩ := hf
  cases hfind : ds.find? (fun d => d.feature == f) with
  | none =>
    have := List.find?_eq_none.mp hfind d hd
    simp [hdf] at this
  | some d' =>
    have hd' : d' ∈ ds := List.mem_of_find?_eq_some hfind
    have := List.all_eq_true.mp h d' hd'
    simp only [Bool.and_eq_true, decide_eq_true_eq] at this
    exact this.2

/-- **the chosen schema version admits every present element**: with an upward-closed declaration table, a base version
    that exists and present features that the table knows, the version chosen declares every present feature -/
theorem chosen_declares (n : Nat) (ds : List Decl) (h : upwardClosedB n ds = true) (base : Ver) (hb : base < n) (present : List Nat)
    (hk : ∀ f ∈ present, ∃ d ∈ ds, d.feature = f) :
    ∀ f ∈ present, declares ds (chosen n ds base present) f = true := by
  intro f hf
  have hlt : chosen n ds base present < n := by
    unfold chosen
    rcases requiredList_mem base (present.map (sinceOf n ds)) with he | hm
    · rw [he]; exact hb
    · obtain ⟨g, hg, hge⟩ := List.mem_map.mp hm
      rw [← hge]; exact sinceOf_lt h (hk g hg)
  have hge : sinceOf n ds f ≤ chosen n ds base present :=
    requiredList_ge base _ _ (List.mem_map_of_mem hf)
  unfold sinceOf at hge
  obtain ⟨d0, hd0, hd0f⟩ := hk f hf
  cases hfind : ds.find? (fun d => d.feature == f) with
  | none =>
    have := List.find?_eq_none.mp hfind d0 hd0
    simp [hd0f] at this
  | some d =>
    rw [hfind] at hge
    have hd : d ∈ ds := List.mem_of_find?_eq_some hfind
    have hdf : d.feature = f := by simpa using List.find?_some hfind
    unfold declares
    rw [List.any_eq_true]
    refine ⟨d, hd, ?_⟩
    simp only [Bool.and_eq_true, beq_iff_eq, List.contains_iff_mem]
    exact ⟨hdf, (mem_versions_of_closed h hd _).mpr ⟨hlt, hge⟩⟩

theorem strictAsc_head_lt : ∀ (l : List Nat) (a : Nat), strictAscB (a :: l) = true → ∀ x ∈ l, a < x
  | [], _, _, _, hx => nomatch hx
  | b :: l, a, h, x, hx => by
    simp only [strictAscB, Bool.and_eq_true, decide_eq_true_eq] at h
    rcases List.mem_cons.mp hx with rfl | hx'
    · exact h.1
    · exact Nat.lt_trans h.1 (strictAsc_head_lt l b h.2 x hx')

/-- ids in strictly ascending order are listed once (the linear form of `Nodup` the generated tables are checked with) -/
theorem nodup_of_strictAsc : ∀ l : List Nat, strictAscB l = true → l.Nodup
  | [], _ => List.nodup_nil
  | [_], _ => by simp
  | a :: b :: l, h => by
    have h' := h
    simp only [strictAscB, Bool.and_eq_true, decide_eq_true_eq] at h'
    refine List.nodup_cons.mpr ⟨?_, nodup_of_strictAsc (b :: l) h'.2⟩
    intro hm
    exact Nat.lt_irrefl a (strictAsc_head_lt (b :: l) a h a hm)

/-- a version below the first version of a feature does not declare it (features listed once in the table) -/
theorem older_misses (n : Nat) (ds : List Decl) (h : upwardClosedB n ds = true) (hu : (ds.map (·.feature)).Nodup)
    (f : Nat) (v : Ver) (hv : v < sinceOf n ds f) : declares ds v f = false := by
  unfold declares
  rw [List.any_eq_false]
  intro d hd hc
  simp only [Bool.and_eq_true, beq_iff_eq, List.contains_iff_mem] at hc
  obtain ⟨hdf, hmem⟩ := hc
  have hsv := ((mem_versions_of_closed h hd v).mp hmem).2
  -- `find?` returns this very row, the feature being listed once
  have hfind : ds.find? (fun d => d.feature == f) = some d := by
    clear hv hsv hmem h
    induction ds with
    | nil => cases hd
    | cons a ds ih =>
      have hnd : a.feature ∉ ds.map (·.feature) ∧ (ds.map (·.feature)).Nodup := List.nodup_cons.mp hu
      rcases List.mem_cons.mp hd with rfl | hd'
      · simp [hdf]
      · have hne : a.feature ≠ f := fun he => hnd.1 (he ▸ hdf ▸ List.mem_map_of_mem (f := (·.feature)) hd')
        have hb : (a.feature == f) = false := by simpa using hne
        rw [List.find?_cons, hb]
        exact ih hnd.2 hd'
  unfold sinceOf at hv
  simp only [hfind] at hv
  exact absurd hsv (Nat.not_le.mpr hv)

/-- the chosen version is the oldest one, from the base on, that declares every present feature -/
theorem chosen_least (n : Nat) (ds : List Decl) (h : upwardClosedB n ds = true) (hu : (ds.map (·.feature)).Nodup)
    (base : Ver) (present : List Nat) (v : Ver) (hb : base ≤ v) (hall : ∀ f ∈ present, declares ds v f = true) :
    chosen n ds base present ≤ v := by
  unfold chosen
  apply requiredList_least base _ v hb
  intro s hs
  obtain ⟨f, hf, hfs⟩ := List.mem_map.mp hs
  rw [← hfs]
  apply Nat.le_of_not_lt
  intro hlt
  have := older_misses n ds h hu f v hlt
  rw [hall f hf] at this
  cases this

/-! ### satisfiable, and the seeded shape -/

/-- three versions; feature 1 from the start, feature 2 (say ErrorStatistics/Unmodeled) since version 2, feature 3 since version 1 -/
def exDecl : List Decl := [⟨1, [0, 1, 2]⟩, ⟨2, [2]⟩, ⟨3, [1, 2]⟩]

example : upwardClosedB 3 exDecl = true := by decide
example : chosen 3 exDecl 0 [1, 2] = 2 := by decide
example : chosen 3 exDecl 0 [1, 3] = 1 := by decide
example : chosen 3 exDecl 0 [1] = 0 := by decide
example : ∀ f ∈ [1, 2], declares exDecl (chosen 3 exDecl 0 [1, 2]) f = true :=
  chosen_declares 3 exDecl (by decide) 0 (by decide) [1, 2] (by decide)
/-- answering the base version for a document that carries feature 2 (the shape of the `_required`-instead-of-`_fields` loop):
    the schema of that version does not declare the element -/
example : declares exDecl 0 2 = false := by decide
/-- the recursion of the classes on a small tree: root (base 0) with a block contributing 0 that holds a block contributing 2 -/
example : required (.node 0 [.node 0 [.node 2 []], .node 1 []]) = 2 := by decide
/-- a table that drops a feature again is rejected -/
example : upwardClosedB 3 [⟨1, [0, 2]⟩] = false := by decide

end Sarpy.Props.C06Version
