/-
  C01SegHist — read histories on ONE data segment object (follow-up SEG3).

  * the inventory of mutable object state of data_segment.py, regenerated from the current source
    (`Gen/SegState.lean`), equals the model's (`gen_mutations_eq`), and the read side writes nothing but an
    absolutely re-set file position (`gen_read_side_writes`): this is what a memoising edit of a read-side helper breaks;
  * `read_history_independent`: for every segment tree (every node kind) and every list of earlier read-side requests of
    either kind, the answer to a request is the answer of the freshly built object;
  * `answer_read_refines` / `answer_readRaw_refines`: and that answer is the selection from the full formatted / raw image;
  * `subset_raw_view`: the formatted full image of a subset over an oriented parent is the orientation of its raw full image;
  * `memo_sound` / `memo_dim_key_unsound`: a cache in front of a pure function is unobservable iff its key determines the
    value; the per-dimension array of `_get_parent_subscript` keyed by the dimension index alone is observable.
-/
import SarpyModel.Spec.SegHist
import SarpyModel.Gen.SegState
import SarpyModel.Props.C01Seg

namespace Sarpy.Props.SegHist
open Sarpy Sarpy.Spec Sarpy.Props.C01Seg

/-! ### the state inventory of the current source -/

theorem gen_unsupported : Gen.SegState.unsupported = [] := rfl

/-- every write to object state outside the constructors is one the model knows -/
theorem gen_mutations_eq : Gen.SegState.mutations = mutTable := rfl

/-- no read-side method (the entry points and what they call on `self`) writes a field, except the file position -/
theorem gen_read_side_writes :
    Gen.SegState.mutations.filter (fun m => decide (m.2.1 ∈ Gen.SegState.readSideAll)) = readSideWrites := by decide

/-- the accounting expressions of the current source are the ones `Seg.incr` / `Seg.expected` give a meaning to -/
theorem gen_acct_sites_eq : Gen.SegState.acctSites = acctSites := rfl

/-! ### read histories -/

theorem stepR_state (t : Seg) (st : ObjSt) (r : RReq) :
    (t.stepR st r).2.closed = st.closed ∧ (t.stepR st r).2.written = st.written := ⟨rfl, rfl⟩

theorem runR_state (t : Seg) : ∀ (hist : List RReq) (st : ObjSt),
    (t.runR st hist).closed = st.closed ∧ (t.runR st hist).written = st.written
  | [], _ => ⟨rfl, rfl⟩
  | r :: rs, st => by
    have := runR_state t rs (t.stepR st r).2
    simp only [Seg.runR]
    exact ⟨this.1.trans (stepR_state t st r).1, this.2.trans (stepR_state t st r).2⟩

/-- **the answer is a function of the request only**: whatever read-side requests (formatted reads, raw reads, parent
    subscript queries, in any number and order) an object has served, it answers the next request as it would have
    answered it first -/
theorem read_history_independent (t : Seg) (st : ObjSt) (hist : List RReq) (r : RReq) :
    (t.stepR (t.runR st hist) r).1 = (t.stepR st r).1 := by
  show t.answer (t.runR st hist).closed r = t.answer st.closed r
  rw [(runR_state t hist st).1]

/-- ... in particular as a freshly built object does -/
theorem read_history_fresh (t : Seg) (hist : List RReq) (r : RReq) :
    (t.stepR (t.runR ObjSt.fresh hist) r).1 = t.answer false r :=
  read_history_independent t ObjSt.fresh hist r

/-- the children of an aggregate are objects of their own: the answers of the `n`-th child do not depend on what the
    aggregate (or anyone else) has asked it before -/
theorem read_history_independent_child (c : Seg) (st : ObjSt) (h1 h2 : List RReq) (r : RReq) :
    (c.stepR (c.runR st h1) r).1 = (c.stepR (c.runR st h2) r).1 := by
  rw [read_history_independent, read_history_independent]

/-- a read-side history does not move the written-sample counter nor the closed flag -/
theorem read_history_keeps_counter (t : Seg) (st : ObjSt) (hist : List RReq) :
    (t.runR st hist).written = st.written ∧ (t.runR st hist).closed = st.closed :=
  ⟨(runR_state t hist st).2, (runR_state t hist st).1⟩

/-- a served formatted read is the selection from the full formatted image -/
theorem answer_read_refines (t : Seg) (ts : List NSlice) (a : Arr Src) (h : t.answer false (.read ts) = .arr a) :
    Arr.Equiv a (t.fullSrc.select ts) := by
  simp only [Seg.answer, Bool.false_or] at h
  split at h
  · cases h
  · rename_i hc
    simp only [Bool.or_eq_true, Bool.not_eq_true', not_or, Bool.not_eq_false] at hc
    cases h
    exact read_refines Src.leaf Src.fill t hc.1.1 ts hc.1.2 hc.2

/-- a served raw read is the selection from the full image of the raw view -/
theorem answer_readRaw_refines (t v : Seg) (hv : t.rawView = some v) (ts : List NSlice) (a : Arr Src)
    (h : t.answer false (.readRaw ts) = .arr a) : Arr.Equiv a (v.fullSrc.select ts) := by
  simp only [Seg.answer, hv, Bool.false_or] at h
  split at h
  · cases h
  · rename_i hc
    simp only [Bool.or_eq_true, Bool.not_eq_true', not_or, Bool.not_eq_false] at hc
    cases h
    exact read_refines Src.leaf Src.fill v hc.1.1 ts hc.1.2 hc.2

/-- **formatted and raw side of a subset agree**: cutting the oriented parent with the formatted definition is orienting the
    cut of the raw parent with the raw definition `transform_formatted_slice(defs)` -/
theorem subset_raw_view {α : Type} (fl : Arr α) (S rev perm : List Nat) (defs : List NSlice)
    (hp : PermOK perm S.length) (hS : fl.shape = S) (hloc : fl.Local) (hd : NormalSub (gather perm S) defs) :
    Arr.Equiv (((fl.select (rawSub S rev (invPerm perm) defs)).flip rev).transpose perm (invPerm perm))
      (((fl.flip rev).transpose perm (invPerm perm)).select defs) :=
  orient_refines _ fl S rev perm defs hp hS hloc hd (Arr.Equiv.refl _)

/-- the parent subscripts a subset hands out are the ones its reads use -/
theorem parentFmt_is_read_subscript (sq : Bool) (defs : List NSlice) (p : Seg) (ts : List NSlice) :
    (Seg.subset sq defs p).parentFmtSub ts = some (composeSq p.fshape defs (keepAxes sq defs) ts) ∧
    (Seg.subset sq defs p).read Src.leaf Src.fill ts =
      (p.read Src.leaf Src.fill (composeSq p.fshape defs (keepAxes sq defs) ts)).squeeze (keepAxes sq defs) := ⟨rfl, rfl⟩

/-! ### a memo is unobservable exactly when its key determines the value -/

section Memo
variable {α κ β : Type} [DecidableEq κ]

def CacheOK (key : α → κ) (f : α → β) (cache : List (κ × β)) : Prop :=
  ∀ e ∈ cache, ∃ a, key a = e.1 ∧ f a = e.2

theorem memoStep_ok (key : α → κ) (f : α → β) (cache : List (κ × β)) (a : α) (h : CacheOK key f cache) :
    CacheOK key f (memoStep key f cache a).2 := by
  unfold memoStep
  cases hf : cache.find? (fun e => e.1 = key a) with
  | some e => exact h
  | none =>
    intro e he
    rcases List.mem_cons.1 he with rfl | he
    · exact ⟨a, rfl, rfl⟩
    · exact h e he

theorem memoRun_ok (key : α → κ) (f : α → β) : ∀ (hist : List α) (cache : List (κ × β)), CacheOK key f cache →
    CacheOK key f (memoRun key f cache hist)
  | [], _, h => h
  | a :: as, cache, h => memoRun_ok key f as _ (memoStep_ok key f cache a h)

/-- **invariant**: if the key determines the value, the memoised function answers like the function, after any history -/
theorem memo_sound (key : α → κ) (f : α → β) (hk : ∀ a b, key a = key b → f a = f b) (hist : List α) (a : α) :
    (memoStep key f (memoRun key f [] hist) a).1 = f a := by
  have hok := memoRun_ok key f hist [] (fun e he => by simp at he)
  unfold memoStep
  cases hf : (memoRun key f [] hist).find? (fun e => e.1 = key a) with
  | none => rfl
  | some e =>
    have hm := List.mem_of_find?_eq_some hf
    have hp := List.find?_some hf
    obtain ⟨b, hb1, hb2⟩ := hok e hm
    simp only [decide_eq_true_eq] at hp
    show e.2 = f a
    rw [← hb2]
    exact hk b a (hb1.trans hp)

end Memo

/-- the fine key (basis, dimension) makes the cache of `_get_parent_subscript` unobservable -/
theorem memo_parent_indices_sound (fdefs rdefs : List NSlice) (hist : List (Bool × Nat)) (q : Bool × Nat) :
    (memoStep id (parentIndices fdefs rdefs) (memoRun id (parentIndices fdefs rdefs) [] hist) q).1 =
      parentIndices fdefs rdefs q :=
  memo_sound id _ (fun a b h => by have : a = b := h; rw [this]) hist q

/-- the coarse key (dimension only) does not: a subset of a transposed 8 x 11 parent, rows 1..4 and columns 2..9 in
    formatted coordinates; after one formatted request the raw request for dimension 0 is answered with the formatted
    dimension's indices -/
theorem memo_dim_key_unsound :
    let fdefs : List NSlice := [⟨1, some 5, 1⟩, ⟨2, some 10, 1⟩]
    let rdefs : List NSlice := [⟨2, some 10, 1⟩, ⟨1, some 5, 1⟩]
    (memoStep Prod.snd (parentIndices fdefs rdefs) (memoRun Prod.snd (parentIndices fdefs rdefs) [] [(false, 0)]) (true, 0)).1
      ≠ parentIndices fdefs rdefs (true, 0) := by decide

end Sarpy.Props.SegHist
