/-
  C05 / C06 — bounded numeric fields: the acceptance domain is the closed interval, and a descriptor that is at least as wide as the facets
  its schema element declares accepts every schema-valid value.  Model: Spec/Bounds.lean.  The bridges to the source
  (`gen_in_bounds_*_eq_accepts`: the regenerated comparison kernel of IntegerDescriptor / FloatDescriptor `_in_bounds` IS `accepts`) and the
  kernel-decided table statements (`descriptor_interval_contains_schema_interval`, `descriptor_accepts_schema_valid`, `narrower_not_contained`)
  are generated into Gen/Bounds.lean on every run by translate/gen_bounds.py.
-/
import SarpyModel.Spec.Bounds

namespace Sarpy.Props.C05Bounds
open Sarpy.Spec.Bounds

/-- the acceptance domain, spelt out -/
theorem accepts_iff (lo hi : Option Int) (v : Int) :
    accepts lo hi v = true ↔ (∀ l, lo = some l → l ≤ v) ∧ (∀ h, hi = some h → v ≤ h) := by
  cases lo <;> cases hi <;> simp [accepts]

/-- **a value equal to a bound is accepted** (lower end) -/
theorem accepts_closed_lo (l : Int) (hi : Option Int) (h : ∀ u, hi = some u → l ≤ u) : accepts (some l) hi l = true := by
  rw [accepts_iff]
  exact ⟨fun l' hl => by cases hl; exact Int.le_refl _, h⟩

/-- **a value equal to a bound is accepted** (upper end) -/
theorem accepts_closed_hi (lo : Option Int) (u : Int) (h : ∀ l, lo = some l → l ≤ u) : accepts lo (some u) u = true := by
  rw [accepts_iff]
  exact ⟨h, fun u' hu => by cases hu; exact Int.le_refl _⟩

/-- both ends at once, for a non-empty interval -/
theorem accepts_closed (l u : Int) (h : l ≤ u) : accepts (some l) (some u) l = true ∧ accepts (some l) (some u) u = true :=
  ⟨accepts_closed_lo l (some u) (fun u' hu => by cases hu; exact h), accepts_closed_hi (some l) u (fun l' hl => by cases hl; exact h)⟩

/-- an exclusive upper comparison (the seeded `value < upper`) is NOT the acceptance domain: it refuses the bound itself -/
theorem exclusive_upper_refuses_bound (l u : Int) : (decide (l ≤ u) && decide (u < u)) = false := by simp

/-- no bounds: everything is accepted -/
theorem accepts_none (v : Int) : accepts none none v = true := rfl

/-- acceptance is monotone in the interval -/
theorem accepts_widen (lo hi lo' hi' : Option Int) (v : Int) (h : accepts lo hi v = true)
    (hl : ∀ l', lo' = some l' → ∃ l, lo = some l ∧ l' ≤ l) (hh : ∀ u', hi' = some u' → ∃ u, hi = some u ∧ u ≤ u') :
    accepts lo' hi' v = true := by
  rw [accepts_iff] at h ⊢
  constructor
  · intro l' hl'
    obtain ⟨l, hlo, hle⟩ := hl l' hl'
    exact Int.le_trans hle (h.1 l hlo)
  · intro u' hu'
    obtain ⟨u, hhi, hle⟩ := hh u' hu'
    exact Int.le_trans (h.2 u hhi) hle

/-- **containment**: if the descriptor interval is at least as wide as the schema's facets (decidable `containsB`), every schema-valid value
    is accepted by the descriptor -/
theorem contains_sound (dlo dhi : Option Int) (f : Facet) (v : Int) (hc : containsB dlo dhi f = true) (hv : schemaValid f v = true) :
    accepts dlo dhi v = true := by
  obtain ⟨flo, fli, fhi, fhi_i⟩ := f
  rw [accepts_iff]
  simp only [containsB, Bool.and_eq_true] at hc
  simp only [schemaValid, Bool.and_eq_true] at hv
  constructor
  · intro l hl
    subst hl
    cases flo with
    | none => simp at hc
    | some fl =>
      have h1 : l ≤ fl := by simpa using hc.1
      have h2 : fl ≤ v := by
        have := hv.1
        cases fli <;> simp at this <;> omega
      omega
  · intro u hu
    subst hu
    cases fhi with
    | none => simp at hc
    | some fh =>
      have h1 : fh ≤ u := by simpa using hc.2
      have h2 : v ≤ fh := by
        have := hv.2
        cases fhi_i <;> simp at this <;> omega
      omega

/-- C06 corollary: a document value that is schema-valid for a facet-carrying element read by a descriptor at least as wide is never refused
    for its magnitude; in particular the facet's own inclusive bounds are accepted -/
theorem inclusive_facet_bounds_accepted (dlo dhi : Option Int) (fl fh : Int) (hle : fl ≤ fh)
    (hc : containsB dlo dhi ⟨some fl, true, some fh, true⟩ = true) :
    accepts dlo dhi fl = true ∧ accepts dlo dhi fh = true := by
  constructor
  · exact contains_sound dlo dhi _ fl hc (by simp [schemaValid, hle])
  · exact contains_sound dlo dhi _ fh hc (by simp [schemaValid, hle])

/-- the hypotheses are satisfiable: CorrCoefZero-like [-1, 1] (scaled), a [0, 90] descriptor against a [0, 90) facet -/
example : accepts (some (-1000000)) (some 1000000) 1000000 = true := by decide
example : containsB (some 0) (some 90000000) ⟨some 0, true, some 90000000, false⟩ = true := by decide
example : containsB (some 0) (some 1000000) ⟨none, true, none, true⟩ = false := by decide

end Sarpy.Props.C05Bounds
