/-
  C12 (continued) — bridge between the hand-written model `Spec.Geo` and `Gen.Geo`, the definitions regenerated on every
  check run from the text of /repo/sarpy/geometry/geocoords.py by translate/gen_geo.py.

  Every bridge theorem is `rfl`, for every scalar type: after unfolding, the expression the translator read from the
  Python source is the expression of the model, operation by operation and in the same association (so the Float instance
  of the model performs the IEEE operations of the code, and the real instance is what Props/C12*.lean prove about).
  A change of a constant, sign, operand, branch or association in the Python makes the regenerated term different and the
  `rfl` fails: the obligation is reported broken and the harness searches for a failing input with the 50-digit oracle.

  `gen_inverse_exact`, `gen_forward_injective`: the two headline theorems restated for the regenerated code.
-/
import SarpyModel.Props.C12Inv
import SarpyModel.Gen.Geo

set_option linter.unusedSectionVars false

namespace Sarpy.Props.C12
open Sarpy.Spec.Geo

section bridge
variable {α : Type} [Add α] [Sub α] [Mul α] [Div α] [Neg α] [GeoScalar α]

/-- the nine module constants of lines 12-22 -/
theorem gen_constants_eq :
    (Sarpy.Gen.Geo.gA : α) = cA ∧ (Sarpy.Gen.Geo.gF : α) = cF ∧ (Sarpy.Gen.Geo.gB : α) = cB ∧ (Sarpy.Gen.Geo.gA2 : α) = cA2 ∧
    (Sarpy.Gen.Geo.gB2 : α) = cB2 ∧ (Sarpy.Gen.Geo.gE2 : α) = cE2 ∧ (Sarpy.Gen.Geo.gE4 : α) = cE4 ∧
    (Sarpy.Gen.Geo.gOME2 : α) = cOME2 ∧ (Sarpy.Gen.Geo.gEB2 : α) = cEB2 :=
  ⟨rfl, rfl, rfl, rfl, rfl, rfl, rfl, rfl, rfl⟩

/-- `geodetic_to_ecf`, lines 125-131 -/
theorem gen_geodeticToEcfLL_eq (lat lon alt : α) :
    Sarpy.Gen.Geo.geodeticToEcfLL lat lon alt = geodeticToEcfLL lat lon alt := rfl

/-- the validity test of `ecf_to_geodetic`, line 66 -/
theorem gen_ecfValid_eq (v : V3 α) : Sarpy.Gen.Geo.ecfValid v = ecfValid v := rfl

/-- the closed form of `ecf_to_geodetic`, lines 64-92 -/
theorem gen_ecfToGeodeticLL_eq (v : V3 α) : Sarpy.Gen.Geo.ecfToGeodeticLL v = ecfToGeodeticLL v := rfl

/-- `_ecf_to_ned_matrix`, lines 176-185 -/
theorem gen_nedMatrix_eq (lat lon : α) : Sarpy.Gen.Geo.nedMatrix lat lon = nedMatrix lat lon := rfl

/-- `_ecf_to_enu_matrix`, lines 265-267 -/
theorem gen_enuMatrix_eq (lat lon : α) : Sarpy.Gen.Geo.enuMatrix lat lon = enuMatrix lat lon := rfl

end bridge

/-- **exactness, stated for the regenerated code**: on the domain, the regenerated validity test accepts the regenerated
    forward image and the regenerated closed form returns the geodetic triple that went in -/
theorem gen_inverse_exact (lat lon h : ℝ) (hl1 : -90 < lat) (hl2 : lat < 90) (k1 : -180 < lon) (k2 : lon ≤ 180)
    (hh : -((cA : ℝ) * (1 - 2 * cE2)) < h) :
    Sarpy.Gen.Geo.ecfValid (Sarpy.Gen.Geo.geodeticToEcfLL lat lon h) = true ∧
    Sarpy.Gen.Geo.ecfToGeodeticLL (Sarpy.Gen.Geo.geodeticToEcfLL lat lon h) = ⟨lat, lon, h⟩ := by
  rw [gen_geodeticToEcfLL_eq, gen_ecfValid_eq, gen_ecfToGeodeticLL_eq]
  have h1 := inverse_exact_on_domain lat lon h hl1 hl2 k1 k2 hh
  have hv := ecfValid_forward lat lon h hl1.le hl2.le hh
  refine ⟨hv, ?_⟩
  unfold ecfToGeodetic at h1
  rw [hv, if_pos rfl] at h1
  simpa using h1

/-- **injectivity, stated for the regenerated forward map** -/
theorem gen_forward_injective (lat lon h lat' lon' h' : ℝ)
    (hl1 : -90 < lat) (hl2 : lat < 90) (hl1' : -90 ≤ lat') (hl2' : lat' ≤ 90)
    (k1 : -180 < lon) (k2 : lon ≤ 180) (k1' : -180 < lon') (k2' : lon' ≤ 180)
    (hh : -(cB2 / cA) < h) (hh' : -(cB2 / cA) < h')
    (heq : Sarpy.Gen.Geo.geodeticToEcfLL lat lon h = Sarpy.Gen.Geo.geodeticToEcfLL lat' lon' h') :
    (⟨lat, lon, h⟩ : V3 ℝ) = ⟨lat', lon', h'⟩ := by
  rw [gen_geodeticToEcfLL_eq, gen_geodeticToEcfLL_eq] at heq
  exact forward_injective lat lon h lat' lon' h' hl1 hl2 hl1' hl2' k1 k2 k1' k2' hh hh' heq

end Sarpy.Props.C12
