/-
  C07SegAcct — written-sample accounting of the data segment objects under `write` AND `write_raw` (follow-up SEG3).

  The counter of a writable object (`_pixels_written`, compared with `_expected_pixels_written = prod(raw_shape)` by
  `check_fully_written`) counts RAW samples on both paths (`Spec.Seg.incr`, `Spec.Seg.expected`; the source expressions
  are pinned by `SegHist.gen_acct_sites_eq`).  Here:

  * `incr_eq_cover` - for every node kind and both ops, the increment is the number of raw cells the op covers
    (`rawCover`); a complex format doubles a formatted chunk (`cplx_incr_double`), a raw chunk counts as it is;
  * `account_check_iff` - for a history of `write` / `write_raw` chunks, mixed in any order, that writes no raw cell twice:
    `check_fully_written` is true exactly when every raw cell of the object has been written (so: true after every cell was
    written exactly once, false while one is missing);
  * `account_overlap_partial` - with overlap the code only counts: the check is `sum of chunk sizes = expected`, which a
    history that writes one cell twice and misses another satisfies (`overlap_masks_missing`), and a complete history with a
    repeated chunk does not (`overlap_complete_reports_false`).  The full statement "true iff complete" is false there.
-/
import SarpyModel.Spec.SegHist
import SarpyModel.Props.C07SegG
import Mathlib.Data.Finset.Card
import Mathlib.Data.List.Perm.Basic

namespace Sarpy.Props.SegHist
open Sarpy Sarpy.Spec Sarpy.Props.C01Seg Sarpy.Props.C07Seg

/-! ### sizes -/

theorem foldl_mul_eq (l : List Nat) (a : Nat) : l.foldl (· * ·) a = a * l.foldl (· * ·) 1 := by
  induction l generalizing a with
  | nil => simp
  | cons x xs ih => simp only [List.foldl_cons]; rw [ih (a * x), ih (1 * x)]; ring

theorem prodL_cons (n : Nat) (l : List Nat) : prodL (n :: l) = n * prodL l := by
  unfold prodL
  simp only [List.foldl_cons]
  rw [foldl_mul_eq]; ring

theorem prodL_nil : prodL [] = 1 := rfl

theorem prodL_append (a b : List Nat) : prodL (a ++ b) = prodL a * prodL b := by
  induction a with
  | nil => simp [prodL_nil]
  | cons x xs ih => simp only [List.cons_append, prodL_cons, ih]; ring

theorem allIdx_length : ∀ shape : List Nat, (allIdx shape).length = prodL shape
  | [] => rfl
  | n :: ns => by
    have ih := allIdx_length ns
    simp only [allIdx, List.length_flatMap, List.length_map, ih, prodL_cons]
    simp

/-- a subscript covers as many raw cells as `data.size` of its chunk -/
theorem cellsOf_length (rs : List NSlice) : (cellsOf rs).length = subSize rs := by
  simp [cellsOf, subSize, allIdx_length]

/-- **the increment is the number of raw cells the op covers**, for the objects with a format function of their own (array /
    memmap segments with identity, complex or LUT format, re-orientations, aggregates) under both ops -/
theorem incr_eq_cover_plain (t : Seg) (hs : ∀ sq defs p, t ≠ .subset sq defs p)
    (hr : ∀ sq rdefs rev perm p, t ≠ .subsetR sq rdefs rev perm p) (op : WOp) :
    t.incr op = (cellsOf (t.rawCover op)).length := by
  rw [cellsOf_length]
  cases op with
  | write ts => cases t <;> first | rfl | exact absurd rfl (hs _ _ _) | exact absurd rfl (hr _ _ _ _ _)
  | writeRaw rts => cases t <;> first | rfl | exact absurd rfl (hs _ _ _) | exact absurd rfl (hr _ _ _ _ _)

/-- ... and for a subset under `write`: the raw samples of the parent subscript -/
theorem incr_eq_cover_subset_write (sq : Bool) (defs : List NSlice) (p : Seg) (ts : List NSlice) :
    (Seg.subset sq defs p).incr (.write ts) = (cellsOf ((Seg.subset sq defs p).rawCover (.write ts))).length := by
  rw [cellsOf_length]; rfl

theorem incr_eq_cover_subsetR_write (sq : Bool) (rdefs : List NSlice) (rev perm : List Nat) (p : Seg) (ts : List NSlice) :
    (Seg.subsetR sq rdefs rev perm p).incr (.write ts) =
      (cellsOf ((Seg.subsetR sq rdefs rev perm p).rawCover (.write ts))).length := by
  rw [cellsOf_length]; rfl

theorem prodL_pick : ∀ (K : List Bool) (l : List Nat), K.length = l.length →
    (∀ i, i < K.length → K.getD i false = false → l.getD i 0 = 1) → prodL (pick K l) = prodL l
  | [], [], _, _ => rfl
  | k :: ks, x :: xs, hl, h1 => by
    have ih := prodL_pick ks xs (by simpa using hl) (fun i hi hk => by
      have := h1 (i + 1) (by simpa using hi) (by simpa using hk)
      simpa using this)
    cases k
    · have hx : x = 1 := by simpa using h1 0 (by simp) (by simp)
      simp only [pick, Bool.false_eq_true, if_false, ih, prodL_cons, hx, Nat.one_mul]
    · simp only [pick, if_true, prodL_cons, ih]
  | [], _ :: _, h, _ => by simp at h
  | _ :: _, [], h, _ => by simp at h

/-- ... and under `write_raw`: the raw chunk, whose size is the size of the parent raw subscript it is routed to
    (`get_parent_raw_subscript` keeps the count of every kept axis and selects one index on every squeezed one) -/
theorem incr_eq_cover_subset_writeRaw {S : List Nat} {sq : Bool} {rdefs rts : List NSlice} (hd : NormalSub S rdefs)
    (hts : NormalSub (pick (keepAxes sq rdefs) (rdefs.map NSlice.count)) rts) :
    subSize rts = (cellsOf (composeSq S rdefs (keepAxes sq rdefs) rts)).length := by
  rw [cellsOf_length]
  obtain ⟨hn, hpick, _, hcount, _⟩ := subset_sub hd hts
  obtain ⟨hcl, _⟩ := (normalSub_iff _ _).1 hn
  obtain ⟨hdl, _⟩ := (normalSub_iff _ _).1 hd
  unfold subSize
  rw [← hpick]
  apply prodL_pick
  · rw [keepAxes_length]; simp [hcl, hdl]
  · intro i hi hk
    rw [keepAxes_length, hdl] at hi
    have := hcount i hi
    rw [hk] at this
    simp only [Bool.false_eq_true, if_false] at this
    have e := dimAt_map_count (composeSq S rdefs (keepAxes sq rdefs) rts) i
    unfold dimAt at e
    rw [e, this]

/-! ### counting distinct cells -/

theorem length_eq_iff_covers {β : Type} [DecidableEq β] (U l : List β) (hU : U.Nodup) (hl : l.Nodup)
    (hsub : ∀ x ∈ l, x ∈ U) : l.length = U.length ↔ ∀ u ∈ U, u ∈ l := by
  have hs : l.toFinset ⊆ U.toFinset := by
    intro x hx
    simp only [List.mem_toFinset] at hx ⊢
    exact hsub x hx
  have cl : l.toFinset.card = l.length := List.toFinset_card_of_nodup hl
  have cU : U.toFinset.card = U.length := List.toFinset_card_of_nodup hU
  constructor
  · intro h u hu
    have : l.toFinset = U.toFinset := Finset.eq_of_subset_of_card_le hs (by rw [cl, cU, h])
    have : u ∈ l.toFinset := by rw [this]; simpa using hu
    simpa using this
  · intro h
    have : l.toFinset = U.toFinset := Finset.Subset.antisymm hs (by
      intro u hu
      simp only [List.mem_toFinset] at hu ⊢
      exact h u hu)
    rw [← cl, ← cU, this]

theorem sum_map_length {β : Type} (cs : List (List β)) : (cs.map List.length).sum = cs.flatten.length := by
  simp [List.length_flatten]

/-- the raw cells of the object: for a subset the parent's raw cells inside the raw definition, otherwise all of its raw array -/
def rawUniverse (t : Seg) : List NSlice :=
  match t with
  | .subset _ defs p => p.toRaw defs
  | .subsetR _ rdefs _ _ _ => rdefs
  | _ => fullSub t.rawShape

/-- **`check_fully_written` over a history without overlap**: let `h` be any history of `write` / `write_raw` chunks on an
    object whose increments are the sizes of the raw cell sets they cover (`incr_eq_cover_*`), whose expectation is the number
    of its raw cells, and in which no raw cell is written twice; then the check is true exactly when every raw cell has been
    written - true once every cell was written exactly once, false while one is missing -/
theorem account_check_iff (t : Seg) (h : List WOp) (U : List (List Int)) (hU : U.Nodup) (hexp : t.expected = U.length)
    (hincr : ∀ op ∈ h, t.incr op = (cellsOf (t.rawCover op)).length)
    (hnd : ((h.map (fun op => cellsOf (t.rawCover op))).flatten).Nodup)
    (hin : ∀ c ∈ (h.map (fun op => cellsOf (t.rawCover op))).flatten, c ∈ U) :
    (t.account h).check = true ↔ ∀ u ∈ U, u ∈ (h.map (fun op => cellsOf (t.rawCover op))).flatten := by
  have hsum : (h.map t.incr).sum = ((h.map (fun op => cellsOf (t.rawCover op))).flatten).length := by
    rw [← sum_map_length, List.map_map]
    congr 1
    apply List.map_congr_left
    intro op hop
    exact hincr op hop
  unfold Counter.check Seg.account
  simp only [beq_iff_eq]
  rw [hsum, hexp]
  exact length_eq_iff_covers U _ hU hnd hin

/-- while a cell is missing (and nothing was written twice) the object does not report itself fully written -/
theorem account_incomplete_false (t : Seg) (h : List WOp) (U : List (List Int)) (hU : U.Nodup) (hexp : t.expected = U.length)
    (hincr : ∀ op ∈ h, t.incr op = (cellsOf (t.rawCover op)).length)
    (hnd : ((h.map (fun op => cellsOf (t.rawCover op))).flatten).Nodup)
    (hin : ∀ c ∈ (h.map (fun op => cellsOf (t.rawCover op))).flatten, c ∈ U)
    (u : List Int) (hu : u ∈ U) (hmiss : u ∉ (h.map (fun op => cellsOf (t.rawCover op))).flatten) :
    (t.account h).check = false := by
  rw [Bool.eq_false_iff]
  intro hc
  exact hmiss ((account_check_iff t h U hU hexp hincr hnd hin).1 hc u hu)

/-- **with overlap the code counts, it does not track** (this is all that holds; "true iff complete" is false there) -/
theorem account_overlap_partial (t : Seg) (h : List WOp) :
    (t.account h).check = decide ((h.map t.incr).sum = t.expected) := by
  unfold Counter.check Seg.account
  simp only
  by_cases hc : (h.map t.incr).sum = t.expected
  · simp [hc]
  · simp [hc]

/-! ### a complex format doubles the formatted chunk -/

theorem prodL_perm {a b : List Nat} (h : a.Perm b) : prodL a = prodL b := by
  induction h with
  | nil => rfl
  | cons x _ ih => simp only [prodL_cons, ih]
  | swap x y l => simp only [prodL_cons]; ring
  | trans _ _ ih1 ih2 => exact ih1.trans ih2

theorem prodL_insAt (k x : Nat) (l : List Nat) : prodL (insAt k x l) = x * prodL l := by
  unfold insAt
  rw [prodL_append, prodL_cons]
  have := prodL_append (l.take k) (l.drop k)
  rw [List.take_append_drop] at this
  rw [this]; ring

theorem gather_perm {q l : List Nat} (hq : q.Nodup) (hlen : q.length = l.length) (hlt : ∀ x ∈ q, x < l.length) :
    (gather q l).Perm l := by
  have hqr : q.Perm (List.range l.length) := by
    apply List.perm_of_nodup_nodup_toFinset_eq hq List.nodup_range
    apply Finset.eq_of_subset_of_card_le
    · intro x hx
      simp only [List.mem_toFinset] at hx
      simpa using hlt x hx
    · rw [List.toFinset_card_of_nodup hq, List.toFinset_card_of_nodup List.nodup_range]
      simp [hlen]
  have h1 : (gather q l).Perm ((List.range l.length).map (fun i => l.getD i 0)) := hqr.map _
  have h2 : (List.range l.length).map (fun i => l.getD i 0) = l := by
    apply List.ext_getElem
    · simp
    · intro i h1 h2
      simp [List.getD_eq_getElem?_getD, h2]
  rw [h2] at h1
  exact h1

theorem invPerm_nodup {perm : List Nat} {n : Nat} (hp : PermOK perm n) : (invPerm perm).Nodup := by
  unfold invPerm
  rw [hp.len]
  apply List.Nodup.map_on _ List.nodup_range
  intro i hi j hj hij
  have hi' := List.mem_range.1 hi
  have hj' := List.mem_range.1 hj
  have e1 := hp.pinv i hi'
  have e2 := hp.pinv j hj'
  rw [invPerm_getD, if_pos (by rw [hp.len]; exact hi')] at e1
  rw [invPerm_getD, if_pos (by rw [hp.len]; exact hj')] at e2
  rw [← e1, ← e2, hij]

/-- the raw subscript of a formatted subscript selects as many samples (identity format function, any reverse / transpose) -/
theorem rawSub_size {S perm : List Nat} (rev : List Nat) (hp : PermOK perm S.length) {ts : List NSlice}
    (hts : NormalSub (gather perm S) ts) : subSize (rawSub S rev (invPerm perm) ts) = subSize ts := by
  obtain ⟨hl, _⟩ := (normalSub_iff _ _).1 hts
  rw [gather_length, hp.len] at hl
  unfold subSize
  rw [← inv_data_shape rev hp hts]
  apply prodL_perm
  apply gather_perm (invPerm_nodup hp)
  · simp [hp.invlen, hl]
  · intro x hx
    unfold invPerm at hx
    obtain ⟨i, hi, rfl⟩ := List.mem_map.1 hx
    have hi' : i < S.length := by have := List.mem_range.1 hi; rwa [hp.len] at this
    have := hp.invlt i hi'
    rw [invPerm_getD, if_pos (by rw [hp.len]; exact hi')] at this
    simpa [hl] using this

/-- **complex, band axis collapsed: a formatted chunk of `n` pixels advances the counter by `2 n` raw samples** (through
    `write`), while `write_raw` of the same region hands over the `2 n` samples themselves -/
theorem cplx_incr_double (ord : COrd) (rev perm : List Nat) (bd : Nat) (p : Seg) (h : (Seg.cplx ord rev perm bd p).wf = true)
    (ts : List NSlice) (hts : NormalSub (Seg.cplx ord rev perm bd p).fshape ts) :
    (Seg.cplx ord rev perm bd p).incr (.write ts) = 2 * subSize ts := by
  simp only [Seg.wf, Bool.and_eq_true, decide_eq_true_eq] at h
  obtain ⟨⟨⟨⟨_, hperm⟩, _⟩, hbd⟩, h2⟩ := h
  have hp := isPerm_ok hperm
  have hbd' : bd < (gather perm p.fshape).length := by rw [gather_length, hp.len]; exact hbd
  obtain ⟨hts', hl⟩ := cplx_sub hbd' h2 hts
  show subSize (rawSub p.fshape rev (invPerm perm) (insAt bd ⟨0, some 2, 1⟩ ts)) = _
  rw [rawSub_size rev hp hts']
  unfold subSize
  have : (insAt bd (⟨0, some 2, 1⟩ : NSlice) ts).map NSlice.count = insAt bd 2 (ts.map NSlice.count) := by
    unfold insAt
    simp only [List.map_append, List.map_take, List.map_cons, List.map_drop]
    rfl
  rw [this, prodL_insAt]

/-- identity format: a formatted chunk advances the counter by its own size -/
theorem orient_incr_same (rev perm : List Nat) (p : Seg) (h : (Seg.orient rev perm p).wf = true)
    (ts : List NSlice) (hts : NormalSub (Seg.orient rev perm p).fshape ts) :
    (Seg.orient rev perm p).incr (.write ts) = subSize ts := by
  simp only [Seg.wf, Bool.and_eq_true] at h
  exact rawSub_size rev (isPerm_ok h.1.2) hts

/-! ### examples: a subset (rows 1..2 of 3) of a 3 x 2 complex IQ image stored as 3 x 2 x 2 -/

def exCplx : Seg := .cplx .IQ [] [0, 1, 2] 2 (.leaf 0 [3, 2, 2])
def exSubC : Seg := .subset false [⟨1, some 3, 1⟩, ⟨0, some 2, 1⟩] exCplx

example : exSubC.wf = true ∧ exSubC.fshape = [2, 2] ∧ exSubC.rawShape = [2, 2, 2] ∧ exSubC.expected = 8 := by decide
/-- one formatted row through `write` (2 pixels = 4 raw samples), the other through `write_raw` (4 raw samples): complete -/
example : (exSubC.account [.write [⟨0, some 1, 1⟩, ⟨0, some 2, 1⟩],
    .writeRaw [⟨1, some 2, 1⟩, ⟨0, some 2, 1⟩, ⟨0, some 2, 1⟩]]).check = true := by decide
/-- after the first of the two chunks only: not complete -/
example : (exSubC.account [.writeRaw [⟨1, some 2, 1⟩, ⟨0, some 2, 1⟩, ⟨0, some 2, 1⟩]]).check = false ∧
    (exSubC.account [.write [⟨0, some 1, 1⟩, ⟨0, some 2, 1⟩]]).check = false := by decide
/-- counting formatted samples instead (2 per formatted row, 4 expected) would call the object complete after ONE raw row and
    incomplete after both: the raw unit is the only one on which the two paths agree -/
example : exSubC.incr (.write [⟨0, some 1, 1⟩, ⟨0, some 2, 1⟩]) = 4 ∧ subSize [⟨0, some 1, 1⟩, ⟨0, some 2, 1⟩] = 2 ∧
    exSubC.incr (.writeRaw [⟨1, some 2, 1⟩, ⟨0, some 2, 1⟩, ⟨0, some 2, 1⟩]) = 4 := by decide
/-- overlap: the same raw row twice reaches the expectation although the other row is missing -/
theorem overlap_masks_missing : (exSubC.account [.writeRaw [⟨1, some 2, 1⟩, ⟨0, some 2, 1⟩, ⟨0, some 2, 1⟩],
    .writeRaw [⟨1, some 2, 1⟩, ⟨0, some 2, 1⟩, ⟨0, some 2, 1⟩]]).check = true ∧
    ([0, 0, 0] : List Int) ∉ cellsOf (exSubC.rawCover (.writeRaw [⟨1, some 2, 1⟩, ⟨0, some 2, 1⟩, ⟨0, some 2, 1⟩])) := by decide
/-- overlap: everything written, one row twice: reported as not fully written -/
theorem overlap_complete_reports_false : (exSubC.account [.writeRaw [⟨0, some 2, 1⟩, ⟨0, some 2, 1⟩, ⟨0, some 2, 1⟩],
    .writeRaw [⟨1, some 2, 1⟩, ⟨0, some 2, 1⟩, ⟨0, some 2, 1⟩]]).check = false := by decide

/-- the hypotheses of `account_check_iff` are satisfiable: the mixed write / write_raw history above, over the 8 raw cells of the subset
    (rows 1..2 of the parent's raw array) -/
example :
    let h : List WOp := [.write [⟨0, some 1, 1⟩, ⟨0, some 2, 1⟩], .writeRaw [⟨1, some 2, 1⟩, ⟨0, some 2, 1⟩, ⟨0, some 2, 1⟩]]
    let U := cellsOf (rawUniverse exSubC)
    U.Nodup ∧ exSubC.expected = U.length ∧ (∀ op ∈ h, exSubC.incr op = (cellsOf (exSubC.rawCover op)).length) ∧
    ((h.map (fun op => cellsOf (exSubC.rawCover op))).flatten).Nodup ∧
    (∀ c ∈ (h.map (fun op => cellsOf (exSubC.rawCover op))).flatten, c ∈ U) ∧
    (∀ u ∈ U, u ∈ (h.map (fun op => cellsOf (exSubC.rawCover op))).flatten) := by decide

end Sarpy.Props.SegHist
