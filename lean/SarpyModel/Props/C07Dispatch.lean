/-
  C07, writer dispatch layer (`BaseWriter.__call__ / write / write_raw / write_chip`, sarpy/io/general/base.py:714-838) over
  `Spec/Dispatch.lean`: which segment a chunk goes to, raw or formatted, and that the addressing arguments reach the segment
  untouched - for every entry point, any number of segments, any index.
-/
import SarpyModel.Spec.Dispatch
import SarpyModel.Props.C07Seg
import Mathlib.Tactic.SplitIfs

namespace Sarpy.Props.C07
open Sarpy Sarpy.Spec

/-- every entry point is `__call__` with the same addressing arguments and its own raw flag -/
theorem dispatchPut_eq_call (segs : List Bool) (req : PutRequest) :
    dispatchPut segs req = writerCall segs req.args req.rawFlag := by
  cases req <;> rfl

theorem write_eq_call (segs : List Bool) (a : PutArgs) : dispatchPut segs (.write a) = dispatchPut segs (.call a false) := rfl
theorem write_chip_eq_write (segs : List Bool) (a : PutArgs) : dispatchPut segs (.writeChip a) = dispatchPut segs (.write a) := rfl
theorem write_raw_eq_call (segs : List Bool) (a : PutArgs) : dispatchPut segs (.writeRaw a) = dispatchPut segs (.call a true) := rfl

theorem wPyIndex_ok_iff (count : Nat) (index : Int) (k : Nat) :
    pyIndex count index = .ok k ↔
      -(count : Int) ≤ index ∧ index < count ∧ (k : Int) = if index < 0 then index + count else index := by
  unfold pyIndex
  by_cases h : -(count : Int) ≤ index ∧ index < count
  · rw [if_pos h]
    simp only [Except.ok.injEq]
    by_cases hn : index < 0
    · simp only [if_pos hn]
      constructor
      · intro e; subst e; exact ⟨h.1, h.2, by omega⟩
      · rintro ⟨_, _, e⟩; omega
    · simp only [if_neg hn]
      constructor
      · intro e; subst e; exact ⟨h.1, h.2, by omega⟩
      · rintro ⟨_, _, e⟩; omega
  · rw [if_neg h]
    constructor
    · intro e; cases e
    · rintro ⟨a, b, _⟩; exact absurd ⟨a, b⟩ h

/-- **what a served write hands to the segments**: the segment Python's tuple indexing names for `index`, the raw flag of the
    entry point, `start_indices` and `subscript` exactly as given; a formatted write needs a segment that can invert its format -/
theorem put_ok_iff (segs : List Bool) (req : PutRequest) (p : PutSel) :
    dispatchPut segs req = .ok p ↔
      ∃ k, pyIndex segs.length req.args.index = .ok k ∧ (req.rawFlag = true ∨ segs.getD k false = true) ∧
        p = ⟨k, req.rawFlag, req.args.start, req.args.sub⟩ := by
  rw [dispatchPut_eq_call]
  unfold writerCall
  cases hk : pyIndex segs.length req.args.index with
  | error e => simp
  | ok k =>
    simp only [Except.ok.injEq]
    cases hr : req.rawFlag with
    | true =>
      simp only [if_true, Except.ok.injEq]
      constructor
      · intro e; exact ⟨k, rfl, Or.inl trivial, e.symm⟩
      · rintro ⟨k', e1, _, e3⟩; cases e1; exact e3.symm
    | false =>
      simp only [Bool.false_eq_true, if_false]
      cases hf : segs.getD k false with
      | true =>
        simp only [if_true, Except.ok.injEq]
        constructor
        · intro e; exact ⟨k, rfl, Or.inr hf, e.symm⟩
        · rintro ⟨k', e1, _, e3⟩; cases e1; exact e3.symm
      | false =>
        simp only [Bool.false_eq_true, if_false]
        constructor
        · intro e; cases e
        · rintro ⟨k', e1, h2, _⟩; cases e1; rw [hf] at h2; simp at h2

/-- **every argument is forwarded**: `start_indices`, `subscript` and the raw flag reach the segment as given, and the segment
    is the one `index` names - in particular `write_raw(..., index=i)` does not fall back to segment 0 -/
theorem put_forwards_every_argument {segs : List Bool} {req : PutRequest} {p : PutSel} (h : dispatchPut segs req = .ok p) :
    p.start = req.args.start ∧ p.sub = req.args.sub ∧ p.raw = req.rawFlag ∧ p.segment < segs.length ∧
    (p.segment : Int) = if req.args.index < 0 then req.args.index + segs.length else req.args.index := by
  obtain ⟨k, hk, _, rfl⟩ := (put_ok_iff segs req p).mp h
  obtain ⟨h1, h2, h3⟩ := (wPyIndex_ok_iff ..).mp hk
  refine ⟨rfl, rfl, rfl, ?_, h3⟩
  show k < segs.length
  by_cases hn : req.args.index < 0
  · rw [if_pos hn] at h3; omega
  · rw [if_neg hn] at h3; omega

/-- **the chunk goes to segment `index`**, for every `index` below the segment count and every entry point -/
theorem put_goes_to_index {segs : List Bool} {req : PutRequest} {p : PutSel} {i : Nat} (hi : req.args.index = i)
    (h : dispatchPut segs req = .ok p) : p.segment = i := by
  have := (put_forwards_every_argument h).2.2.2.2
  rw [hi, if_neg (by omega)] at this
  omega

/-- a raw write with an index below the segment count is always served, by that segment -/
theorem put_raw_served (segs : List Bool) (a : PutArgs) (i : Nat) (hi : a.index = i) (hlt : i < segs.length) :
    dispatchPut segs (.writeRaw a) = .ok ⟨i, true, a.start, a.sub⟩ ∧
    dispatchPut segs (.call a true) = .ok ⟨i, true, a.start, a.sub⟩ := by
  have hk : pyIndex segs.length a.index = .ok i := by
    rw [wPyIndex_ok_iff]
    refine ⟨by omega, by omega, ?_⟩
    rw [if_neg (by omega)]; omega
  constructor <;>
  · rw [put_ok_iff]
    exact ⟨i, hk, Or.inl rfl, rfl⟩

/-- a formatted write with an index below the segment count is served by that segment exactly when the segment can write
    formatted data (`can_write_regular`); otherwise it is a ValueError, never a write somewhere else -/
theorem put_formatted_served_iff (segs : List Bool) (a : PutArgs) (i : Nat) (hi : a.index = i) (hlt : i < segs.length) :
    (dispatchPut segs (.write a) = .ok ⟨i, false, a.start, a.sub⟩ ↔ segs.getD i false = true) ∧
    (segs.getD i false = false → dispatchPut segs (.write a) = .error .valueError) := by
  have hk : pyIndex segs.length a.index = .ok i := by
    rw [wPyIndex_ok_iff]
    refine ⟨by omega, by omega, ?_⟩
    rw [if_neg (by omega)]; omega
  constructor
  · rw [put_ok_iff]
    constructor
    · rintro ⟨k, e1, h2, _⟩
      replace e1 : pyIndex segs.length a.index = .ok k := e1
      rw [hk] at e1; cases e1
      rcases h2 with h2 | h2
      · cases h2
      · exact h2
    · intro hf; exact ⟨i, hk, Or.inr hf, rfl⟩
  · intro hf
    show writerCall segs a false = _
    unfold writerCall
    rw [List.getD_eq_getElem?_getD] at hf
    simp [hk, hf]

/-- **an index naming no segment is refused** by every entry point: nothing is handed to any segment -/
theorem put_index_out_of_range {segs : List Bool} {req : PutRequest}
    (h : req.args.index < -(segs.length : Int) ∨ (segs.length : Int) ≤ req.args.index) (p : PutSel) :
    dispatchPut segs req ≠ .ok p := by
  intro e
  obtain ⟨k, hk, _, _⟩ := (put_ok_iff segs req p).mp e
  obtain ⟨h1, h2, _⟩ := (wPyIndex_ok_iff ..).mp hk
  omega

/-- **`write`, `write_chip`, `write_raw` and `__call__` agree**: same segment, same addressing, and the raw flag is `True` for
    `write_raw` / `__call__(raw=True)` only -/
theorem entry_points_agree (segs : List Bool) (a : PutArgs) :
    dispatchPut segs (.write a) = dispatchPut segs (.call a false) ∧
    dispatchPut segs (.writeChip a) = dispatchPut segs (.call a false) ∧
    dispatchPut segs (.writeRaw a) = dispatchPut segs (.call a true) ∧
    (∀ p q, dispatchPut segs (.write a) = .ok p → dispatchPut segs (.writeRaw a) = .ok q →
      p.segment = q.segment ∧ p.start = q.start ∧ p.sub = q.sub ∧ p.raw = false ∧ q.raw = true) := by
  refine ⟨rfl, rfl, rfl, ?_⟩
  intro p q hp hq
  obtain ⟨k, hk, _, rfl⟩ := (put_ok_iff _ _ p).mp hp
  obtain ⟨k', hk', _, rfl⟩ := (put_ok_iff _ _ q).mp hq
  have : k = k' := by
    have e : pyIndex segs.length a.index = .ok k := hk
    have e' : pyIndex segs.length a.index = .ok k' := hk'
    rw [e] at e'; cases e'; rfl
  subst this
  exact ⟨rfl, rfl, rfl, rfl, rfl⟩

/-- the raw flag decides nothing but the basis: raw and formatted requests with the same arguments address the same segment -/
theorem put_segment_independent_of_raw {segs : List Bool} {a : PutArgs} {r₁ r₂ : Bool} {p q : PutSel}
    (hp : dispatchPut segs (.call a r₁) = .ok p) (hq : dispatchPut segs (.call a r₂) = .ok q) : p.segment = q.segment := by
  obtain ⟨k, hk, _, rfl⟩ := (put_ok_iff _ _ p).mp hp
  obtain ⟨k', hk', _, rfl⟩ := (put_ok_iff _ _ q).mp hq
  have e : pyIndex segs.length a.index = .ok k := hk
  have e' : pyIndex segs.length a.index = .ok k' := hk'
  rw [e] at e'; cases e'; rfl

section Segments
open Sarpy.Props.C01Seg Sarpy.Props.C07Seg
variable {α : Type} [Parts α]

/-- **end to end with the routing theorem**: a formatted chunk handed to a writer over arbitrary writable segment trees with
    `index = i` is stored by the tree of image `i`, exactly at the samples the full image of image `i` shows at the selected
    positions (`C07Seg.write_routes`), where `ts` is the subscript that segment infers from the forwarded arguments -/
theorem put_routes (trees : List Seg) (req : PutRequest) (p : PutSel) (i : Nat) (hi : req.args.index = i)
    (h : dispatchPut (trees.map (fun _ => true)) req = .ok p) (t : Seg) (ht : trees[i]? = some t)
    (hwf : t.wf = true) (htl : t.tiled = true) (ts : List NSlice) (hts : NormalSub t.fshape ts)
    (d : Arr α) (hd : d.shape = ts.map NSlice.count) (hdl : d.Local) :
    p.segment = i ∧ trees[p.segment]? = some t ∧ Routes t.fullSrc ts d (t.write ts d) := by
  have := put_goes_to_index hi h
  exact ⟨this, by rw [this]; exact ht, write_routes t hwf htl ts hts d hd hdl⟩

end Segments

/-! ### the premises are satisfiable -/

-- three segments, the second without inverse format: raw chunk for segment 2 by position; formatted chunk for segment 1 refused
example : dispatchPut [true, false, true] (.writeRaw ⟨.tup [1, 0], none, 2⟩) = .ok ⟨2, true, .tup [1, 0], none⟩ := by decide
example : dispatchPut [true, false, true] (.write ⟨.none, some [.item (.slice ⟨some 0, some 2, some 1⟩), .ell], 1⟩) =
    .error .valueError := by decide
example : dispatchPut [true, false, true] (.writeRaw ⟨.none, some [.item (.slice ⟨some 0, some 2, some 1⟩), .ell], 1⟩) =
    .ok ⟨1, true, .none, some [.item (.slice ⟨some 0, some 2, some 1⟩), .ell]⟩ := by decide
example : dispatchPut [true, false, true] (.writeChip ⟨.int 2, none, -3⟩) = .ok ⟨0, false, .int 2, none⟩ := by decide
example : dispatchPut [true, false, true] (.call ⟨.none, none, 3⟩ true) = .error .indexError := by decide

end Sarpy.Props.C07
