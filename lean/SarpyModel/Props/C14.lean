import SarpyModel.Spec.Opener
/-
  C14 — each file opens with exactly its own family's opener; others refuse cleanly.

  Proved here, for the decision model `Spec.Opener` (all lists of any length, all counts):
    * `cascade_first_accept`, `cascade_reject`, `cascade_raises`   the trial loops / `sarpy.io.open`
    * `findSicd_some_iff`, `findSicd_none_iff`                      `_find_sicd` over arbitrary DES lists
    * `mem_findSidd_fst`, `mem_findSidd_snd`, `findSidd_fst_length`, `findSidd_snd_length`   `_find_sidd`
    * `sicd_written_exclusive`, `sidd_written_exclusive`, `exclusive_on_written`, `general_on_written`
    * `no_signature_rejects`, `unsupported_nitf_version_rejects`
  What ties the model to /repo is the correspondence run of harness/c14.py (not these theorems).
-/
namespace Sarpy.Props.C14
open Sarpy.Spec.Opener

/-! ## the cascade -/

/-- `cascade` returns `accept r` exactly when some entry accepts with `r` and everything before it rejected
    (in particular nothing before it raised) -/
theorem cascade_first_accept (ds : List Decision) (r : Reader) :
    cascade ds = .accept r ↔ ∃ pre post, ds = pre ++ .accept r :: post ∧ ∀ x ∈ pre, x = .reject := by
  induction ds with
  | nil => simp [cascade]
  | cons d rest ih =>
    cases d with
    | accept r' =>
      constructor
      · intro h
        simp only [cascade, Decision.accept.injEq] at h
        subst h
        exact ⟨[], rest, rfl, by simp⟩
      · intro ⟨pre, post, h, hp⟩
        cases pre with
        | nil =>
          simp only [List.nil_append, List.cons.injEq, Decision.accept.injEq] at h
          simp [cascade, h.1]
        | cons p pre' =>
          simp only [List.cons_append, List.cons.injEq] at h
          have hp' := hp p (by simp)
          rw [← h.1] at hp'
          cases hp'
    | reject =>
      simp only [cascade]
      rw [ih]
      constructor
      · intro ⟨pre, post, h, hp⟩
        refine ⟨.reject :: pre, post, by simp [h], ?_⟩
        intro x hx
        cases hx with
        | head => rfl
        | tail _ hx => exact hp x hx
      · intro ⟨pre, post, h, hp⟩
        cases pre with
        | nil => simp at h
        | cons p pre' =>
          simp only [List.cons_append, List.cons.injEq] at h
          exact ⟨pre', post, h.2, fun x hx => hp x (List.mem_cons_of_mem _ hx)⟩
    | raises =>
      simp only [cascade]
      constructor
      · intro h; cases h
      · intro ⟨pre, post, h, hp⟩
        cases pre with
        | nil => simp at h
        | cons p pre' =>
          simp only [List.cons_append, List.cons.injEq] at h
          have hp' := hp p (by simp)
          rw [← h.1] at hp'
          cases hp'

/-- the cascade rejects exactly when every entry rejects -/
theorem cascade_reject (ds : List Decision) : cascade ds = .reject ↔ ∀ x ∈ ds, x = .reject := by
  induction ds with
  | nil => simp [cascade]
  | cons d rest ih => cases d <;> simp [cascade, ih]

/-- an exception propagates exactly when it is met before any accept -/
theorem cascade_raises (ds : List Decision) :
    cascade ds = .raises ↔ ∃ pre post, ds = pre ++ .raises :: post ∧ ∀ x ∈ pre, x = .reject := by
  induction ds with
  | nil => simp [cascade]
  | cons d rest ih =>
    cases d with
    | raises =>
      simp only [cascade, true_iff]
      exact ⟨[], rest, rfl, by simp⟩
    | accept r' =>
      simp only [cascade]
      constructor
      · intro h; cases h
      · intro ⟨pre, post, h, hp⟩
        cases pre with
        | nil => simp at h
        | cons p pre' =>
          simp only [List.cons_append, List.cons.injEq] at h
          have hp' := hp p (by simp)
          rw [← h.1] at hp'
          cases hp'
    | reject =>
      simp only [cascade]
      rw [ih]
      constructor
      · intro ⟨pre, post, h, hp⟩
        refine ⟨.reject :: pre, post, by simp [h], ?_⟩
        intro x hx
        cases hx with
        | head => rfl
        | tail _ hx => exact hp x hx
      · intro ⟨pre, post, h, hp⟩
        cases pre with
        | nil => simp at h
        | cons p pre' =>
          simp only [List.cons_append, List.cons.injEq] at h
          exact ⟨pre', post, h.2, fun x hx => hp x (List.mem_cons_of_mem _ hx)⟩

/-! ## `_find_sicd` -/

theorem findSicd_append_skip (pre l : List Des) (h : ∀ x ∈ pre, sicdScan x = .skip) :
    findSicd (pre ++ l) = (findSicd l).map (· + pre.length) := by
  induction pre with
  | nil => simp
  | cons p pre ih =>
    have hp : sicdScan p = .skip := h p (by simp)
    have ih' := ih (fun x hx => h x (List.mem_cons_of_mem _ hx))
    simp only [List.cons_append, findSicd, hp, ih', List.length_cons, Option.map_map]
    cases findSicd l with
    | none => rfl
    | some n => simp only [Option.map_some, Function.comp, Option.some.injEq]; omega

/-- `_find_sicd` settles on index `i` exactly when DES `i` is a SICD document under a SICD-capable id and every
    DES before it was passed over (no SIDD, no SICD, no legacy SIDD id) -/
theorem findSicd_some_iff (l : List Des) (i : Nat) :
    findSicd l = some i ↔
      ∃ pre e post, l = pre ++ e :: post ∧ pre.length = i ∧ sicdScan e = .hit ∧ ∀ x ∈ pre, sicdScan x = .skip := by
  induction l generalizing i with
  | nil => simp [findSicd]
  | cons a as ih =>
    constructor
    · intro h
      cases hs : sicdScan a with
      | stop => simp [findSicd, hs] at h
      | hit =>
        simp only [findSicd, hs, Option.some.injEq] at h
        exact ⟨[], a, as, rfl, by simpa using h, hs, by simp⟩
      | skip =>
        simp only [findSicd, hs, Option.map_eq_some_iff] at h
        obtain ⟨j, hj, hji⟩ := h
        obtain ⟨pre, e, post, hl, hlen, he, hpre⟩ := (ih j).1 hj
        refine ⟨a :: pre, e, post, by simp [hl], by simp [hlen, hji], he, ?_⟩
        intro x hx
        cases hx with
        | head => exact hs
        | tail _ hx => exact hpre x hx
    · intro ⟨pre, e, post, hl, hlen, he, hpre⟩
      cases pre with
      | nil =>
        simp only [List.nil_append, List.cons.injEq] at hl
        simp only [List.length_nil] at hlen
        simp [findSicd, hl.1, he, hlen]
      | cons p pre' =>
        simp only [List.cons_append, List.cons.injEq] at hl
        have hp : sicdScan a = .skip := by rw [hl.1]; exact hpre p (by simp)
        have := (ih pre'.length).2 ⟨pre', e, post, hl.2, rfl, he, fun x hx => hpre x (List.mem_cons_of_mem _ hx)⟩
        simp only [List.length_cons] at hlen
        simp [findSicd, hp, this, hlen]

/-- `_find_sicd` leaves `is_sicd` False exactly when every DES is passed over, or the first DES that is not
    passed over is a SIDD document / carries the legacy SIDD id -/
theorem findSicd_none_iff (l : List Des) :
    findSicd l = none ↔
      (∀ x ∈ l, sicdScan x = .skip) ∨
      ∃ pre e post, l = pre ++ e :: post ∧ sicdScan e = .stop ∧ ∀ x ∈ pre, sicdScan x = .skip := by
  induction l with
  | nil => simp [findSicd]
  | cons a as ih =>
    cases hs : sicdScan a with
    | stop =>
      simp only [findSicd, hs, true_iff]
      exact Or.inr ⟨[], a, as, rfl, hs, by simp⟩
    | hit =>
      simp only [findSicd, hs, reduceCtorEq, false_iff, not_or]
      constructor
      · intro h
        have := h a (by simp)
        rw [hs] at this
        cases this
      · intro ⟨pre, e, post, hl, he, hpre⟩
        cases pre with
        | nil =>
          simp only [List.nil_append, List.cons.injEq] at hl
          rw [hl.1, he] at hs
          cases hs
        | cons p pre' =>
          simp only [List.cons_append, List.cons.injEq] at hl
          have := hpre p (by simp)
          rw [← hl.1, hs] at this
          cases this
    | skip =>
      simp only [findSicd, hs, Option.map_eq_none_iff]
      rw [ih]
      constructor
      · intro h
        cases h with
        | inl h =>
          left
          intro x hx
          cases hx with
          | head => exact hs
          | tail _ hx => exact h x hx
        | inr h =>
          obtain ⟨pre, e, post, hl, he, hpre⟩ := h
          right
          refine ⟨a :: pre, e, post, by simp [hl], he, ?_⟩
          intro x hx
          cases hx with
          | head => exact hs
          | tail _ hx => exact hpre x hx
      · intro h
        cases h with
        | inl h => exact Or.inl (fun x hx => h x (List.mem_cons_of_mem _ hx))
        | inr h =>
          obtain ⟨pre, e, post, hl, he, hpre⟩ := h
          cases pre with
          | nil =>
            simp only [List.nil_append, List.cons.injEq] at hl
            rw [hl.1, he] at hs
            cases hs
          | cons p pre' =>
            simp only [List.cons_append, List.cons.injEq] at hl
            exact Or.inr ⟨pre', e, post, hl.2, he, fun x hx => hpre x (List.mem_cons_of_mem _ hx)⟩

/-- a hit is never lost by DES that do not stop the scan: some SICD is found -/
theorem findSicd_isSome_of_noStop (pre : List Des) (e : Des) (post : List Des)
    (hpre : ∀ x ∈ pre, sicdScan x ≠ .stop) (he : sicdScan e = .hit) :
    (findSicd (pre ++ e :: post)).isSome = true := by
  induction pre with
  | nil => simp [findSicd, he]
  | cons p pre ih =>
    have ih' := ih (fun x hx => hpre x (List.mem_cons_of_mem _ hx))
    have hp := hpre p (by simp)
    cases hs : sicdScan p with
    | stop => exact absurd hs hp
    | hit => simp [findSicd, hs]
    | skip => simpa [findSicd, hs] using ih'

/-! ## `_find_sidd` -/

theorem isSiddDoc_isSicdDoc_disjoint (e : Des) : isSiddDoc e = true → isSicdDoc e = false := by
  cases e with
  | mk id body => cases id <;> cases body <;> decide

theorem mem_findSiddFrom_fst (i : Nat) (l : List Des) (j : Nat) :
    j ∈ (findSiddFrom i l).1 ↔ ∃ k e, l[k]? = some e ∧ isSiddDoc e = true ∧ j = i + k := by
  induction l generalizing i with
  | nil => simp [findSiddFrom]
  | cons a as ih =>
    have key : (∃ k e, (a :: as)[k]? = some e ∧ isSiddDoc e = true ∧ j = i + k) ↔
        ((isSiddDoc a = true ∧ j = i) ∨ ∃ k e, as[k]? = some e ∧ isSiddDoc e = true ∧ j = (i + 1) + k) := by
      constructor
      · intro ⟨k, e, hk, he, hj⟩
        cases k with
        | zero =>
          simp only [List.getElem?_cons_zero, Option.some.injEq] at hk
          subst hk
          exact Or.inl ⟨he, by omega⟩
        | succ k =>
          simp only [List.getElem?_cons_succ] at hk
          exact Or.inr ⟨k, e, hk, he, by omega⟩
      · intro h
        cases h with
        | inl h => exact ⟨0, a, by simp, h.1, by omega⟩
        | inr h =>
          obtain ⟨k, e, hk, he, hj⟩ := h
          exact ⟨k + 1, e, by simpa using hk, he, by omega⟩
    rw [key, ← ih (i + 1)]
    simp only [findSiddFrom]
    by_cases h1 : isSiddDoc a = true
    · simp [h1]
    · by_cases h2 : isSicdDoc a = true
      · simp [h1, h2]
      · simp [h1, h2]

theorem mem_findSiddFrom_snd (i : Nat) (l : List Des) (j : Nat) :
    j ∈ (findSiddFrom i l).2 ↔ ∃ k e, l[k]? = some e ∧ isSicdDoc e = true ∧ j = i + k := by
  induction l generalizing i with
  | nil => simp [findSiddFrom]
  | cons a as ih =>
    have key : (∃ k e, (a :: as)[k]? = some e ∧ isSicdDoc e = true ∧ j = i + k) ↔
        ((isSicdDoc a = true ∧ j = i) ∨ ∃ k e, as[k]? = some e ∧ isSicdDoc e = true ∧ j = (i + 1) + k) := by
      constructor
      · intro ⟨k, e, hk, he, hj⟩
        cases k with
        | zero =>
          simp only [List.getElem?_cons_zero, Option.some.injEq] at hk
          subst hk
          exact Or.inl ⟨he, by omega⟩
        | succ k =>
          simp only [List.getElem?_cons_succ] at hk
          exact Or.inr ⟨k, e, hk, he, by omega⟩
      · intro h
        cases h with
        | inl h => exact ⟨0, a, by simp, h.1, by omega⟩
        | inr h =>
          obtain ⟨k, e, hk, he, hj⟩ := h
          exact ⟨k + 1, e, by simpa using hk, he, by omega⟩
    rw [key, ← ih (i + 1)]
    simp only [findSiddFrom]
    by_cases h1 : isSiddDoc a = true
    · have h2 := isSiddDoc_isSicdDoc_disjoint a h1
      simp [h1, h2]
    · by_cases h2 : isSicdDoc a = true
      · simp [h1, h2]
      · simp [h1, h2]

/-- `_sidd_meta` gets exactly the DES that are SIDD documents (XML_DATA_CONTENT or legacy SIDD id) -/
theorem mem_findSidd_fst (l : List Des) (j : Nat) :
    j ∈ (findSidd l).1 ↔ ∃ e, l[j]? = some e ∧ isSiddDoc e = true := by
  simp only [findSidd, mem_findSiddFrom_fst, Nat.zero_add]
  constructor
  · intro ⟨k, e, hk, he, hj⟩; subst hj; exact ⟨e, hk, he⟩
  · intro ⟨e, hk, he⟩; exact ⟨j, e, hk, he, rfl⟩

/-- `_sicd_meta` gets exactly the DES that are SICD documents (XML_DATA_CONTENT or legacy SICD id) -/
theorem mem_findSidd_snd (l : List Des) (j : Nat) :
    j ∈ (findSidd l).2 ↔ ∃ e, l[j]? = some e ∧ isSicdDoc e = true := by
  simp only [findSidd, mem_findSiddFrom_snd, Nat.zero_add]
  constructor
  · intro ⟨k, e, hk, he, hj⟩; subst hj; exact ⟨e, hk, he⟩
  · intro ⟨e, hk, he⟩; exact ⟨j, e, hk, he, rfl⟩

theorem findSiddFrom_fst_length (i : Nat) (l : List Des) :
    (findSiddFrom i l).1.length = l.countP isSiddDoc := by
  induction l generalizing i with
  | nil => simp [findSiddFrom]
  | cons a as ih =>
    simp only [findSiddFrom]
    by_cases h1 : isSiddDoc a = true
    · simp [h1, ih]
    · by_cases h2 : isSicdDoc a = true
      · simp [h1, h2, ih]
      · simp [h1, h2, ih]

theorem findSiddFrom_snd_length (i : Nat) (l : List Des) :
    (findSiddFrom i l).2.length = l.countP isSicdDoc := by
  induction l generalizing i with
  | nil => simp [findSiddFrom]
  | cons a as ih =>
    simp only [findSiddFrom]
    by_cases h1 : isSiddDoc a = true
    · have h2 := isSiddDoc_isSicdDoc_disjoint a h1
      simp [h1, h2, ih]
    · by_cases h2 : isSicdDoc a = true
      · simp [h1, h2, ih]
      · simp [h1, h2, ih]

theorem findSidd_fst_length (l : List Des) : (findSidd l).1.length = l.countP isSiddDoc :=
  findSiddFrom_fst_length 0 l

theorem findSidd_snd_length (l : List Des) : (findSidd l).2.length = l.countP isSicdDoc :=
  findSiddFrom_snd_length 0 l

/-- `is_sidd` is set exactly when some DES is a SIDD document -/
theorem findSidd_isSidd_iff (l : List Des) : (findSidd l).1 ≠ [] ↔ ∃ e ∈ l, isSiddDoc e = true := by
  rw [← List.length_pos_iff, findSidd_fst_length, List.countP_pos_iff]

/-! ## signature-less input -/

/-- a descriptor without any signature is rejected by every modelled opener, for either argument kind -/
theorem no_signature_rejects (p : Policy) (d : Desc) (h : d.magic = .none) :
    (∀ a, openComplex a d = .reject) ∧ openProduct p d = .reject ∧ (∀ a, openPhaseHistory a d = .reject) ∧
    openReceived d = .reject ∧ openGeneral d = .reject ∧ openTop p d = .reject := by
  have hc : ∀ rg, containerOk rg d = false := by intro rg; simp [containerOk, nitfOk, h]
  have h1 : ∀ a, openComplex a d = .reject := by
    intro a
    cases a <;> simp [openComplex, cascade, sicdIsA, sicdDetails, hc, sioIsA, finalAttempt, nitfOk, h]
  have h2 : openProduct p d = .reject := by simp [openProduct, siddDetails, hc]
  have h3 : ∀ a, openPhaseHistory a d = .reject := by intro a; simp [openPhaseHistory, h]
  have h4 : openReceived d = .reject := by simp [openReceived, h]
  have h5 : openGeneral d = .reject := by simp [openGeneral, nitfOk, h]
  refine ⟨h1, h2, h3, h4, h5, ?_⟩
  simp [openTop, h1, h2, h3, h4, h5, cascade]

/-- the same for "NITF" followed by a version other than 02.10 / 02.00 -/
theorem unsupported_nitf_version_rejects (p : Policy) (d : Desc) (h : d.magic = .nitfOther) :
    (∀ a, openComplex a d = .reject) ∧ openProduct p d = .reject ∧ (∀ a, openPhaseHistory a d = .reject) ∧
    openReceived d = .reject ∧ openGeneral d = .reject ∧ openTop p d = .reject := by
  have hc : ∀ rg, containerOk rg d = false := by intro rg; simp [containerOk, nitfOk, h]
  have h1 : ∀ a, openComplex a d = .reject := by
    intro a
    cases a <;> simp [openComplex, cascade, sicdIsA, sicdDetails, hc, sioIsA, finalAttempt, nitfOk, h]
  have h2 : openProduct p d = .reject := by simp [openProduct, siddDetails, hc]
  have h3 : ∀ a, openPhaseHistory a d = .reject := by intro a; simp [openPhaseHistory, h]
  have h4 : openReceived d = .reject := by simp [openReceived, h]
  have h5 : openGeneral d = .reject := by simp [openGeneral, nitfOk, h]
  refine ⟨h1, h2, h3, h4, h5, ?_⟩
  simp [openTop, h1, h2, h3, h4, h5, cascade]

/-! ## files written by sarpy -/

theorem findSiddFrom_fst_nil (i : Nat) (l : List Des) (h : ∀ e ∈ l, isSiddDoc e = false) :
    (findSiddFrom i l).1 = [] := by
  rw [← List.length_eq_zero_iff, findSiddFrom_fst_length, List.countP_eq_zero]
  intro e he
  simp [h e he]

/-- SICD writer, any number of image segments, any additional DES in front of the SICD DES as long as none of
    them stops `_find_sicd` (SIDD document, legacy SIDD id) or is a SIDD document: the complex opener accepts with a
    SICD reader for both argument kinds, the three other family openers reject, the top-level open gives a SICD reader -/
theorem sicd_written_exclusive (p : Policy) (extra : List Des) (nseg : Nat) (h : ∀ e ∈ extra, sicdSafe e = true) :
    (∀ a, openComplex a (writeSicd extra nseg) = .accept .sicd) ∧
    openProduct p (writeSicd extra nseg) = .reject ∧
    (∀ a, openPhaseHistory a (writeSicd extra nseg) = .reject) ∧
    openReceived (writeSicd extra nseg) = .reject ∧
    openTop p (writeSicd extra nseg) = .accept .sicd := by
  have hstop : ∀ x ∈ extra, sicdScan x ≠ .stop := by
    intro x hx
    have := h x hx
    simp only [sicdSafe, Bool.and_eq_true, bne_iff_ne, ne_eq] at this
    exact this.1
  have hnosidd : ∀ e ∈ extra ++ [sicdDes], isSiddDoc e = false := by
    intro e he
    rw [List.mem_append] at he
    cases he with
    | inl he =>
      have := h e he
      simp only [sicdSafe, Bool.and_eq_true, Bool.not_eq_true'] at this
      exact this.2
    | inr he =>
      simp only [List.mem_singleton] at he
      subst he
      decide
  have hc : ∀ rg, containerOk rg (writeSicd extra nseg) = true := by
    intro rg; simp [containerOk, writeSicd, nitfOk, List.replicate_succ]
  have hfind : (findSicd (extra ++ [sicdDes])).isSome = true :=
    findSicd_isSome_of_noStop extra sicdDes [] hstop (by decide)
  have hany : (List.replicate (nseg + 1) Img.sicdSeg).any (· == .sicdSeg) = true := by
    simp [List.replicate_succ]
  have hsicd : sicdIsA (writeSicd extra nseg) = .accept .sicd := by
    unfold sicdIsA sicdDetails
    rw [hc true]
    simp only [if_true]
    have hdes : (writeSicd extra nseg).des = extra ++ [sicdDes] := rfl
    have himg : (writeSicd extra nseg).images = List.replicate (nseg + 1) Img.sicdSeg := rfl
    rw [hdes, himg]
    cases hf : findSicd (extra ++ [sicdDes]) with
    | none => rw [hf] at hfind; cases hfind
    | some i => simp only [hany, if_true]
  have h1 : ∀ a, openComplex a (writeSicd extra nseg) = .accept .sicd := by
    intro a; simp [openComplex, hsicd, cascade]
  have h2 : openProduct p (writeSicd extra nseg) = .reject := by
    unfold openProduct siddDetails
    rw [hc]
    have hdes : (writeSicd extra nseg).des = extra ++ [sicdDes] := rfl
    simp only [if_true, hdes, findSidd, findSiddFrom_fst_nil 0 _ hnosidd, List.isEmpty_nil]
  have h3 : ∀ a, openPhaseHistory a (writeSicd extra nseg) = .reject := by
    intro a; simp [openPhaseHistory, writeSicd]
  have h4 : openReceived (writeSicd extra nseg) = .reject := by simp [openReceived, writeSicd]
  refine ⟨h1, h2, h3, h4, ?_⟩
  simp [openTop, h1, cascade]

theorem mem_siddImagesFrom (k : Nat) (segs : List Nat) (x : Img) :
    x ∈ siddImagesFrom k segs ↔ ∃ j, j < segs.length ∧ x = .siddSeg (k + j) := by
  induction segs generalizing k with
  | nil => simp [siddImagesFrom]
  | cons s ss ih =>
    simp only [siddImagesFrom, List.mem_append, List.mem_replicate, ih (k + 1), List.length_cons]
    constructor
    · intro h
      cases h with
      | inl h => exact ⟨0, by omega, by simpa using h.2⟩
      | inr h =>
        obtain ⟨j, hj, hx⟩ := h
        exact ⟨j + 1, by omega, by rw [hx]; congr 1; omega⟩
    · intro ⟨j, hj, hx⟩
      cases j with
      | zero => exact Or.inl ⟨by omega, by simpa using hx⟩
      | succ j => exact Or.inr ⟨j, by omega, by rw [hx]; congr 1; omega⟩

theorem siddReader_written (segs : List Nat) (hs : segs ≠ []) :
    siddReader (siddImagesFrom 0 segs) segs.length = .accept .sidd := by
  have hpos : 0 < segs.length := List.length_pos_iff.mpr hs
  have hany : (siddImagesFrom 0 segs).any isSiddSeg = true := by
    rw [List.any_eq_true]
    exact ⟨.siddSeg 0, (mem_siddImagesFrom 0 segs _).2 ⟨0, hpos, by simp⟩, rfl⟩
  have hbad : (siddImagesFrom 0 segs).any (siddBeyond segs.length) = false := by
    rw [List.any_eq_false]
    intro x hx
    obtain ⟨j, hj, hxj⟩ := (mem_siddImagesFrom 0 segs x).1 hx
    subst hxj
    simp only [siddBeyond, decide_eq_true_eq]
    omega
  have hall : (List.range segs.length).all (fun j => (siddImagesFrom 0 segs).contains (.siddSeg j)) = true := by
    rw [List.all_eq_true]
    intro j hj
    rw [List.mem_range] at hj
    rw [List.contains_iff_mem]
    exact (mem_siddImagesFrom 0 segs _).2 ⟨j, hj, by simp⟩
  simp only [siddReader, hany, hbad, hall, Bool.not_true, Bool.false_eq_true, if_false, if_true]

/-- the fallback complex opener gives up on a file whose first image segment is an integer SAR segment (extract_sicd: ValueError) -/
theorem scanBands_sidd_written (k : Nat) (segs : List Nat) (hs : segs ≠ []) :
    scanBands ((siddImagesFrom k segs).map Img.hdr) false = .reject := by
  cases segs with
  | nil => exact absurd rfl hs
  | cons s ss => simp [siddImagesFrom, List.replicate_succ, scanBands, checkBand, Img.hdr]

theorem countP_siddDoc_written (extra : List Des) (n m : Nat) (h : ∀ e ∈ extra, isSiddDoc e = false) :
    (extra ++ (List.replicate n siddDes ++ List.replicate m sicdDes)).countP isSiddDoc = n := by
  have h0 : extra.countP isSiddDoc = 0 := by
    rw [List.countP_eq_zero]; intro e he; simp [h e he]
  have h1 : isSiddDoc siddDes = true := by decide
  have h2 : isSiddDoc sicdDes = false := by decide
  simp [List.countP_append, h0, List.countP_replicate, h1, h2]

/-- SIDD writer, any number of products (>= 1), any number of segments per product, any number of embedded SICD
    DES after the SIDD DES, no graphics segment, any additional DES in front that are not SIDD documents: the product
    opener accepts with a SIDD reader, the three other family openers reject (either argument kind), top-level open
    gives a SIDD reader -/
theorem sidd_written_exclusive (p : Policy) (extra : List Des) (segs : List Nat) (nsicd g : Nat) (hs : segs ≠ [])
    (h : ∀ e ∈ extra, siddSafe e = true) (hg : p.siddRefusesGraphics = true → g = 0) :
    openProduct p (writeSidd extra segs nsicd g) = .accept .sidd ∧
    (∀ a, openComplex a (writeSidd extra segs nsicd g) = .reject) ∧
    (∀ a, openPhaseHistory a (writeSidd extra segs nsicd g) = .reject) ∧
    openReceived (writeSidd extra segs nsicd g) = .reject ∧
    openTop p (writeSidd extra segs nsicd g) = .accept .sidd := by
  have hpos : 0 < segs.length := List.length_pos_iff.mpr hs
  have hextra : ∀ e ∈ extra, isSiddDoc e = false := by
    intro e he
    have := h e he
    simpa [siddSafe] using this
  have himgs : (writeSidd extra segs nsicd g).images = siddImagesFrom 0 segs := rfl
  have hdes : (writeSidd extra segs nsicd g).des =
      extra ++ (List.replicate segs.length siddDes ++ List.replicate nsicd sicdDes) := rfl
  have hmem0 : Img.siddSeg 0 ∈ siddImagesFrom 0 segs := (mem_siddImagesFrom 0 segs _).2 ⟨0, hpos, by simp⟩
  have himgne : (siddImagesFrom 0 segs).isEmpty = false := by
    cases hi : siddImagesFrom 0 segs with
    | nil => rw [hi] at hmem0; cases hmem0
    | cons _ _ => rfl
  have hdesne : (extra ++ (List.replicate segs.length siddDes ++ List.replicate nsicd sicdDes)).isEmpty = false := by
    cases hseg : segs with
    | nil => exact absurd hseg hs
    | cons s ss => simp [List.replicate_succ]
  have hgr : (!p.siddRefusesGraphics || (writeSidd extra segs nsicd g).graphics == 0) = true := by
    cases hp : p.siddRefusesGraphics with
    | false => simp
    | true => simp [writeSidd, hg hp]
  have hc : containerOk p.siddRefusesGraphics (writeSidd extra segs nsicd g) = true := by
    simp only [containerOk, himgs, hdes, himgne, hdesne, hgr]
    simp [writeSidd, nitfOk]
  have hcount := countP_siddDoc_written extra segs.length nsicd hextra
  have hlen : (findSidd (writeSidd extra segs nsicd g).des).1.length = segs.length := by
    rw [findSidd_fst_length, hdes, hcount]
  have hne : (findSidd (writeSidd extra segs nsicd g).des).1.isEmpty = false := by
    cases hf : (findSidd (writeSidd extra segs nsicd g).des).1 with
    | nil => rw [hf] at hlen; simp at hlen; omega
    | cons _ _ => rfl
  have h1 : openProduct p (writeSidd extra segs nsicd g) = .accept .sidd := by
    unfold openProduct siddDetails
    rw [hc]
    simp only [if_true, hne, Bool.false_eq_true, if_false, hlen, himgs]
    exact siddReader_written segs hs
  have hnosicd : (siddImagesFrom 0 segs).any (· == .sicdSeg) = false := by
    rw [List.any_eq_false]
    intro x hx
    obtain ⟨j, _, hxj⟩ := (mem_siddImagesFrom 0 segs x).1 hx
    subst hxj
    simp
  have hanysidd : (siddImagesFrom 0 segs).any isSiddSeg = true := by
    rw [List.any_eq_true]
    exact ⟨.siddSeg 0, hmem0, rfl⟩
  have hsicd : sicdIsA (writeSidd extra segs nsicd g) = .reject := by
    unfold sicdIsA
    cases sicdDetails (writeSidd extra segs nsicd g) with
    | none => rfl
    | some i => simp only [himgs, hnosicd, Bool.false_eq_true, if_false]
  have h2 : ∀ a, openComplex a (writeSidd extra segs nsicd g) = .reject := by
    intro a
    have hsio : sioIsA a (writeSidd extra segs nsicd g) = .reject := by
      cases a <;> simp [sioIsA, writeSidd]
    have hfin : finalAttempt a (writeSidd extra segs nsicd g) = .reject := by
      cases a <;> simp [finalAttempt, himgs, scanBands_sidd_written 0 segs hs]
    simp [openComplex, hsicd, hsio, hfin, cascade]
  have h3 : ∀ a, openPhaseHistory a (writeSidd extra segs nsicd g) = .reject := by
    intro a; simp [openPhaseHistory, writeSidd]
  have h4 : openReceived (writeSidd extra segs nsicd g) = .reject := by simp [openReceived, writeSidd]
  refine ⟨h1, h2, h3, h4, ?_⟩
  simp [openTop, h1, h2, cascade]

theorem neutral_sicdSafe (e : Des) (h : neutral e = true) : sicdSafe e = true := by
  cases e with
  | mk id body => cases id <;> cases body <;> first | rfl | (exact absurd h (by decide))

theorem neutral_siddSafe (e : Des) (h : neutral e = true) : siddSafe e = true := by
  cases e with
  | mk id body => cases id <;> cases body <;> first | rfl | (exact absurd h (by decide))

/-- the descriptors the four writer models produce, with the reader kind each is meant for -/
inductive Written (p : Policy) : Desc → Reader → Prop where
  | sicd (extra : List Des) (nseg : Nat) (h : ∀ e ∈ extra, neutral e = true) :
      Written p (writeSicd extra nseg) .sicd
  | sidd (extra : List Des) (segs : List Nat) (nsicd g : Nat) (hs : segs ≠ []) (h : ∀ e ∈ extra, neutral e = true)
      (hg : p.siddRefusesGraphics = true → g = 0) :
      Written p (writeSidd extra segs nsicd g) .sidd
  | cphd : Written p writeCphd .cphd
  | crsd : Written p writeCrsd .crsd

/-- **exclusivity on everything the writers produce**: exactly the right family opener accepts, with the right reader
    kind, for either argument kind; each of the three other family openers rejects; `sarpy.io.open` returns the
    same reader kind -/
theorem exclusive_on_written {p : Policy} {d : Desc} {r : Reader} (hw : Written p d r) :
    ∃ f, familyOf r = some f ∧
      (∀ a, familyOpen p a f d = .accept r) ∧
      (∀ a g, g ≠ f → familyOpen p a g d = .reject) ∧
      openTop p d = .accept r := by
  cases hw with
  | sicd extra nseg h =>
    obtain ⟨h1, h2, h3, h4, h5⟩ :=
      sicd_written_exclusive p extra nseg (fun e he => neutral_sicdSafe e (h e he))
    refine ⟨.complex, rfl, fun a => h1 a, ?_, h5⟩
    intro a g hg
    cases g with
    | complex => exact absurd rfl hg
    | product => exact h2
    | phaseHistory => exact h3 a
    | received => exact h4
  | sidd extra segs nsicd g hs h hg =>
    obtain ⟨h1, h2, h3, h4, h5⟩ :=
      sidd_written_exclusive p extra segs nsicd g hs (fun e he => neutral_siddSafe e (h e he)) hg
    refine ⟨.product, rfl, fun _ => h1, ?_, h5⟩
    intro a g hg
    cases g with
    | complex => exact h2 a
    | product => exact absurd rfl hg
    | phaseHistory => exact h3 a
    | received => exact h4
  | cphd =>
    obtain ⟨rg⟩ := p
    refine ⟨.phaseHistory, rfl, ?_, ?_, by cases rg <;> decide⟩
    · intro a; cases rg <;> cases a <;> decide
    · intro a g hg
      cases g with
      | phaseHistory => exact absurd rfl hg
      | complex => cases rg <;> cases a <;> decide
      | product => cases rg <;> cases a <;> decide
      | received => cases rg <;> cases a <;> decide
  | crsd =>
    obtain ⟨rg⟩ := p
    refine ⟨.received, rfl, ?_, ?_, by cases rg <;> decide⟩
    · intro a; cases rg <;> cases a <;> decide
    · intro a g hg
      cases g with
      | received => exact absurd rfl hg
      | complex => cases rg <;> cases a <;> decide
      | product => cases rg <;> cases a <;> decide
      | phaseHistory => cases rg <;> cases a <;> decide

/-- at most one family opener accepts a written file -/
theorem written_unique_family {p : Policy} {d : Desc} {r : Reader} (hw : Written p d r) (a : Arg) (g : Family)
    (r' : Reader) (hg : familyOpen p a g d = .accept r') : familyOf r = some g ∧ r' = r := by
  obtain ⟨f, hf, hacc, hrej, _⟩ := exclusive_on_written hw
  by_cases hgf : g = f
  · subst hgf
    rw [hacc a] at hg
    exact ⟨hf, by injection hg with h; exact h.symm⟩
  · rw [hrej a g hgf] at hg
    cases hg

/-- the general opener takes the NITF containers (as a plain NITF reader) and refuses CPHD / CRSD; since it is the last
    entry of the cascade it never decides the kind `sarpy.io.open` returns for a written file -/
theorem general_on_written {p : Policy} {d : Desc} {r : Reader} (hw : Written p d r) :
    openGeneral d = (if r = .sicd ∨ r = .sidd then .accept .nitf else .reject) := by
  cases hw with
  | sicd extra nseg h => simp [openGeneral, writeSicd, nitfOk, List.replicate_succ]
  | sidd extra segs nsicd g hs h hg =>
    have hpos : 0 < segs.length := List.length_pos_iff.mpr hs
    have hmem0 : Img.siddSeg 0 ∈ siddImagesFrom 0 segs := (mem_siddImagesFrom 0 segs _).2 ⟨0, hpos, by simp⟩
    have himgne : (siddImagesFrom 0 segs).isEmpty = false := by
      cases hi : siddImagesFrom 0 segs with
      | nil => rw [hi] at hmem0; cases hmem0
      | cons _ _ => rfl
    simp [openGeneral, writeSidd, nitfOk, himgne]
  | cphd => decide
  | crsd => decide

/-! ## satisfiable instances, and witnesses that the hypotheses are needed -/

/-- the reader-side policy of the tree this file was written against: SIDDDetails refuses graphics segments -/
def current : Policy := { siddRefusesGraphics := true }

/-- a SICD with two image segments and three additional DES in front of the SICD DES -/
example : Written current (writeSicd [⟨.other, .nonXml⟩, ⟨.xmlData, .otherXml⟩, ⟨.xmlData, .nonXml⟩] 1) .sicd :=
  .sicd _ _ (by decide)
example : openTop current (writeSicd [⟨.other, .nonXml⟩, ⟨.xmlData, .otherXml⟩, ⟨.xmlData, .nonXml⟩] 1) = .accept .sicd := by
  decide
example : findSicd (writeSicd [⟨.other, .nonXml⟩, ⟨.xmlData, .otherXml⟩, ⟨.xmlData, .nonXml⟩] 1).des = some 3 := by decide

/-- a SIDD with three products (1, 3 and 2 segments), two embedded SICD DES, one additional DES -/
example : Written current (writeSidd [⟨.xmlData, .otherXml⟩] [0, 2, 1] 2 0) .sidd :=
  .sidd _ _ _ _ (by decide) (by decide) (by decide)
example : openProduct current (writeSidd [⟨.xmlData, .otherXml⟩] [0, 2, 1] 2 0) = .accept .sidd := by decide
example : openComplex .path (writeSidd [⟨.xmlData, .otherXml⟩] [0, 2, 1] 2 0) = .reject := by decide
example : findSidd (writeSidd [⟨.xmlData, .otherXml⟩] [0, 2, 1] 2 0).des = ([1, 2, 3], [4, 5]) := by decide

/-- an additional DES with the legacy SIDD id in front of the SICD DES hides the SICD from `_find_sicd`: the file is
    then opened by the fallback complex-NITF reader (path) or refused (file object) - `sicdSafe` is needed -/
example : openComplex .path (writeSicd [⟨.oldSidd, .otherXml⟩] 0) = .accept .complexNitf := by decide
example : openComplex .fileobj (writeSicd [⟨.oldSidd, .otherXml⟩] 0) = .reject := by decide

/-- negation witness (finding `sidd-writer-graphics-segment`): the SIDD writer accepts graphics segments; while the SIDD
    reader refuses any file that has one, such a file is not opened by its own family and `sarpy.io.open` hands out a
    plain NITF reader - the hypothesis `hg` of `sidd_written_exclusive` is needed -/
example : openProduct { siddRefusesGraphics := true } (writeSidd [] [0] 1 1) = .reject := by decide
example : openTop { siddRefusesGraphics := true } (writeSidd [] [0] 1 1) = .accept .nitf := by decide
/-- ... and with the refusal removed from SIDDDetails the same file opens as a SIDD -/
example : openTop { siddRefusesGraphics := false } (writeSidd [] [0] 1 1) = .accept .sidd := by decide
example : Written { siddRefusesGraphics := false } (writeSidd [] [0] 1 1) .sidd :=
  .sidd _ _ _ _ (by decide) (by decide) (by decide)

/-- a SIDD whose second product lost its image segments: the parse error propagates -/
example : openProduct current { magic := .nitf21, images := [.siddSeg 0], graphics := 0, des := [siddDes, siddDes] } = .raises := by
  decide

end Sarpy.Props.C14
