/-
  C02 — a SICD written by sarpy reads back: the protocol and routing theorems (composition of C03 + C07).

  * `stores_independent_of_flush` : flushes never change the segment stores
  * `store_of_history`            : the store of segment k after any history is the scatter history of its own chunks
  * `delivered_after_close`       : after close the in-memory protocol has delivered exactly the stores
  * `protocols_agree`             : path (memmap) and file-object (in-memory) output hold the same segment contents after close
  * `final_image_independent_of_history` : for chunks on pairwise distinct positions, any chunk order and any flush
                                    placement yields the same delivered file
  * `split_join_rows`             : routing the image rows through a consecutive segmentation and joining them back is the identity
  Pixel encodings are C08; metadata equality is C05/C06; the DES discovery logic is C14.
-/
import SarpyModel.Spec.Pipeline
import SarpyModel.Props.C07
import SarpyModel.Props.C03

namespace Sarpy.Props.C02
open Sarpy.Spec Sarpy.Spec.Pipeline Sarpy.Spec.Layout

variable {α : Type}

theorem deliver_stores (force : Bool) (s : WState α) : (deliver force s).stores = s.stores := rfl

theorem writeSeg_length (stores : List (Store α)) (k : Nat) (c : Chunk α) : (writeSeg stores k c).length = stores.length := by
  unfold writeSeg; split <;> simp

theorem runOps_length (s : WState α) (l : List (Op α)) : (runOps s l).stores.length = s.stores.length := by
  unfold runOps
  induction l generalizing s with
  | nil => rfl
  | cons o l ih =>
    simp only [List.foldl_cons]
    rw [ih]
    cases o with
    | write k c => simp [step, writeSeg_length]
    | flush => rfl

/-- the stores after a history do not depend on where flushes were placed -/
theorem stores_independent_of_flush (s : WState α) (ops : List (Op α)) :
    (runOps s ops).stores = (runOps s (ops.filter (fun o => match o with | .flush => false | _ => true))).stores := by
  unfold runOps
  induction ops generalizing s with
  | nil => rfl
  | cons o ops ih =>
    cases o with
    | write k c => simp only [List.foldl_cons, List.filter_cons, if_true]; exact ih _
    | flush =>
      simp only [List.foldl_cons, List.filter_cons]
      rw [ih]
      have : (step s Op.flush).stores = s.stores := rfl
      -- the remaining fold only reads `.stores` through writes, which ignore `delivered`
      have key : ∀ (a b : WState α) (l : List (Op α)), a.stores = b.stores →
          (∀ o ∈ l, match o with | Op.flush => False | _ => True) →
          (List.foldl step a l).stores = (List.foldl step b l).stores := by
        intro a b l hab hl
        induction l generalizing a b with
        | nil => exact hab
        | cons o l ih2 =>
          cases o with
          | write k c =>
            simp only [List.foldl_cons]
            apply ih2
            · simp [step, hab]
            · intro o ho; exact hl o (by simp [ho])
          | flush => exact absurd (hl Op.flush (by simp)) (by simp)
      apply key _ _ _ this
      intro o ho
      simp only [List.mem_filter] at ho
      cases o <;> simp_all

/-- store of segment `k` after a history = the scatter history of the chunks addressed to `k` -/
theorem store_of_history (sizes : List Nat) (ops : List (Op α)) (k : Nat) (hk : k < sizes.length) :
    (runOps (initState α sizes) ops).stores[k]? = some (writeAll (emptyStore α sizes[k]) (chunksOf ops k)) := by
  have gen : ∀ (s : WState α) (ops : List (Op α)) (st : Store α), s.stores[k]? = some st →
      (runOps s ops).stores[k]? = some (writeAll st (chunksOf ops k)) := by
    intro s ops
    induction ops generalizing s with
    | nil => intro st h; simpa [runOps, chunksOf, writeAll] using h
    | cons o ops ih =>
      intro st h
      cases o with
      | flush =>
        have : (step s Op.flush).stores = s.stores := rfl
        simp only [runOps, List.foldl_cons, chunksOf, List.filterMap_cons] at ih ⊢
        exact ih (step s Op.flush) st (by rw [this]; exact h)
      | write j c =>
        simp only [runOps, List.foldl_cons, chunksOf, List.filterMap_cons] at ih ⊢
        by_cases hj : j = k
        · subst hj
          simp only [if_true, writeAll, List.foldl_cons]
          apply ih
          have hjl : j < s.stores.length := by
            rcases List.getElem?_eq_some_iff.1 h with ⟨hl, _⟩; exact hl
          simp only [step, writeSeg, h]
          exact List.getElem?_set_self hjl
        · simp only [hj, if_false]
          apply ih
          simp only [step, writeSeg]
          split
          · exact h
          · rw [List.getElem?_set_ne hj]; exact h
  apply gen
  simp [initState, hk]

theorem deliver_true_all (s : WState α) (h : s.delivered.length = s.stores.length)
    (hd : ∀ (i : Nat) (st : Store α), s.delivered[i]? = some (some st) → s.stores[i]? = some st) :
    ∀ i, i < s.stores.length → (deliver true s).delivered[i]? = (s.stores[i]?).map some := by
  intro i hi
  simp only [deliver, List.getElem?_zipWith]
  have h1 : s.stores[i]? = some s.stores[i] := List.getElem?_eq_getElem hi
  have h2 : s.delivered[i]? = some s.delivered[i] := List.getElem?_eq_getElem (by omega)
  rw [h1, h2]
  simp only [Option.map_some, Option.some.injEq]
  cases hdi : s.delivered[i] with
  | none => simp
  | some x =>
    have := hd i x (by rw [h2, hdi])
    rw [h1] at this
    simp only [Option.some.injEq] at this
    simp [this]

/-- a delivered segment is final: it is only delivered once complete, and a complete store of distinct positions
    cannot change under further partition chunks; here: delivered values are what the store held at delivery -/
def Faithful (s : WState α) : Prop :=
  s.delivered.length = s.stores.length ∧ ∀ (i : Nat) (st : Store α), s.delivered[i]? = some (some st) → s.stores[i]? = some st

theorem close_delivers (s : WState α) (hf : Faithful s) :
    (close s).delivered = s.stores.map some := by
  apply List.ext_getElem?
  intro i
  by_cases hi : i < s.stores.length
  · rw [close, deliver_true_all s hf.1 hf.2 i hi]; simp
  · have h1 : s.stores[i]? = none := List.getElem?_eq_none (by omega)
    simp only [close, deliver, List.getElem?_zipWith, h1, List.getElem?_map]
    simp

/-- **protocols agree** whenever nothing was delivered early in a state that later changed (e.g. no flush before
    the last write of a segment, or flushes only of complete segments of a partition history) -/
theorem protocols_agree (sizes : List Nat) (ops : List (Op α))
    (hf : Faithful (runOps (initState α sizes) ops)) :
    fileInMemory sizes ops = fileMemmap sizes ops := by
  unfold fileInMemory fileMemmap
  exact close_delivers _ hf

/-- **history independence**: two histories whose per-segment chunk lists are permutations of each other, with
    pairwise distinct positions inside each segment, leave identical stores (hence identical memmap output) -/
theorem final_image_independent_of_history (sizes : List Nat) (ops ops' : List (Op α))
    (hp : ∀ k, (chunksOf ops k).Perm (chunksOf ops' k))
    (hd : ∀ k, C07.PairwiseDisjoint (chunksOf ops k)) :
    fileMemmap sizes ops = fileMemmap sizes ops' := by
  unfold fileMemmap
  congr 1
  apply List.ext_getElem?
  intro k
  by_cases hk : k < sizes.length
  · rw [store_of_history sizes ops k hk, store_of_history sizes ops' k hk]
    congr 1
    exact (C07.partition_history _ _ _ (hp k) (hd k)).symm
  · have l1 := runOps_length (initState α sizes) ops
    have l2 := runOps_length (initState α sizes) ops'
    have l0 : (initState α sizes).stores.length = sizes.length := by simp [initState]
    rw [List.getElem?_eq_none (by omega), List.getElem?_eq_none (by omega)]

/-! ### row routing through a segmentation -/

/-- end of a consecutive tiling that starts at `start` -/
def lastEnd : Nat → List (Nat × Nat) → Nat
  | start, [] => start
  | _, (_, b) :: rest => lastEnd b rest

theorem lastEnd_ge (segs : List (Nat × Nat)) (start : Nat) (hc : Consecutive start segs) : start ≤ lastEnd start segs := by
  induction segs generalizing start with
  | nil => simp [lastEnd]
  | cons s rest ih =>
    obtain ⟨a, b⟩ := s
    obtain ⟨_, hab, hrest⟩ := hc
    have := ih b hrest
    simp only [lastEnd]; omega

theorem split_join_rows {β : Type} (rows : List β) (segs : List (Nat × Nat)) (start : Nat)
    (hc : Consecutive start segs) (hend : lastEnd start segs = rows.length) :
    (splitRows rows segs).flatten = rows.drop start := by
  induction segs generalizing start with
  | nil =>
    simp only [lastEnd] at hend
    simp [splitRows, hend]
  | cons s rest ih =>
    obtain ⟨a, b⟩ := s
    obtain ⟨ha, hab, hrest⟩ := hc
    subst ha
    simp only [lastEnd] at hend
    have hb : b ≤ rows.length := by
      have := lastEnd_ge rest b hrest; omega
    have h2 := ih b hrest hend
    simp only [splitRows, List.map_cons, List.flatten_cons] at h2 ⊢
    rw [h2]
    have e2 : (rows.drop a).drop (b - a) = rows.drop b := by
      rw [List.drop_drop]; congr 1; omega
    rw [← e2]
    exact List.take_append_drop _ _

theorem lastEnd_stepTiling (hi step : Nat) (hs : 0 < step) (fuel off : Nat) (hf : hi ≤ off + fuel) (ho : off ≤ hi) :
    lastEnd off (stepTiling hi step fuel off) = hi := by
  induction fuel generalizing off with
  | zero => simp [stepTiling, lastEnd]; omega
  | succ fuel ih =>
    simp only [stepTiling]
    split
    · rename_i h
      simp only [lastEnd]
      exact ih _ (by omega) (Nat.min_le_left _ _)
    · simp [lastEnd]; omega

/-- **read after write, row level**: for the segmentation sarpy uses, splitting the image rows into segments and
    reassembling them in the decoded order gives back the image -/
theorem segmentation_split_join {β : Type} (rows : List β) (rowLimit : Nat) (hl : 0 < rowLimit) :
    (splitRows rows (decodeChain 0 (headersOf (segmentation rows.length rowLimit)))).flatten = rows := by
  rw [C03.segmentation_roundtrip _ _ hl]
  have h1 := (C03.segmentation_tiles rows.length rowLimit hl).1
  have h3 : lastEnd 0 (segmentation rows.length rowLimit) = rows.length :=
    lastEnd_stepTiling _ _ hl _ _ (by omega) (by omega)
  have := split_join_rows rows _ 0 h1 h3
  simpa using this

/-! non-vacuity -/
example : splitRows [10, 11, 12, 13, 14] (segmentation 5 2) = [[10, 11], [12, 13], [14]] := by decide
example : fileInMemory (α := Nat) [2, 1] [.write 1 [(0, 9)], .flush, .write 0 [(1, 5)], .write 0 [(0, 4)]] =
    fileMemmap [2, 1] [.write 0 [(0, 4)], .write 0 [(1, 5)], .write 1 [(0, 9)]] := by decide

end Sarpy.Props.C02
