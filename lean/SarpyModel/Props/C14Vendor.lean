import SarpyModel.Props.C14
import SarpyModel.Spec.OpenerVendor
/-
  C14 (extension) — every registered opener inside the model.

  `Spec.OpenerVendor` gives each `is_a` of sarpy.io.complex (and of the other families) as a guard table over the
  observations a `World` holds; Bridge/Openers.lean proves the tables regenerated from the current source equal to these.
  Proved here (all worlds, all descriptors, every value of the opaque remainders `deep`):

    * vendor level: on every file that starts with a NITF / CPHD / CRSD / SIO signature, on every signature-less regular file,
      on every file object, on directories without vendor entries and on missing paths, each foreign opener REJECTS
      (it neither accepts nor raises, and its opaque remainder is never reached);
    * exactly when a foreign opener raises out of its guards (`capella_raises_iff`, `radarsat_raises_iff`, `tsx_raises_iff`,
      `palsar2_raises_iff`, `tiff_raises_iff`; the others never do) - the shapes of the findings of this round;
    * the trial loops: foreign openers that reject can be dropped from any registration order; for every descriptor the four
      writer models produce the full `open_complex` / `open_product` / ... / `sarpy.io.open` with all registered openers decide
      what the three-entry model of Props/C14.lean decides, for ANY order of the complex openers (`exclusive_on_written_full`);
    * signature-less input, directories, missing paths: every entry point rejects (`no_signature_rejects_full`, ...);
    * NITF 2.0 containers without SICD / SIDD document: SICD and SIDD openers reject for any number of symbol / label segments
      and either state of the two reader defects; with the repaired reader the fallback ComplexNITFReader takes the file iff an
      image segment is complex-like, otherwise the general NITF reader does; symbol / label counts never matter.
-/
set_option linter.unusedSimpArgs false
namespace Sarpy.Props.C14
open Sarpy.Spec.Opener

/-! ## cascade lemmas -/

theorem cascade_append_rejects (l1 l2 : List Decision) (h : ∀ x ∈ l1, x = .reject) : cascade (l1 ++ l2) = cascade l2 := by
  induction l1 with
  | nil => rfl
  | cons x xs ih =>
    have hx : x = .reject := h x (by simp)
    subst hx
    simpa [cascade] using ih (fun y hy => h y (List.mem_cons_of_mem _ hy))

/-- entries that reject can be removed from a trial loop, wherever they stand -/
theorem cascade_filter_rejects {α} (f : α → Decision) (keep : α → Bool) (l : List α) (tail : List Decision)
    (h : ∀ v ∈ l, keep v = false → f v = .reject) :
    cascade (l.map f ++ tail) = cascade ((l.filter keep).map f ++ tail) := by
  induction l with
  | nil => rfl
  | cons v vs ih =>
    have ih' := ih (fun u hu => h u (List.mem_cons_of_mem _ hu))
    cases hk : keep v with
    | true =>
      simp only [List.map_cons, List.cons_append, List.filter_cons, hk, if_true]
      cases hf : f v with
      | accept r => simp [cascade]
      | raises => simp [cascade]
      | reject => simpa [cascade] using ih'
    | false =>
      have hv := h v (by simp) hk
      simp only [List.map_cons, List.cons_append, List.filter_cons, hk, hv]
      simpa [cascade] using ih'

/-- a loop in which one entry accepts with `r` and every entry either rejects or accepts with `r` returns `r`,
    whatever the order -/
theorem cascade_unique_accept (l tail : List Decision) (r : Reader) (hmem : .accept r ∈ l)
    (h : ∀ x ∈ l, x = .reject ∨ x = .accept r) : cascade (l ++ tail) = .accept r := by
  induction l with
  | nil => cases hmem
  | cons x xs ih =>
    rcases h x (by simp) with hx | hx
    · subst hx
      have hm : Decision.accept r ∈ xs := by
        rcases List.mem_cons.1 hmem with h0 | h0
        · cases h0
        · exact h0
      simpa [cascade] using ih hm (fun y hy => h y (List.mem_cons_of_mem _ hy))
    · subst hx
      simp [cascade]

theorem cascade_all_reject (l : List Decision) (h : ∀ x ∈ l, x = .reject) : cascade l = .reject :=
  (cascade_reject l).2 h

/-! ## the guard tables, vendor by vendor -/

section vendors
variable (f : TabFlags) (w : World) (d : Desc) (deep : Decision)

/-- unfold one table -/
macro "vendor_simp" : tactic =>
  `(tactic| simp_all [isA, tab, tiffSteps, h5Pre, h5Body, firstFiring, evalCond, evalAtom, catches, World.regular, World.isPath,
      World.tiffEndian, worldOk, writtenPlace, noVendorHead, Vendor.foreign])

-- unfold one table and close the goal, splitting on the one defect flag the table reads
set_option hygiene false in
macro "vendor_close" : tactic =>
  `(tactic| first
    | (vendor_simp; done)
    | (cases hfl : f.radarsatParseUncaught <;> vendor_simp; done)
    | (cases hfl : f.tsxDanglingRaises <;> vendor_simp; done)
    | (cases hfl : f.tiffShortUnguarded <;> vendor_simp; done)
    | (cases hfl : f.palsarSpecialValueError <;> vendor_simp; done))

/-- a file object is rejected by every foreign opener before anything is read -/
theorem foreign_rejects_fileobj (v : Vendor) (hv : v.foreign = true) (ha : w.arg = .fileobj) :
    isA (tab f v) w d deep = .reject := by
  cases v <;> vendor_close

/-- a missing path is rejected by every foreign opener -/
theorem foreign_rejects_missing (v : Vendor) (hv : v.foreign = true) (hk : w.kind = .missing) :
    isA (tab f v) w d deep = .reject := by
  cases ha : w.arg with
  | fileobj => exact foreign_rejects_fileobj f w d deep v hv ha
  | path => cases v <;> vendor_close

/-- **signed files**: a regular file (or a file object on it) that starts with a NITF / CPHD / CRSD / SIO signature, lies in a
    directory without PALSAR-named entries and is not called `product.xml`, is rejected by every foreign opener - whatever
    its other name features (`*.xml`, `manifest.safe`), whether h5py is installed, and whatever the opaque remainders would do
    (they are not reached).  No foreign opener raises. -/
theorem foreign_rejects_signed (v : Vendor) (hv : v.foreign = true) (hm : d.magic ≠ .none)
    (hok : worldOk w d = true) (hp : writtenPlace w = true) : isA (tab f v) w d deep = .reject := by
  cases ha : w.arg with
  | fileobj => exact foreign_rejects_fileobj f w d deep v hv ha
  | path =>
    cases hmag : d.magic with
    | none => exact absurd hmag hm
    | sio => cases hn : w.name <;> cases v <;> vendor_close
    | nitf21 => cases hn : w.name <;> cases v <;> vendor_close
    | nitf20 => cases hn : w.name <;> cases v <;> vendor_close
    | nitfOther => cases hn : w.name <;> cases v <;> vendor_close
    | cphd => cases hn : w.name <;> cases v <;> vendor_close
    | crsd => cases hn : w.name <;> cases v <;> vendor_close

/-- **signature-less files**: a regular file of any length (or a file object) whose leading bytes are none of the vendor
    signatures, with a plain name (or a `*.xml` name and no dangling "<?xml" declaration, no `<level1Product`), in a directory
    without PALSAR-named entries, is rejected by every foreign opener -/
theorem foreign_rejects_unsigned (v : Vendor) (hv : v.foreign = true)
    (hk : w.arg = .fileobj ∨ w.kind = .file) (hh : noVendorHead w = true)
    (hn : w.name = .plain ∨ (w.name = .xmlExt ∧ w.probe = .none)) (hpn : w.palsarNamed = false) :
    isA (tab f v) w d deep = .reject := by
  cases ha : w.arg with
  | fileobj => exact foreign_rejects_fileobj f w d deep v hv ha
  | path =>
    have hk' : w.kind = .file := by
      rcases hk with h | h
      · rw [ha] at h; cases h
      · exact h
    rcases hn with hn | ⟨hn, hpr⟩ <;> cases hhd : w.head <;> cases v <;> vendor_close

/-- **directories** without vendor entries (no IMG-* / LED-* / TRL-* / VOL-* entry, no product.xml, no manifest.safe, no
    `*.xml` file that is a level-1 product or has a dangling declaration) are rejected by every foreign opener -/
theorem foreign_rejects_dir (v : Vendor) (hv : v.foreign = true) (hk : w.kind = .dir) (hpn : w.palsarNamed = false)
    (hdp : w.dirProduct = false) (hdm : w.dirManifest = false) (hdx : w.dirXml = .none) :
    isA (tab f v) w d deep = .reject := by
  cases ha : w.arg with
  | fileobj => exact foreign_rejects_fileobj f w d deep v hv ha
  | path => cases v <;> vendor_close

/-! ### exactly when a foreign opener raises out of its guards (remainder taken as rejecting) -/

/-- capella.is_a raises (IndexError from TiffDetails) exactly on a regular file that starts with "II" / "MM" and has
    fewer than four bytes -/
theorem capella_raises_iff :
    isA (tab f .capella) w d .reject = .raises ↔ f.tiffShortUnguarded = true ∧ w.regular = true ∧ w.head = .tiffShort := by
  cases hf : f.tiffShortUnguarded <;> cases ha : w.arg <;> cases hk : w.kind <;> cases hh : w.head <;> cases hb : w.big <;> vendor_simp

/-- the general TIFF opener: the same -/
theorem tiff_raises_iff :
    isA (tab f .tiff) w d .reject = .raises ↔ f.tiffShortUnguarded = true ∧ w.regular = true ∧ w.head = .tiffShort := by
  cases hf : f.tiffShortUnguarded <;> cases ha : w.arg <;> cases hk : w.kind <;> cases hh : w.head <;> cases hb : w.big <;> vendor_simp

/-- radarsat.is_a raises (ElementTree.ParseError, not in its handler) exactly on a regular file called `product.xml` that
    does not parse as XML -/
theorem radarsat_raises_iff :
    isA (tab f .radarsat) w d .reject = .raises ↔
      f.radarsatParseUncaught = true ∧ w.regular = true ∧ w.name = .productXml ∧ w.xmlParses = false := by
  cases hf : f.radarsatParseUncaught <;> cases ha : w.arg <;> cases hk : w.kind <;> cases hn : w.name <;> cases hx : w.xmlParses <;> cases hd : w.dirProduct <;> vendor_simp

/-- tsx.is_a raises (ValueError from `_is_level1_product`) exactly on an existing non-directory path with extension `.xml`
    whose first 200 bytes start "<?xml" without "?>", or a directory holding such a `*.xml` file -/
theorem tsx_raises_iff :
    isA (tab f .tsx) w d .reject = .raises ↔
      f.tsxDanglingRaises = true ∧ w.arg = .path ∧ ((w.kind = .dir ∧ w.dirXml = .declOpen) ∨
        ((w.kind = .file ∨ w.kind = .special) ∧ (w.name = .xmlExt ∨ w.name = .productXml) ∧ w.probe = .declOpen)) := by
  cases hf : f.tsxDanglingRaises <;> cases ha : w.arg <;> cases hk : w.kind <;> cases hn : w.name <;> cases hp : w.probe <;>
    cases hd : w.dirXml <;> vendor_simp

/-- palsar2.is_a raises (ValueError) exactly on an existing path that is neither a regular file nor a directory -/
theorem palsar2_raises_iff :
    isA (tab f .palsar2) w d .reject = .raises ↔ f.palsarSpecialValueError = true ∧ w.arg = .path ∧ w.kind = .special := by
  cases hf : f.palsarSpecialValueError <;> cases ha : w.arg <;> cases hk : w.kind <;> cases hp : w.palsarNamed <;> vendor_simp

/-- the guards of the remaining foreign openers never raise -/
theorem guards_never_raise (v : Vendor) (hv : v = .csk ∨ v = .gff ∨ v = .iceye ∨ v = .nisar ∨ v = .sentinel ∨ v = .sio) :
    isA (tab f v) w d .reject ≠ .raises := by
  rcases hv with h | h | h | h | h | h <;> subst h
  · cases ha : w.arg <;> cases hk : w.kind <;> cases hh : w.head <;> cases h5 : w.h5py <;> vendor_simp
  · cases ha : w.arg <;> cases hk : w.kind <;> cases hh : w.head <;> vendor_simp
  · cases ha : w.arg <;> cases hk : w.kind <;> cases hh : w.head <;> cases h5 : w.h5py <;> vendor_simp
  · cases ha : w.arg <;> cases hk : w.kind <;> cases hh : w.head <;> cases h5 : w.h5py <;> vendor_simp
  · cases ha : w.arg <;> cases hk : w.kind <;> cases hn : w.name <;> cases hx : w.xmlParses <;> cases hd : w.dirManifest <;> vendor_simp
  · cases ha : w.arg <;> cases hk : w.kind <;> cases hl : w.len4 <;> cases hm : d.magic <;> vendor_simp

end vendors

/-! ## the trial loops with every registered opener -/

/-- a loop whose entries are all `reject` or one fixed decision `x ≠ reject`, with `x` present, decides `x` - in any order -/
theorem cascade_const (l tail : List Decision) (x : Decision) (hx : x ≠ .reject) (hmem : x ∈ l)
    (h : ∀ y ∈ l, y = .reject ∨ y = x) : cascade (l ++ tail) = cascade [x] := by
  induction l with
  | nil => cases hmem
  | cons y ys ih =>
    rcases h y (by simp) with hy | hy
    · subst hy
      have hm : x ∈ ys := by
        rcases List.mem_cons.1 hmem with h0 | h0
        · exact absurd h0 hx
        · exact h0
      simpa [cascade] using ih hm (fun z hz => h z (List.mem_cons_of_mem _ hz))
    · subst hy
      cases y with
      | accept r => simp [cascade]
      | raises => simp [cascade]
      | reject => exact absurd rfl hx

section loops
variable (p : Policy2) (w : World) (d : Desc) (deep : Vendor → Decision)

theorem isAV_sicd : isAV p w d deep .sicd = sicdIsA (seen p d) := by
  simp [isAV, isA, tab, firstFiring, evalCond, vendorDeep]

theorem isAV_sidd : isAV p w d deep .sidd = openProduct p.base (seen p d) := by
  simp [isAV, isA, tab, firstFiring, evalCond, vendorDeep]

theorem isAV_cphd : isAV p w d deep .cphd = openPhaseHistory w.arg d := by
  simp [isAV, isA, tab, firstFiring, evalCond, vendorDeep, openPhaseHistory]

theorem isAV_crsd : isAV p w d deep .crsd = openReceived d := by
  simp [isAV, isA, tab, firstFiring, evalCond, vendorDeep]

theorem isAV_nitf : isAV p w d deep .nitf = openGeneral d := by
  simp [isAV, isA, tab, firstFiring, evalCond, vendorDeep]

/-- sio.is_a through its guard table is the `sioIsA` of Spec.Opener -/
theorem isAV_sio (hk : w.arg = .fileobj ∨ w.kind = .file) (hok : worldOk w d = true) :
    isAV p w d deep .sio = sioIsA w.arg d := by
  cases ha : w.arg <;> cases hm : d.magic <;>
    simp_all [isAV, isA, tab, firstFiring, evalCond, evalAtom, catches, vendorDeep, sioIsA, worldOk, World.regular, World.isPath]

theorem seen_eq (h20 : d.magic ≠ .nitf20) : seen p d = d := by
  have h : desSeen p d = d.des := by
    cases hm : d.magic <;> simp_all [desSeen]
  cases d
  simp_all [seen]

/-- final_attempt through its guard table is the `finalAttempt` of Spec.Opener (NITF 2.1 and everything that is not NITF) -/
theorem isAV_final (h20 : d.magic ≠ .nitf20) : isAV p w d deep .finalAttempt = finalAttempt w.arg d := by
  cases ha : w.arg <;> cases hm : d.magic <;>
    simp_all [isAV, isA, tab, firstFiring, evalCond, evalAtom, vendorDeep, finalDeep, finalAttempt]

theorem guard_passes (hk : w.arg = .fileobj ∨ w.kind = .file) (g : EntryGuard) : entryGuardFails g w = false := by
  cases g <;> rcases hk with h | h <;> simp [entryGuardFails, h]

/-- sicd.is_a and sio.is_a never both decide something other than `reject` -/
theorem sicd_sio_exclusive (a : Arg) : sicdIsA d = .reject ∨ sioIsA a d = .reject := by
  cases hm : d.magic <;> simp [sicdIsA, sicdDetails, containerOk, nitfOk, sioIsA, hm]

/-- **the full `open_complex` is the three-entry model**, for any registration order of the complex openers: whenever every
    foreign opener rejects, the loop over `order` (any list of complex openers containing sicd and sio, in any arrangement)
    followed by the final attempt decides what `openComplex` of Spec.Opener decides -/
theorem openComplexWith_eq (order : List Vendor) (hs : .sicd ∈ order) (hsio : .sio ∈ order)
    (ho : ∀ v ∈ order, v.foreign = true ∨ v = .sicd ∨ v = .sio)
    (hf : ∀ v, v.foreign = true → isAV p w d deep v = .reject)
    (hk : w.arg = .fileobj ∨ w.kind = .file) (hok : worldOk w d = true) (h20 : d.magic ≠ .nitf20) :
    openComplexWith order p w d deep = openComplex w.arg d := by
  unfold openComplexWith
  rw [guard_passes w hk, isAV_final p w d deep h20]
  simp only [Bool.false_eq_true, if_false]
  have hsicd : isAV p w d deep .sicd = sicdIsA d := by rw [isAV_sicd, seen_eq p d h20]
  have hsio' := isAV_sio p w d deep hk hok
  have hval : ∀ v ∈ order, isAV p w d deep v = .reject ∨ (v = .sicd ∧ isAV p w d deep v = sicdIsA d) ∨
      (v = .sio ∧ isAV p w d deep v = sioIsA w.arg d) := by
    intro v hv
    rcases ho v hv with h | h | h
    · exact Or.inl (hf v h)
    · subst h; exact Or.inr (Or.inl ⟨rfl, hsicd⟩)
    · subst h; exact Or.inr (Or.inr ⟨rfl, hsio'⟩)
  rcases sicd_sio_exclusive d w.arg with hr | hr
  · -- sicd rejects: everything is `reject` or the sio decision
    by_cases hx : sioIsA w.arg d = .reject
    · have hall : ∀ y ∈ order.map (isAV p w d deep), y = .reject := by
        intro y hy
        obtain ⟨v, hv, rfl⟩ := List.mem_map.1 hy
        rcases hval v hv with h | ⟨_, h⟩ | ⟨_, h⟩
        · exact h
        · rw [h, hr]
        · rw [h, hx]
      rw [cascade_append_rejects _ _ hall]
      simp [openComplex, cascade, hr, hx]
    · have hmem : sioIsA w.arg d ∈ order.map (isAV p w d deep) := List.mem_map.2 ⟨.sio, hsio, hsio'⟩
      have hall : ∀ y ∈ order.map (isAV p w d deep), y = .reject ∨ y = sioIsA w.arg d := by
        intro y hy
        obtain ⟨v, hv, rfl⟩ := List.mem_map.1 hy
        rcases hval v hv with h | ⟨_, h⟩ | ⟨_, h⟩
        · exact Or.inl h
        · left; rw [h, hr]
        · exact Or.inr h
      rw [cascade_const _ _ _ hx hmem hall]
      cases hsd : sioIsA w.arg d <;> simp_all [openComplex, cascade]
  · by_cases hx : sicdIsA d = .reject
    · have hall : ∀ y ∈ order.map (isAV p w d deep), y = .reject := by
        intro y hy
        obtain ⟨v, hv, rfl⟩ := List.mem_map.1 hy
        rcases hval v hv with h | ⟨_, h⟩ | ⟨_, h⟩
        · exact h
        · rw [h, hx]
        · rw [h, hr]
      rw [cascade_append_rejects _ _ hall]
      simp [openComplex, cascade, hr, hx]
    · have hmem : sicdIsA d ∈ order.map (isAV p w d deep) := List.mem_map.2 ⟨.sicd, hs, hsicd⟩
      have hall : ∀ y ∈ order.map (isAV p w d deep), y = .reject ∨ y = sicdIsA d := by
        intro y hy
        obtain ⟨v, hv, rfl⟩ := List.mem_map.1 hy
        rcases hval v hv with h | ⟨_, h⟩ | ⟨_, h⟩
        · exact Or.inl h
        · exact Or.inr h
        · left; rw [h, hr]
      rw [cascade_const _ _ _ hx hmem hall]
      cases hsd : sicdIsA d <;> simp_all [openComplex, cascade]

/-- the registration order of the code satisfies the hypotheses of `openComplexWith_eq` -/
theorem complexOrder_ok : Vendor.sicd ∈ complexOrder ∧ Vendor.sio ∈ complexOrder ∧
    ∀ v ∈ complexOrder, v.foreign = true ∨ v = .sicd ∨ v = .sio := by decide

end loops

section full
variable (p : Policy2) (w : World) (d : Desc) (deep : Vendor → Decision)

theorem openProductV_eq (hk : w.arg = .fileobj ∨ w.kind = .file) (h20 : d.magic ≠ .nitf20) :
    openProductV p w d deep = openProduct p.base d := by
  simp [openProductV, guard_passes w hk, productOrder, isAV_sidd, seen_eq p d h20, cascade]
  cases openProduct p.base d <;> rfl

theorem openPhaseHistoryV_eq (hk : w.arg = .fileobj ∨ w.kind = .file) :
    openPhaseHistoryV p w d deep = openPhaseHistory w.arg d := by
  simp [openPhaseHistoryV, guard_passes w hk, phaseHistoryOrder, isAV_cphd, cascade]
  cases openPhaseHistory w.arg d <;> rfl

theorem openReceivedV_eq (hk : w.arg = .fileobj ∨ w.kind = .file) :
    openReceivedV p w d deep = openReceived d := by
  simp [openReceivedV, guard_passes w hk, receivedOrder, isAV_crsd, cascade]
  cases openReceived d <;> rfl

/-- open_general with the TIFF opener behind the NITF opener is `openGeneral` whenever the TIFF opener rejects -/
theorem openGeneralV_eq (hk : w.arg = .fileobj ∨ w.kind = .file) (ht : isAV p w d deep .tiff = .reject) :
    openGeneralV p w d deep = openGeneral d := by
  simp [openGeneralV, guard_passes w hk, generalOrder, isAV_nitf, ht, cascade]
  cases openGeneral d <;> rfl

/-- **every entry point with every registered opener is the model of Props/C14.lean** on files that carry one of the
    modelled signatures (NITF 2.1 / unsupported NITF version / CPHD / CRSD / SIO), in a place as `writtenPlace` says, for
    any registration order of the complex openers -/
theorem full_eq_model (order : List Vendor) (hs : .sicd ∈ order) (hsio : .sio ∈ order)
    (ho : ∀ v ∈ order, v.foreign = true ∨ v = .sicd ∨ v = .sio)
    (hm : d.magic ≠ .none) (h20 : d.magic ≠ .nitf20) (hok : worldOk w d = true) (hp : writtenPlace w = true) :
    openComplexWith order p w d deep = openComplex w.arg d ∧
    openProductV p w d deep = openProduct p.base d ∧
    openPhaseHistoryV p w d deep = openPhaseHistory w.arg d ∧
    openReceivedV p w d deep = openReceived d ∧
    openGeneralV p w d deep = openGeneral d ∧
    (w.arg = .path → openTopV p w d deep = openTop p.base d) := by
  have hk : w.arg = .fileobj ∨ w.kind = .file := by
    simp only [writtenPlace, Bool.and_eq_true, Bool.or_eq_true, beq_iff_eq] at hp
    exact hp.1.1
  have hf : ∀ v, v.foreign = true → isAV p w d deep v = .reject :=
    fun v hv => foreign_rejects_signed p.guards w d _ v hv hm hok hp
  have h1 := openComplexWith_eq p w d deep order hs hsio ho hf hk hok h20
  have h2 := openProductV_eq p w d deep hk h20
  have h3 := openPhaseHistoryV_eq p w d deep hk
  have h4 := openReceivedV_eq p w d deep hk
  have h5 := openGeneralV_eq p w d deep hk (hf .tiff rfl)
  refine ⟨h1, h2, h3, h4, h5, ?_⟩
  intro ha
  have h1' := openComplexWith_eq p w d deep complexOrder complexOrder_ok.1 complexOrder_ok.2.1 complexOrder_ok.2.2 hf hk hok h20
  simp only [openTopV, topOrder, List.map, openEntryV, openComplexV, h1', h2, h3, h4, h5, ha, openTop]

/-- the four family entry points with all registered openers, complex with an arbitrary registration order -/
def familyOpenV (order : List Vendor) (p : Policy2) (w : World) (d : Desc) (deep : Vendor → Decision) : Family → Decision
  | .complex => openComplexWith order p w d deep
  | .product => openProductV p w d deep
  | .phaseHistory => openPhaseHistoryV p w d deep
  | .received => openReceivedV p w d deep

theorem written_magic {pol : Policy} {d : Desc} {r : Reader} (hw : Written pol d r) :
    d.magic ≠ .none ∧ d.magic ≠ .nitf20 := by
  cases hw <;> simp [writeSicd, writeSidd, writeCphd, writeCrsd]

/-- **exclusivity on everything the writers produce, with every registered opener**: for a file the SICD / SIDD / CPHD / CRSD
    writer models produce, handed over as a path or as an open file object, under any name other than `product.xml`, in any
    directory without PALSAR-named entries, with or without h5py, for ANY registration order of the complex openers and whatever
    the foreign readers would do on input that passes their guards: exactly the right family entry point accepts with the right
    reader kind, the three others reject, and `sarpy.io.open` returns the same kind.  In particular no foreign opener accepts or
    raises in front of the family opener. -/
theorem exclusive_on_written_full {pol : Policy} {d : Desc} {r : Reader} (hw : Written pol d r)
    (p : Policy2) (hb : p.base = pol) (w : World) (hok : worldOk w d = true) (hp : writtenPlace w = true)
    (deep : Vendor → Decision)
    (order : List Vendor) (hs : .sicd ∈ order) (hsio : .sio ∈ order) (ho : ∀ v ∈ order, v.foreign = true ∨ v = .sicd ∨ v = .sio) :
    ∃ f, familyOf r = some f ∧
      familyOpenV order p w d deep f = .accept r ∧
      (∀ g, g ≠ f → familyOpenV order p w d deep g = .reject) ∧
      (w.arg = .path → openTopV p w d deep = .accept r) := by
  obtain ⟨hm, h20⟩ := written_magic hw
  obtain ⟨h1, h2, h3, h4, _, h6⟩ := full_eq_model p w d deep order hs hsio ho hm h20 hok hp
  obtain ⟨f, hf, hacc, hrej, htop⟩ := exclusive_on_written hw
  have hfam : ∀ g, familyOpenV order p w d deep g = familyOpen pol w.arg g d := by
    intro g
    cases g <;> simp [familyOpenV, familyOpen, h1, h2, h3, h4, hb]
  refine ⟨f, hf, ?_, ?_, ?_⟩
  · rw [hfam]; exact hacc w.arg
  · intro g hg; rw [hfam]; exact hrej w.arg g hg
  · intro ha; rw [h6 ha, hb]; exact htop

/-! ### input without a signature -/

/-- **signature-less strings of any length** (regular file or file object; plain name, or `*.xml` without a dangling XML
    declaration; no PALSAR-named directory entries): every registered opener rejects, every entry point and `sarpy.io.open`
    reject, for any order of the complex openers -/
theorem no_signature_rejects_full (order : List Vendor)
    (hm : d.magic = .none) (hk : w.arg = .fileobj ∨ w.kind = .file) (hh : noVendorHead w = true)
    (hn : w.name = .plain ∨ (w.name = .xmlExt ∧ w.probe = .none)) (hpn : w.palsarNamed = false) :
    (∀ v, isAV p w d deep v = .reject) ∧
    openComplexWith order p w d deep = .reject ∧ openProductV p w d deep = .reject ∧
    openPhaseHistoryV p w d deep = .reject ∧ openReceivedV p w d deep = .reject ∧ openGeneralV p w d deep = .reject ∧
    openTopV p w d deep = .reject := by
  have hf : ∀ v, v.foreign = true → isAV p w d deep v = .reject :=
    fun v hv => foreign_rejects_unsigned p.guards w d _ v hv hk hh hn hpn
  have h20 : d.magic ≠ .nitf20 := by rw [hm]; decide
  obtain ⟨o1, o2, o3, o4, o5, _⟩ := no_signature_rejects p.base d hm
  have hall : ∀ v, isAV p w d deep v = .reject := by
    intro v
    cases hv : v.foreign with
    | true => exact hf v hv
    | false =>
      cases v <;> first | (exact absurd hv (by decide)) | skip
      · rw [isAV_sicd, seen_eq p d h20]
        have := o1 .fileobj
        cases hs : sicdIsA d <;> simp_all [openComplex, cascade]
      · cases ha : w.arg <;> simp_all [isAV, isA, tab, firstFiring, evalCond, evalAtom, catches, vendorDeep, World.regular]
      · rw [isAV_final p w d deep h20]
        cases ha : w.arg <;> simp [finalAttempt, nitfOk, hm]
      · rw [isAV_sidd, seen_eq p d h20]; exact o2
      · rw [isAV_cphd]; exact o3 _
      · rw [isAV_crsd]; exact o4
      · rw [isAV_nitf]; exact o5
  have hc : openComplexWith order p w d deep = .reject := by
    simp only [openComplexWith, guard_passes w hk, Bool.false_eq_true, if_false]
    apply cascade_all_reject
    intro x hx
    rcases List.mem_append.1 hx with h | h
    · obtain ⟨v, _, rfl⟩ := List.mem_map.1 h; exact hall v
    · simp only [List.mem_singleton] at h; rw [h]; exact hall _
  have hpr : openProductV p w d deep = .reject := by rw [openProductV_eq p w d deep hk h20]; exact o2
  have hph : openPhaseHistoryV p w d deep = .reject := by rw [openPhaseHistoryV_eq p w d deep hk]; exact o3 _
  have hrc : openReceivedV p w d deep = .reject := by rw [openReceivedV_eq p w d deep hk]; exact o4
  have hge : openGeneralV p w d deep = .reject := by rw [openGeneralV_eq p w d deep hk (hall _)]; exact o5
  have hc' : openComplexV p w d deep = .reject := by
    simp only [openComplexV, openComplexWith, guard_passes w hk, Bool.false_eq_true, if_false]
    apply cascade_all_reject
    intro x hx
    rcases List.mem_append.1 hx with h | h
    · obtain ⟨v, _, rfl⟩ := List.mem_map.1 h; exact hall v
    · simp only [List.mem_singleton] at h; rw [h]; exact hall _
  refine ⟨hall, hc, hpr, hph, hrc, hge, ?_⟩
  simp [openTopV, topOrder, openEntryV, hc', hpr, hph, hrc, hge, cascade]

/-- a path that does not exist: every entry point rejects before any opener is tried -/
theorem missing_path_rejects (order : List Vendor) (ha : w.arg = .path) (hk : w.kind = .missing) :
    openComplexWith order p w d deep = .reject ∧ openProductV p w d deep = .reject ∧
    openPhaseHistoryV p w d deep = .reject ∧ openReceivedV p w d deep = .reject ∧ openGeneralV p w d deep = .reject ∧
    openTopV p w d deep = .reject := by
  simp [openComplexWith, openComplexV, openProductV, openPhaseHistoryV, openReceivedV, openGeneralV, openTopV, topOrder, openEntryV,
    entryGuardFails, entryShape, ha, hk, cascade]

end full

/-! ### directories -/

section dirs
variable (p : Policy2) (w : World) (d : Desc) (deep : Vendor → Decision)

/-- a directory argument has no signature: the descriptor of a directory is the empty one -/
def dirDesc : Desc := { magic := .none, images := [], graphics := 0, des := [] }

/-- the family openers on a directory: NITFDetails / CPHDDetails / CRSDDetails / SIODetails start with `os.path.isfile`;
    in the model: the sio guard table, and magic `none` for the others -/
theorem dir_rejects_full (order : List Vendor) (ha : w.arg = .path) (hk : w.kind = .dir) (hpn : w.palsarNamed = false)
    (hdp : w.dirProduct = false) (hdm : w.dirManifest = false) (hdx : w.dirXml = .none) :
    (∀ v, isAV p w dirDesc deep v = .reject) ∧
    openComplexWith order p w dirDesc deep = .reject ∧ openTopV p w dirDesc deep = .reject := by
  have hall : ∀ v, isAV p w dirDesc deep v = .reject := by
    intro v
    cases hv : v.foreign with
    | true => exact foreign_rejects_dir p.guards w dirDesc _ v hv hk hpn hdp hdm hdx
    | false =>
      cases v <;> first | (exact absurd hv (by decide)) | skip
      all_goals
        simp [isAV, isA, tab, firstFiring, evalCond, evalAtom, catches, vendorDeep, World.regular, ha, hk, dirDesc, sicdIsA,
          sicdDetails, containerOk, nitfOk, seen, desSeen, finalDeep, finalAttempt, openProduct, siddDetails, openPhaseHistory,
          openReceived, openGeneral]
  have hg : ∀ g, entryGuardFails g w = false := by intro g; cases g <;> simp [entryGuardFails, ha, hk]
  have hc : ∀ o, openComplexWith o p w dirDesc deep = .reject := by
    intro o
    simp only [openComplexWith, hg, Bool.false_eq_true, if_false]
    apply cascade_all_reject
    intro x hx
    rcases List.mem_append.1 hx with h | h
    · obtain ⟨v, _, rfl⟩ := List.mem_map.1 h; exact hall v
    · simp only [List.mem_singleton] at h; rw [h]; exact hall _
  refine ⟨hall, hc order, ?_⟩
  simp [openTopV, topOrder, openEntryV, openComplexV, hc, openProductV, openPhaseHistoryV, openReceivedV, openGeneralV, hg,
    productOrder, phaseHistoryOrder, receivedOrder, generalOrder, hall, cascade]

end dirs

/-! ## NITF 2.0 containers -/

section nitf20
variable (p : Policy2) (d : Desc)

theorem neutral_scan_skip (e : Des) (h : neutral e = true) : sicdScan e = .skip := by
  cases e with
  | mk id body => cases id <;> cases body <;> first | rfl | (exact absurd h (by decide))

theorem neutral_not_sidd (e : Des) (h : neutral e = true) : isSiddDoc e = false := by
  cases e with
  | mk id body => cases id <;> cases body <;> first | rfl | (exact absurd h (by decide))

theorem garbled_neutral : neutral garbled = true := by decide

theorem findSicd_none_of_neutral (l : List Des) (h : ∀ e ∈ l, neutral e = true) : findSicd l = none :=
  (findSicd_none_iff l).2 (Or.inl (fun x hx => neutral_scan_skip x (h x hx)))

/-- what the reader locates keeps "no SICD / SIDD document anywhere": a DES read at a wrong offset is neutral -/
theorem desSeen_neutral (h : ∀ e ∈ d.des, neutral e = true) : ∀ e ∈ desSeen p d, neutral e = true := by
  intro e he
  unfold desSeen at he
  split at he
  · obtain ⟨_, _, rfl⟩ := List.mem_map.1 he
    exact garbled_neutral
  · exact h e he

/-- **a NITF 2.0 (or 2.1) container without SICD / SIDD document** - any image segments, any number of symbol / label
    segments, any number of additional DES that carry no such document - is rejected by sicd.is_a and by open_product, in
    either state of the two NITF 2.0 reader defects -/
theorem nitf_without_family_des_rejects (h : ∀ e ∈ d.des, neutral e = true) :
    sicdIsA (seen p d) = .reject ∧ openProduct p.base (seen p d) = .reject := by
  have hn := desSeen_neutral p d h
  have h1 : findSicd (desSeen p d) = none := findSicd_none_of_neutral _ hn
  have h2 : (findSidd (desSeen p d)).1 = [] :=
    findSiddFrom_fst_nil 0 _ (fun e he => neutral_not_sidd e (hn e he))
  constructor
  · simp [sicdIsA, sicdDetails, seen, h1]
  · simp [openProduct, siddDetails, seen, h2]

/-- what the fallback complex opener decides on the image segments of `d`, examined in file order -/
def fallbackScan (d : Desc) : Decision := scanBands (d.images.map Img.hdr) false

/-- the fallback complex opener takes the file: some image segment counts as complex and none makes extract_sicd refuse -/
def complexLike (d : Desc) : Bool := fallbackScan d == .accept .complexNitf

theorem scanBands_cases (l : List ImgHdr) (f : Bool) :
    scanBands l f = .accept .complexNitf ∨ scanBands l f = .reject ∨ scanBands l f = .raises := by
  induction l generalizing f with
  | nil => cases f <;> simp [scanBands]
  | cons h t ih => simp only [scanBands]; cases checkBand h <;> simp [ih]

/-- on the three image classes of the writer models the scan is the rule of the first model: an integer SAR segment
    (extract_sicd refuses) rejects the file, otherwise a complex I/Q segment is taken -/
theorem scanBands_classes (l : List Img) (hl : ∀ x ∈ l, ∀ h, x ≠ .gen h) (f : Bool) :
    scanBands (l.map Img.hdr) f =
      (if l.any isSiddSeg then .reject else if f || l.any (· == .sicdSeg) then .accept .complexNitf else .reject) := by
  induction l generalizing f with
  | nil => cases f <;> simp [scanBands]
  | cons x t ih =>
    have ih' := ih (fun y hy => hl y (List.mem_cons_of_mem _ hy))
    cases x with
    | gen h => exact absurd rfl (hl _ (by simp) h)
    | sicdSeg => simp [scanBands, checkBand, Img.hdr, ih', isSiddSeg, orderIQ, orderMP, validOrder]
    | siddSeg k => simp [scanBands, checkBand, Img.hdr, isSiddSeg]
    | other => simp [scanBands, checkBand, Img.hdr, ih', isSiddSeg]

/-- **NITF 2.0 fallback with the repaired reader** (`extract_sicd` accepts the 2.0 subheader): for a 2.0 container without
    SICD / SIDD document handed over as a path in a `writtenPlace`, open_complex returns the fallback ComplexNITFReader exactly
    when an image segment is complex-like (and no integer SAR segment makes extract_sicd refuse), otherwise rejects;
    open_product / open_phase_history / open_received reject; open_general takes it as a plain NITF; `sarpy.io.open` returns the
    fallback reader if there is one and the general NITF reader otherwise - for any number of symbol and label segments and
    either state of the offset defect -/
theorem nitf20_fallback (w : World) (deep : Vendor → Decision) (hm : d.magic = .nitf20) (hi : d.images ≠ [])
    (hnc : fallbackScan d ≠ .raises) (h : ∀ e ∈ d.des, neutral e = true) (hrep : p.nitf20SarRaises = false)
    (ha : w.arg = .path) (hok : worldOk w d = true) (hp : writtenPlace w = true) :
    openComplexV p w d deep = (if complexLike d then .accept .complexNitf else .reject) ∧
    openProductV p w d deep = .reject ∧ openPhaseHistoryV p w d deep = .reject ∧ openReceivedV p w d deep = .reject ∧
    openGeneralV p w d deep = .accept .nitf ∧
    openTopV p w d deep = (if complexLike d then .accept .complexNitf else .accept .nitf) := by
  have hne : d.magic ≠ .none := by rw [hm]; decide
  have hk : w.arg = .fileobj ∨ w.kind = .file := by
    simp only [writtenPlace, Bool.and_eq_true, Bool.or_eq_true, beq_iff_eq] at hp
    exact hp.1.1
  have hf : ∀ v, v.foreign = true → isAV p w d deep v = .reject :=
    fun v hv => foreign_rejects_signed p.guards w d _ v hv hne hok hp
  obtain ⟨hs, hpr⟩ := nitf_without_family_des_rejects p d h
  have hsio : isAV p w d deep .sio = .reject := by
    rw [isAV_sio p w d deep hk hok]; simp [sioIsA, hm]
  have hfin : isAV p w d deep .finalAttempt = (if complexLike d then .accept .complexNitf else .reject) := by
    have e1 : isAV p w d deep .finalAttempt = finalDeep p d := by
      simp [isAV, isA, tab, firstFiring, evalCond, evalAtom, ha, vendorDeep]
    rw [e1]
    have e2 : finalDeep p d = fallbackScan d := by simp [finalDeep, hrep, finalAttempt, nitfOk, hm, fallbackScan]
    rw [e2]
    rcases scanBands_cases (d.images.map Img.hdr) false with h1 | h1 | h1
    · simp [complexLike, fallbackScan, h1]
    · simp [complexLike, fallbackScan, h1]
    · exact absurd h1 hnc
  have hall : ∀ v ∈ complexOrder, isAV p w d deep v = .reject := by
    intro v hv
    rcases complexOrder_ok.2.2 v hv with h1 | h1 | h1
    · exact hf v h1
    · subst h1; rw [isAV_sicd]; exact hs
    · subst h1; exact hsio
  have hc : openComplexV p w d deep = (if complexLike d then .accept .complexNitf else .reject) := by
    simp only [openComplexV, openComplexWith, guard_passes w hk, Bool.false_eq_true, if_false]
    rw [cascade_append_rejects _ _ (by
      intro x hx
      obtain ⟨v, hv, rfl⟩ := List.mem_map.1 hx
      exact hall v hv), hfin]
    cases complexLike d <;> simp [cascade]
  have hprod : openProductV p w d deep = .reject := by
    simp [openProductV, guard_passes w hk, productOrder, isAV_sidd, hpr, cascade]
  have hph : openPhaseHistoryV p w d deep = .reject := by
    rw [openPhaseHistoryV_eq p w d deep hk]; simp [openPhaseHistory, hm]
  have hrc : openReceivedV p w d deep = .reject := by
    rw [openReceivedV_eq p w d deep hk]; simp [openReceived, hm]
  have hge : openGeneralV p w d deep = .accept .nitf := by
    rw [openGeneralV_eq p w d deep hk (hf .tiff rfl)]
    cases hd : d.images with
    | nil => exact absurd hd hi
    | cons _ _ => simp [openGeneral, nitfOk, hm, hd]
  refine ⟨hc, hprod, hph, hrc, hge, ?_⟩
  simp only [openTopV, topOrder, List.map, openEntryV, hc, hprod, hph, hrc, hge]
  cases complexLike d <;> simp [cascade]

/-- with the repaired offset computation the number of symbol and label segments is invisible to every opener -/
theorem symbols_labels_irrelevant (s l : Nat) (hrep : p.nitf20SkipsSymLab = false) :
    seen p { d with symbols := s, labels := l } = { seen p d with symbols := s, labels := l } ∧
    sicdIsA (seen p { d with symbols := s, labels := l }) = sicdIsA (seen p d) ∧
    openProduct p.base (seen p { d with symbols := s, labels := l }) = openProduct p.base (seen p d) ∧
    finalDeep p { d with symbols := s, labels := l } = finalDeep p d ∧
    openGeneral { d with symbols := s, labels := l } = openGeneral d := by
  refine ⟨?_, ?_, ?_, ?_, ?_⟩ <;>
    simp [seen, desSeen, hrep, sicdIsA, sicdDetails, containerOk, openProduct, siddDetails, finalDeep, finalAttempt, openGeneral]

end nitf20

/-! ## which image segments the fallback complex opener takes; general NITF files -/

section bands

-- unfold the band chain
macro "band_simp" : tactic =>
  `(tactic| simp_all [runBand, bandTab, evalBCond, evalBAtom, checkBand, validOrder, realValued])

/-- the regenerated chain of `_check_band_details` computes `checkBand`, the function `finalAttempt` scans with -/
theorem runBand_bandTab (h : ImgHdr) : runBand h bandTab false = checkBand h := by
  obtain ⟨sar, pv, bands⟩ := h
  cases sar
  · simp [runBand, bandTab, evalBCond, evalBAtom, checkBand]
  · rcases bands with _ | ⟨x, _ | ⟨y, rest⟩⟩
    · cases pv <;> band_simp
    · cases pv <;> band_simp
    · have hlen : (rest.length + 1 + 1) % 2 = rest.length % 2 := by omega
      by_cases hodd : rest.length % 2 = 1
      · cases pv <;> band_simp
      · cases hiq : orderIQ x y <;> cases hmp : orderMP x y
        · cases pv <;> band_simp
        all_goals
          cases rest with
          | nil => cases pv <;> band_simp
          | cons z rest' => cases hf : pairsFollow x y (z :: rest') <;> cases pv <;> band_simp

/-- an even number of bands labelled as complex pairs that fit the PVTYPE: the first pair is I/Q, Q/I, M/P or P/M and, when there
    are more than two bands, every later pair repeats it and the PVTYPE fits the labelling (I/Q: SI or R; M/P: R - INT never gets
    here, extract_sicd refuses it) -/
def pairedOk (pv : PvType) : List SubCat → Bool
  | x :: y :: rest =>
    validOrder x y && (rest.isEmpty ||
      (pairsFollow x y rest && (!orderIQ x y || pv == .si || pv == .r) && (!orderMP x y || pv == .r)))
  | _ => false

/-- **exactly which image segments count as complex**: category SAR / SARIQ, PVTYPE C, R or SI, and either an odd number of bands
    with PVTYPE C, or an even number of bands that are `pairedOk` -/
theorem checkBand_take_iff (h : ImgHdr) :
    checkBand h = .take ↔
      h.sar = true ∧ (h.pv = .c ∨ h.pv = .r ∨ h.pv = .si) ∧
      ((h.bands.length % 2 = 1 ∧ h.pv = .c) ∨ (h.bands.length % 2 = 0 ∧ pairedOk h.pv h.bands = true)) := by
  obtain ⟨sar, pv, bands⟩ := h
  cases sar
  · simp [checkBand]
  · rcases bands with _ | ⟨x, _ | ⟨y, rest⟩⟩
    · cases pv <;> simp [checkBand, pairedOk]
    · cases pv <;> simp [checkBand, pairedOk]
    · have hlen : (rest.length + 1 + 1) % 2 = rest.length % 2 := by omega
      by_cases hodd : rest.length % 2 = 1
      · have h0 : ¬ rest.length % 2 = 0 := by omega
        cases pv <;> simp_all [checkBand, pairedOk]
      · have h0 : rest.length % 2 = 0 := by omega
        cases hiq : orderIQ x y <;> cases hmp : orderMP x y
        · cases pv <;> simp_all [checkBand, validOrder, pairedOk]
        all_goals
          cases rest with
          | nil => cases pv <;> simp_all [checkBand, validOrder, pairedOk]
          | cons z rest' => cases hf : pairsFollow x y (z :: rest') <;> cases pv <;> simp_all [checkBand, validOrder, pairedOk]

/-- a real-valued image segment is never taken: it is passed over, or (PVTYPE INT / B in a SAR category) makes extract_sicd refuse -/
theorem checkBand_real (h : ImgHdr) (hr : realValued h = true) : checkBand h = .skip ∨ checkBand h = .refuse := by
  obtain ⟨sar, pv, bands⟩ := h
  cases sar
  · simp [checkBand]
  · rcases bands with _ | ⟨x, _ | ⟨y, rest⟩⟩
    · simp [realValued] at hr
    · cases pv <;> simp_all [checkBand, realValued]
    · have hlen : (rest.length + 1 + 1) % 2 = rest.length % 2 := by omega
      by_cases hodd : rest.length % 2 = 1
      · cases pv <;> simp_all [checkBand, realValued]
      · have h0 : rest.length % 2 = 0 := by omega
        cases hv : validOrder x y <;> cases pv <;> simp_all [checkBand, realValued]

theorem scanBands_real (l : List ImgHdr) (hl : ∀ h ∈ l, realValued h = true) : scanBands l false = .reject := by
  induction l with
  | nil => rfl
  | cons h t ih =>
    have ih' := ih (fun x hx => hl x (List.mem_cons_of_mem _ hx))
    rcases checkBand_real h (hl h (by simp)) with hc | hc <;> simp [scanBands, hc, ih']

/-- **general NITF files**: a NITF 2.1 container with at least one image segment, all of whose image segments are real-valued
    (PVTYPE INT / B / SI / R, no complex band pairing - whatever their category, band count, NBPP), whose DES carry no SICD / SIDD
    document, handed over as a path or file object in a `writtenPlace`: every complex opener rejects it - for any registration
    order, the fallback opener included - open_product / open_phase_history / open_received reject, open_general returns the
    general NITF reader and so does `sarpy.io.open` -/
theorem general_nitf_exclusive (p : Policy2) (w : World) (d : Desc) (deep : Vendor → Decision)
    (order : List Vendor) (hs : .sicd ∈ order) (hsio : .sio ∈ order) (ho : ∀ v ∈ order, v.foreign = true ∨ v = .sicd ∨ v = .sio)
    (hm : d.magic = .nitf21) (hi : d.images ≠ []) (hreal : ∀ x ∈ d.images, realValued x.hdr = true)
    (hdes : ∀ e ∈ d.des, neutral e = true) (hok : worldOk w d = true) (hp : writtenPlace w = true) :
    openComplexWith order p w d deep = .reject ∧ openProductV p w d deep = .reject ∧
    openPhaseHistoryV p w d deep = .reject ∧ openReceivedV p w d deep = .reject ∧
    openGeneralV p w d deep = .accept .nitf ∧ (w.arg = .path → openTopV p w d deep = .accept .nitf) := by
  have hne : d.magic ≠ .none := by rw [hm]; decide
  have h20 : d.magic ≠ .nitf20 := by rw [hm]; decide
  obtain ⟨e1, e2, e3, e4, e5, e6⟩ := full_eq_model p w d deep order hs hsio ho hne h20 hok hp
  obtain ⟨hsicd, hprod⟩ := nitf_without_family_des_rejects p d hdes
  rw [seen_eq p d h20] at hsicd hprod
  have hscan : scanBands (d.images.map Img.hdr) false = .reject :=
    scanBands_real _ (by
      intro h hh
      obtain ⟨x, hx, rfl⟩ := List.mem_map.1 hh
      exact hreal x hx)
  have hfin : ∀ a, finalAttempt a d = .reject := by
    intro a; cases a <;> simp [finalAttempt, hscan]
  have hcx : ∀ a, openComplex a d = .reject := by
    intro a; cases a <;> simp [openComplex, cascade, hsicd, sioIsA, hm, hfin]
  have hph : ∀ a, openPhaseHistory a d = .reject := by intro a; simp [openPhaseHistory, hm]
  have hrc : openReceived d = .reject := by simp [openReceived, hm]
  have hge : openGeneral d = .accept .nitf := by
    cases hd : d.images with
    | nil => exact absurd hd hi
    | cons _ _ => simp [openGeneral, nitfOk, hm, hd]
  refine ⟨by rw [e1]; exact hcx _, by rw [e2]; exact hprod, by rw [e3]; exact hph _, by rw [e4]; exact hrc, by rw [e5]; exact hge, ?_⟩
  intro ha
  rw [e6 ha]
  simp [openTop, cascade, hcx, hprod, hph, hrc, hge]

/-- the seeded regression as a witness: one float32 band in a SAR category is real-valued and passed over; the same header with
    PVTYPE C is taken -/
example : realValued ⟨true, .r, [.other]⟩ = true ∧ checkBand ⟨true, .r, [.other]⟩ = .skip ∧ checkBand ⟨true, .c, [.other]⟩ = .take := by
  decide
example : checkBand ⟨true, .r, [.other, .other, .other]⟩ = .skip ∧ checkBand ⟨true, .r, [.m, .p, .m, .p]⟩ = .take ∧
    checkBand ⟨true, .si, [.m, .p, .m, .p]⟩ = .muddled ∧ checkBand ⟨true, .int, [.m, .p]⟩ = .refuse ∧
    checkBand ⟨false, .c, [.other]⟩ = .skip := by decide

end bands

/-! ## satisfiable instances and witnesses -/

/-- the reader as it stands in the tree this file was written against -/
def current2 : Policy2 :=
  { siddRefusesGraphics := false, nitf20SkipsSymLab := true, nitf20SarRaises := true, guards := ⟨true, true, true, true⟩ }
/-- ... and with the two NITF 2.0 defects repaired -/
def repaired2 : Policy2 :=
  { siddRefusesGraphics := false, nitf20SkipsSymLab := false, nitf20SarRaises := false, guards := ⟨false, false, false, false⟩ }

/-- a file written by sarpy, handed over by path under a plain name -/
def plainFile (a : Arg) : World :=
  { arg := a, kind := .file, name := .plain, len4 := true, head := .plain, big := false, xmlParses := false, probe := .none,
    palsarNamed := false, dirProduct := false, dirManifest := false, dirXml := .none, h5py := true }

example : worldOk (plainFile .path) (writeSicd [] 0) = true ∧ writtenPlace (plainFile .path) = true := by decide
/-- the hypotheses of `exclusive_on_written_full` hold for the registration order of the code -/
example : openComplexV current2 (plainFile .path) (writeSicd [⟨.other, .nonXml⟩] 1) (fun _ => .raises) = .accept .sicd := by decide
example : openTopV current2 (plainFile .path) (writeSidd [] [0, 1] 1 0) (fun _ => .raises) = .accept .sidd := by decide
/-- ... and for the reversed order -/
example : openComplexWith complexOrder.reverse current2 (plainFile .fileobj) (writeSicd [] 0) (fun _ => .raises) = .accept .sicd := by
  decide

/-- necessity of `name ≠ product.xml` (finding `name-product-xml-parse-error`): a SICD written to a file called product.xml makes
    radarsat.is_a raise before sicd.is_a is reached -/
example : openComplexV current2 { plainFile .path with name := .productXml } (writeSicd [] 0) (fun _ => .reject) = .raises := by decide
/-- under the name manifest.safe the Sentinel opener catches the parse error and the SICD opens -/
example : openComplexV current2 { plainFile .path with name := .manifestSafe } (writeSicd [] 0) (fun _ => .reject) = .accept .sicd := by
  decide
/-- necessity of "no PALSAR-named entry": with one, the PALSAR reader decides (here: whatever `deep` says) before sicd.is_a -/
example : openComplexV current2 { plainFile .path with palsarNamed := true } (writeSicd [] 0)
    (fun v => if v = .palsar2 then .raises else .reject) = .raises := by decide

/-- signature-less: an empty file; a two byte file "II" (finding `tiff-short-index-error`); "<?xml" in a file called x.xml
    (finding `tsx-dangling-xml-declaration`); /dev/null (finding `special-file-value-error`) -/
def blobDesc : Desc := { magic := .none, images := [], graphics := 0, des := [] }
example : openTopV current2 { plainFile .path with len4 := false } blobDesc (fun _ => .raises) = .reject := by decide
example : openTopV current2 { plainFile .path with len4 := false, head := .tiffShort } blobDesc (fun _ => .reject) = .raises := by decide
example : openTopV current2 { plainFile .path with name := .xmlExt, probe := .declOpen } blobDesc (fun _ => .reject) = .raises := by
  decide
example : openTopV current2 { plainFile .path with kind := .special } blobDesc (fun _ => .reject) = .raises := by decide
example : openTopV current2 { plainFile .path with kind := .dir } dirDesc (fun _ => .raises) = .reject := by decide
/-- ... and with the four guards repaired each of them is rejected, and the SICD called product.xml opens -/
example : openTopV repaired2 { plainFile .path with len4 := false, head := .tiffShort } blobDesc (fun _ => .raises) = .reject := by decide
example : openTopV repaired2 { plainFile .path with name := .xmlExt, probe := .declOpen } blobDesc (fun _ => .raises) = .reject := by
  decide
example : openTopV repaired2 { plainFile .path with kind := .special } blobDesc (fun _ => .raises) = .reject := by decide
example : openComplexV repaired2 { plainFile .path with name := .productXml } (writeSicd [] 0) (fun _ => .raises) = .accept .sicd := by
  decide

/-- NITF 2.0: one complex-like and one non-SAR image segment, two symbol segments, one label, one XML DES that is no SICD -/
def nitf20Desc : Desc :=
  { magic := .nitf20, images := [.other, .sicdSeg], graphics := 0, des := [⟨.xmlData, .otherXml⟩], symbols := 2, labels := 1 }
example : (∀ e ∈ nitf20Desc.des, neutral e = true) ∧ complexLike nitf20Desc = true ∧ worldOk (plainFile .path) nitf20Desc = true := by
  decide
example : openTopV repaired2 (plainFile .path) nitf20Desc (fun _ => .raises) = .accept .complexNitf := by decide
example : openTopV repaired2 (plainFile .path) { nitf20Desc with images := [.other] } (fun _ => .raises) = .accept .nitf := by decide
/-- negation witness (finding `nitf20-sar-image-attribute-error`): while extract_sicd raises on the 2.0 subheader, the same file makes
    open_complex and `sarpy.io.open` raise -/
example : openTopV current2 (plainFile .path) nitf20Desc (fun _ => .reject) = .raises := by decide
/-- witness of the offset defect (`nitf20-symbol-label-offsets`): a SICD document in a 2.0 container is found only when no symbol /
    label segment precedes it -/
example : sicdIsA (seen current2 { nitf20Desc with des := [sicdDes] }) = .reject ∧
    sicdIsA (seen repaired2 { nitf20Desc with des := [sicdDes] }) = .accept .sicd ∧
    sicdIsA (seen current2 { nitf20Desc with des := [sicdDes], symbols := 0, labels := 0 }) = .accept .sicd := by decide

end Sarpy.Props.C14
