/-
  C11 — every module that carries theorems of namespace `Sarpy.Props.C11` (the audit of harness/c11.py imports this one):
  CRSD layout / header-fit / tiling theorems (C11), CRSD header text, retry termination and writer machine (C11W),
  bridge to the kernels regenerated from CRSD.py (Bridge/Cphd).
-/
import SarpyModel.Props.C11
import SarpyModel.Props.C11W
import SarpyModel.Bridge.Crsd
