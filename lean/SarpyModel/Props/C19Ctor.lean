/-
  C19 (extension) — construction of a reader as a sequence of phases: every temp file created while the reader is
  being built is on the reader's list when construction returns, hence removed by `close()`.

  Model: `Spec/Lifecycle.lean` part (c) (`Phase`, `cstep`, `crun`, `baseCtor`, `nitfCtor`, `CReader`).

      c_created_registered          for EVERY list of phases whose list initialisations are all guarded (and whose
                                    handlers register what they create), from every state that satisfies the invariant:
                                    every created file is registered (induction over the phase list)
      c_never_fails_after_init      once the list exists no guarded phase raises
      nitfCtor_ok / baseCtor_ok     the two constructors as the code has them: no failure, every temp file of every
                                    handler and every `delete_files` entry is registered
      unguarded_base_init_loses_all general negation: with the bare assignment in `BaseReader.__init__`, every temp
                                    file created by a handler and not also passed in `delete_files` is created but NOT
                                    registered - for every list of temp files
      ctor_invariant_needs_guard    negation witness of the invariant without the guard hypothesis
      c_temp_files_removed          guarded construction, then ANY op history: once the root is closed no created file
                                    and no registered file is on disk
      c_temp_files_kept_while_open  ... and before close every created file is still there
      c_unguarded_leaves_file       witness: the unguarded constructor leaves a cache file on disk after close
-/
import SarpyModel.Props.C19

namespace Sarpy.Props.C19
open Sarpy.Spec.Lifecycle

/-- every temp file construction has created is on the list (unless construction raised) -/
def CInv (s : CState) : Prop := s.failed = false → ∀ f ∈ s.made, f ∈ s.registered

theorem CInv_cinit : CInv cinit := by
  intro _ f hf
  simp [cinit] at hf

theorem addNew_keeps (l fs : List Nat) (f : Nat) (h : f ∈ l) : f ∈ addNew l fs := by
  induction fs generalizing l with
  | nil => simpa [addNew] using h
  | cons a fs ih =>
    simp only [addNew]
    apply ih
    split
    · exact h
    · simp [h]

theorem addNew_adds (l fs : List Nat) (f : Nat) (h : f ∈ fs) : f ∈ addNew l fs := by
  induction fs generalizing l with
  | nil => simp at h
  | cons a fs ih =>
    simp only [addNew]
    rcases List.mem_cons.1 h with rfl | h
    · apply addNew_keeps
      split
      · rename_i hc; simpa using hc
      · simp
    · exact ih _ h

/-- nothing but the old entries and the new ones -/
theorem addNew_sub (l fs : List Nat) (f : Nat) (h : f ∈ addNew l fs) : f ∈ l ∨ f ∈ fs := by
  induction fs generalizing l with
  | nil => left; simpa [addNew] using h
  | cons a fs ih =>
    simp only [addNew] at h
    rcases ih _ h with h1 | h1
    · split at h1
      · exact Or.inl h1
      · rcases List.mem_append.1 h1 with h2 | h2
        · exact Or.inl h2
        · right; simp at h2; simp [h2]
    · right; simp [h1]

/-- **one guarded phase keeps every created file registered** -/
theorem CInv_step (s : CState) (p : Phase) (hp : p.guarded = true) (h : CInv s) : CInv (cstep s p) := by
  unfold cstep
  by_cases hf : s.failed = true
  · simpa [hf] using h
  · have hf' : s.failed = false := by simpa using hf
    simp only [hf, Bool.false_eq_true, ↓reduceIte]
    cases p with
    | initList g =>
      simp only [Phase.guarded] at hp
      subst hp
      cases hr : s.reg with
      | none =>
        intro _ f hfm
        have := h hf' f hfm
        simp [CState.registered, hr] at this
      | some l => simpa [hr] using h
    | mkTemp f r =>
      simp only [Phase.guarded] at hp
      subst hp
      cases hr : s.reg with
      | none => intro hfl; simp at hfl
      | some l =>
        intro _ g hg
        simp only [↓reduceIte, List.mem_append, List.mem_singleton] at hg
        simp only [↓reduceIte, CState.registered, Option.getD_some, List.mem_append, List.mem_singleton]
        rcases hg with hg | hg
        · left
          have := h hf' g hg
          simpa [CState.registered, hr] using this
        · exact Or.inr hg
    | addFiles fs =>
      cases hr : s.reg with
      | none => intro hfl; simp at hfl
      | some l =>
        intro _ g hg
        have := h hf' g hg
        simp only [CState.registered, hr, Option.getD_some] at this
        simp only [CState.registered, Option.getD_some]
        exact addNew_keeps l fs g this

/-- **every temp file created during construction is registered at the end of construction**: for every list of
    phases in which every list initialisation is guarded and every handler registers what it creates -/
theorem c_created_registered (ps : List Phase) (s : CState) (hg : ps.all Phase.guarded = true) (h : CInv s) :
    CInv (crun s ps) := by
  induction ps generalizing s with
  | nil => exact h
  | cons p ps ih =>
    simp only [List.all_cons, Bool.and_eq_true] at hg
    exact ih _ hg.2 (CInv_step s p hg.1 h)

/-- once the list exists, a guarded phase neither raises nor removes the list -/
theorem c_step_ok (s : CState) (p : Phase) (hr : s.reg.isSome = true) (hf : s.failed = false) :
    (cstep s p).reg.isSome = true ∧ (cstep s p).failed = false := by
  unfold cstep
  obtain ⟨l, hl⟩ := Option.isSome_iff_exists.1 hr
  simp only [hf, Bool.false_eq_true, ↓reduceIte]
  cases p with
  | initList g => cases g <;> simp [hl, hf]
  | mkTemp f r => cases r <;> simp [hl]
  | addFiles fs => simp [hl]

theorem c_never_fails_after_init (ps : List Phase) (s : CState) (hr : s.reg.isSome = true) (hf : s.failed = false) :
    (crun s ps).reg.isSome = true ∧ (crun s ps).failed = false := by
  induction ps generalizing s with
  | nil => exact ⟨hr, hf⟩
  | cons p ps ih =>
    have := c_step_ok s p hr hf
    exact ih _ this.1 this.2

/-- the first phase of both constructors creates the list -/
theorem c_init_first (g : Bool) : (cstep cinit (.initList g)).reg = some [] ∧ (cstep cinit (.initList g)).failed = false ∧
    (cstep cinit (.initList g)).made = [] := by
  cases g <;> simp [cstep, cinit]

theorem nitfCtor_guarded (temps extra : List Nat) : (nitfCtor temps extra).all Phase.guarded = true := by
  simp [nitfCtor, nitfCtorWith, baseCtorWith, Phase.guarded]

theorem baseCtor_guarded (extra : List Nat) : (baseCtor extra).all Phase.guarded = true := by
  simp [baseCtor, baseCtorWith, Phase.guarded]

/-- the files a run of phases creates -/
def madeBy : List Phase → List Nat
  | [] => []
  | .mkTemp f _ :: ps => f :: madeBy ps
  | _ :: ps => madeBy ps

theorem made_cstep (s : CState) (p : Phase) (hf : (cstep s p).failed = false) :
    (cstep s p).made = s.made ++ madeBy [p] := by
  unfold cstep at hf ⊢
  by_cases h : s.failed = true
  · simp [h] at hf
  · simp only [h, Bool.false_eq_true, ↓reduceIte] at hf ⊢
    cases p with
    | initList g =>
      cases g <;> cases hr : s.reg <;> simp [madeBy]
    | mkTemp f r =>
      cases r <;> cases hr : s.reg <;> simp [madeBy]
    | addFiles fs =>
      cases hr : s.reg <;> simp [madeBy]

theorem failed_sticky (s : CState) (ps : List Phase) (h : s.failed = true) : (crun s ps).failed = true := by
  induction ps generalizing s with
  | nil => exact h
  | cons p ps ih =>
    apply ih
    simp [cstep, h]

theorem madeBy_append (a b : List Phase) : madeBy (a ++ b) = madeBy a ++ madeBy b := by
  induction a with
  | nil => rfl
  | cons p a ih => cases p <;> simp [madeBy, ih]

/-- what a successful construction has created is exactly what its `mkTemp` phases name -/
theorem made_crun (ps : List Phase) (s : CState) (hf : (crun s ps).failed = false) :
    (crun s ps).made = s.made ++ madeBy ps := by
  induction ps generalizing s with
  | nil => simp [crun, madeBy]
  | cons p ps ih =>
    have h1 : (cstep s p).failed = false := by
      cases h : (cstep s p).failed with
      | false => rfl
      | true => have := failed_sticky _ ps h; simp [crun] at hf; rw [hf] at this; cases this
    have := ih (cstep s p) hf
    simp only [crun]
    rw [this, made_cstep s p h1]
    have : madeBy (p :: ps) = madeBy [p] ++ madeBy ps := madeBy_append [p] ps
    rw [this, List.append_assoc]

theorem madeBy_temps (temps : List Nat) : madeBy (temps.map (fun t => Phase.mkTemp t true)) = temps := by
  induction temps with
  | nil => rfl
  | cons t ts ih => simp [madeBy, ih]

/-- **`NITFReader.__init__` as the code has it**: never raises, creates exactly the handlers' temp files, and every one
    of them - and every `delete_files` entry - is registered when it returns -/
theorem nitfCtor_ok (temps extra : List Nat) :
    (crun cinit (nitfCtor temps extra)).failed = false ∧
    (crun cinit (nitfCtor temps extra)).made = temps ∧
    (∀ f ∈ temps, f ∈ (crun cinit (nitfCtor temps extra)).registered) ∧
    (∀ f ∈ extra, f ∈ (crun cinit (nitfCtor temps extra)).registered) := by
  have h0 := c_init_first true
  have hrun : crun cinit (nitfCtor temps extra) =
      crun (cstep cinit (.initList true)) (temps.map (fun t => Phase.mkTemp t true) ++ baseCtorWith true extra) := rfl
  have hok := c_never_fails_after_init (temps.map (fun t => Phase.mkTemp t true) ++ baseCtorWith true extra)
    (cstep cinit (.initList true)) (by rw [h0.1]; rfl) h0.2.1
  have hmade : (crun cinit (nitfCtor temps extra)).made = temps := by
    rw [hrun, made_crun _ _ hok.2, h0.2.2, madeBy_append, madeBy_temps]
    simp [baseCtorWith, madeBy]
  have hinv := c_created_registered (nitfCtor temps extra) cinit (nitfCtor_guarded temps extra) CInv_cinit
  refine ⟨by rw [hrun]; exact hok.2, hmade, ?_, ?_⟩
  · intro f hf
    exact hinv (by rw [hrun]; exact hok.2) f (by rw [hmade]; exact hf)
  · intro f hf
    -- the last phase is `addFiles extra`
    have hsplit : nitfCtor temps extra = (Phase.initList true :: (temps.map (fun t => Phase.mkTemp t true) ++ [Phase.initList true])) ++ [Phase.addFiles extra] := by
      simp [nitfCtor, nitfCtorWith, baseCtorWith]
    have hrun2 : ∀ (a b : List Phase) (s : CState), crun s (a ++ b) = crun (crun s a) b := by
      intro a
      induction a with
      | nil => intro b s; rfl
      | cons p a ih => intro b s; simp [crun, ih]
    rw [hsplit, hrun2]
    generalize hs : crun cinit (Phase.initList true :: (temps.map (fun t => Phase.mkTemp t true) ++ [Phase.initList true])) = s1
    have hs1 := c_never_fails_after_init (temps.map (fun t => Phase.mkTemp t true) ++ [Phase.initList true])
      (cstep cinit (.initList true)) (by rw [h0.1]; rfl) h0.2.1
    have hs1' : s1.reg.isSome = true ∧ s1.failed = false := by rw [← hs]; exact hs1
    obtain ⟨l, hl⟩ := Option.isSome_iff_exists.1 hs1'.1
    simp only [crun, cstep, hs1'.2, Bool.false_eq_true, ↓reduceIte, hl, CState.registered, Option.getD_some]
    exact addNew_adds l extra f hf

/-- **`BaseReader.__init__` alone** registers its `delete_files` and creates nothing -/
theorem baseCtor_ok (extra : List Nat) :
    (crun cinit (baseCtor extra)).failed = false ∧ (crun cinit (baseCtor extra)).made = [] ∧
    (∀ f ∈ extra, f ∈ (crun cinit (baseCtor extra)).registered) := by
  refine ⟨by simp [baseCtor, baseCtorWith, crun, cstep, cinit], by simp [baseCtor, baseCtorWith, crun, cstep, cinit], ?_⟩
  intro f hf
  simp only [baseCtor, baseCtorWith, crun, cstep, cinit, Bool.false_eq_true, ↓reduceIte, CState.registered, Option.getD_some]
  exact addNew_adds [] extra f hf

/-- **the unguarded variant loses the temp files** (general, not one witness): when `BaseReader.__init__` assigns a new
    list unconditionally, every temp file that a handler created - unless the caller also passed it in `delete_files` -
    has been created but is not registered when construction returns, whatever the list of temp files -/
theorem unguarded_base_init_loses_all (g1 : Bool) (temps extra : List Nat) :
    (crun cinit (nitfCtorWith g1 false temps extra)).failed = false ∧
    ∀ f ∈ temps, f ∉ extra →
      f ∈ (crun cinit (nitfCtorWith g1 false temps extra)).made ∧
      f ∉ (crun cinit (nitfCtorWith g1 false temps extra)).registered := by
  have h0 := c_init_first g1
  have hrun2 : ∀ (a b : List Phase) (s : CState), crun s (a ++ b) = crun (crun s a) b := by
    intro a
    induction a with
    | nil => intro b s; rfl
    | cons p a ih => intro b s; simp [crun, ih]
  have hsplit : nitfCtorWith g1 false temps extra =
      (Phase.initList g1 :: temps.map (fun t => Phase.mkTemp t true)) ++ [Phase.initList false, Phase.addFiles extra] := by
    simp [nitfCtorWith, baseCtorWith]
  generalize hs : crun cinit (Phase.initList g1 :: temps.map (fun t => Phase.mkTemp t true)) = s1
  have hs1 : s1.reg.isSome = true ∧ s1.failed = false := by
    rw [← hs]
    exact c_never_fails_after_init _ (cstep cinit (.initList g1)) (by rw [h0.1]; rfl) h0.2.1
  have hmade1 : s1.made = temps := by
    rw [← hs]
    have : crun cinit (Phase.initList g1 :: temps.map (fun t => Phase.mkTemp t true)) =
        crun (cstep cinit (.initList g1)) (temps.map (fun t => Phase.mkTemp t true)) := rfl
    rw [this, made_crun _ _ (by rw [← this, hs]; exact hs1.2), h0.2.2, madeBy_temps]
    rfl
  rw [hsplit, hrun2, hs]
  obtain ⟨l, hl⟩ := Option.isSome_iff_exists.1 hs1.1
  have hfin : crun s1 [Phase.initList false, Phase.addFiles extra] =
      { s1 with reg := some (addNew [] extra) } := by
    simp [crun, cstep, hs1.2]
  rw [hfin]
  refine ⟨hs1.2, ?_⟩
  intro f hf hne
  refine ⟨by simpa [hmade1] using hf, ?_⟩
  intro hreg
  simp only [CState.registered, Option.getD_some] at hreg
  rcases addNew_sub [] extra f hreg with h | h
  · simp at h
  · exact hne h

/-- **negation witness**: without the guard hypothesis the invariant is false - `NITFReader.__init__` over one
    JPEG-compressed image segment whose base initialisation is the bare assignment -/
theorem ctor_invariant_needs_guard : ¬ (∀ ps : List Phase, CInv (crun cinit ps)) := by
  intro h
  have := h (nitfCtorWith true false [0] []) (by decide) 0 (by decide)
  revert this
  decide

/-! ### the constructed reader: temp files on disk through every history -/

section Constructed
variable (ps : List Phase) (pre : List Nat) (p : Bool) (file : Option Nat) (cf : Bool) (kids : Forest) (nf : Nat)
  (x : CReader) (ops : List ROp)

theorem cinitReader_eq (h : cinitReader ps pre p file cf kids nf = some x) :
    x.c = crun cinit ps ∧ x.c.failed = false ∧ x.pre = pre ∧
    x.r = rinit p file cf kids nf (crun cinit ps).registered.length := by
  unfold cinitReader at h
  simp only at h
  split at h
  · cases h
  · rename_i hf
    cases h
    exact ⟨rfl, by simpa using hf, rfl, rfl⟩

theorem temp_length_rstep (s : RState) (op : ROp) : (rstep s op).1.temp.length = s.temp.length := by
  unfold rstep
  by_cases hg : s.gone = true
  · simp [hg]
  · cases op <;> simp only [hg, Bool.false_eq_true, ↓reduceIte]
    all_goals (unfold rclose; split <;> simp)

theorem temp_length_rrun (s : RState) (ops : List ROp) : (rrun s ops).temp.length = s.temp.length := by
  induction ops generalizing s with
  | nil => rfl
  | cons op ops ih => simp only [rrun]; rw [ih, temp_length_rstep]

/-- a registered file is off the disk once the root is closed -/
theorem registered_removed (h : cinitReader ps pre p file cf kids nf = some x)
    (hc : rootClosed (x.run ops).r.root = true) (f : Nat) (hf : f ∈ x.c.registered) :
    (x.run ops).onDisk f = false := by
  obtain ⟨hc1, _, _, hr⟩ := cinitReader_eq ps pre p file cf kids nf x h
  have hidx : x.c.registered.idxOf f < x.c.registered.length := List.idxOf_lt_length_of_mem hf
  have hlen : (x.run ops).r.temp.length = x.c.registered.length := by
    simp only [CReader.run]
    rw [temp_length_rrun, hr, hc1]
    simp [rinit]
  have hall : (x.run ops).r.temp.all (fun b => !b) = true := by
    simp only [CReader.run] at hc ⊢
    rw [hr] at hc ⊢
    exact r_temp_files_removed p file cf kids nf _ ops hc
  have hget : (x.run ops).r.temp[x.c.registered.idxOf f]? = some false := by
    have hlt : x.c.registered.idxOf f < (x.run ops).r.temp.length := by rw [hlen]; exact hidx
    rw [List.getElem?_eq_getElem hlt]
    have := List.all_eq_true.1 hall _ (List.getElem_mem hlt)
    simpa using this
  have hcx : (x.run ops).c = x.c := rfl
  simp [CReader.onDisk, hcx, hget]

/-- **temp files a reader created are removed on close**: guarded construction (any phase list), then any op history;
    once the root is closed none of the files construction created is on disk -/
theorem c_temp_files_removed (hg : ps.all Phase.guarded = true)
    (h : cinitReader ps pre p file cf kids nf = some x)
    (hc : rootClosed (x.run ops).r.root = true) :
    ∀ f ∈ x.c.made, (x.run ops).onDisk f = false := by
  intro f hf
  obtain ⟨hc1, hfl, _, _⟩ := cinitReader_eq ps pre p file cf kids nf x h
  have hinv := c_created_registered ps cinit hg CInv_cinit
  rw [← hc1] at hinv
  exact registered_removed ps pre p file cf kids nf x ops h hc f (hinv hfl f hf)

/-- ... and they are all still there while the reader is open -/
theorem c_temp_files_kept_while_open (h : cinitReader ps pre p file cf kids nf = some x)
    (hc : rootClosed (x.run ops).r.root = false) :
    ∀ f ∈ x.c.made, (x.run ops).onDisk f = true := by
  intro f hf
  obtain ⟨hc1, _, _, hr⟩ := cinitReader_eq ps pre p file cf kids nf x h
  have hall : (x.run ops).r.temp.all id = true := by
    simp only [CReader.run] at hc ⊢
    rw [hr] at hc ⊢
    exact r_temp_files_kept_while_open p file cf kids nf _ ops hc
  have hcx : (x.run ops).c = x.c := rfl
  have hm : x.c.made.contains f = true := by simpa using hf
  simp only [CReader.onDisk, hcx, hm, Bool.or_true, Bool.true_and]
  cases hget : (x.run ops).r.temp[x.c.registered.idxOf f]? with
  | none => rfl
  | some b =>
    have hmem : b ∈ (x.run ops).r.temp := List.mem_of_getElem? hget
    have := List.all_eq_true.1 hall b hmem
    simpa using this

end Constructed

/-! ### satisfiable instances and the witness on disk -/

/-- `NITFReader` over two JPEG-compressed image segments (cache files 0 and 1), opened by path (file object 0 is owned
    by the reader), each segment a memory map over its cache file -/
def exNitfKids : Forest := .cons false true none false .nil (.cons false true none false .nil .nil)
def exNitf : CReader := (cinitReader (nitfCtor [0, 1] []) [] true (some 0) true exNitfKids 1).getD default

example : cinitReader (nitfCtor [0, 1] []) [] true (some 0) true exNitfKids 1 = some exNitf := by decide
example : (nitfCtor [0, 1] []).all Phase.guarded = true := by decide
example : exNitf.c.made = [0, 1] ∧ exNitf.c.registered = [0, 1] := by decide
example : (exNitf.run [.read (some 1)]).onDisk 0 = true ∧ (exNitf.run [.read (some 1)]).onDisk 1 = true := by decide
example : (exNitf.run [.read (some 1), .close, .close]).onDisk 0 = false ∧
    (exNitf.run [.read (some 1), .exitErr]).onDisk 1 = false ∧ (exNitf.run [.del]).r.files = [false] := by decide
/-- re-entrant base initialisation (a class extending two readers): the second call keeps the first call's files -/
example : (crun cinit (baseCtor [3] ++ baseCtor [4, 3])).registered = [3, 4] := by decide

/-- **witness on disk**: the same reader built with the bare assignment in `BaseReader.__init__`: construction
    succeeds, reads work, close / context exit / del report closed - and both cache files are still on disk -/
def exNitfBad : CReader := (cinitReader (nitfCtorWith true false [0, 1] []) [] true (some 0) true exNitfKids 1).getD default

theorem c_unguarded_leaves_file :
    cinitReader (nitfCtorWith true false [0, 1] []) [] true (some 0) true exNitfKids 1 = some exNitfBad ∧
    rootClosed (exNitfBad.run [.read (some 0), .close]).r.root = true ∧
    (exNitfBad.run [.read (some 0), .close]).onDisk 0 = true ∧
    (exNitfBad.run [.read (some 0), .close]).onDisk 1 = true := by decide

end Sarpy.Props.C19
