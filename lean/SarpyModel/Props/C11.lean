/-
  C11 — CRSD: the header describes the file (CRSD instantiation of the block layout arithmetic).

  The CRSD writer (`CRSDType.make_file_header`, `CRSDWritingDetails.write_header`) is a separate implementation of the
  same layout rule as CPHD; nothing is transferred from C09 by assumption: the harness compares the CRSD code with the
  model (`cphd layout`, `cphd ranges`, `crsd header`, `crsd packed`) on every run. The theorems below are what a CRSD
  file relies on, derived from the C09 lemmas about `align` / `layout` / `choose` plus the CRSD header length model.

  * `crsd_layout_sound`        : for any sizes the blocks of `layout` are ordered, 64-aligned and the file ends at sigOff+sigSize
  * `blocks_disjoint`          : no byte belongs to two of XML(+terminator) / SUPPORT / PVP / SIGNAL
  * `file_end_bounds`          : the file is the payload plus less than 64 bytes of padding per aligned block
  * `no_support_special_case`  : the chain without support block = the chain with an empty support block
  * `packed_ranges_within/first/last`, `elements_tile_block`, `packedB_iff`
                               : self-consistent relative offsets put the channels / support arrays exactly into their block
  * `choose_second`, `crsd_first_guess`, `crsd_header_fits`, `crsd_xml_aligned`, `crsd_file_wellformed`
                               : the header text (length model `hdrLen`) and its terminator end before the XML block for
                                 whatever layout `make_file_header` returns, the XML block itself starts 64-aligned
  Not proved: termination of the retry (the Python recursion is unbounded; `choose` takes fuel) — see NOTES_C11.md.
-/
import SarpyModel.Spec.CphdLayout
import SarpyModel.Spec.CrsdHeader
import SarpyModel.Props.C09

namespace Sarpy.Props.C11
open Sarpy.Spec.CphdLayout Sarpy.Spec.CrsdHeader
open Sarpy.Props

/-! ### block layout -/

/-- **combined layout theorem**: for any XML offset and any sizes, the blocks are ordered (each starts at or after the end
    of the previous one, the XML block being followed by its 2-byte terminator), SUPPORT / PVP / SIGNAL start on 64-byte
    boundaries, sizes are the requested ones, and the file ends at `sigOff + sigSize`. -/
theorem crsd_layout_sound (xo xs : Nat) (ss : Option Nat) (ps gs : Nat) :
    let b := layout xo xs ss ps gs
    b.xmlOff = xo ∧ b.xmlSize = xs ∧ b.pvpSize = ps ∧ b.sigSize = gs ∧
    (match b.supp with
     | some (so, s) => ss = some s ∧ xo + xs + 2 ≤ so ∧ so % 64 = 0 ∧ so + s ≤ b.pvpOff
     | none => ss = none ∧ xo + xs + 2 ≤ b.pvpOff) ∧
    b.pvpOff % 64 = 0 ∧ b.pvpOff + ps ≤ b.sigOff ∧ b.sigOff % 64 = 0 ∧
    fileEnd b = b.sigOff + gs := by
  cases ss with
  | none => simp [layout, fileEnd, C09.align_ge, C09.align_mod]
  | some s => simp [layout, fileEnd, C09.align_ge, C09.align_mod]

/-- byte `p` lies in the block `[off, off + size)` -/
def inBlock (p off size : Nat) : Prop := off ≤ p ∧ p < off + size

/-- **non-overlap**: no byte of the file belongs to two different blocks (the XML block counted with its terminator) -/
theorem blocks_disjoint (xo xs : Nat) (ss : Option Nat) (ps gs p : Nat) :
    let b := layout xo xs ss ps gs
    ¬ (inBlock p xo (xs + 2) ∧ inBlock p b.pvpOff ps) ∧
    ¬ (inBlock p xo (xs + 2) ∧ inBlock p b.sigOff gs) ∧
    ¬ (inBlock p b.pvpOff ps ∧ inBlock p b.sigOff gs) ∧
    (match b.supp with
     | some (so, s) => ¬ (inBlock p xo (xs + 2) ∧ inBlock p so s) ∧ ¬ (inBlock p so s ∧ inBlock p b.pvpOff ps) ∧
                       ¬ (inBlock p so s ∧ inBlock p b.sigOff gs)
     | none => True) := by
  cases ss with
  | none =>
    simp only [layout, inBlock]
    have h1 := C09.align_ge (xo + xs + 2)
    have h2 := C09.align_ge (align (xo + xs + 2) + ps)
    refine ⟨?_, ?_, ?_, trivial⟩ <;> omega
  | some s =>
    simp only [layout, inBlock]
    have h1 := C09.align_ge (xo + xs + 2)
    have h2 := C09.align_ge (align (xo + xs + 2) + s)
    have h3 := C09.align_ge (align (align (xo + xs + 2) + s) + ps)
    refine ⟨?_, ?_, ?_, ?_, ?_, ?_⟩ <;> omega

/-- payload size of a file: XML + terminator + [support] + PVP + signal -/
def payload (xs : Nat) (ss : Option Nat) (ps gs : Nat) : Nat := xs + 2 + ss.getD 0 + ps + gs

/-- **file size**: the file end is the XML offset plus the payload plus padding; the padding is less than 64 bytes for each
    aligned block (2 blocks without support block, 3 with) -/
theorem file_end_bounds (xo xs : Nat) (ss : Option Nat) (ps gs : Nat) :
    let e := fileEnd (layout xo xs ss ps gs)
    xo + payload xs ss ps gs ≤ e ∧ e < xo + payload xs ss ps gs + 64 * (if ss.isSome then 3 else 2) := by
  cases ss with
  | none =>
    simp only [layout, fileEnd, payload, Option.getD, Option.isSome]
    have h1 := C09.align_ge (xo + xs + 2)
    have h1' := C09.align_lt (xo + xs + 2)
    have h2 := C09.align_ge (align (xo + xs + 2) + ps)
    have h2' := C09.align_lt (align (xo + xs + 2) + ps)
    constructor <;> (try simp) <;> omega
  | some s =>
    simp only [layout, fileEnd, payload, Option.getD, Option.isSome]
    have h1 := C09.align_ge (xo + xs + 2)
    have h1' := C09.align_lt (xo + xs + 2)
    have h2 := C09.align_ge (align (xo + xs + 2) + s)
    have h2' := C09.align_lt (align (xo + xs + 2) + s)
    have h3 := C09.align_ge (align (align (xo + xs + 2) + s) + ps)
    have h3' := C09.align_lt (align (align (xo + xs + 2) + s) + ps)
    constructor <;> (try simp) <;> omega

/-- **no support block is the special case of an empty one**: omitting the SUPPORT block (NumSupportArrays = 0) gives the
    same PVP / SIGNAL offsets and file end as an empty support block, which would sit at the PVP offset -/
theorem no_support_special_case (xo xs ps gs : Nat) :
    let b0 := layout xo xs none ps gs
    let b1 := layout xo xs (some 0) ps gs
    b0.pvpOff = b1.pvpOff ∧ b0.sigOff = b1.sigOff ∧ fileEnd b0 = fileEnd b1 ∧ b1.supp = some (b0.pvpOff, 0) := by
  have h : align (align (xo + xs + 2)) = align (xo + xs + 2) := C09.align_fix _ (C09.align_mod _)
  simp [layout, fileEnd, h]

/-! ### elements inside a block -/

theorem packedB_iff (start : Nat) (rel : List (Nat × Nat)) : packedB start rel = true ↔ Packed start rel := by
  induction rel generalizing start with
  | nil => simp [packedB, Packed]
  | cons r rest ih =>
    obtain ⟨off, size⟩ := r
    simp [packedB, Packed, ih]

/-- every element range of a packed list lies inside `[blockOff + start, blockOff + start + totalSize rel]` -/
theorem packed_ranges_within (blockOff start : Nat) (rel : List (Nat × Nat)) (h : Packed start rel) :
    ∀ r ∈ elementRanges blockOff rel, blockOff + start ≤ r.1 ∧ r.1 ≤ r.2 ∧ r.2 ≤ blockOff + start + totalSize rel := by
  induction rel generalizing start with
  | nil => intro r hr; simp [elementRanges] at hr
  | cons q rest ih =>
    obtain ⟨off, size⟩ := q
    obtain ⟨ho, hrest⟩ := h
    subst ho
    intro r hr
    simp only [elementRanges, List.map_cons, List.mem_cons] at hr
    rcases hr with hr | hr
    · subst hr
      simp only [totalSize, List.map_cons, List.sum_cons]
      omega
    · have := ih (off + size) hrest r (by simpa [elementRanges] using hr)
      simp only [totalSize, List.map_cons, List.sum_cons] at this ⊢
      omega

/-- the first element of a packed list starts at the block start -/
theorem packed_ranges_first (blockOff start : Nat) (q : Nat × Nat) (rest : List (Nat × Nat)) (h : Packed start (q :: rest)) :
    ((elementRanges blockOff (q :: rest)).head (by simp [elementRanges])).1 = blockOff + start := by
  obtain ⟨off, size⟩ := q
  obtain ⟨ho, _⟩ := h
  simp [elementRanges, ho]

/-- the last element of a packed list ends at the block start plus the sum of the sizes -/
theorem packed_ranges_last (blockOff start : Nat) (rel : List (Nat × Nat)) (h : Packed start rel) (hne : rel ≠ []) :
    ((elementRanges blockOff rel).getLast (by simpa [elementRanges] using hne)).2 = blockOff + start + totalSize rel := by
  induction rel generalizing start with
  | nil => exact absurd rfl hne
  | cons q rest ih =>
    obtain ⟨off, size⟩ := q
    obtain ⟨ho, hrest⟩ := h
    subst ho
    cases rest with
    | nil => simp [elementRanges, totalSize]
    | cons q2 rest2 =>
      have := ih (off + size) hrest (by simp)
      simp only [elementRanges, List.map_cons, List.getLast_cons_cons] at this ⊢
      simp only [totalSize, List.map_cons, List.sum_cons] at this ⊢
      omega

/-- **elements tile their block**: when the metadata's relative offsets are packed from 0 and the block size is the sum of
    the element sizes (`calculate_pvp_block_size` / `calculate_signal_block_size` / `calculate_support_block_size`), the
    elements start at the block offset, follow each other without gap or overlap, and end at the block end -/
theorem elements_tile_block (blockOff : Nat) (q : Nat × Nat) (rest : List (Nat × Nat)) (h : Packed 0 (q :: rest)) :
    let rs := elementRanges blockOff (q :: rest)
    (rs.head (by simp [rs, elementRanges])).1 = blockOff ∧
    (∀ i (hi : i + 1 < rs.length), (rs[i]'(by omega)).2 = (rs[i + 1]).1) ∧
    (rs.getLast (by simp [rs, elementRanges])).2 = blockOff + totalSize (q :: rest) := by
  refine ⟨?_, ?_, ?_⟩
  · simpa using packed_ranges_first blockOff 0 q rest h
  · exact C09.packed_ranges_tile blockOff 0 (q :: rest) h
  · simpa using packed_ranges_last blockOff 0 (q :: rest) h (by simp)

/-! ### header text and the retry rule -/

theorem digitsAux_pos (fuel n : Nat) : 0 < digitsAux fuel n := by
  cases fuel with
  | zero => simp [digitsAux]
  | succ f => simp only [digitsAux]; split <;> omega

theorem digits_pos (n : Nat) : 0 < digits n := digitsAux_pos n n

/-- the header text is at least the fixed strings plus one digit per numeric field -/
theorem hdrLen_lower (f : Fixed) (b : Blocks) :
    f.typeLen + f.classLen + f.relLen + 184 ≤ hdrLen f b := by
  have h1 := digits_pos b.xmlSize
  have h2 := digits_pos b.xmlOff
  have h3 := digits_pos b.pvpSize
  have h4 := digits_pos b.pvpOff
  have h5 := digits_pos b.sigSize
  have h6 := digits_pos b.sigOff
  simp only [hdrLen, lineLen, nXmlSize, nXmlOff, nPvpSize, nPvpOff, nSigSize, nSigOff, nClass, nRelease]
  omega

/-- generic retry rule, second attempt: when the first guess is too small and the enlarged offset fits, that is the answer -/
theorem choose_second (hl : Blocks → Nat) (xs : Nat) (ss : Option Nat) (ps gs : Nat) (fuel xo : Nat)
    (h1 : xo < hl (layout xo xs ss ps gs) + 2)
    (h2 : hl (layout (align (hl (layout xo xs ss ps gs) + 2 + 32)) xs ss ps gs) + 2 ≤ align (hl (layout xo xs ss ps gs) + 2 + 32)) :
    choose hl xs ss ps gs (fuel + 2) xo = some (layout (align (hl (layout xo xs ss ps gs) + 2 + 32)) xs ss ps gs) := by
  rw [choose]
  simp only [if_pos h1]
  exact C09.choose_first hl xs ss ps gs fuel _ h2

/-- the usual case: the header text fits in front of offset 1024 and the first guess is returned -/
theorem crsd_first_guess (f : Fixed) (xs : Nat) (ss : Option Nat) (ps gs fuel : Nat)
    (h : hdrLen f (layout 1024 xs ss ps gs) + 2 ≤ 1024) :
    chooseCrsd f xs ss ps gs (fuel + 1) = some (layout 1024 xs ss ps gs) :=
  C09.choose_first (hdrLen f) xs ss ps gs fuel 1024 h

/-- **the header fits**: whatever layout the CRSD retry rule returns, header text + `\f\n` end at or before the XML block,
    and the layout is the chain for that XML offset -/
theorem crsd_header_fits (f : Fixed) (xs : Nat) (ss : Option Nat) (ps gs fuel : Nat) (b : Blocks)
    (h : chooseCrsd f xs ss ps gs fuel = some b) :
    hdrLen f b + 2 ≤ b.xmlOff ∧ ∃ xo, b = layout xo xs ss ps gs :=
  C09.choose_fits (hdrLen f) xs ss ps gs fuel 1024 b h

/-- the retry rule only ever proposes 64-aligned XML offsets when it starts from one -/
theorem choose_xml_aligned (hl : Blocks → Nat) (xs : Nat) (ss : Option Nat) (ps gs : Nat) (fuel xo : Nat) (b : Blocks)
    (hx : xo % 64 = 0) (h : choose hl xs ss ps gs fuel xo = some b) : b.xmlOff % 64 = 0 := by
  induction fuel generalizing xo with
  | zero => simp [choose] at h
  | succ fuel ih =>
    simp only [choose] at h
    split at h
    · exact ih _ (C09.align_mod _) h
    · simp only [Option.some.injEq] at h
      subst h
      have : (layout xo xs ss ps gs).xmlOff = xo := by cases ss <;> rfl
      rw [this]; exact hx

/-- in a CRSD written by sarpy the XML block, too, starts on a 64-byte boundary (1024 or an `_align` result) -/
theorem crsd_xml_aligned (f : Fixed) (xs : Nat) (ss : Option Nat) (ps gs fuel : Nat) (b : Blocks)
    (h : chooseCrsd f xs ss ps gs fuel = some b) : b.xmlOff % 64 = 0 :=
  choose_xml_aligned (hdrLen f) xs ss ps gs fuel 1024 b (by decide) h

/-- **whole file**: for the header `make_file_header` returns (any sizes, any classification / release strings):
    header text and terminator, XML and terminator, [SUPPORT], PVP, SIGNAL follow each other in this order without
    overlap, every block starts 64-aligned, and the file ends with the signal block -/
theorem crsd_file_wellformed (f : Fixed) (xs : Nat) (ss : Option Nat) (ps gs fuel : Nat) (b : Blocks)
    (h : chooseCrsd f xs ss ps gs fuel = some b) :
    hdrLen f b + 2 ≤ b.xmlOff ∧ b.xmlOff % 64 = 0 ∧ b.xmlSize = xs ∧ b.pvpSize = ps ∧ b.sigSize = gs ∧
    (match b.supp with
     | some (so, s) => ss = some s ∧ b.xmlOff + xs + 2 ≤ so ∧ so % 64 = 0 ∧ so + s ≤ b.pvpOff
     | none => ss = none ∧ b.xmlOff + xs + 2 ≤ b.pvpOff) ∧
    b.pvpOff % 64 = 0 ∧ b.pvpOff + ps ≤ b.sigOff ∧ b.sigOff % 64 = 0 ∧
    fileEnd b = b.sigOff + gs := by
  obtain ⟨hfit, xo, hb⟩ := crsd_header_fits f xs ss ps gs fuel b h
  have hal := crsd_xml_aligned f xs ss ps gs fuel b h
  have hs := crsd_layout_sound xo xs ss ps gs
  simp only at hs
  rw [← hb] at hs
  obtain ⟨hxo, hxs, hps, hgs, hsupp, hp, hps2, hg, hend⟩ := hs
  refine ⟨hfit, hal, hxs, hps, hgs, ?_, hp, hps2, hg, hend⟩
  rw [hxo]; exact hsupp

/-! ### non-vacuity: numbers from files written by `CRSDWriter1` -/

-- two channels (3x4, 2x5 CI4), three support arrays: first guess 1024 fits (header text 292 characters)
example : chooseCrsd ⟨10, 12, 12⟩ 4417 (some 48) 560 88 4 =
    some { xmlOff := 1024, xmlSize := 4417, supp := some (5504, 48), pvpOff := 5568, pvpSize := 560, sigOff := 6144, sigSize := 88 } := by decide
example : hdrLen ⟨10, 12, 12⟩ (layout 1024 4417 (some 48) 560 88) = 292 := by decide
-- a 1200-character release string: the first guess is refused, the second attempt (1472) is returned
example : chooseCrsd ⟨10, 12, 1200⟩ 4417 none 560 88 4 = some (layout 1472 4417 none 560 88) := by decide
example : chooseCrsd ⟨10, 12, 1200⟩ 4417 none 560 88 1 = none := by decide
example : digits 0 = 1 ∧ digits 9 = 1 ∧ digits 10 = 2 ∧ digits 1024 = 4 ∧ digits 99999 = 5 ∧ digits 100000 = 6 := by decide
example : Packed 0 [(0, 24), (24, 16), (40, 8)] ∧ totalSize [(0, 24), (24, 16), (40, 8)] = 48 :=
  ⟨(packedB_iff _ _).mp (by decide), by decide⟩
example : elementRanges 5504 [(0, 24), (24, 16), (40, 8)] = [(5504, 5528), (5528, 5544), (5544, 5552)] := by decide
example : ¬ Packed 0 [(0, 24), (25, 16)] := fun h => absurd ((packedB_iff _ _).mpr h) (by decide)

end Sarpy.Props.C11
