/-
  C01Seg, part 0: list accessors, index ranges and the per-axis (pointwise) forms of the proved slice lemmas
  (`mirror_spec`, `overlap_spec`, `compose_spec`, `Normal.index_range`) that the segment refinement uses.
-/
import SarpyModel.Spec.Segment
import SarpyModel.Proofs.Slice
import Mathlib.Data.List.Nodup

namespace Sarpy.Props.C01Seg
open Sarpy Sarpy.Spec

/-! ### accessors -/

theorem sliceAt_default_count : (default : NSlice).count = 0 := by decide

theorem dimAt_map_count (ts : List NSlice) (i : Nat) : dimAt (ts.map NSlice.count) i = (sliceAt ts i).count := by
  unfold dimAt sliceAt
  rw [List.getD_eq_getElem?_getD, List.getD_eq_getElem?_getD, List.getElem?_map]
  cases ts[i]? <;> simp [sliceAt_default_count]

theorem dimAt_lt {l : List Nat} {i : Nat} (h : i < l.length) : dimAt l i = l[i] := by
  simp [dimAt, List.getD_eq_getElem?_getD, h]

theorem dimAt_ge {l : List Nat} {i : Nat} (h : l.length ≤ i) : dimAt l i = 0 := by
  simp [dimAt, List.getD_eq_getElem?_getD, h]

theorem dimAt_cons_zero (n : Nat) (l : List Nat) : dimAt (n :: l) 0 = n := rfl
theorem dimAt_cons_succ (n : Nat) (l : List Nat) (i : Nat) : dimAt (n :: l) (i + 1) = dimAt l i := rfl
theorem sliceAt_cons_zero (t : NSlice) (l : List NSlice) : sliceAt (t :: l) 0 = t := rfl
theorem sliceAt_cons_succ (t : NSlice) (l : List NSlice) (i : Nat) : sliceAt (t :: l) (i + 1) = sliceAt l i := rfl

theorem sliceAt_ge {l : List NSlice} {i : Nat} (h : l.length ≤ i) : sliceAt l i = default := by
  simp [sliceAt, List.getD_eq_getElem?_getD, h]

theorem getD_map_range {β : Type} (f : Nat → β) (n i : Nat) (d : β) :
    ((List.range n).map f).getD i d = if i < n then f i else d := by
  rw [List.getD_eq_getElem?_getD, List.getElem?_map]
  by_cases h : i < n
  · simp [h]
  · simp [h, List.getElem?_eq_none (show (List.range n).length ≤ i by simpa using Nat.le_of_not_lt h)]

theorem dimAt_gather (p l : List Nat) (j : Nat) :
    dimAt (gather p l) j = if j < p.length then dimAt l (p.getD j 0) else 0 := by
  unfold dimAt gather
  rw [List.getD_eq_getElem?_getD, List.getElem?_map]
  by_cases h : j < p.length
  · simp [h, List.getD_eq_getElem?_getD]
  · simp [h, List.getElem?_eq_none (Nat.le_of_not_lt h)]

theorem gather_length (p l : List Nat) : (gather p l).length = p.length := by simp [gather]

theorem getD_insAt {β : Type} (k : Nat) (x : β) (l : List β) (d : β) (hk : k ≤ l.length) (i : Nat) :
    (insAt k x l).getD i d = if i < k then l.getD i d else if i = k then x else l.getD (i - 1) d := by
  unfold insAt
  simp only [List.getD_eq_getElem?_getD]
  by_cases h1 : i < k
  · rw [List.getElem?_append_left (by simp; omega)]
    simp [h1, List.getElem?_take]
  · rw [List.getElem?_append_right (by simp; omega)]
    have hl : (List.take k l).length = k := by simp; omega
    rw [hl]
    by_cases h2 : i = k
    · subst h2; simp
    · simp only [h1, h2, if_false]
      obtain ⟨m, hm⟩ : ∃ m, i - k = m + 1 := ⟨i - k - 1, by omega⟩
      rw [hm, List.getElem?_cons_succ, List.getElem?_drop]
      congr 2; omega

theorem insAt_length {β : Type} (k : Nat) (x : β) (l : List β) (hk : k ≤ l.length) :
    (insAt k x l).length = l.length + 1 := by
  simp [insAt]; omega

theorem getD_delAt {β : Type} (k : Nat) (l : List β) (d : β) (hk : k ≤ l.length) (i : Nat) :
    (delAt k l).getD i d = if i < k then l.getD i d else l.getD (i + 1) d := by
  unfold delAt
  simp only [List.getD_eq_getElem?_getD]
  by_cases h1 : i < k
  · rw [List.getElem?_append_left (by simp; omega)]
    simp [h1, List.getElem?_take]
  · rw [List.getElem?_append_right (by simp; omega)]
    have hl : (List.take k l).length = k := by simp; omega
    rw [hl, List.getElem?_drop]
    simp only [h1, if_false]
    congr 2; omega

theorem delAt_length {β : Type} (k : Nat) (l : List β) (hk : k < l.length) :
    (delAt k l).length = l.length - 1 := by
  simp [delAt]; omega

/-! ### index ranges, equality of arrays on their index range, locality -/

theorem Arr.Equiv.refl {α : Type} (a : Arr α) : Arr.Equiv a a := ⟨rfl, fun _ _ => rfl⟩

theorem Arr.Equiv.trans {α : Type} {a b c : Arr α} (h1 : Arr.Equiv a b) (h2 : Arr.Equiv b c) : Arr.Equiv a c :=
  ⟨h1.1.trans h2.1, fun idx h => (h1.2 idx h).trans (h2.2 idx (h1.1 ▸ h))⟩

theorem allIdx_inR : ∀ (shape : List Nat) (l : List Int), l ∈ allIdx shape → InR shape (ofList l)
  | [], l, _ => by intro i hi; simp at hi
  | n :: ns, l, h => by
    simp only [allIdx, List.mem_flatMap, List.mem_range, List.mem_map] at h
    obtain ⟨k, hk, r, hr, rfl⟩ := h
    have ih := allIdx_inR ns r hr
    intro i hi
    cases i with
    | zero => simp [ofList, dimAt]; omega
    | succ i =>
      have := ih i (by simpa using hi)
      simpa [ofList, dimAt] using this

/-- arrays that are equal on their index range have the same elements in row-major order -/
theorem Arr.Equiv.toList_eq {α : Type} {a b : Arr α} (h : Arr.Equiv a b) : a.toList = b.toList := by
  unfold Arr.toList
  rw [← h.1]
  apply List.map_congr_left
  intro l hl
  exact h.2 _ (allIdx_inR _ _ hl)

/-! ### normalised subscripts -/

theorem normalSub_iff : ∀ (shape : List Nat) (ts : List NSlice),
    NormalSub shape ts ↔ ts.length = shape.length ∧ ∀ i, i < shape.length → (sliceAt ts i).Normal (dimAt shape i)
  | [], [] => by simp [NormalSub, allSlicesNormal]
  | [], _ :: _ => by simp [NormalSub, allSlicesNormal]
  | _ :: _, [] => by simp [NormalSub, allSlicesNormal]
  | n :: ns, t :: ts => by
    have ih := normalSub_iff ns ts
    unfold NormalSub at ih ⊢
    simp only [allSlicesNormal, Bool.and_eq_true, decide_eq_true_eq, ih, List.length_cons]
    constructor
    · rintro ⟨h0, hl, hr⟩
      refine ⟨by omega, ?_⟩
      intro i hi
      cases i with
      | zero => exact h0
      | succ i => exact hr i (by omega)
    · rintro ⟨hl, hr⟩
      exact ⟨hr 0 (by omega), by omega, fun i hi => hr (i + 1) (by omega)⟩

theorem selIdx_inR {shape : List Nat} {ts : List NSlice} (hts : NormalSub shape ts) {idx : Idx}
    (h : InR (ts.map NSlice.count) idx) : InR shape (selIdx ts idx) := by
  obtain ⟨hl, hn⟩ := (normalSub_iff _ _).1 hts
  intro i hi
  have hk := h i (by simpa [hl] using hi)
  rw [dimAt_map_count] at hk
  exact Normal.index_range (hn i hi) (idx i) hk.1 hk.2

/-! ### per-axis facts in pointwise form -/

/-- `mirror_spec`, element by element: position `c-1-k` of the mirrored slice is the mirror image of position `k` -/
theorem mirror_point {n : Int} {t : NSlice} (h : t.Normal n) (k : Int) (hk0 : 0 ≤ k) (hk : k < t.count) :
    (mirror n t).start + (((mirror n t).count : Int) - 1 - k) * (mirror n t).step = n - 1 - (t.start + k * t.step) := by
  obtain ⟨_, hc, he⟩ := mirror_spec h
  obtain ⟨j, rfl⟩ : ∃ j : Nat, k = j := ⟨k.toNat, by omega⟩
  have hj : j < t.count := by omega
  have h1 : j < ((mirror n t).indices.reverse.map (fun r => n - 1 - r)).length := by
    simp [NSlice.indices, hc, hj]
  have h2 : j < t.indices.length := by simp [NSlice.indices, hj]
  have := List.getElem_of_eq he h1
  simp only [List.getElem_map, List.getElem_reverse, NSlice.indices, ap_getElem, ap_length] at this
  rw [hc] at this ⊢
  have e : ((t.count - 1 - j : Nat) : Int) = (t.count : Int) - 1 - j := by omega
  rw [e] at this
  omega

theorem mirror_count {n : Int} {t : NSlice} (h : t.Normal n) : (mirror n t).count = t.count := (mirror_spec h).2.1

/-- `overlap_spec`, element by element -/
theorem overlap_point {n : Int} {t : NSlice} (h : t.Normal n) {b0 b1 : Int} (hb0 : 0 ≤ b0) (hb : b0 < b1) (hb1 : b1 ≤ n) :
    match overlap t b0 b1 with
    | none => ∀ k : Int, 0 ≤ k → k < t.count → ¬ (b0 ≤ t.start + k * t.step ∧ t.start + k * t.step < b1)
    | some (p, c) =>
      ∃ k0 k1 : Int, c.start = k0 ∧ c.stop = some k1 ∧ 0 ≤ k0 ∧ k0 < k1 ∧ k1 ≤ t.count ∧ p.Normal (b1 - b0) ∧
        (p.count : Int) = k1 - k0 ∧
        (∀ k : Int, 0 ≤ k → k < t.count →
          ((b0 ≤ t.start + k * t.step ∧ t.start + k * t.step < b1) ↔ (k0 ≤ k ∧ k < k1))) ∧
        (∀ k : Int, k0 ≤ k → k < k1 → p.start + (k - k0) * p.step = t.start + k * t.step - b0) := by
  have hs := overlap_spec h hb0 hb hb1
  cases ho : overlap t b0 b1 with
  | none =>
    rw [ho] at hs
    simp only at hs ⊢
    intro k hk0 hk
    have := hs k.toNat (by omega)
    rwa [show ((k.toNat : Nat) : Int) = k by omega] at this
  | some pc =>
    obtain ⟨p, c⟩ := pc
    rw [ho] at hs
    simp only at hs ⊢
    obtain ⟨k0, k1, hc, h01, h1c, hpn, hpi, hiff⟩ := hs
    have hlen : p.count = k1 - k0 := by
      have := congrArg List.length hpi
      simp only [NSlice.indices, ap_length, List.length_map, List.length_take, List.length_drop] at this
      omega
    refine ⟨k0, k1, by simp [hc], by simp [hc], by omega, by omega, by omega, hpn, by omega, ?_, ?_⟩
    · intro k hk0 hk
      have := hiff k.toNat (by omega)
      rw [show ((k.toNat : Nat) : Int) = k by omega] at this
      rw [this]; omega
    · intro k hk0 hk
      obtain ⟨j, hj⟩ : ∃ j : Nat, k - k0 = j := ⟨(k - k0).toNat, by omega⟩
      have hjl : j < p.indices.length := by simp [NSlice.indices, hlen]; omega
      have hjr : j < (((t.indices.drop k0).take (k1 - k0)).map (fun x => x - b0)).length := by
        rw [← hpi]; exact hjl
      have := List.getElem_of_eq hpi hjl
      simp only [List.getElem_map, List.getElem_take, List.getElem_drop, NSlice.indices, ap_getElem] at this
      rw [hj, this]
      have : ((k0 + j : Nat) : Int) = k := by omega
      rw [this]

end Sarpy.Props.C01Seg
