/-
  C01, N-dimensional part: tuple subscripts with an optional Ellipsis (`verify_subscript`) and the flat offsets an
  N-d read touches.  Unbounded in the number of axes, the axis lengths and the subscript entries.

  * expand_length / expand_refused_iff / expand_layout : the Ellipsis expansion gives exactly one item per axis, the
    items in front of the Ellipsis govern the leading axes, those behind it the trailing axes, everything between is a
    full-axis selection; it is refused exactly for two Ellipses or more items than axes (an Ellipsis standing for no
    axis at all is accepted, as in numpy).
  * verify_sub_sound : whatever `verify_subscript` accepts is, axis by axis, in sarpy's normal form, selects exactly
    numpy's indices for that item, and is non-empty.
  * read_eq_numpy : the flat offsets of the model's N-d read are those of numpy's selection, in the same order.
  * read_shape : the number of samples read is the product of the per-axis counts (the advertised result shape).
  * read_in_bounds : every offset lies inside the stored array.
-/
import SarpyModel.Props.C01
import SarpyModel.Spec.Subscript

namespace Sarpy.Props.C01
open Sarpy Sarpy.Spec

theorem before_after (l : List SubEntry) : beforeEll l ++ afterEll l = subItems l := by
  induction l with
  | nil => rfl
  | cons e l ih => cases e <;> simp [beforeEll, afterEll, subItems, ih]

theorem expand_refused_iff (nd : Nat) (l : List SubEntry) :
    expandSub nd l = none ↔ 1 < countEll l ∨ nd < (subItems l).length := by
  unfold expandSub
  split_ifs with h1 h2 <;> simp [*]

theorem expand_length {nd : Nat} {l : List SubEntry} {r : List PyItem} (h : expandSub nd l = some r) :
    r.length = nd := by
  unfold expandSub at h
  split_ifs at h with h1 h2
  simp only [Option.some.injEq] at h
  subst h
  have := congrArg List.length (before_after l)
  simp only [List.length_append, List.length_replicate] at this ⊢
  omega

/-- where the items land: leading axes, full-axis filler, trailing axes -/
theorem expand_layout {nd : Nat} {l : List SubEntry} {r : List PyItem} (h : expandSub nd l = some r) :
    r = beforeEll l ++ List.replicate (nd - (subItems l).length) PyItem.none ++ afterEll l ∧
    (beforeEll l).length + (afterEll l).length ≤ nd := by
  unfold expandSub at h
  split_ifs at h with h1 h2
  simp only [Option.some.injEq] at h
  refine ⟨h.symm, ?_⟩
  have := congrArg List.length (before_after l)
  simp only [List.length_append] at this
  omega

/-- without an Ellipsis the items govern the leading axes -/
theorem expand_no_ellipsis {nd : Nat} {l : List SubEntry} (h0 : countEll l = 0) (hn : (subItems l).length ≤ nd) :
    expandSub nd l = some (subItems l ++ List.replicate (nd - (subItems l).length) PyItem.none) := by
  have ha : ∀ l : List SubEntry, countEll l = 0 → afterEll l = [] := by
    intro l
    induction l with
    | nil => intro _; rfl
    | cons e l ih =>
      cases e with
      | ell => intro h; simp [countEll] at h
      | item i => intro h; exact ih (by simpa [countEll] using h)
  have ha := ha l h0
  have hb : beforeEll l = subItems l := by simpa [ha] using before_after l
  unfold expandSub
  rw [if_neg (by omega), if_neg (by omega), ha, hb, List.append_nil]

theorem verify_item_sound {n : Nat} {it : PyItem} {t : NSlice} (h : verifyItem n it = some t) :
    t.Normal n ∧ t.indices = npItem n it ∧ t.indices ≠ [] := by
  cases it with
  | none =>
    obtain ⟨h1, h2, h3⟩ := verify_slice_sound (show verifySlice n ⟨none, none, none⟩ = some t from h)
    exact ⟨h1, h2, h2 ▸ h3⟩
  | slice s =>
    obtain ⟨h1, h2, h3⟩ := verify_slice_sound (show verifySlice n s = some t from h)
    exact ⟨h1, h2, h2 ▸ h3⟩
  | int i =>
    replace h : verifyInt n i = some t := h
    obtain ⟨h1, h2, h3, h4⟩ := verify_int_sound h
    refine ⟨h1, ?_, by simp [h4]⟩
    simp [npItem, h2, h3, h4]

/-- per-axis agreement of an accepted subscript with numpy -/
def AxesOK : List Nat → List PyItem → List NSlice → Prop
  | [], [], [] => True
  | n :: ns, it :: its, t :: ts => (t.Normal n ∧ t.indices = npItem n it ∧ t.indices ≠ []) ∧ AxesOK ns its ts
  | _, _, _ => False

theorem verify_axes_sound : ∀ {shape : List Nat} {its : List PyItem} {ts : List NSlice},
    verifyAxes shape its = some ts → AxesOK shape its ts
  | [], [], ts, h => by simp [verifyAxes] at h; subst h; trivial
  | [], _ :: _, _, h => by simp [verifyAxes] at h
  | _ :: _, [], _, h => by simp [verifyAxes] at h
  | n :: ns, it :: its, ts, h => by
    unfold verifyAxes at h
    split at h
    · rename_i t ts' h1 h2
      simp only [Option.some.injEq] at h
      subst h
      exact ⟨verify_item_sound h1, verify_axes_sound h2⟩
    · simp at h

theorem axesOK_length : ∀ {shape : List Nat} {its : List PyItem} {ts : List NSlice},
    AxesOK shape its ts → ts.length = shape.length ∧ its.length = shape.length
  | [], [], [], _ => by simp
  | n :: ns, it :: its, t :: ts, h => by
    have := axesOK_length h.2
    simp [this.1, this.2]
  | [], [], _ :: _, h => by simp [AxesOK] at h
  | [], _ :: _, _, h => by simp [AxesOK] at h
  | _ :: _, [], _, h => by simp [AxesOK] at h
  | _ :: _, _ :: _, [], h => by simp [AxesOK] at h

theorem axesOK_indices : ∀ {shape : List Nat} {its : List PyItem} {ts : List NSlice},
    AxesOK shape its ts → ts.map NSlice.indices = npAxes shape its
  | [], [], [], _ => by simp [npAxes]
  | n :: ns, it :: its, t :: ts, h => by
    simp [npAxes, h.1.2.1, axesOK_indices h.2]
  | [], [], _ :: _, h => by simp [AxesOK] at h
  | [], _ :: _, _, h => by simp [AxesOK] at h
  | _ :: _, [], _, h => by simp [AxesOK] at h
  | _ :: _, _ :: _, [], h => by simp [AxesOK] at h

/-- **soundness of `verify_subscript`**: an accepted tuple subscript is expanded to one item per axis and
    each axis is normal, non-empty and selects numpy's indices -/
theorem verify_sub_sound {shape : List Nat} {l : List SubEntry} {ts : List NSlice} (h : verifySub shape l = some ts) :
    ∃ its, expandSub shape.length l = some its ∧ its.length = shape.length ∧ ts.length = shape.length ∧
      AxesOK shape its ts := by
  unfold verifySub at h
  split at h
  · simp at h
  · rename_i its he
    have hok := verify_axes_sound h
    exact ⟨its, he, expand_length he, (axesOK_length hok).1, hok⟩

/-- **N-d read = numpy selection**: same flat offsets, same order -/
theorem read_eq_numpy {shape : List Nat} {l : List SubEntry} {ts : List NSlice} (h : verifySub shape l = some ts) :
    ∃ its, expandSub shape.length l = some its ∧ readFlat shape ts = selectFlat shape (npAxes shape its) := by
  obtain ⟨its, he, _, _, hok⟩ := verify_sub_sound h
  exact ⟨its, he, by simp [readFlat, axesOK_indices hok]⟩

theorem selectFlat_length : ∀ (shape : List Nat) (ixs : List (List Int)), shape.length = ixs.length →
    (selectFlat shape ixs).length = prodNat (ixs.map List.length)
  | [], [], _ => by simp [selectFlat, prodNat]
  | [], _ :: _, h => by simp at h
  | _ :: _, [], h => by simp at h
  | n :: ns, ix :: ixs, h => by
    have ih := selectFlat_length ns ixs (by simpa using h)
    simp only [selectFlat, List.map_cons, prodNat, List.length_flatMap, List.length_map, ih]
    clear h ih
    induction ix with
    | nil => simp
    | cons a ix ih2 => simp [List.sum_cons, ih2, Nat.add_mul, Nat.add_comm]

/-- **result shape**: the read has `Π count` samples, the shape `verify_subscript` advertises -/
theorem read_shape {shape : List Nat} {l : List SubEntry} {ts : List NSlice} (h : verifySub shape l = some ts) :
    (readFlat shape ts).length = prodNat (ts.map NSlice.count) := by
  obtain ⟨its, _, _, hl, _⟩ := verify_sub_sound h
  unfold readFlat
  rw [selectFlat_length shape _ (by simp [hl])]
  simp [List.map_map, Function.comp_def, size_eq_length]

theorem selectFlat_bounds : ∀ (shape : List Nat) (ixs : List (List Int)),
    List.Forall₂ (fun (n : Nat) (ix : List Int) => ∀ x ∈ ix, 0 ≤ x ∧ x < (n : Int)) shape ixs →
    ∀ o ∈ selectFlat shape ixs, 0 ≤ o ∧ o < (prodNat shape : Int)
  | [], [], _, o, ho => by simp [selectFlat] at ho; subst ho; simp [prodNat]
  | n :: ns, ix :: ixs, h, o, ho => by
    cases h with
    | cons h1 h2 =>
      simp only [selectFlat, List.mem_flatMap, List.mem_map] at ho
      obtain ⟨i, hi, r, hr, rfl⟩ := ho
      obtain ⟨hi0, hin⟩ := h1 i hi
      obtain ⟨hr0, hrp⟩ := selectFlat_bounds ns ixs h2 r hr
      have hP : (0 : Int) ≤ (prodNat ns : Int) := Int.natCast_nonneg _
      refine ⟨by positivity, ?_⟩
      have : (i + 1) * (prodNat ns : Int) ≤ (n : Int) * (prodNat ns : Int) :=
        Int.mul_le_mul_of_nonneg_right (by omega) hP
      simp only [prodNat, Nat.cast_mul]
      linarith [this, add_mul i 1 (prodNat ns : Int)]
  | [], _ :: _, h, _, _ => by cases h
  | _ :: _, [], h, _, _ => by cases h

theorem axesOK_forall2 : ∀ {shape : List Nat} {its : List PyItem} {ts : List NSlice}, AxesOK shape its ts →
    List.Forall₂ (fun (n : Nat) (ix : List Int) => ∀ x ∈ ix, 0 ≤ x ∧ x < (n : Int)) shape (ts.map NSlice.indices)
  | [], [], [], _ => by simp
  | n :: ns, it :: its, t :: ts, h => by
    simp only [List.map_cons]
    exact List.Forall₂.cons (normal_in_range h.1.1) (axesOK_forall2 h.2)
  | [], [], _ :: _, h => by simp [AxesOK] at h
  | [], _ :: _, _, h => by simp [AxesOK] at h
  | _ :: _, [], _, h => by simp [AxesOK] at h
  | _ :: _, _ :: _, [], h => by simp [AxesOK] at h

/-- **no read outside the stored array** -/
theorem read_in_bounds {shape : List Nat} {l : List SubEntry} {ts : List NSlice} (h : verifySub shape l = some ts) :
    ∀ o ∈ readFlat shape ts, 0 ≤ o ∧ o < (prodNat shape : Int) := by
  obtain ⟨_, _, _, _, hok⟩ := verify_sub_sound h
  exact selectFlat_bounds shape _ (axesOK_forall2 hok)

/-- premises are satisfiable: `a[..., 2::-2]`-style subscripts on a 4 x 3 array, an Ellipsis standing for no axis, a refusal -/
example : verifySub [4, 3] [.ell, .item (.slice ⟨some 2, none, some (-2)⟩)] =
    some [⟨0, some 4, 1⟩, ⟨2, none, -2⟩] := by decide
example : readFlat [4, 3] [⟨0, some 4, 1⟩, ⟨2, none, -2⟩] = [2, 0, 5, 3, 8, 6, 11, 9] := by decide
example : (verifySub [4, 3] [.item (.slice ⟨some 0, some 2, none⟩), .item (.int (-1)), .ell]).isSome = true := by decide
example : verifySub [4, 3] [.ell, .item .none, .ell] = none := by decide
example : verifySub [4, 3] [.item .none, .item .none, .item .none] = none := by decide

end Sarpy.Props.C01
