/-
  C07Seg, part 1: routing of a written chunk, one lemma per kind of node.

  `Routes fl ts d A`: the assignment list `A` stores exactly the chunk elements `d[idx]` (idx ranging over the chunk)
  at the stored samples the full image `fl` shows at the selected positions `ts[idx]` - nothing else, nothing missing.
-/
import SarpyModel.Props.C01Seg

namespace Sarpy.Props.C07Seg
open Sarpy Sarpy.Spec Sarpy.Props.C01Seg

/-- the assignments `A` route chunk `d`, addressed by `ts`, to the samples the image `fl` is read from -/
def Routes {α : Type} (fl : Arr Src) (ts : List NSlice) (d : Arr α) (A : List (Nat × List Int × α)) : Prop :=
  ∀ id r v, (id, r, v) ∈ A ↔
    ∃ idx : Idx, InR (ts.map NSlice.count) idx ∧ fl.get (selIdx ts idx) = Src.leaf id r ∧ d.get idx = v

/-! ### enumeration of index tuples is complete -/

theorem allIdx_complete : ∀ (shape : List Nat) (idx : Idx), InR shape idx →
    (List.range shape.length).map idx ∈ allIdx shape
  | [], _, _ => by simp [allIdx]
  | n :: ns, idx, h => by
    have h0 := h 0 (by simp)
    simp only [dimAt_cons_zero] at h0
    have ih := allIdx_complete ns (fun i => idx (i + 1)) (by
      intro i hi
      have := h (i + 1) (by simpa using hi)
      simpa [dimAt_cons_succ] using this)
    simp only [allIdx, List.mem_flatMap, List.mem_range, List.mem_map, List.length_cons]
    refine ⟨(idx 0).toNat, by omega, (List.range ns.length).map (fun i => idx (i + 1)), ih, ?_⟩
    rw [List.range_succ_eq_map, List.map_cons, List.map_map]
    congr 1
    omega

theorem ofList_map_range (idx : Idx) (n i : Nat) (hi : i < n) : ofList ((List.range n).map idx) i = idx i := by
  unfold ofList
  rw [getD_map_range, if_pos hi]

/-! ### leaf: `underlying_array[subscript] = data` -/

theorem leaf_routes {α : Type} [Parts α] (id : Nat) (s : List Nat) (ts : List NSlice) (hts : NormalSub s ts)
    (d : Arr α) (hd : d.shape = ts.map NSlice.count) (hl : d.Local) :
    Routes (Seg.leaf id s).fullSrc ts d ((Seg.leaf id s).write ts d) := by
  obtain ⟨htl, _⟩ := (normalSub_iff _ _).1 hts
  intro id' r v
  simp only [Seg.write, List.mem_map, Prod.mk.injEq]
  constructor
  · rintro ⟨l, hl', rfl, rfl, rfl⟩
    exact ⟨ofList l, allIdx_inR _ _ hl', rfl, rfl⟩
  · rintro ⟨idx, hidx, hsrc, hv⟩
    have hsrc' : Src.leaf id ((List.range s.length).map (selIdx ts idx)) = Src.leaf id' r := hsrc
    simp only [Src.leaf.injEq] at hsrc'
    refine ⟨(List.range (ts.map NSlice.count).length).map idx, allIdx_complete _ _ hidx, hsrc'.1, ?_, ?_⟩
    · rw [← hsrc'.2]
      apply List.map_congr_left
      intro i hi
      have hi' : i < ts.length := by have := List.mem_range.1 hi; omega
      have e := ofList_map_range idx (ts.map NSlice.count).length i (by simpa using hi')
      simp only [selIdx, e]
    · rw [← hv]
      apply hl
      intro i hi
      rw [hd] at hi
      exact ofList_map_range idx _ i hi

/-! ### re-orientation: `DataSegment.write` with the inverse of flip + transpose -/

/-- the index the code reads below for output index `idx` (flip after inverse permutation) -/
def rawIx (shape rev inv : List Nat) (idx : Idx) : Idx :=
  fun i => if i ∈ rev then (dimAt shape i : Int) - 1 - idx (inv.getD i 0) else idx (inv.getD i 0)

/-- the chunk index that the inverse format function moves to raw chunk index `ridx` -/
def fmtIx (shape rev perm : List Nat) (ridx : Idx) : Idx :=
  fun j => if perm.getD j 0 ∈ rev then (dimAt shape (perm.getD j 0) : Int) - 1 - ridx (perm.getD j 0)
    else ridx (perm.getD j 0)

theorem inv_data_shape {S perm : List Nat} (rev : List Nat) (hp : PermOK perm S.length) {ts : List NSlice}
    (hts : NormalSub (gather perm S) ts) :
    gather (invPerm perm) (ts.map NSlice.count) = (rawSub S rev (invPerm perm) ts).map NSlice.count := by
  apply List.ext_getElem
  · simp [gather, rawSub]
  · intro i h1 h2
    have hi : i < S.length := by simpa [gather, hp.invlen] using h1
    rw [← dimAt_lt h1, ← dimAt_lt h2, dimAt_gather, if_pos (by rw [hp.invlen]; exact hi), dimAt_map_count,
      dimAt_map_count, rawSub_count rev hp hts hi]

theorem orient_routes {α : Type} (fl : Arr Src) (S rev perm : List Nat) (ts : List NSlice)
    (hp : PermOK perm S.length) (hS : fl.shape = S) (hloc : fl.Local) (hts : NormalSub (gather perm S) ts)
    (d : Arr α) (hd : d.shape = ts.map NSlice.count) (hdl : d.Local) (A : List (Nat × List Int × α))
    (ih : Routes fl (rawSub S rev (invPerm perm) ts) ((d.transpose (invPerm perm) perm).flip rev) A) :
    Routes ((fl.flip rev).transpose perm (invPerm perm)) ts d A := by
  obtain ⟨hl, hn⟩ := (normalSub_iff _ _).1 hts
  rw [gather_length, hp.len] at hl
  set rts := rawSub S rev (invPerm perm) ts with hrts
  have hrn : NormalSub S rts := rawSub_normal rev hp hts
  have hrl : rts.length = S.length := ((normalSub_iff _ _).1 hrn).1
  have hcnt : ∀ i, i < S.length → (sliceAt rts i).count = (sliceAt ts ((invPerm perm).getD i 0)).count :=
    fun i hi => rawSub_count rev hp hts hi
  -- what the read side proves: the sample below at the raw index is the formatted sample
  have key : ∀ idx, InR (ts.map NSlice.count) idx →
      fl.get (selIdx rts (rawIx (rts.map NSlice.count) rev (invPerm perm) idx)) =
        ((fl.flip rev).transpose perm (invPerm perm)).get (selIdx ts idx) := by
    intro idx hidx
    have := orient_refines (fl.select rts) fl S rev perm ts hp hS hloc hts (Arr.Equiv.refl _)
    have hsh : (((fl.select rts).flip rev).transpose perm (invPerm perm)).shape = ts.map NSlice.count :=
      orient_shape rev hp hts
    exact this.2 idx (hsh ▸ hidx)
  have hdsh : (d.transpose (invPerm perm) perm).shape = rts.map NSlice.count := by
    show gather (invPerm perm) d.shape = _
    rw [hd]; exact inv_data_shape rev hp hts
  -- the two index maps are inverse to each other on the axes
  have hraw_inR : ∀ idx, InR (ts.map NSlice.count) idx →
      InR (rts.map NSlice.count) (rawIx (rts.map NSlice.count) rev (invPerm perm) idx) := by
    intro idx hidx i hi
    simp only [List.length_map, hrl] at hi
    have hk := hidx _ (by simp only [List.length_map, hl]; exact hp.invlt i hi)
    rw [dimAt_map_count] at hk
    simp only [rawIx, dimAt_map_count, hcnt i hi]
    split <;> omega
  have hfmt_inR : ∀ ridx, InR (rts.map NSlice.count) ridx →
      InR (ts.map NSlice.count) (fmtIx (rts.map NSlice.count) rev perm ridx) := by
    intro ridx hr j hj
    simp only [List.length_map, hl] at hj
    have hpj := hp.lt j hj
    have hk := hr _ (by simp only [List.length_map, hrl]; exact hpj)
    rw [dimAt_map_count, hcnt _ hpj, hp.invp j hj] at hk
    simp only [fmtIx, dimAt_map_count, hcnt _ hpj, hp.invp j hj]
    split <;> omega
  have hraw_fmt : ∀ ridx i, i < S.length →
      rawIx (rts.map NSlice.count) rev (invPerm perm) (fmtIx (rts.map NSlice.count) rev perm ridx) i = ridx i := by
    intro ridx i hi
    simp only [rawIx, fmtIx, hp.pinv i hi]
    split <;> omega
  have hfmt_raw : ∀ idx j, j < S.length →
      fmtIx (rts.map NSlice.count) rev perm (rawIx (rts.map NSlice.count) rev (invPerm perm) idx) j = idx j := by
    intro idx j hj
    simp only [rawIx, fmtIx, hp.invp j hj]
    split <;> omega
  have hdata : ∀ ridx, ((d.transpose (invPerm perm) perm).flip rev).get ridx =
      d.get (fmtIx (rts.map NSlice.count) rev perm ridx) := by
    intro ridx
    show d.get _ = d.get _
    simp only [hdsh]
    rfl
  intro id r v
  rw [ih id r v]
  constructor
  · rintro ⟨ridx, hr, hsrc, hv⟩
    refine ⟨fmtIx (rts.map NSlice.count) rev perm ridx, hfmt_inR ridx hr, ?_, by rw [← hv, hdata]⟩
    rw [← key _ (hfmt_inR ridx hr), ← hsrc]
    apply hloc
    intro i hi
    rw [hS] at hi
    simp only [selIdx, hraw_fmt ridx i hi]
  · rintro ⟨idx, hidx, hsrc, hv⟩
    refine ⟨rawIx (rts.map NSlice.count) rev (invPerm perm) idx, hraw_inR idx hidx, by rw [key idx hidx, hsrc], ?_⟩
    rw [hdata, ← hv]
    apply hdl
    intro j hj
    rw [hd] at hj
    simp only [List.length_map, hl] at hj
    exact hfmt_raw idx j hj

theorem inv_data_local {α : Type} {S perm : List Nat} (rev : List Nat) (hp : PermOK perm S.length) {ts : List NSlice}
    (hts : NormalSub (gather perm S) ts) (d : Arr α) (hd : d.shape = ts.map NSlice.count) (hdl : d.Local) :
    ((d.transpose (invPerm perm) perm).flip rev).Local := by
  obtain ⟨hl, _⟩ := (normalSub_iff _ _).1 hts
  rw [gather_length, hp.len] at hl
  intro idx idx' h
  have hlen : ((d.transpose (invPerm perm) perm).flip rev).shape.length = S.length := by
    show (gather (invPerm perm) d.shape).length = _
    rw [gather_length, hp.invlen]
  show d.get _ = d.get _
  apply hdl
  intro j hj
  rw [hd] at hj
  simp only [List.length_map, hl] at hj
  have := h _ (lt_of_lt_of_eq (hp.lt j hj) hlen.symm)
  beta_reduce
  rw [this]

/-! ### subset (with squeezed axes) -/

theorem unsqueeze_local {α : Type} {S : List Nat} {sq : Bool} {defs ts : List NSlice} (hd : NormalSub S defs)
    (hts : NormalSub (pick (keepAxes sq defs) (defs.map NSlice.count)) ts)
    (d : Arr α) (hds : d.shape = ts.map NSlice.count) (hdl : d.Local) :
    (d.unsqueeze (keepAxes sq defs) ((composeSq S defs (keepAxes sq defs) ts).map NSlice.count)).Local := by
  obtain ⟨hn, _, _, _, htl⟩ := subset_sub hd hts
  obtain ⟨hcl, _⟩ := (normalSub_iff _ _).1 hn
  have hKl : (keepAxes sq defs).length = S.length := by rw [keepAxes_length, ((normalSub_iff _ _).1 hd).1]
  intro idx idx' h
  show d.get _ = d.get _
  apply hdl
  intro r hr
  rw [hds] at hr
  simp only [List.length_map, htl] at hr
  obtain ⟨i1, _, _⟩ := kept_spec _ r hr
  exact h _ (by show _ < ((composeSq S defs (keepAxes sq defs) ts).map NSlice.count).length
                simp only [List.length_map, hcl]; omega)

theorem subset_routes {α : Type} (fl : Arr Src) (S : List Nat) (sq : Bool) (defs ts : List NSlice)
    (hS : fl.shape = S) (hloc : fl.Local)
    (hd : NormalSub S defs) (hts : NormalSub (pick (keepAxes sq defs) (defs.map NSlice.count)) ts)
    (d : Arr α) (hds : d.shape = ts.map NSlice.count) (hdl : d.Local) (A : List (Nat × List Int × α))
    (ih : Routes fl (composeSq S defs (keepAxes sq defs) ts)
      (d.unsqueeze (keepAxes sq defs) ((composeSq S defs (keepAxes sq defs) ts).map NSlice.count)) A) :
    Routes ((fl.select defs).squeeze (keepAxes sq defs)) ts d A := by
  obtain ⟨hn, _, hsel, hcount, htl⟩ := subset_sub hd hts
  obtain ⟨hcl, _⟩ := (normalSub_iff _ _).1 hn
  have hKl : (keepAxes sq defs).length = S.length := by rw [keepAxes_length, ((normalSub_iff _ _).1 hd).1]
  set K := keepAxes sq defs with hK
  set pts := composeSq S defs K ts with hpts
  intro id r v
  rw [ih id r v]
  constructor
  · rintro ⟨pidx, hp, hsrc, hv⟩
    have hpk : ∀ i, i < S.length → 0 ≤ pidx i ∧ pidx i < ((sliceAt pts i).count : Int) := by
      intro i hi
      have := hp i (by simp only [List.length_map, hcl]; exact hi)
      rwa [dimAt_map_count] at this
    have hun : ∀ i, i < S.length → unsq K (sqIdx K pidx) i = pidx i := by
      intro i hi
      simp only [unsq, sqIdx]
      by_cases hk : K.getD i false = true
      · simp only [hk, if_true]
        rw [kept_rank K i (by omega) hk]
      · have hk' : K.getD i false = false := by simpa using hk
        have := hpk i hi
        rw [hcount i hi] at this
        simp only [hk', Bool.false_eq_true, if_false] at this ⊢
        omega
    refine ⟨sqIdx K pidx, ?_, ?_, hv⟩
    · intro r' hr
      simp only [List.length_map, htl] at hr
      obtain ⟨i1, i2, i3⟩ := kept_spec K r' hr
      have := hpk ((keptAxes K).getD r' 0) (by omega)
      rw [hcount ((keptAxes K).getD r' 0) (by omega), if_pos i2, i3] at this
      rw [dimAt_map_count]
      exact this
    · rw [← hsrc]
      show fl.get _ = fl.get _
      apply hloc
      intro i hi
      rw [hS] at hi
      rw [← hsel _ i hi]
      simp only [selIdx, hun i hi]
  · rintro ⟨idx, hidx, hsrc, hv⟩
    refine ⟨unsq K idx, unsq_inR hd hts hidx, ?_, ?_⟩
    · rw [← hsrc]
      show fl.get _ = fl.get _
      apply hloc
      intro i hi
      rw [hS] at hi
      exact hsel idx i hi
    · rw [← hv]
      show d.get _ = d.get _
      apply hdl
      intro r' hr
      rw [hds] at hr
      simp only [List.length_map, htl] at hr
      obtain ⟨i1, i2, i3⟩ := kept_spec K r' hr
      simp only [sqIdx, unsq, i2, if_true, i3]

/-! ### band aggregate -/

theorem map_count_delAt (bd : Nat) (ts : List NSlice) :
    (delAt bd ts).map NSlice.count = delAt bd (ts.map NSlice.count) := by
  simp [delAt, List.map_take, List.map_drop]

theorem insAx_dropAx (bd : Nat) (idx : Idx) : insAx bd (idx bd) (dropAx bd idx) = idx := by
  funext i
  simp only [insAx, dropAx]
  by_cases h1 : i < bd
  · simp [h1]
  · by_cases h2 : i = bd
    · simp [h2]
    · have : ¬ (i - 1 < bd) := by omega
      simp only [h1, h2, this, if_false]
      congr 1; omega

theorem dropAx_insAx (bd : Nat) (k : Int) (c : Idx) : dropAx bd (insAx bd k c) = c := by
  funext i
  simp only [insAx, dropAx]
  by_cases h1 : i < bd
  · simp [h1]
  · have a : ¬ (i + 1 < bd) := by omega
    have b : ¬ (i + 1 = bd) := by omega
    simp [h1, a, b]

theorem insAx_at (bd : Nat) (k : Int) (c : Idx) : insAx bd k c bd = k := by simp [insAx]

theorem insAx_inR {bd : Nat} {ts : List NSlice} (hbd : bd < ts.length) {c : Idx} {o : Int}
    (hc : InR ((delAt bd ts).map NSlice.count) c) (ho0 : 0 ≤ o) (ho : o < (sliceAt ts bd).count) :
    InR (ts.map NSlice.count) (insAx bd o c) := by
  intro i hi
  simp only [List.length_map] at hi
  rw [dimAt_map_count]
  simp only [insAx]
  by_cases h1 : i < bd
  · have := hc i (by simp [delAt_length _ _ hbd]; omega)
    rw [dimAt_map_count, sliceAt_delAt _ _ (by omega), if_pos h1] at this
    simpa [h1] using this
  · by_cases h2 : i = bd
    · subst h2; simp; omega
    · have := hc (i - 1) (by simp [delAt_length _ _ hbd]; omega)
      rw [dimAt_map_count, sliceAt_delAt _ _ (by omega), if_neg (by omega), show i - 1 + 1 = i by omega] at this
      simpa [h1, h2] using this

theorem takeAx_local {α : Type} {d : Arr α} (hdl : d.Local) {bd : Nat} (hbd : bd < d.shape.length) (k : Int) :
    (d.takeAx bd k).Local := by
  intro idx idx' h
  have hlen : (d.takeAx bd k).shape.length = d.shape.length - 1 := delAt_length _ _ hbd
  show d.get _ = d.get _
  apply hdl
  intro i hi
  simp only [insAx]
  by_cases h1 : i < bd
  · simp only [h1, if_true]; exact h i (by rw [hlen]; omega)
  · by_cases h2 : i = bd
    · simp [h2]
    · simp only [h1, h2, if_false]; exact h (i - 1) (by rw [hlen]; omega)

/-- bands: `W n dd` / `G n` stand for writing chunk `dd` into / the full image of the `n`-th child -/
theorem bands_routes {α : Type} (W : Nat → Arr α → List (Nat × List Int × α)) (G : Nat → Arr Src)
    (sh : List Nat) (bd nb : Nat) (hbd : bd ≤ sh.length) (ts : List NSlice) (hts : NormalSub (insAt bd nb sh) ts)
    (d : Arr α) (hd : d.shape = ts.map NSlice.count) (hdl : d.Local)
    (ih : ∀ n, n < nb → ∀ dd : Arr α, dd.shape = (delAt bd ts).map NSlice.count → dd.Local →
      Routes (G n) (delAt bd ts) dd (W n dd)) :
    Routes ⟨insAt bd nb sh, fun idx => (G (idx bd).toNat).get (dropAx bd idx)⟩ ts d
      (((sliceAt ts bd).indices.zipIdx).flatMap (fun io => W io.1.toNat (d.takeAx bd (io.2 : Nat)))) := by
  obtain ⟨hsub, hn⟩ := bands_sub hbd hts
  have htl : ts.length = sh.length + 1 := by
    have := ((normalSub_iff _ _).1 hts).1
    rwa [insAt_length _ _ _ hbd] at this
  have hbd' : bd < ts.length := by omega
  have htk : ∀ k : Int, (d.takeAx bd k).shape = (delAt bd ts).map NSlice.count ∧ (d.takeAx bd k).Local := by
    intro k
    refine ⟨?_, takeAx_local hdl (by rw [hd]; simpa using hbd') k⟩
    show delAt bd d.shape = _
    rw [hd, map_count_delAt]
  intro id r v
  simp only [List.mem_flatMap]
  constructor
  · rintro ⟨⟨x, o⟩, hio, hmem⟩
    rw [List.mk_mem_zipIdx_iff_getElem?] at hio
    have ho : o < (sliceAt ts bd).count := by
      have := (List.getElem?_eq_some_iff.1 hio).1
      simpa [NSlice.indices] using this
    have hx : x = (sliceAt ts bd).start + (o : Int) * (sliceAt ts bd).step := by
      obtain ⟨h1, h2⟩ := List.getElem?_eq_some_iff.1 hio
      rw [← h2]; simp [NSlice.indices, ap_getElem]
    have hxr := Normal.index_range hn (o : Int) (by omega) (by omega)
    rw [← hx] at hxr
    obtain ⟨c, hc, hsrc, hv⟩ := (ih x.toNat (by omega) _ (htk o).1 (htk o).2 id r v).1 hmem
    refine ⟨insAx bd o c, insAx_inR hbd' hc (by omega) (by omega), ?_, hv⟩
    show (G (selIdx ts (insAx bd o c) bd).toNat).get (dropAx bd (selIdx ts (insAx bd o c))) = _
    rw [dropAx_selIdx bd ts (by omega), dropAx_insAx]
    simp only [selIdx, insAx_at, ← hx]
    exact hsrc
  · rintro ⟨idx, hidx, hsrc, hv⟩
    have hk := hidx bd (by simpa using hbd')
    rw [dimAt_map_count] at hk
    obtain ⟨o, ho⟩ : ∃ o : Nat, idx bd = o := ⟨(idx bd).toNat, by omega⟩
    set x := (sliceAt ts bd).start + (o : Int) * (sliceAt ts bd).step with hx
    have hxr := Normal.index_range hn (o : Int) (by omega) (by omega)
    rw [← hx] at hxr
    refine ⟨(x, o), ?_, ?_⟩
    · rw [List.mk_mem_zipIdx_iff_getElem?]
      have hlt : o < (sliceAt ts bd).indices.length := by simp [NSlice.indices]; omega
      rw [List.getElem?_eq_getElem hlt]
      simp [NSlice.indices, ap_getElem, hx]
    · apply (ih x.toNat (by omega) _ (htk o).1 (htk o).2 id r v).2
      refine ⟨dropAx bd idx, dropAx_inR hbd' hidx, ?_, ?_⟩
      · have hsrc' : (G (selIdx ts idx bd).toNat).get (dropAx bd (selIdx ts idx)) = Src.leaf id r := hsrc
        rw [dropAx_selIdx bd ts (by omega)] at hsrc'
        simp only [selIdx] at hsrc' ⊢
        rw [ho] at hsrc'
        exact hsrc'
      · show d.get (insAx bd (o : Int) (dropAx bd idx)) = v
        rw [← ho, insAx_dropAx]; exact hv


/-! ### block aggregate -/

theorem count_le {n : Int} {t : NSlice} (h : t.Normal n) : (t.count : Int) ≤ n := by
  have hc := Normal.count_pos h
  have hl := Normal.index_range h ((t.count : Int) - 1) (by omega) (by omega)
  have h0 := Normal.index_range h 0 (by omega) (by omega)
  obtain ⟨_, _, (⟨hs, _⟩ | ⟨hs, _⟩)⟩ := h
  · have : ((t.count : Int) - 1) * 1 ≤ ((t.count : Int) - 1) * t.step :=
      Int.mul_le_mul_of_nonneg_left (by omega) (by omega)
    omega
  · have : ((t.count : Int) - 1) * 1 ≤ ((t.count : Int) - 1) * (-t.step) :=
      Int.mul_le_mul_of_nonneg_left (by omega) (by omega)
    have e : ((t.count : Int) - 1) * (-t.step) = -(((t.count : Int) - 1) * t.step) := by ring
    omega

theorem cnt_one (x : Int) : cnt x 1 = x.toNat := by simp [cnt]

/-- `_find_slice_overlap(slice(0, lim, 1), par_entry)` (ds:1913) hands back `par_entry` itself -/
theorem data_entry {n : Int} {t : NSlice} (h : t.Normal n) {b0 b1 : Int} (hb0 : 0 ≤ b0) (hb : b0 < b1) (hb1 : b1 ≤ n)
    {c p : NSlice} (ho : overlap t b0 b1 = some (c, p)) :
    p.step = 1 ∧ ∃ x, overlap ⟨0, some n, 1⟩ p.start (p.stop.getD 0) = some (x, p) := by
  have hs := Spec.overlap_spec h hb0 hb hb1
  rw [ho] at hs
  obtain ⟨k0, k1, hp, h01, h1c, _⟩ := hs
  have hcn := count_le h
  subst hp
  refine ⟨rfl, ?_⟩
  simp only [Option.getD_some]
  unfold overlap
  simp only [show (1 : Int) > 0 by decide, if_true, cnt_one]
  have e1 : ((k0 : Int) - 0).toNat = k0 := by omega
  have e2 : (min n (k1 : Int) - 0).toNat = k1 := by omega
  rw [e1, e2, if_pos h01]
  exact ⟨_, rfl⟩

theorem overlapsW_eq : ∀ (sh : List Nat) (ts : List NSlice) (arr : List (Int × Int)) (csh : List Nat),
    NormalSub sh ts → boxOK sh arr csh = true → overlapsW sh ts arr = overlaps ts arr
  | [], [], [], [], _, _ => rfl
  | n :: sh, t :: ts, b :: arr, c :: csh, hts, hbox => by
    simp only [NormalSub, allSlicesNormal, Bool.and_eq_true, decide_eq_true_eq] at hts
    simp only [boxOK, Bool.and_eq_true, decide_eq_true_eq] at hbox
    have ih := overlapsW_eq sh ts arr csh hts.2 hbox.2
    unfold overlapsW overlaps
    cases ho : overlap t b.1 b.2 with
    | none => rfl
    | some cp =>
      obtain ⟨cc, p⟩ := cp
      obtain ⟨_, x, hx⟩ := data_entry hts.1 hbox.1.1 hbox.1.2.1 hbox.1.2.2.1 ho
      simp only [hx, ih]
  | [], _ :: _, _, _, h, _ => by simp [NormalSub, allSlicesNormal] at h
  | _ :: _, [], _, _, h, _ => by simp [NormalSub, allSlicesNormal] at h
  | [], [], _ :: _, _, _, h => by simp [boxOK] at h
  | [], [], [], _ :: _, _, h => by simp [boxOK] at h
  | _ :: _, _ :: _, [], _, _, h => by simp [boxOK] at h
  | _ :: _, _ :: _, _ :: _, [], _, h => by simp [boxOK] at h

theorem block_axes_step {sh csh : List Nat} {arr : List (Int × Int)} {ts csub psub : List NSlice}
    (hbox : boxOK sh arr csh = true) (hts : NormalSub sh ts) (ho : overlaps ts arr = some (csub, psub)) :
    ∀ i, i < sh.length → (sliceAt psub i).step = 1 := by
  obtain ⟨hal, hcl, hb⟩ := (boxOK_iff _ _ _).1 hbox
  obtain ⟨htl, htn⟩ := (normalSub_iff _ _).1 hts
  have hs := overlaps_spec ts arr (by omega)
  rw [ho] at hs
  obtain ⟨h1, h2, h3⟩ := hs
  intro i hi
  obtain ⟨hb0, hb01, hb1, _⟩ := hb i hi
  exact (data_entry (htn i hi) hb0 hb01 hb1 (h3 i (by omega))).1

/-- one block: the part of the chunk that falls into the block is routed into the child -/
theorem block_routes {α : Type} (cfl : Arr Src) {sh csh : List Nat} {arr : List (Int × Int)}
    {ts csub psub : List NSlice}
    (hbox : boxOK sh arr csh = true) (hts : NormalSub sh ts) (ho : overlaps ts arr = some (csub, psub))
    (hcs : cfl.shape = csh) (hcloc : cfl.Local)
    (d : Arr α) (hd : d.shape = ts.map NSlice.count) (hdl : d.Local) (A : List (Nat × List Int × α))
    (ihc : Routes cfl csub (d.select psub) A) (id : Nat) (r : List Int) (v : α) :
    (id, r, v) ∈ A ↔ ∃ idx : Idx, InR (ts.map NSlice.count) idx ∧ inBox arr (selIdx ts idx) = true ∧
      cfl.get (boxLo arr (selIdx ts idx)) = Src.leaf id r ∧ d.get idx = v := by
  obtain ⟨hcl, hpl, hax⟩ := block_axes hbox hts ho
  have hstep := block_axes_step hbox hts ho
  obtain ⟨hal, hcshl, _⟩ := (boxOK_iff _ _ _).1 hbox
  have htl := ((normalSub_iff _ _).1 hts).1
  rw [ihc id r v]
  constructor
  · rintro ⟨c, hc, hsrc, hv⟩
    have hck : ∀ i, i < sh.length → 0 ≤ c i ∧ c i < ((sliceAt csub i).count : Int) := by
      intro i hi
      have := hc i (by simp; omega)
      rwa [dimAt_map_count] at this
    refine ⟨selIdx psub c, ?_, ?_, ?_, hv⟩
    · intro i hi
      simp only [List.length_map, htl] at hi
      obtain ⟨k0, k1, e1, e2, e3, e4, e5, _, e7, _, _⟩ := hax i hi
      have := hck i hi
      rw [dimAt_map_count]
      simp only [selIdx, e1, hstep i hi]
      omega
    · rw [inBox_iff]
      intro i hi
      rw [hal] at hi
      obtain ⟨k0, k1, e1, e2, e3, e4, e5, _, e7, e8, _⟩ := hax i hi
      have := hck i hi
      have hk : selIdx psub c i = k0 + c i := by simp only [selIdx, e1, hstep i hi]; omega
      exact (e8 (selIdx psub c i) (by omega) (by omega)).2 (by omega)
    · rw [← hsrc]
      apply hcloc
      intro i hi
      rw [hcs, hcshl] at hi
      obtain ⟨k0, k1, e1, e2, e3, e4, e5, _, e7, _, e9⟩ := hax i hi
      have := hck i hi
      have hk : selIdx psub c i = k0 + c i := by simp only [selIdx, e1, hstep i hi]; omega
      have := e9 (selIdx psub c i) (by omega) (by omega)
      simp only [boxLo]
      rw [show selIdx ts (selIdx psub c) i = (sliceAt ts i).start + selIdx psub c i * (sliceAt ts i).step from rfl,
        ← this, hk]
      simp only [selIdx]
      congr 2; omega
  · rintro ⟨idx, hidx, hin, hsrc, hv⟩
    have hk : ∀ i, i < sh.length → 0 ≤ idx i ∧ idx i < ((sliceAt ts i).count : Int) := by
      intro i hi
      have := hidx i (by simp; omega)
      rwa [dimAt_map_count] at this
    rw [inBox_iff] at hin
    have hloc : ∀ i, i < sh.length → ∃ k0 k1 : Int, (sliceAt psub i).start = k0 ∧ k0 ≤ idx i ∧ idx i < k1 ∧
        ((sliceAt csub i).count : Int) = k1 - k0 ∧
        (sliceAt csub i).start + (idx i - k0) * (sliceAt csub i).step =
          (sliceAt ts i).start + idx i * (sliceAt ts i).step - (arr.getD i (0, 0)).1 := by
      intro i hi
      obtain ⟨k0, k1, e1, e2, _, _, _, _, e7, e8, e9⟩ := hax i hi
      have := (e8 (idx i) (hk i hi).1 (hk i hi).2).1 (hin i (by omega))
      exact ⟨k0, k1, e1, this.1, this.2, e7, e9 _ this.1 this.2⟩
    refine ⟨fun i => idx i - (sliceAt psub i).start, ?_, ?_, ?_⟩
    · intro i hi
      simp only [List.length_map, hcl] at hi
      obtain ⟨k0, k1, e1, h1, h2, e7, _⟩ := hloc i hi
      rw [dimAt_map_count]
      beta_reduce
      omega
    · rw [← hsrc]
      apply hcloc
      intro i hi
      rw [hcs, hcshl] at hi
      obtain ⟨k0, k1, e1, h1, h2, e7, e⟩ := hloc i hi
      simp only [selIdx, boxLo, e1]
      exact e
    · rw [← hv]
      show d.get _ = d.get _
      apply hdl
      intro i hi
      rw [hd] at hi
      simp only [List.length_map, htl] at hi
      simp only [selIdx, hstep i hi]
      omega

/-! ### a block whose definition runs backwards on some axes (served since the repair F1 of `_find_slice_overlap`) -/

theorem block_axes_stepR {sh csh : List Nat} {arr : List (Int × Int)} {rv : List Bool} {ts csub psub : List NSlice}
    (hbox : boxOK sh arr csh = true) (hrl : rv.length = sh.length) (hts : NormalSub sh ts)
    (ho : overlapsR ts arr rv = some (csub, psub)) :
    ∀ i, i < sh.length → (sliceAt psub i).step = 1 := by
  obtain ⟨_, _, ⟨cs0, h0⟩, _⟩ := block_axesR hbox hrl hts ho
  exact block_axes_step hbox hts h0

theorem overlapsWR_eq : ∀ (sh : List Nat) (ts : List NSlice) (arr : List (Int × Int)) (rv : List Bool) (csh : List Nat),
    NormalSub sh ts → boxOK sh arr csh = true → rv.length = sh.length → overlapsWR sh ts arr rv = overlapsR ts arr rv
  | [], [], [], [], [], _, _, _ => rfl
  | n :: sh, t :: ts, b :: arr, r :: rv, c :: csh, hts, hbox, hrl => by
    simp only [NormalSub, allSlicesNormal, Bool.and_eq_true, decide_eq_true_eq] at hts
    simp only [boxOK, Bool.and_eq_true, decide_eq_true_eq] at hbox
    have ih := overlapsWR_eq sh ts arr rv csh hts.2 hbox.2 (by simpa using hrl)
    unfold overlapsWR overlapsR
    cases ho : overlap t b.1 b.2 with
    | none => rfl
    | some cp =>
      obtain ⟨cc, p⟩ := cp
      obtain ⟨_, x, hx⟩ := data_entry hts.1 hbox.1.1 hbox.1.2.1 hbox.1.2.2.1 ho
      simp only [hx, ih]
  | [], _ :: _, _, _, _, h, _, _ => by simp [NormalSub, allSlicesNormal] at h
  | _ :: _, [], _, _, _, h, _, _ => by simp [NormalSub, allSlicesNormal] at h
  | [], [], _ :: _, _, _, _, h, _ => by simp [boxOK] at h
  | [], [], [], _ :: _, _, _, _, h => by simp at h
  | [], [], [], [], _ :: _, _, h, _ => by simp [boxOK] at h
  | _ :: _, _ :: _, [], _, _, _, h, _ => by simp [boxOK] at h
  | _ :: _, _ :: _, _ :: _, [], _, _, _, h => by simp at h
  | _ :: _, _ :: _, _ :: _, _ :: _, [], _, h, _ => by simp [boxOK] at h

/-- one block with reversed axes, for any relation `Q` between the provenance of a pixel and the chunk value written there:
    the chunk indices handed to the child correspond to the chunk indices whose position falls into the block -/
theorem block_routesRQ {α : Type} (Q : Src → α → Prop) (cfl : Arr Src) {sh csh : List Nat} {arr : List (Int × Int)}
    {rv : List Bool} {ts csub psub : List NSlice}
    (hbox : boxOK sh arr csh = true) (hrl : rv.length = sh.length) (hts : NormalSub sh ts)
    (ho : overlapsR ts arr rv = some (csub, psub))
    (hcs : cfl.shape = csh) (hcloc : cfl.Local)
    (d : Arr α) (hd : d.shape = ts.map NSlice.count) (hdl : d.Local) :
    (∃ c : Idx, InR (csub.map NSlice.count) c ∧ Q (cfl.get (selIdx csub c)) ((d.select psub).get c)) ↔
    (∃ idx : Idx, InR (ts.map NSlice.count) idx ∧ inBox arr (selIdx ts idx) = true ∧
      Q (cfl.get (boxLoR arr rv (selIdx ts idx))) (d.get idx)) := by
  obtain ⟨hcl, hpl, _, hax⟩ := block_axesR hbox hrl hts ho
  have hstep := block_axes_stepR hbox hrl hts ho
  obtain ⟨hal, hcshl, _⟩ := (boxOK_iff _ _ _).1 hbox
  have htl := ((normalSub_iff _ _).1 hts).1
  constructor
  · rintro ⟨c, hc, hst⟩
    have hck : ∀ i, i < sh.length → 0 ≤ c i ∧ c i < ((sliceAt csub i).count : Int) := by
      intro i hi
      have := hc i (by simp; omega)
      rwa [dimAt_map_count] at this
    refine ⟨selIdx psub c, ?_, ?_, ?_⟩
    · intro i hi
      simp only [List.length_map, htl] at hi
      obtain ⟨k0, k1, e1, e2, e3, e4, e5, _, e7, _, _⟩ := hax i hi
      have := hck i hi
      rw [dimAt_map_count]
      simp only [selIdx, e1, hstep i hi]
      omega
    · rw [inBox_iff]
      intro i hi
      rw [hal] at hi
      obtain ⟨k0, k1, e1, e2, e3, e4, e5, _, e7, e8, _⟩ := hax i hi
      have := hck i hi
      have hk : selIdx psub c i = k0 + c i := by simp only [selIdx, e1, hstep i hi]; omega
      exact (e8 (selIdx psub c i) (by omega) (by omega)).2 (by omega)
    · have e1 : cfl.get (boxLoR arr rv (selIdx ts (selIdx psub c))) = cfl.get (selIdx csub c) := by
        apply hcloc
        intro i hi
        rw [hcs, hcshl] at hi
        obtain ⟨k0, k1, e1, e2, e3, e4, e5, _, e7, _, e9⟩ := hax i hi
        have := hck i hi
        have hk : selIdx psub c i = k0 + c i := by simp only [selIdx, e1, hstep i hi]; omega
        have h9 := e9 (selIdx psub c i) (by omega) (by omega)
        have hc' : c i = selIdx psub c i - k0 := by omega
        show boxLoR arr rv (selIdx ts (selIdx psub c)) i = (sliceAt csub i).start + c i * (sliceAt csub i).step
        rw [hc', h9]
        simp only [boxLoR, selIdx]
      rw [e1]
      exact hst
  · rintro ⟨idx, hidx, hin, hst⟩
    have hk : ∀ i, i < sh.length → 0 ≤ idx i ∧ idx i < ((sliceAt ts i).count : Int) := by
      intro i hi
      have := hidx i (by simp; omega)
      rwa [dimAt_map_count] at this
    rw [inBox_iff] at hin
    have hloc : ∀ i, i < sh.length → ∃ k0 k1 : Int, (sliceAt psub i).start = k0 ∧ k0 ≤ idx i ∧ idx i < k1 ∧
        ((sliceAt csub i).count : Int) = k1 - k0 ∧
        (sliceAt csub i).start + (idx i - k0) * (sliceAt csub i).step = boxLoR arr rv (selIdx ts idx) i := by
      intro i hi
      obtain ⟨k0, k1, e1, e2, _, _, _, _, e7, e8, e9⟩ := hax i hi
      have := (e8 (idx i) (hk i hi).1 (hk i hi).2).1 (hin i (by omega))
      refine ⟨k0, k1, e1, this.1, this.2, e7, ?_⟩
      rw [e9 _ this.1 this.2]
      simp only [boxLoR, selIdx]
    refine ⟨fun i => idx i - (sliceAt psub i).start, ?_, ?_⟩
    · intro i hi
      simp only [List.length_map, hcl] at hi
      obtain ⟨k0, k1, e1, h1, h2, e7, _⟩ := hloc i hi
      rw [dimAt_map_count]
      beta_reduce
      omega
    · have e1 : cfl.get (selIdx csub (fun i => idx i - (sliceAt psub i).start)) = cfl.get (boxLoR arr rv (selIdx ts idx)) := by
        apply hcloc
        intro i hi
        rw [hcs, hcshl] at hi
        obtain ⟨k0, k1, e1, h1, h2, e7, e⟩ := hloc i hi
        simp only [selIdx, e1]
        exact e
      have e2 : (d.select psub).get (fun i => idx i - (sliceAt psub i).start) = d.get idx := by
        show d.get _ = d.get _
        apply hdl
        intro i hi
        rw [hd] at hi
        simp only [List.length_map, htl] at hi
        simp only [selIdx, hstep i hi]
        omega
      rw [e1, e2]
      exact hst

end Sarpy.Props.C07Seg
