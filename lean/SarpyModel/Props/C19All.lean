/-
  C19 — every theorem module of the property (the check audits namespace `Sarpy.Props.C19` through this module):
    Props/C19.lean        reader / segment tree machine, writer machine (rows)
    Props/C19Ctor.lean    reader construction as phases: created temp files are registered, hence removed by close
    Props/C19Blocks.lean  writers over blocked image segments: per-block accounting, conjunction, hand-over
    Props/C19Exist.lean   the existence check over absent / empty file / non-empty file / directory x default / True / False
  The bridge theorems to the Lean code regenerated from /repo are in Bridge/Life.lean (namespace Sarpy.Bridge.Life).
-/
import SarpyModel.Props.C19
import SarpyModel.Props.C19Ctor
import SarpyModel.Props.C19Blocks
import SarpyModel.Props.C19Exist
