/-
  C09 / C11 — which amplitude scaling a formatted signal chunk is encoded with.

  `write_pvp_array` hands the AmpSF column of *that* call to the channel's format function (`set_amplitude_scaling`); on a real-file
  target the call may be repeated (block-wise production: provisional AmpSF for later vectors, final values later), in memory the second
  call is refused before anything is touched.  A formatted `write` is encoded with the scaling the format function holds at that moment.
  In the machine a PVP write carries a tag `a` naming its AmpSF column, the signal element records the installed tag (`amp`) and, for
  every formatted chunk, the tag in force when it was stored (`scaled`).

  * `writePvp_out`                         : a PVP write is accepted exactly when `pvpBad` does not hold
  * `amp_after_accepted_pvp`               : an accepted PVP write (metadata with AmpSF) installs its own tag, and enables formatted writes
  * `amp_unchanged`                        : no other operation, and no refused call, changes the installed tag of a channel
  * `chunk_scaled_by_current_amp`          : an accepted formatted chunk is recorded with the tag installed at that moment; a raw chunk with none
  * `amp_is_last_accepted`                 : after any history the installed tag of channel `i` is the tag of the LAST accepted PVP write for
                                             channel `i` (none if there was none)
  * `formatted_chunk_uses_last_accepted_pvp`: hence a formatted chunk issued after any history is encoded with the AmpSF of the last accepted
                                             PVP write for its channel at that time - never with one installed earlier
  The encoding itself (`round(value / AmpSF)`) is C08's; that the implementation's format function is a function of the *currently installed*
  array (no stale cache) is checked by the op-history correspondence (stored bytes of every formatted chunk) and by harness/c08.py.
-/
import SarpyModel.Spec.CphdWriter
import SarpyModel.Props.C09W

namespace Sarpy.Props.C09
open Sarpy.Spec.CphdWriter

variable {α : Type}

theorem putData_out (c : Cfg α) (s : State α) (k : Nat) (d : Blk α) (h : ¬ (c.inMem = true ∧ (s.el k).bytes.isSome = true)) :
    (putData c s k d).2 = .ok := by
  unfold putData
  split
  · rename_i hm
    split
    · rename_i hb; exact absurd ⟨hm, hb⟩ h
    · rfl
  · rfl

/-- a PVP write is accepted exactly when none of the guards of `pvpBad` fires -/
theorem writePvp_out (c : Cfg α) (s : State α) (i a : Nat) (d : Blk α) :
    (step c s (.writePvp i d a)).2 = if pvpBad c s i d then .refused else .ok := by
  simp only [step]
  split
  · rfl
  · rename_i hb
    simp only [pvpBad, not_or, Decidable.not_not] at hb
    have hne : i ≠ c.sigIdx i := by unfold Cfg.sigIdx; omega
    apply putData_out
    rw [markCanReg_el_ne c s i a i hne]
    exact hb.2.2.2

theorem putData_el_ne (c : Cfg α) (s : State α) (k j : Nat) (d : Blk α) (h : j ≠ k) : ((putData c s k d).1.el j) = s.el j := by
  unfold putData
  split
  · split
    · rfl
    · simp [setEl, h]
  · simp [setEl, h]

theorem putData_amp (c : Cfg α) (s : State α) (k j : Nat) (d : Blk α) :
    ((putData c s k d).1.el j).amp = (s.el j).amp ∧ ((putData c s k d).1.el j).scaled = (s.el j).scaled ∧
    ((putData c s k d).1.el j).canReg = (s.el j).canReg := by
  unfold putData
  split
  · split
    · exact ⟨rfl, rfl, rfl⟩
    · simp only [setEl]; split
      · rename_i e; subst e; exact ⟨rfl, rfl, rfl⟩
      · exact ⟨rfl, rfl, rfl⟩
  · simp only [setEl]; split
    · rename_i e; subst e; exact ⟨rfl, rfl, rfl⟩
    · exact ⟨rfl, rfl, rfl⟩

/-- **an accepted PVP write installs its own AmpSF** in the channel's format function and enables formatted writes -/
theorem amp_after_accepted_pvp (c : Cfg α) (s : State α) (i a : Nat) (d : Blk α) (hamp : c.ampSF = true) (hok : ¬ pvpBad c s i d) :
    (((step c s (.writePvp i d a)).1).el (c.sigIdx i)).amp = some a ∧
    (((step c s (.writePvp i d a)).1).el (c.sigIdx i)).canReg = true := by
  simp only [step, if_neg hok]
  obtain ⟨h1, _, h3⟩ := putData_amp c (markCanReg c s i a) i (c.sigIdx i) d
  rw [h1, h3]
  simp [markCanReg, hamp, setEl]

theorem flushCore_amp (c : Cfg α) (f : Bool) (s : State α) (k : Nat) :
    ((flushCore c f s).el k).amp = (s.el k).amp ∧ ((flushCore c f s).el k).scaled = (s.el k).scaled := by
  have h1 : ∀ e : El α, (snapEl c f k e).amp = e.amp ∧ (snapEl c f k e).scaled = e.scaled := by
    intro e; unfold snapEl; split <;> exact ⟨rfl, rfl⟩
  unfold flushCore
  have h2 : ((itemsPhase c (hdrPhase c (snapPhase c f s))).el k).amp = ((hdrPhase c (snapPhase c f s)).el k).amp ∧
      ((itemsPhase c (hdrPhase c (snapPhase c f s))).el k).scaled = ((hdrPhase c (snapPhase c f s)).el k).scaled := by
    simp only [itemsPhase]; split <;> exact ⟨rfl, rfl⟩
  rw [h2.1, h2.2, hdrPhase_el]
  exact h1 _

theorem putChunk_amp (c : Cfg α) (s : State α) (k r0 j : Nat) (d : Blk α) (raw : Bool) :
    ((putChunk c s k r0 d raw).el j).amp = (s.el j).amp := by
  unfold putChunk
  by_cases hj : j = k
  · subst hj; cases c.inMem <;> simp [setEl]
  · cases c.inMem <;> simp [setEl, hj]

/-- the tag installed for channel `i` changes only by an accepted PVP write for channel `i` -/
theorem amp_unchanged (c : Cfg α) (s : State α) (op : Op α) (i : Nat) (hi : i < c.nchan)
    (h : ∀ j d a, op = .writePvp j d a → (j ≠ i ∨ c.ampSF = false ∨ pvpBad c s j d)) :
    (((step c s op).1).el (c.sigIdx i)).amp = (s.el (c.sigIdx i)).amp := by
  cases op with
  | writePvp j d a =>
    simp only [step]
    split
    · rfl
    · rename_i hb
      rw [(putData_amp c _ j (c.sigIdx i) d).1]
      rcases h j d a rfl with h1 | h1 | h1
      · have hj : j < c.nchan := by
          simp only [pvpBad, not_or, Decidable.not_not] at hb; exact hb.2.1
        apply congrArg El.amp
        apply markCanReg_el_ne
        unfold Cfg.sigIdx; omega
      · simp [markCanReg, h1]
      · exact absurd h1 hb
  | writeSup j d =>
    simp only [step]
    split
    · rfl
    · exact (putData_amp c s _ (c.sigIdx i) d).1
  | writeSig i' r0 d raw =>
    simp only [step]
    split
    · rfl
    · exact putChunk_amp c s _ r0 _ d raw
  | flush =>
    simp only [step]
    split
    · rfl
    · exact (flushCore_amp c false s _).1
  | close =>
    simp only [step]
    split
    · rfl
    · exact (flushCore_amp c true s _).1

/-- **a formatted chunk is encoded with the scaling installed at that moment** (and recorded so); a raw chunk records nothing -/
theorem chunk_scaled_by_current_amp (c : Cfg α) (s : State α) (i r0 : Nat) (d : Blk α) (raw : Bool) (hok : ¬ sigBad c s i r0 d raw) :
    (((step c s (.writeSig i r0 d raw)).1).el (c.sigIdx i)).scaled =
      if raw then (s.el (c.sigIdx i)).scaled
      else (r0, d.len / (c.item (c.sigIdx i)).rowBytes, (s.el (c.sigIdx i)).amp) :: (s.el (c.sigIdx i)).scaled := by
  simp only [step, if_neg hok]
  unfold putChunk
  cases c.inMem <;> cases raw <;> simp [setEl]

/-- the tag of the last accepted PVP write for channel `i` in a history (`cur` = the tag before the history) -/
def lastAmp (c : Cfg α) (i : Nat) : State α → List (Op α) → Option Nat → Option Nat
  | _, [], cur => cur
  | s, op :: ops, cur =>
    lastAmp c i (step c s op).1 ops
      (match op with
       | .writePvp j d a => if j = i ∧ c.ampSF = true ∧ ¬ pvpBad c s j d then some a else cur
       | _ => cur)

/-- **after any history the installed scaling of channel `i` is the AmpSF of the last accepted PVP write for channel `i`** -/
theorem amp_is_last_accepted (c : Cfg α) (i : Nat) (hi : i < c.nchan) (s : State α) (ops : List (Op α)) :
    ((run c s ops).el (c.sigIdx i)).amp = lastAmp c i s ops (s.el (c.sigIdx i)).amp := by
  induction ops generalizing s with
  | nil => rfl
  | cons op ops ih =>
    simp only [run, lastAmp]
    rw [ih (step c s op).1]
    congr 1
    cases op with
    | writePvp j d a =>
      simp only
      by_cases hc : j = i ∧ c.ampSF = true ∧ ¬ pvpBad c s j d
      · rw [if_pos hc]
        obtain ⟨rfl, hamp, hok⟩ := hc
        exact (amp_after_accepted_pvp c s j a d hamp hok).1
      · rw [if_neg hc]
        apply amp_unchanged c s _ i hi
        intro j' d' a' he
        cases he
        by_cases h1 : j = i
        · by_cases h2 : c.ampSF = true
          · right; right
            exact Decidable.byContradiction (fun h3 => hc ⟨h1, h2, h3⟩)
          · right; left; simpa using h2
        · left; exact h1
    | writeSup j d => exact amp_unchanged c s _ i hi (fun _ _ _ he => by cases he)
    | writeSig i' r0 d raw => exact amp_unchanged c s _ i hi (fun _ _ _ he => by cases he)
    | flush => exact amp_unchanged c s _ i hi (fun _ _ _ he => by cases he)
    | close => exact amp_unchanged c s _ i hi (fun _ _ _ he => by cases he)

/-- **the scaling applied to a formatted chunk is the AmpSF of the LAST accepted PVP write for that channel at the time of the chunk**:
    after any history `ops` from the initial state, an accepted formatted chunk of channel `i` is recorded (encoded) with
    `lastAmp .. ops`, whatever was installed earlier -/
theorem formatted_chunk_uses_last_accepted_pvp (c : Cfg α) (i r0 : Nat) (hi : i < c.nchan) (ops : List (Op α)) (d : Blk α)
    (hok : ¬ sigBad c (run c (init c) ops) i r0 d false) :
    (((step c (run c (init c) ops) (.writeSig i r0 d false)).1).el (c.sigIdx i)).scaled.head? =
      some (r0, d.len / (c.item (c.sigIdx i)).rowBytes, lastAmp c i (init c) ops none) := by
  rw [chunk_scaled_by_current_amp c _ i r0 d false hok, amp_is_last_accepted c i hi (init c) ops]
  simp [init]

/-! non-vacuity: block-wise production on a real file - provisional AmpSF (tag 1), first block, final AmpSF (tag 2), second block -/

def ampDemoCfg : Cfg Nat :=
  { zero := 0, inMem := false, ampSF := true, hdr := ⟨2, fun _ => 1⟩, term := ⟨1, fun _ => 2⟩, xmlOff := 4, xml := ⟨3, fun _ => 3⟩,
    nchan := 1, nsup := 0,
    item := fun k => if k = 0 then { kind := .pvp, off := 10, size := 2, rows := 1, rowBytes := 2 }
                     else { kind := .signal, off := 12, size := 2, rows := 2, rowBytes := 1 } }

example :
    let ops : List (Op Nat) := [.writePvp 0 ⟨2, fun _ => 5⟩ 1, .writeSig 0 0 ⟨1, fun _ => 7⟩ false, .writePvp 0 ⟨2, fun _ => 6⟩ 2,
                                .writeSig 0 1 ⟨1, fun _ => 8⟩ false, .close]
    let s := run ampDemoCfg (init ampDemoCfg) ops
    (s.el 1).scaled = [(1, 1, some 2), (0, 1, some 1)] ∧ (s.el 1).amp = some 2 ∧
    outs ampDemoCfg (init ampDemoCfg) ops = [.ok, .ok, .ok, .ok, .report false []] := by decide

-- in memory the second PVP write is refused and the first scaling stays in force
example :
    let c : Cfg Nat := { ampDemoCfg with inMem := true }
    let ops : List (Op Nat) := [.writePvp 0 ⟨2, fun _ => 5⟩ 1, .writeSig 0 0 ⟨1, fun _ => 7⟩ false, .writePvp 0 ⟨2, fun _ => 6⟩ 2,
                                .writeSig 0 1 ⟨1, fun _ => 8⟩ false, .close]
    ((run c (init c) ops).el 1).scaled = [(1, 1, some 1), (0, 1, some 1)] ∧
    outs c (init c) ops = [.ok, .ok, .refused, .ok, .report false []] := by decide

-- a formatted chunk before any PVP write is refused when the metadata has AmpSF
example : (step ampDemoCfg (init ampDemoCfg) (.writeSig 0 0 ⟨1, fun _ => 7⟩ false)).2 = .refused := by decide

/-! ### order of effects: the bytes recorded for an element are the bytes handed over at the accepted write -/

theorem putData_bytes_stable (c : Cfg α) (s : State α) (j k : Nat) (d b : Blk α) (h : (s.el k).bytes = some b) :
    ((putData c s j d).1.el k).bytes = some b := by
  unfold putData
  split
  · split
    · exact h
    · rename_i hb
      simp only [setEl]
      split
      · rename_i e; subst e; rw [h] at hb; simp at hb
      · exact h
  · simp only [setEl]
    split
    · rename_i e; subst e; exact h
    · exact h

theorem putChunk_bytes (c : Cfg α) (s : State α) (j r0 k : Nat) (d : Blk α) (raw : Bool) :
    ((putChunk c s j r0 d raw).el k).bytes = (s.el k).bytes := by
  unfold putChunk
  by_cases hj : k = j
  · subst hj; cases c.inMem <;> simp [setEl]
  · cases c.inMem <;> simp [setEl, hj]

/-- **`item_bytes` is set once**: whatever is recorded for an element stays recorded, through every later operation -/
theorem bytes_stable_step (c : Cfg α) (s : State α) (op : Op α) (k : Nat) (b : Blk α) (h : (s.el k).bytes = some b) :
    (((step c s op).1).el k).bytes = some b := by
  cases op with
  | writePvp i d a =>
    simp only [step]
    split
    · exact h
    · apply putData_bytes_stable
      rw [((sameData_markCanReg c s i a).2.2.2.2 k).1]; exact h
  | writeSup j d =>
    simp only [step]
    split
    · exact h
    · exact putData_bytes_stable c s _ k d b h
  | writeSig i r0 d raw =>
    simp only [step]
    split
    · exact h
    · rw [putChunk_bytes]; exact h
  | flush =>
    simp only [step]
    split
    · exact h
    · rw [flushCore_bytes, snapEl_keep c false k _ (by simp [h])]; exact h
  | close =>
    simp only [step]
    split
    · exact h
    · show ((flushCore c true s).el k).bytes = some b
      rw [flushCore_bytes, snapEl_keep c true k _ (by simp [h])]; exact h

theorem bytes_stable_run (c : Cfg α) (s : State α) (ops : List (Op α)) (k : Nat) (b : Blk α) (h : (s.el k).bytes = some b) :
    ((run c s ops).el k).bytes = some b := by
  induction ops generalizing s with
  | nil => exact h
  | cons op ops ih => exact ih _ (bytes_stable_step c s op k b h)

/-- **order of effects, support array** (in memory): an accepted `write_support_array` records exactly the block handed over in that call
    (the array is filled *before* `item_bytes` is taken), and every later history leaves it recorded -/
theorem accepted_sup_write_records_handed_bytes (c : Cfg α) (s : State α) (j : Nat) (d : Blk α) (ops : List (Op α)) (hm : c.inMem = true)
    (hok : ¬ supBad c s j d) (hnb : (s.el (c.supIdx j)).bytes = none) :
    (step c s (.writeSup j d)).2 = .ok ∧ ((run c s (.writeSup j d :: ops)).el (c.supIdx j)).bytes = some d := by
  have h1 : (step c s (.writeSup j d)).2 = .ok := by
    simp only [step, if_neg hok]
    exact putData_out c s _ d (by rw [hnb]; simp)
  refine ⟨h1, ?_⟩
  simp only [run]
  apply bytes_stable_run
  simp only [step, if_neg hok, putData, hm, hnb, if_true]
  simp [setEl]

/-- the same for an accepted `write_pvp_array` in memory -/
theorem accepted_pvp_write_records_handed_bytes (c : Cfg α) (s : State α) (i a : Nat) (d : Blk α) (ops : List (Op α)) (hm : c.inMem = true)
    (hok : ¬ pvpBad c s i d) :
    (step c s (.writePvp i d a)).2 = .ok ∧ ((run c s (.writePvp i d a :: ops)).el i).bytes = some d := by
  have hb := hok
  simp only [pvpBad, not_or, Decidable.not_not, not_and] at hb
  have hne : i ≠ c.sigIdx i := by unfold Cfg.sigIdx; omega
  have hnb : (s.el i).bytes.isSome = false := by
    cases h : (s.el i).bytes.isSome with
    | false => rfl
    | true => exact absurd h (hb.2.2.2 hm)
  refine ⟨by rw [writePvp_out, if_neg hok], ?_⟩
  simp only [run]
  apply bytes_stable_run
  simp only [step, if_neg hok, putData, hm, if_true, markCanReg_el_ne c s i a i hne, hnb, Bool.false_eq_true, if_false]
  simp [setEl]

end Sarpy.Props.C09
