/-
  C01Seg, part 1b (extension SEG2): refinement lemmas for the node kinds added to `Spec/Segment.lean` -
  raw-basis subsets (`fmtSub` = `transform_raw_slice`), block definitions with step -1 (`hitsR`, `pasteR`),
  complex format with the band dimension kept (`rawSubK`, `pairKept`), lookup tables (`lutMap`, `lutCols`).
  As in part 1 everything is stated on arrays; `Props/C01Seg.lean` assembles the lemmas by induction.
-/
import SarpyModel.Props.C01SegNodes

namespace Sarpy.Props.C01Seg
open Sarpy Sarpy.Spec

/-! ### raw-basis subset: `transform_raw_slice` -/

theorem sliceAt_fmtSub (S rev perm : List Nat) (rs : List NSlice) (j : Nat) (hj : j < perm.length) :
    sliceAt (fmtSub S rev perm rs) j =
      if perm.getD j 0 ∈ rev then mirror (dimAt S (perm.getD j 0)) (sliceAt rs (perm.getD j 0))
      else sliceAt rs (perm.getD j 0) := by
  unfold fmtSub sliceAt
  rw [getD_map_range, if_pos hj]

theorem fmtSub_length (S rev perm : List Nat) (rs : List NSlice) : (fmtSub S rev perm rs).length = perm.length := by
  simp [fmtSub]

/-- the raw subscript, seen from a formatted axis, is normal for that axis -/
theorem raw_slice_normal {S perm : List Nat} (hp : PermOK perm S.length) {rs : List NSlice}
    (hrs : NormalSub S rs) {j : Nat} (hj : j < S.length) :
    (sliceAt rs (perm.getD j 0)).Normal (dimAt S (perm.getD j 0)) :=
  ((normalSub_iff _ _).1 hrs).2 _ (hp.lt j hj)

/-- `transform_raw_slice` yields a normalised formatted subscript -/
theorem fmtSub_normal {S perm : List Nat} (rev : List Nat) (hp : PermOK perm S.length) {rs : List NSlice}
    (hrs : NormalSub S rs) : NormalSub (gather perm S) (fmtSub S rev perm rs) := by
  rw [normalSub_iff]
  refine ⟨by rw [fmtSub_length, gather_length], ?_⟩
  intro j hj
  rw [gather_length, hp.len] at hj
  rw [sliceAt_fmtSub _ _ _ _ _ (by rw [hp.len]; exact hj), dimAt_gather, if_pos (by rw [hp.len]; exact hj)]
  have := raw_slice_normal hp hrs hj
  split
  · exact (mirror_spec this).1
  · exact this

theorem fmtSub_count {S perm : List Nat} (rev : List Nat) (hp : PermOK perm S.length) {rs : List NSlice}
    (hrs : NormalSub S rs) {j : Nat} (hj : j < S.length) :
    (sliceAt (fmtSub S rev perm rs) j).count = (sliceAt rs (perm.getD j 0)).count := by
  rw [sliceAt_fmtSub _ _ _ _ _ (by rw [hp.len]; exact hj)]
  split
  · exact mirror_count (raw_slice_normal hp hrs hj)
  · rfl

/-- **what a raw-basis definition means**: cutting the formatted view with `transform_raw_slice(rs)` is
    orienting the raw selection `raw[rs]` -/
theorem fmtSub_orient {α : Type} (fl : Arr α) (S rev perm : List Nat) (rs : List NSlice)
    (hp : PermOK perm S.length) (hS : fl.shape = S) (hloc : fl.Local) (hrs : NormalSub S rs) :
    Arr.Equiv (((fl.flip rev).transpose perm (invPerm perm)).select (fmtSub S rev perm rs))
      (((fl.select rs).flip rev).transpose perm (invPerm perm)) := by
  obtain ⟨hrl, hrn⟩ := (normalSub_iff _ _).1 hrs
  have hsh : (fmtSub S rev perm rs).map NSlice.count = gather perm (rs.map NSlice.count) := by
    apply List.ext_getElem
    · simp [gather, fmtSub]
    · intro j h1 h2
      have hj : j < S.length := by simpa [fmtSub, hp.len] using h1
      rw [← dimAt_lt h1, ← dimAt_lt h2, dimAt_map_count, dimAt_gather, if_pos (by rw [hp.len]; exact hj),
        dimAt_map_count, fmtSub_count rev hp hrs hj]
  refine ⟨hsh, fun idx hidx => ?_⟩
  have hidx' : InR ((fmtSub S rev perm rs).map NSlice.count) idx := hidx
  show fl.get _ = fl.get _
  apply hloc
  intro i hi
  rw [hS] at hi
  have hj := hp.invlt i hi
  have hk := hidx' _ (by simp only [List.length_map, fmtSub_length, hp.len]; exact hj)
  rw [dimAt_map_count, fmtSub_count rev hp hrs hj, hp.pinv i hi] at hk
  have hn := hrn i hi
  simp only [selIdx, Arr.select, dimAt_map_count, hS]
  rw [sliceAt_fmtSub _ _ _ _ _ (by rw [hp.len]; exact hj), hp.pinv i hi]
  by_cases hr : i ∈ rev
  · simp only [hr, if_true]
    have hmc := mirror_count hn
    have := mirror_point hn ((sliceAt rs i).count - 1 - idx ((invPerm perm).getD i 0)) (by omega) (by omega)
    rw [hmc] at this
    have e : ((sliceAt rs i).count : Int) - 1 - (((sliceAt rs i).count : Int) - 1 - idx ((invPerm perm).getD i 0)) =
        idx ((invPerm perm).getD i 0) := by omega
    rw [e] at this
    omega
  · simp only [hr, if_false]

/-- squeezing respects equality of arrays when the dropped axes have length one -/
theorem squeeze_congr {α : Type} {a b : Arr α} (K : List Bool) (h : Arr.Equiv a b) (hK : K.length = a.shape.length)
    (h1 : ∀ i, i < K.length → K.getD i false = false → dimAt a.shape i = 1) :
    Arr.Equiv (a.squeeze K) (b.squeeze K) := by
  refine ⟨by show pick K a.shape = pick K b.shape; rw [h.1], fun idx hidx => ?_⟩
  show a.get (unsq K idx) = b.get (unsq K idx)
  apply h.2
  intro i hi
  simp only [unsq]
  by_cases hk : K.getD i false = true
  · simp only [hk, if_true]
    have hpl : (pick K a.shape).length = (keptAxes K).length := pick_length K _ hK
    have := hidx _ (by show _ < (pick K a.shape).length; rw [hpl]; exact rank_lt K i (by omega) hk)
    have e : dimAt (pick K a.shape) (rank K i) = dimAt a.shape i := by
      unfold dimAt; exact getD_pick_rank 0 K _ i hK (by omega) hk
    show 0 ≤ idx (rank K i) ∧ idx (rank K i) < (dimAt a.shape i : Int)
    rw [← e]; exact this
  · have hk' : K.getD i false = false := by simpa using hk
    simp only [hk', Bool.false_eq_true, if_false]
    rw [h1 i (by omega) hk']
    constructor <;> omega

/-! ### block definitions with step -1 -/

/-- the repaired `_find_slice_overlap` for a backwards definition: the child slice is normal for the block, selects as many
    indices as the forward block-relative slice, and its `j`-th index is the mirror image `len - 1 - r_j` -/
theorem flipSlice_spec {L : Int} {c p : NSlice} (hc : c.Normal L) {k0 k1 : Int} (hp1 : p.start = k0)
    (hp2 : p.stop = some k1) (hcnt : (c.count : Int) = k1 - k0) :
    (flipSlice L c p).Normal L ∧ (flipSlice L c p).count = c.count ∧
    ∀ j : Int, (flipSlice L c p).start + j * (flipSlice L c p).step = L - 1 - (c.start + j * c.step) := by
  have hm := Normal.count_pos hc
  have hlast := Normal.last_range hc
  rw [Normal.last_eq hc] at hlast
  have h0 : 0 ≤ c.start ∧ c.start < L := ⟨hc.1, hc.2.1⟩
  have hstep : c.step ≠ 0 := by
    obtain ⟨_, _, (⟨hs, _⟩ | ⟨hs, _⟩)⟩ := hc <;> omega
  generalize hM : (c.count : Int) * c.step = M at *
  have hlast' : 0 ≤ c.start + (M - c.step) ∧ c.start + (M - c.step) < L := by
    have e : ((c.count : Int) - 1) * c.step = M - c.step := by rw [← hM]; ring
    rw [e] at hlast; exact hlast
  have hE : (p.stop.getD 0 - p.start) * (-c.step) = -M := by
    rw [hp1, hp2, Option.getD_some, ← hcnt, ← hM]; ring
  refine ⟨?_, ?_, ?_⟩
  · -- normal
    unfold flipSlice
    simp only [hE]
    by_cases hs : 0 < c.step
    · have hMs : c.step ≤ M := by
        have : 0 ≤ ((c.count : Int) - 1) * c.step := Int.mul_nonneg (by omega) (by omega)
        have e : ((c.count : Int) - 1) * c.step = M - c.step := by rw [← hM]; ring
        omega
      have hneg : ¬ (-c.step > 0) := by omega
      simp only [hneg, if_false]
      refine ⟨by simp; omega, by simp; omega, Or.inr ⟨by simp; omega, ?_⟩⟩
      by_cases he : L - 1 - c.start + -M < 0
      · simp [he]
      · right
        simp only [he, if_false]
        exact ⟨_, rfl, by omega, by simp; omega⟩
    · have hs' : c.step < 0 := by omega
      have hMs : M ≤ c.step := by
        have : 0 ≤ ((c.count : Int) - 1) * (-c.step) := Int.mul_nonneg (by omega) (by omega)
        have e : ((c.count : Int) - 1) * (-c.step) = -(M - c.step) := by rw [← hM]; ring
        omega
      have hpos : -c.step > 0 := by omega
      simp only [hpos, if_true]
      refine ⟨by simp; omega, by simp; omega, Or.inl ⟨by simp; omega, _, rfl, ?_, ?_⟩⟩
      · simp only [lt_min_iff]; constructor <;> omega
      · exact min_le_right _ _
  · -- count
    unfold flipSlice
    simp only [hE]
    by_cases hs : 0 < c.step
    · have hMs : c.step ≤ M := by
        have : 0 ≤ ((c.count : Int) - 1) * c.step := Int.mul_nonneg (by omega) (by omega)
        have e : ((c.count : Int) - 1) * c.step = M - c.step := by rw [← hM]; ring
        omega
      have hneg : ¬ (-c.step > 0) := by omega
      simp only [hneg, if_false]
      rw [count_neg_step (by omega : -c.step < 0)]
      have e1 : ((c.count : Int) - 1) * (- -c.step) = M - c.step := by rw [← hM]; ring
      have e2 : (c.count : Int) * (- -c.step) = M := by rw [← hM]; ring
      by_cases he : L - 1 - c.start + -M < 0
      · simp only [he, if_true, Option.getD_none]
        apply cnt_unique (by omega)
        · rw [e1]; omega
        · rw [e2]; omega
      · simp only [he, if_false, Option.getD_some]
        apply cnt_unique (by omega)
        · rw [e1]; omega
        · rw [e2]; omega
    · have hs' : c.step < 0 := by omega
      have hMs : M ≤ c.step := by
        have : 0 ≤ ((c.count : Int) - 1) * (-c.step) := Int.mul_nonneg (by omega) (by omega)
        have e : ((c.count : Int) - 1) * (-c.step) = -(M - c.step) := by rw [← hM]; ring
        omega
      have hpos : -c.step > 0 := by omega
      simp only [hpos, if_true]
      rw [count_pos_step (by omega : 0 < -c.step)]
      have e1 : ((c.count : Int) - 1) * (-c.step) = -(M - c.step) := by rw [← hM]; ring
      have e2 : (c.count : Int) * (-c.step) = -M := by rw [← hM]; ring
      apply cnt_unique (by omega)
      · rw [e1]
        rcases min_cases (L - 1 - c.start + -M) L with ⟨h, _⟩ | ⟨h, _⟩ <;> rw [h] <;> omega
      · rw [e2]
        have := min_le_left (L - 1 - c.start + -M) L
        omega
  · intro j
    simp only [flipSlice]
    ring

theorem overlapsR_spec : ∀ (ts : List NSlice) (arr : List (Int × Int)) (rv : List Bool), ts.length = arr.length →
    rv.length = arr.length →
    match overlapsR ts arr rv with
    | none => overlaps ts arr = none
    | some (cs, ps) => ∃ cs0, overlaps ts arr = some (cs0, ps) ∧ cs.length = arr.length ∧
        ∀ i, i < arr.length → sliceAt cs i =
          if rv.getD i false then flipSlice ((arr.getD i (0, 0)).2 - (arr.getD i (0, 0)).1) (sliceAt cs0 i) (sliceAt ps i)
          else sliceAt cs0 i
  | [], [], [], _, _ => by simp [overlapsR, overlaps]
  | t :: ts, b :: bs, r :: rs, h1, h2 => by
    have ih := overlapsR_spec ts bs rs (by simpa using h1) (by simpa using h2)
    unfold overlapsR overlaps
    cases ho : overlap t b.1 b.2 with
    | none => rfl
    | some pc =>
      obtain ⟨c, p⟩ := pc
      cases hos : overlapsR ts bs rs with
      | none =>
        rw [hos] at ih
        simp only [ih]
      | some cp =>
        obtain ⟨cs, ps⟩ := cp
        rw [hos] at ih
        obtain ⟨cs0, e1, e2, e3⟩ := ih
        simp only [e1]
        refine ⟨c :: cs0, rfl, by simp [e2], ?_⟩
        intro i hi
        cases i with
        | zero => simp [sliceAt]
        | succ i =>
          have := e3 i (by simpa using hi)
          simpa [sliceAt] using this
  | [], _ :: _, _, h, _ => by simp at h
  | _ :: _, [], _, h, _ => by simp at h
  | [], [], _ :: _, _, h => by simp at h
  | _ :: _, _ :: _, [], _, h => by simp at h

/-- per-axis facts for one block with reversed axes: as `block_axes`, with the mirrored block coordinate on those axes -/
theorem block_axesR {sh csh : List Nat} {arr : List (Int × Int)} {rv : List Bool} {ts csub psub : List NSlice}
    (hbox : boxOK sh arr csh = true) (hrl : rv.length = sh.length) (hts : NormalSub sh ts)
    (ho : overlapsR ts arr rv = some (csub, psub)) :
    csub.length = sh.length ∧ psub.length = sh.length ∧
    (∃ cs0, overlaps ts arr = some (cs0, psub)) ∧
    ∀ i, i < sh.length → ∃ k0 k1 : Int,
      (sliceAt psub i).start = k0 ∧ (sliceAt psub i).stop = some k1 ∧ 0 ≤ k0 ∧ k0 < k1 ∧
      k1 ≤ (sliceAt ts i).count ∧ (sliceAt csub i).Normal (dimAt csh i) ∧ ((sliceAt csub i).count : Int) = k1 - k0 ∧
      (∀ k : Int, 0 ≤ k → k < (sliceAt ts i).count →
        (((arr.getD i (0, 0)).1 ≤ (sliceAt ts i).start + k * (sliceAt ts i).step ∧
          (sliceAt ts i).start + k * (sliceAt ts i).step < (arr.getD i (0, 0)).2) ↔ (k0 ≤ k ∧ k < k1))) ∧
      (∀ k : Int, k0 ≤ k → k < k1 → (sliceAt csub i).start + (k - k0) * (sliceAt csub i).step =
        if rv.getD i false then (arr.getD i (0, 0)).2 - 1 - ((sliceAt ts i).start + k * (sliceAt ts i).step)
        else (sliceAt ts i).start + k * (sliceAt ts i).step - (arr.getD i (0, 0)).1) := by
  obtain ⟨hal, hcl, hb⟩ := (boxOK_iff _ _ _).1 hbox
  obtain ⟨htl, _⟩ := (normalSub_iff _ _).1 hts
  have hs := overlapsR_spec ts arr rv (by omega) (by omega)
  rw [ho] at hs
  obtain ⟨cs0, e1, e2, e3⟩ := hs
  obtain ⟨h1, h2, hax⟩ := block_axes hbox hts e1
  refine ⟨by omega, h2, ⟨cs0, e1⟩, fun i hi => ?_⟩
  obtain ⟨k0, k1, a1, a2, a3, a4, a5, a6, a7, a8, a9⟩ := hax i hi
  obtain ⟨_, _, _, hc⟩ := hb i hi
  rw [e3 i (by omega)]
  by_cases hr : rv.getD i false = true
  · simp only [hr, if_true]
    have hL : ((dimAt csh i : Nat) : Int) = (arr.getD i (0, 0)).2 - (arr.getD i (0, 0)).1 := hc
    rw [← hL]
    obtain ⟨f1, f2, f3⟩ := flipSlice_spec a6 a1 a2 a7
    refine ⟨k0, k1, a1, a2, a3, a4, a5, f1, by rw [f2]; exact a7, a8, ?_⟩
    intro k hk0 hk1
    rw [f3, a9 k hk0 hk1, hL]
    ring
  · have hr' : rv.getD i false = false := by simpa using hr
    simp only [hr', Bool.false_eq_true, if_false]
    exact ⟨k0, k1, a1, a2, a3, a4, a5, a6, a7, a8, a9⟩

/-- one block with reversed axes: the part of the read that falls into the block is the block's image, mirrored on those axes -/
theorem block_someR {α : Type} (out acc crd cfl : Arr α) {sh csh : List Nat} {arr : List (Int × Int)} {rv : List Bool}
    {ts csub psub : List NSlice}
    (hbox : boxOK sh arr csh = true) (hrl : rv.length = sh.length) (hts : NormalSub sh ts)
    (ho : overlapsR ts arr rv = some (csub, psub))
    (hcs : cfl.shape = csh) (hcloc : cfl.Local) (ihc : Arr.Equiv crd (cfl.select csub))
    (idx : Idx) (hidx : InR (ts.map NSlice.count) idx) (hout : out.get idx = acc.get (selIdx ts idx)) :
    (out.paste (sliceBox psub) crd).get idx = (acc.pasteR arr rv cfl).get (selIdx ts idx) := by
  obtain ⟨hcl, hpl, _, hax⟩ := block_axesR hbox hrl hts ho
  obtain ⟨hal, hcshl, _⟩ := (boxOK_iff _ _ _).1 hbox
  have hk : ∀ i, i < sh.length → 0 ≤ idx i ∧ idx i < ((sliceAt ts i).count : Int) := by
    intro i hi
    have htl := ((normalSub_iff _ _).1 hts).1
    have := hidx i (by simp; omega)
    rwa [dimAt_map_count] at this
  have hcond : inBox (sliceBox psub) idx = inBox arr (selIdx ts idx) := by
    rw [Bool.eq_iff_iff, inBox_iff, inBox_iff]
    simp only [sliceBox_length, hpl, hal]
    constructor
    · intro h i hi
      obtain ⟨k0, k1, e1, e2, _, _, _, _, _, e8, _⟩ := hax i hi
      have := h i hi
      have hg := sliceBox_getD psub i (by omega)
      rw [hg, e1, e2] at this
      exact (e8 (idx i) (hk i hi).1 (hk i hi).2).2 (by simpa using this)
    · intro h i hi
      obtain ⟨k0, k1, e1, e2, _, _, _, _, _, e8, _⟩ := hax i hi
      have := (e8 (idx i) (hk i hi).1 (hk i hi).2).1 (h i hi)
      have hg := sliceBox_getD psub i (by omega)
      rw [hg, e1, e2]
      simpa using this
  show (if inBox (sliceBox psub) idx then crd.get (boxLo (sliceBox psub) idx) else out.get idx) =
    (if inBox arr (selIdx ts idx) then cfl.get (boxLoR arr rv (selIdx ts idx)) else acc.get (selIdx ts idx))
  rw [hcond]
  by_cases hin : inBox arr (selIdx ts idx) = true
  · simp only [hin, if_true]
    have hin' := hcond ▸ hin
    rw [inBox_iff] at hin'
    simp only [sliceBox_length, hpl] at hin'
    have hloc : ∀ i, i < sh.length → ∃ k0 k1 : Int, (sliceBox psub).getD i (0, 0) = (k0, k1) ∧ k0 ≤ idx i ∧ idx i < k1 ∧
        ((sliceAt csub i).count : Int) = k1 - k0 ∧
        (sliceAt csub i).start + (idx i - k0) * (sliceAt csub i).step = boxLoR arr rv (selIdx ts idx) i := by
      intro i hi
      obtain ⟨k0, k1, e1, e2, _, _, _, _, e7, _, e9⟩ := hax i hi
      have hg := sliceBox_getD psub i (by omega)
      have := hin' i hi
      rw [hg, e1, e2] at this
      simp only [Option.getD_some] at this
      refine ⟨k0, k1, by rw [hg, e1, e2]; rfl, this.1, this.2, e7, ?_⟩
      rw [e9 _ this.1 this.2]
      simp only [boxLoR, selIdx]
    rw [ihc.2]
    · show cfl.get _ = cfl.get _
      apply hcloc
      intro i hi
      rw [hcs, hcshl] at hi
      obtain ⟨k0, k1, hg, _, _, _, e⟩ := hloc i hi
      simp only [selIdx, boxLo, hg]
      exact e
    · intro i hi
      rw [ihc.1] at hi ⊢
      simp only [Arr.select, List.length_map, hcl] at hi
      obtain ⟨k0, k1, hg, h1, h2, e7, _⟩ := hloc i hi
      simp only [Arr.select, dimAt_map_count, boxLo, hg]
      omega
  · simp only [hin, if_false]
    exact hout

theorem overlaps_none_inBox {sh csh : List Nat} {arr : List (Int × Int)} {ts : List NSlice}
    (hbox : boxOK sh arr csh = true) (hts : NormalSub sh ts) (ho : overlaps ts arr = none)
    (idx : Idx) (hidx : InR (ts.map NSlice.count) idx) : inBox arr (selIdx ts idx) = false := by
  obtain ⟨hal, hcl, hb⟩ := (boxOK_iff _ _ _).1 hbox
  obtain ⟨htl, htn⟩ := (normalSub_iff _ _).1 hts
  have hs := overlaps_spec ts arr (by omega)
  rw [ho] at hs
  obtain ⟨i, hi, hio⟩ := hs
  obtain ⟨hb0, hb01, hb1, _⟩ := hb i (by omega)
  have hp := overlap_point (htn i (by omega)) hb0 hb01 hb1
  rw [hio] at hp
  have hk := hidx i (by simp; omega)
  rw [dimAt_map_count] at hk
  have hnot := hp (idx i) hk.1 hk.2
  rw [Bool.eq_false_iff]
  intro hin
  exact hnot ((inBox_iff _ _).1 hin i hi)

/-- a reversed block that the subscript does not reach contributes nothing to the selection -/
theorem block_noneR {α : Type} (acc cfl : Arr α) {sh csh : List Nat} {arr : List (Int × Int)} {rv : List Bool}
    {ts : List NSlice} (hbox : boxOK sh arr csh = true) (hts : NormalSub sh ts) (ho : overlaps ts arr = none)
    (idx : Idx) (hidx : InR (ts.map NSlice.count) idx) :
    (acc.pasteR arr rv cfl).get (selIdx ts idx) = acc.get (selIdx ts idx) := by
  have := overlaps_none_inBox hbox hts ho idx hidx
  simp [Arr.pasteR, this]

theorem boxR_ix_inR {sh csh : List Nat} {arr : List (Int × Int)} (rv : List Bool) (hbox : boxOK sh arr csh = true)
    {idx : Idx} (hin : inBox arr idx = true) : InR csh (boxLoR arr rv idx) := by
  obtain ⟨hal, hcl, hb⟩ := (boxOK_iff _ _ _).1 hbox
  rw [inBox_iff] at hin
  intro i hi
  have h1 := hin i (by omega)
  have h2 := hb i (by omega)
  simp only [boxLoR]
  split <;> omega

/-! ### complex format, band dimension kept -/

theorem cnt_one' (x : Int) : cnt x 1 = x.toNat := by simp [cnt]

theorem sliceAt_rawSubK (S rev inv : List Nat) (bd : Nat) (ts : List NSlice) (i : Nat) (hi : i < inv.length) :
    sliceAt (rawSubK S rev inv bd ts) i =
      if inv.getD i 0 = bd then
        dblSlice (if i ∈ rev then mirror (dimAt S i) (sliceAt ts (inv.getD i 0)) else sliceAt ts (inv.getD i 0))
      else (if i ∈ rev then mirror (dimAt S i) (sliceAt ts (inv.getD i 0)) else sliceAt ts (inv.getD i 0)) := by
  unfold rawSubK sliceAt
  rw [getD_map_range, if_pos hi]

theorem sliceAt_dblAt (bd : Nat) (ts : List NSlice) (j : Nat) :
    sliceAt (dblAt bd ts) j = if j = bd ∧ j < ts.length then dblSlice (sliceAt ts j) else sliceAt ts j := by
  unfold dblAt
  show ((List.range ts.length).map _).getD j default = _
  rw [getD_map_range]
  by_cases hj : j < ts.length
  · by_cases hb : j = bd
    · subst hb; simp [hj]
    · simp [hj, hb]
  · have : sliceAt ts j = default := sliceAt_ge (by omega)
    simp [hj, this]

theorem dblAt_length (bd : Nat) (ts : List NSlice) : (dblAt bd ts).length = ts.length := by simp [dblAt]

theorem dimAt_halveAt (bd : Nat) (G : List Nat) (i : Nat) :
    dimAt (halveAt bd G) i = if i < G.length then (if i = bd then dimAt G i / 2 else dimAt G i) else 0 := by
  unfold halveAt
  show ((List.range G.length).map _).getD i 0 = _
  rw [getD_map_range]

theorem halveAt_length (bd : Nat) (G : List Nat) : (halveAt bd G).length = G.length := by simp [halveAt]

/-- with the band axis not reversed the kept-band transform is the identity transform of the doubled subscript -/
theorem rawSubK_eq {S perm : List Nat} (rev : List Nat) (hp : PermOK perm S.length) {bd : Nat} (hbd : bd < S.length)
    (hnr : perm.getD bd 0 ∉ rev) (ts : List NSlice) (htl : ts.length = S.length) :
    rawSubK S rev (invPerm perm) bd ts = rawSub S rev (invPerm perm) (dblAt bd ts) := by
  unfold rawSubK rawSub
  apply List.map_congr_left
  intro i hi
  have hi' : i < S.length := by have := List.mem_range.1 hi; rwa [hp.invlen] at this
  have hj := hp.invlt i hi'
  by_cases hb : (invPerm perm).getD i 0 = bd
  · have hib : i = perm.getD bd 0 := by rw [← hb, hp.pinv i hi']
    have hir : i ∉ rev := by rw [hib]; exact hnr
    simp only [hb, hir, if_false, if_true, sliceAt_dblAt, true_and, htl, hbd]
  · simp only [hb, if_false, sliceAt_dblAt, false_and]

/-- with the band axis reversed the code mirrors with the doubled axis length: the raw subscript it builds always
    leaves the raw axis (finding `complex-kept-band-reversed-band-axis`) -/
theorem rawSubK_reversed_not_normal {S perm : List Nat} (rev : List Nat) (hp : PermOK perm S.length) {bd : Nat}
    (hbd : bd < S.length) (hr : perm.getD bd 0 ∈ rev) {ts : List NSlice}
    (hts : NormalSub (halveAt bd (gather perm S)) ts) (hstep : (sliceAt ts bd).step = 1)
    (heven : dimAt (gather perm S) bd % 2 = 0) :
    ¬ NormalSub S (rawSubK S rev (invPerm perm) bd ts) := by
  intro hn
  obtain ⟨_, hnn⟩ := (normalSub_iff _ _).1 hn
  obtain ⟨_, htn⟩ := (normalSub_iff _ _).1 hts
  have hi := hp.lt bd hbd
  have hbd' : bd < (gather perm S).length := by rw [gather_length, hp.len]; exact hbd
  have h1 := hnn _ hi
  rw [sliceAt_rawSubK _ _ _ _ _ _ (by rw [hp.invlen]; exact hi), hp.invp bd hbd] at h1
  simp only [hr, if_true] at h1
  have h2 := htn bd (by rw [halveAt_length]; exact hbd')
  rw [dimAt_halveAt, if_pos hbd', if_pos rfl, dimAt_gather, if_pos (by rw [hp.len]; exact hbd)] at h2
  rw [dimAt_gather, if_pos (by rw [hp.len]; exact hbd)] at heven
  generalize dimAt S (perm.getD bd 0) = N at h1 h2 heven
  generalize sliceAt ts bd = t at h1 h2 hstep
  obtain ⟨a, st, s⟩ := t
  simp only at hstep
  subst hstep
  obtain ⟨h0, h3, (⟨_, b, hb, hab, hbn⟩ | ⟨hs, _⟩)⟩ := h2
  · simp only at hb h0 h3 hab
    subst hb
    have hm : mirror (N : Int) ⟨a, some b, 1⟩ = ⟨N - 1 - (⟨a, some b, 1⟩ : NSlice).last, some (N - a), 1⟩ := by
      simp [mirror]
    rw [hm] at h1
    obtain ⟨_, _, (⟨_, b', hb', _, hb'n⟩ | ⟨hs', _⟩)⟩ := h1
    · simp only [dblSlice, Option.map_some, Option.some.injEq] at hb'
      subst hb'
      have : ((N / 2 : Nat) : Int) = (N : Int) / 2 := by simp
      omega
    · simp [dblSlice] at hs'
  · simp at hs

/-- the doubled subscript is normal for the un-halved shape -/
theorem dblAt_normal {G : List Nat} {bd : Nat} (hbd : bd < G.length) {ts : List NSlice}
    (hts : NormalSub (halveAt bd G) ts) (hstep : (sliceAt ts bd).step = 1) :
    NormalSub G (dblAt bd ts) := by
  obtain ⟨hl, hn⟩ := (normalSub_iff _ _).1 hts
  rw [halveAt_length] at hl hn
  rw [normalSub_iff]
  refine ⟨by rw [dblAt_length, hl], fun i hi => ?_⟩
  have := hn i hi
  rw [dimAt_halveAt, if_pos hi] at this
  rw [sliceAt_dblAt]
  by_cases hb : i = bd
  · subst hb
    simp only [true_and, hl, hi, if_true] at this ⊢
    generalize sliceAt ts i = t at this hstep
    obtain ⟨a, st, s⟩ := t
    simp only at hstep
    subst hstep
    obtain ⟨h0, h3, (⟨_, b, hb, hab, hbn⟩ | ⟨hs, _⟩)⟩ := this
    · simp only at hb h0 h3 hab
      subst hb
      have e : ((dimAt G i / 2 : Nat) : Int) = (dimAt G i : Int) / 2 := by simp
      refine ⟨by simp [dblSlice]; omega, by simp [dblSlice]; omega, Or.inl ⟨by simp [dblSlice], 2 * b, by simp [dblSlice], ?_, ?_⟩⟩
      · simp [dblSlice]; omega
      · omega
    · simp at hs
  · simp only [hb, false_and, if_false] at this ⊢
    exact this

theorem dblSlice_count {t : NSlice} (hs : t.step = 1) : (dblSlice t).count = 2 * t.count := by
  obtain ⟨a, st, s⟩ := t
  simp only at hs
  subst hs
  cases st with
  | none => simp [dblSlice, NSlice.count]
  | some b =>
    simp only [dblSlice, NSlice.count, Option.map_some, show (1 : Int) > 0 by decide, if_true, cnt_one']
    omega

theorem selIdx_dblAt (bd : Nat) (ts : List NSlice) (hbd : bd < ts.length) (hstep : (sliceAt ts bd).step = 1)
    (s : Int) (idx : Idx) : selIdx (dblAt bd ts) (dblAx bd s idx) = dblAx bd s (selIdx ts idx) := by
  funext i
  simp only [selIdx, dblAx, sliceAt_dblAt]
  by_cases hb : i = bd
  · subst hb
    simp only [true_and, hbd, if_true, dblSlice, hstep]
    ring
  · simp only [hb, false_and, if_false]

theorem kept_refines {α : Type} [Pairing α] (R O : Arr α) (ord : COrd) (bd : Nat) (ts : List NSlice)
    (hbd : bd < ts.length) (hstep : (sliceAt ts bd).step = 1)
    (ih : Arr.Equiv R (O.select (dblAt bd ts))) :
    Arr.Equiv (R.pairKept ord bd) ((O.pairKept ord bd).select ts) := by
  have hRs : R.shape = (dblAt bd ts).map NSlice.count := ih.1
  have hsh : (R.pairKept ord bd).shape = ts.map NSlice.count := by
    show halveAt bd R.shape = _
    apply List.ext_getElem
    · rw [halveAt_length, hRs]; simp [dblAt_length]
    · intro i h1 h2
      have hi : i < ts.length := by simpa using h2
      rw [← dimAt_lt h1, ← dimAt_lt h2, dimAt_halveAt, hRs, if_pos (by simp [dblAt_length, hi]), dimAt_map_count,
        dimAt_map_count, sliceAt_dblAt]
      by_cases hb : i = bd
      · subst hb
        simp only [true_and, hi, if_true, dblSlice_count hstep]
        omega
      · simp only [hb, false_and, if_false]
  refine ⟨hsh, fun idx hidx => ?_⟩
  rw [hsh] at hidx
  have hin : ∀ s : Int, 0 ≤ s → s < 2 → InR R.shape (dblAx bd s idx) := by
    intro s hs0 hs2 i hi
    rw [hRs] at hi ⊢
    simp only [List.length_map, dblAt_length] at hi
    have hk := hidx i (by simpa using hi)
    rw [dimAt_map_count] at hk ⊢
    simp only [dblAx, sliceAt_dblAt]
    by_cases hb : i = bd
    · subst hb
      simp only [true_and, hi, if_true, dblSlice_count hstep]
      have : ((2 * (sliceAt ts i).count : Nat) : Int) = 2 * ((sliceAt ts i).count : Int) := by simp
      omega
    · simp only [hb, false_and, if_false]
      exact hk
  have hget : ∀ s : Int, 0 ≤ s → s < 2 → R.get (dblAx bd s idx) = O.get (dblAx bd s (selIdx ts idx)) := by
    intro s hs0 hs2
    rw [ih.2 _ (hin s hs0 hs2)]
    show O.get _ = _
    rw [selIdx_dblAt bd ts hbd hstep]
  show comb ord (R.get (dblAx bd 0 idx)) (R.get (dblAx bd 1 idx)) =
    comb ord (O.get (dblAx bd 0 (selIdx ts idx))) (O.get (dblAx bd 1 (selIdx ts idx)))
  rw [hget 0 (by decide) (by decide), hget 1 (by decide) (by decide)]

/-! ### lookup tables -/

theorem lutMap_refines {α : Type} [Pairing α] (R O : Arr α) (ts : List NSlice) (ih : Arr.Equiv R (O.select ts)) :
    Arr.Equiv R.lutMap (O.lutMap.select ts) := by
  refine ⟨ih.1, fun idx hidx => ?_⟩
  show Pairing.lut 0 (R.get idx) = Pairing.lut 0 (O.get (selIdx ts idx))
  rw [ih.2 idx hidx]
  rfl

theorem sliceAt_take (ts : List NSlice) (n j : Nat) (hj : j < n) : sliceAt (ts.take n) j = sliceAt ts j := by
  unfold sliceAt
  rw [List.getD_eq_getElem?_getD, List.getD_eq_getElem?_getD, List.getElem?_take, if_pos hj]

/-- `transform_formatted_slice` of a 2-d table ignores the last entry of the subscript -/
theorem rawSub_take {S perm : List Nat} (rev : List Nat) (hp : PermOK perm S.length) (ts : List NSlice) :
    rawSub S rev (invPerm perm) (ts.take S.length) = rawSub S rev (invPerm perm) ts := by
  unfold rawSub
  apply List.map_congr_left
  intro i hi
  have hi' : i < S.length := by have := List.mem_range.1 hi; rwa [hp.invlen] at this
  simp only [sliceAt_take ts _ _ (hp.invlt i hi')]

theorem take_normal {G : List Nat} {m : Nat} {ts : List NSlice} (hts : NormalSub (G ++ [m]) ts) :
    NormalSub G (ts.take G.length) ∧ ts.length = G.length + 1 ∧ (sliceAt ts G.length).Normal m := by
  obtain ⟨hl, hn⟩ := (normalSub_iff _ _).1 hts
  simp only [List.length_append, List.length_singleton] at hl hn
  refine ⟨?_, hl, ?_⟩
  · rw [normalSub_iff]
    refine ⟨by simp [hl], fun i hi => ?_⟩
    have := hn i (by omega)
    rw [sliceAt_take _ _ _ hi]
    have e : dimAt (G ++ [m]) i = dimAt G i := by
      unfold dimAt
      rw [List.getD_eq_getElem?_getD, List.getD_eq_getElem?_getD, List.getElem?_append_left hi]
    rwa [e] at this
  · have := hn G.length (by omega)
    have e : dimAt (G ++ [m]) G.length = m := by
      unfold dimAt
      rw [List.getD_eq_getElem?_getD, List.getElem?_append_right (le_refl _)]
      simp
    rwa [e] at this

theorem lutCols_refines {α : Type} [Pairing α] (R O : Arr α) (G : List Nat) (m : Nat) (ts : List NSlice)
    (hO : O.shape = G) (hloc : O.Local) (hts : NormalSub (G ++ [m]) ts)
    (ih : Arr.Equiv R (O.select (ts.take G.length))) :
    Arr.Equiv (⟨ts.map NSlice.count, fun idx => Pairing.lut (selIdx ts idx G.length).toNat (R.get idx)⟩ : Arr α)
      ((O.lutCols m).select ts) := by
  obtain ⟨h0, hl, _⟩ := take_normal hts
  refine ⟨rfl, fun idx hidx => ?_⟩
  have hidx' : InR (ts.map NSlice.count) idx := hidx
  show Pairing.lut _ (R.get idx) = Pairing.lut ((selIdx ts idx) O.shape.length).toNat (O.get (selIdx ts idx))
  rw [hO]
  congr 1
  rw [ih.2]
  · show O.get _ = O.get _
    apply hloc
    intro i hi
    rw [hO] at hi
    simp only [selIdx, sliceAt_take _ _ _ hi]
  · rw [ih.1]
    intro i hi
    simp only [Arr.select, List.length_map, List.length_take] at hi
    have hi' : i < G.length := by omega
    have := hidx' i (by simp; omega)
    rw [dimAt_map_count] at this
    show 0 ≤ idx i ∧ idx i < (dimAt ((ts.take G.length).map NSlice.count) i : Int)
    rw [dimAt_map_count, sliceAt_take _ _ _ hi']
    exact this

end Sarpy.Props.C01Seg
