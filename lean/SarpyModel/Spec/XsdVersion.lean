/-
  Spec.XsdVersion — which schema version a structure is written in (property C06, anchor "version / urn selection on
  output": SICDType.version_required / get_des_details(check_older_version=True), CPHDType.version_required,
  CRSDType.version_required, sicd.py:608, cphd.py:1151).

  sarpy picks the OLDEST version that can hold the structure:  `required = base; for fld in self._fields: val = getattr(self,
  fld); if val is not None and hasattr(val, 'version_required'): required = max(required, val.version_required())`
  (SICD.py:913-927), and the blocks answer recursively in the same way (RadarCollection.py:1186, ErrorStatistics.py:574,
  cphd1_elements/Antenna.py:72, ...).  So the answer is the maximum, over all PRESENT blocks, of what each block contributes.

  Model.  Versions of one family are numbered 0, 1, 2, ... in release order (the bundled versions from the family's base version
  on).  `Block` is the tree of present blocks with each block's own contribution; `required` is the recursion the classes
  perform; `requiredList` is the flat maximum.  The schema side is a table `Decl` listing, for every element / attribute path
  (feature) of the family, the versions whose XSD declares it; `since` is the first of them.  The translator
  (translate/xsd_versions.py) regenerates the table from the bundled XSDs on every run, the kernel decides that every feature,
  once introduced, stays declared (`upwardClosedB`), and Props/C06Version.lean proves that the version chosen as the maximum of
  the `since` values of the present features declares every present feature, and is the least such version.
  Contributions that depend on VALUES (polarisation strings) are outside this model: the harness checks that the implementation
  never answers below the structural requirement and validates every output against the schema of the version chosen.
-/
namespace Sarpy.Spec.XsdVersion

abbrev Ver := Nat

/-- a present block: its own contribution and its present sub-blocks -/
inductive Block where
  | node (own : Ver) (kids : List Block)
  deriving Inhabited

/-- the flat maximum over a list of contributions, starting from the family's base version -/
def requiredList (base : Ver) (vs : List Ver) : Ver := vs.foldl max base

mutual
/-- `version_required` as the classes compute it: own contribution, then the maximum over the present sub-blocks -/
def required : Block → Ver
  | .node own kids => requiredKids own kids
def requiredKids (acc : Ver) : List Block → Ver
  | [] => acc
  | k :: ks => requiredKids (max acc (required k)) ks
end

mutual
/-- every contribution in the tree, in document order -/
def contributions : Block → List Ver
  | .node own kids => own :: contributionsKids kids
def contributionsKids : List Block → List Ver
  | [] => []
  | k :: ks => contributions k ++ contributionsKids ks
end

/-- one feature (element or attribute path) of a family: the versions whose schema declares it, ascending -/
structure Decl where
  feature : Nat
  versions : List Ver
  deriving Repr, Inhabited, DecidableEq

/-- the version that introduced the feature (`n` = never, for an empty list) -/
def since (n : Nat) (d : Decl) : Ver := d.versions.headD n

/-- every feature is declared exactly from its first version on, among the `n` versions of the family -/
def upwardClosedB (n : Nat) (ds : List Decl) : Bool :=
  ds.all (fun d => d.versions == (List.range n).filter (fun v => since n d ≤ v) && decide (since n d < n))

/-- feature ids listed in strictly ascending order (a linear check that they are listed once) -/
def strictAscB : List Nat → Bool
  | a :: b :: rest => decide (a < b) && strictAscB (b :: rest)
  | _ => true

/-- is feature `f` declared by version `v`? -/
def declares (ds : List Decl) (v : Ver) (f : Nat) : Bool :=
  ds.any (fun d => d.feature == f && d.versions.contains v)

def sinceOf (n : Nat) (ds : List Decl) (f : Nat) : Ver :=
  match ds.find? (fun d => d.feature == f) with
  | some d => since n d
  | none => n

/-- the version the model chooses for a document with the given present features -/
def chosen (n : Nat) (ds : List Decl) (base : Ver) (present : List Nat) : Ver :=
  requiredList base (present.map (sinceOf n ds))

end Sarpy.Spec.XsdVersion
