/-
  Spec.PyArray — one- and two-dimensional numpy integer arrays as lists (VALUE semantics) for Python-to-Lean translated kernels
  (`Gen/PolyLoops.lean`, translate/py2lean_loops.py).  No Mathlib; total and kernel-reducible.

  The translator admits an in-place update of an array variable only when the name is bound to a fresh array inside the function
  (`numpy.copy`, `numpy.array`, an arithmetic result) and is never aliased afterwards; then `out[a:b] -= e`, `out *= v` are read as
  rebinding `out`.  Slices use CPython's clamping (`Spec.npStartPos` / `npStopPos` of Spec/Slice.lean, step 1 only).

  numpy broadcasting: only (1) scalar with array, (2) a column vector `v[:, numpy.newaxis]` with a matrix of as many rows, (3) a row
  vector with a matrix whose rows have its length are modelled.  Every other combination of unequal shapes is an error here:
  "ValueError" when numpy raises too (lengths differ, none is 1), "BroadcastRefused" when numpy would stretch a length-1 axis.
-/
import SarpyModel.Spec.Slice
import SarpyModel.Spec.PyLoops
namespace Sarpy
open Sarpy.Spec

abbrev IntArr := List Int
abbrev IntArr2 := List (List Int)
/-- `v[:, numpy.newaxis]`: a column vector (one entry per row of the matrix it is combined with) -/
abbrev IntCol := List Int
abbrev BoolArr := List Bool

/-- `l[a:b]` (positive unit step), CPython clamping of the bounds -/
def arrSlice {α : Type} (l : List α) (a b : Option Int) : List α :=
  let s := npStartPos l.length a
  let e := npStopPos l.length b
  (l.drop s.toNat).take (e - s).toNat

def shapeErr (n m : Nat) : String := if n = 1 ∨ m = 1 then "BroadcastRefused" else "ValueError"

/-- `l[a:b] = v` for an array `v`: the selected stretch is replaced; the lengths must agree -/
def arrSetSlice {α : Type} (l : List α) (a b : Option Int) (v : List α) : Except String (List α) :=
  let s := npStartPos l.length a
  let e := npStopPos l.length b
  let m := (e - s).toNat
  if v.length = m then pure (l.take s.toNat ++ v ++ l.drop (s.toNat + m)) else throw (shapeErr v.length m)

/-- `l[a:b] = c` for a scalar `c` -/
def arrFillSlice (l : IntArr) (a b : Option Int) (c : Int) : IntArr :=
  let s := npStartPos l.length a
  let e := npStopPos l.length b
  let m := (e - s).toNat
  l.take s.toNat ++ List.replicate m c ++ l.drop (s.toNat + m)

/-- elementwise `x op y` of two arrays of equal length -/
def arrZip (f : Int → Int → Int) (x y : IntArr) : Except String IntArr :=
  if x.length = y.length then pure (List.zipWith f x y) else throw (shapeErr x.length y.length)

def arrScale (c : Int) (x : IntArr) : IntArr := x.map (fun v => c * v)
def arrMap (f : Int → Int) (x : IntArr) : IntArr := x.map f

/-- `numpy.arange(n)` -/
def arange (n : Int) : IntArr := (List.range n.toNat).map (fun (k : Nat) => (k : Int))

/-- `numpy.power(c, e)` for an integer base and an integer array of exponents (numpy refuses negative integer exponents) -/
def arrPow (c : Int) (e : IntArr) : Except String IntArr :=
  if e.any (fun k => decide (k < 0)) then throw "ValueError" else pure (e.map (fun k => c ^ k.toNat))

/-- `x != c` -/
def arrNe (x : IntArr) (c : Int) : BoolArr := x.map (fun v => v != c)
/-- `x[mask]` (boolean indexing): the shapes must agree (numpy: IndexError) -/
def arrMask (x : IntArr) (m : BoolArr) : Except String IntArr :=
  if x.length = m.length then pure ((x.zip m).filterMap (fun p => if p.2 then some p.1 else none)) else throw "IndexError"
/-- `numpy.amax(x)`: ValueError on an empty array -/
def arrMax : IntArr → Except String Int
  | [] => throw "ValueError"
  | a :: rest => pure (rest.foldl max a)

/-! two dimensions: a matrix is the list of its rows -/

def arr2Rows (m : IntArr2) : Int := (m.length : Int)
/-- `m.shape[1]` (the matrix is rectangular and has at least one row) -/
def arr2Cols (m : IntArr2) : Int := ((m.headD []).length : Int)

def arr2SliceRows (m : IntArr2) (a b : Option Int) : IntArr2 := arrSlice m a b
def arr2SliceCols (m : IntArr2) (a b : Option Int) : IntArr2 := m.map (fun r => arrSlice r a b)

def sameShape (x y : IntArr2) : Bool := x.length == y.length && (x.zip y).all (fun p => p.1.length == p.2.length)

def arr2Zip (f : Int → Int → Int) (x y : IntArr2) : Except String IntArr2 :=
  if sameShape x y then pure (List.zipWith (List.zipWith f) x y) else throw "ValueError"
def arr2Scale (c : Int) (x : IntArr2) : IntArr2 := x.map (arrScale c)

/-- `m[a:b, :] = v` -/
def arr2SetRows (m : IntArr2) (a b : Option Int) (v : IntArr2) : Except String IntArr2 :=
  if sameShape (arr2SliceRows m a b) v then arrSetSlice m a b v else throw "ValueError"
/-- `m[:, a:b] = v` -/
def arr2SetCols (m : IntArr2) (a b : Option Int) (v : IntArr2) : Except String IntArr2 :=
  if sameShape (arr2SliceCols m a b) v then (m.zip v).mapM (fun p => arrSetSlice p.1 a b p.2) else throw "ValueError"

/-- `col * m` for a column vector with one entry per row -/
def arr2MulCol (c : IntCol) (m : IntArr2) : Except String IntArr2 :=
  if c.length = m.length then pure (List.zipWith arrScale c m) else throw (shapeErr c.length m.length)
/-- `m * row` for a row vector as long as the rows -/
def arr2MulRow (m : IntArr2) (v : IntArr) : Except String IntArr2 :=
  if m.all (fun r => r.length == v.length) then pure (m.map (fun r => List.zipWith (fun x y => x * y) r v)) else throw (shapeErr v.length (arr2Cols m).toNat)

end Sarpy
