/-
  Spec.Proj — the SICD projection model of sarpy/geometry/point_projection.py over an arbitrary
  scalar type.  Import-free apart from Spec.Poly (metadata polynomials), total, computable:
  the driver instantiates the scalars at `Float`, `Props/C04.lean` at `ℝ`.

  Code anchors (sarpy/geometry/point_projection.py):
    planeTerms / planePointRaw / planePoint   = `_image_to_ground_plane_perform` (1281-1335), line by line
    xrow / ycol / timeCoa / arpAt / varpAt    = `COAProjection._init_proj` (688-712)
    Method.pfa / rgazcomp / inca / plane      = `_get_sicd_type_specific_projection` (157-337)
    Method.siddPlane                          = `_get_sidd_type_projection.pgp` (376-437)
    projection                                = `COAProjection.projection` (714-745) incl. adjustable parameters
    imageToPlane / imageToPlaneBatch / blockwise = `_image_to_ground_plane`, `image_to_ground_plane` (1338-1437)
    doWhile                                   = the two `while cont:` loops (986-1006, 1490-1503): body first,
                                                then `cont = (error > tolerance) and (iters < max_iterations)`
    haeStep / haeCont                         = body and condition of the constant-HAE loop (1490-1503)
    g2iCont                                   = condition of the ground-to-image loop (1005)
  A masked value (`numpy.nan`) of the code is `none` here.
-/
import SarpyModel.Spec.Poly
namespace Sarpy.Spec.Proj
open Sarpy.Spec

class Sqrt (α : Type) where
  sqrt : α → α
class Trig (α : Type) where
  sin : α → α
  cos : α → α

structure V3 (α : Type) where
  x : α
  y : α
  z : α
deriving Repr

section
variable {α : Type} [Add α] [Sub α] [Mul α] [Div α] [Neg α] [Zero α] [One α]

namespace V3
def add (a b : V3 α) : V3 α := ⟨a.x + b.x, a.y + b.y, a.z + b.z⟩
def sub (a b : V3 α) : V3 α := ⟨a.x - b.x, a.y - b.y, a.z - b.z⟩
def smul (k : α) (a : V3 α) : V3 α := ⟨k * a.x, k * a.y, k * a.z⟩
def sdiv (a : V3 α) (k : α) : V3 α := ⟨a.x / k, a.y / k, a.z / k⟩
/-- `numpy.sum(a*b, axis=-1)` / `numpy.dot` -/
def dot (a b : V3 α) : α := a.x * b.x + a.y * b.y + a.z * b.z
/-- `numpy.cross` -/
def cross (a b : V3 α) : V3 α := ⟨a.y * b.z - a.z * b.y, a.z * b.x - a.x * b.z, a.x * b.y - a.y * b.x⟩
/-- `numpy.linalg.norm(., axis=-1)` -/
def norm [Sqrt α] (a : V3 α) : α := Sqrt.sqrt (dot a a)
end V3

/-- `numpy.sign` -/
def sgn [LT α] [DecidableLT α] (x : α) : α := if 0 < x then 1 else if x < 0 then -1 else 0
/-- `numpy.abs` -/
def absS [LT α] [DecidableLT α] (x : α) : α := if x < 0 then -x else x

/-! ### R/Rdot contour ∩ plane (`_image_to_ground_plane_perform`) -/

/-- every intermediate quantity of `_image_to_ground_plane_perform`, named as in the code -/
structure PlaneTerms (α : Type) where
  arpZ : α
  aGPN : V3 α
  gd : α
  cosGraz : α
  sinGraz : α
  vMag : α
  vZ : α
  vX : α
  uX : V3 α
  uY : V3 α
  cosAz : α
  look : α
  sinAz : α

variable [Sqrt α] [LT α] [DecidableLT α]

def planeTerms (arp varp gref uZ : V3 α) (r rdot : α) : PlaneTerms α :=
  let arpZ := V3.dot (V3.sub arp gref) uZ                 -- arpZ = sum((arp_coa - gref)*uZ)
  let aGPN := V3.sub arp (V3.smul arpZ uZ)                 -- aGPN = arp_coa - outer(arpZ, uZ)
  let gd := Sqrt.sqrt (r * r - arpZ * arpZ)                -- gd = sqrt(r*r - arpZ*arpZ)
  let cosGraz := gd / r
  let sinGraz := arpZ / r
  let vMag := V3.norm varp
  let vZ := V3.dot varp uZ
  let vX := Sqrt.sqrt (vMag * vMag - vZ * vZ)
  let uX := V3.sdiv (V3.sub varp (V3.smul vZ uZ)) vX       -- uX = (varp - outer(vZ, uZ))/vX
  let uY := V3.cross uZ uX
  let cosAz := (-rdot + vZ * sinGraz) / (vX * cosGraz)
  let look := sgn (V3.dot (V3.cross (V3.sub arp gref) varp) uZ)
  let sinAz := look * Sqrt.sqrt (1 - cosAz * cosAz)
  { arpZ, aGPN, gd, cosGraz, sinGraz, vMag, vZ, vX, uX, uY, cosAz, look, sinAz }

/-- the returned point, without the two masks -/
def planePointRaw (arp varp gref uZ : V3 α) (r rdot : α) : V3 α :=
  let t := planeTerms arp varp gref uZ r rdot
  V3.add (V3.add t.aGPN (V3.smul (t.gd * t.cosAz) t.uX)) (V3.smul (t.gd * t.sinAz) t.uY)

/-- with the masks `arpZ[arpZ > r] = nan` and `cosAz[abs(cosAz) > 1] = nan` -/
def planePoint (arp varp gref uZ : V3 α) (r rdot : α) : Option (V3 α) :=
  let t := planeTerms arp varp gref uZ r rdot
  if r < t.arpZ then none
  else if 1 < absS t.cosAz then none
  else some (planePointRaw arp varp gref uZ r rdot)

/-- range rate of a ground point `p` seen from `arp` moving with `varp` -/
def rangeRate (arp varp p : V3 α) : α :=
  -(V3.dot varp (V3.sub p arp)) / V3.norm (V3.sub p arp)

/-! ### pixel → (time, ARP, VARP, R, Rdot) (`COAProjection`) -/

structure Coa (α : Type) where
  tcoa : List (List α)
  arpX : List α
  arpY : List α
  arpZ : List α
  rowShift : α
  rowMult : α
  colShift : α
  colMult : α
  dArp : V3 α
  dVarp : V3 α
  rangeBias : α

variable [NatCast α]

def Coa.xrow (c : Coa α) (row : α) : α := (row - c.rowShift) * c.rowMult
def Coa.ycol (c : Coa α) (col : α) : α := (col - c.colShift) * c.colMult
def Coa.timeCoa (c : Coa α) (xr yc : α) : α := Poly.eval2 c.tcoa xr yc
def Coa.arpAt (c : Coa α) (t : α) : V3 α := ⟨Poly.eval c.arpX t, Poly.eval c.arpY t, Poly.eval c.arpZ t⟩
def Coa.varpAt (c : Coa α) (t : α) : V3 α :=
  ⟨Poly.eval (Poly.der c.arpX) t, Poly.eval (Poly.der c.arpY) t, Poly.eval (Poly.der c.arpZ) t⟩

/-- the image-formation specific part -/
inductive Method (α : Type) where
  | pfa (scp : V3 α) (polarAng ksf : List α)
  | rgazcomp (scp : V3 α) (azSF : α)
  | inca (rCaScp : α) (timeCA : List α) (drsf : List (List α))
  | plane (scp uRow uCol : V3 α)
  | siddPlane (srp : V3 α) (srpRow srpCol : α) (rowVec colVec : V3 α)

variable [Trig α]

/-- range and range rate of the SCP at time t: `rSCPTgtCoa`, `rDotSCPTgtCoa` -/
def scpRRdot (scp arp varp : V3 α) : α × α :=
  let d := V3.sub arp scp
  let r := V3.norm d
  (r, V3.dot varp d / r)

/-- PFA: the polar-format range / range-rate offsets (lines 185-209) -/
def pfaDelta (polarAng ksf : List α) (xr yc t : α) : α × α :=
  let theta := Poly.eval polarAng t
  let dThetaDt := Poly.eval (Poly.der polarAng) t
  let k := Poly.eval ksf theta
  let dk := Poly.eval (Poly.der ksf) theta
  let dPhiDKa := xr * Trig.cos theta + yc * Trig.sin theta
  let dPhiDKc := -xr * Trig.sin theta + yc * Trig.cos theta
  let deltaR := k * dPhiDKa
  let dDeltaRDTheta := dk * dPhiDKa + k * dPhiDKc
  (deltaR, dDeltaRDTheta * dThetaDt)

/-- INCA (lines 262-275) -/
def incaRRdot (c : Coa α) (rCaScp : α) (timeCA : List α) (drsf : List (List α)) (xr yc t : α) : α × α :=
  let rCa := rCaScp + xr
  let tCa := Poly.eval timeCA yc
  let v := c.varpAt tCa
  let vel2 := V3.dot v v
  let d := Poly.eval2 drsf xr yc
  let dt := t - tCa
  let r := Sqrt.sqrt (rCa * rCa + d * vel2 * dt * dt)
  (r, (d / r) * vel2 * dt)

/-- planar grids: range / range rate of the image plane point (lines 304-308, 418-423) -/
def ippRRdot (ipp arp varp : V3 α) : α × α :=
  let d := V3.sub arp ipp
  let r := V3.norm d
  (r, V3.dot varp d / r)

def Method.rrdot (c : Coa α) : Method α → (xr yc t : α) → (arp varp : V3 α) → α × α
  | .pfa scp pa ksf, xr, yc, t, arp, varp =>
    let s := scpRRdot scp arp varp
    let d := pfaDelta pa ksf xr yc t
    (s.1 + d.1, s.2 + d.2)
  | .rgazcomp scp azSF, xr, yc, _, arp, varp =>
    let s := scpRRdot scp arp varp
    (s.1 + xr, s.2 + (-(V3.norm varp) * azSF * yc))
  | .inca rCaScp tca drsf, xr, yc, t, _, _ => incaRRdot c rCaScp tca drsf xr yc t
  | .plane scp uRow uCol, xr, yc, _, arp, varp =>
    ippRRdot (V3.add (V3.add scp (V3.smul xr uRow)) (V3.smul yc uCol)) arp varp
  | .siddPlane srp r0 c0 rowVec colVec, xr, yc, _, arp, varp =>
    ippRRdot (V3.add (V3.add srp (V3.smul (xr - r0) rowVec)) (V3.smul (yc - c0) colVec)) arp varp

structure CoaOut (α : Type) where
  r : α
  rdot : α
  t : α
  arp : V3 α
  varp : V3 α

/-- `COAProjection.projection` for one image point -/
def projection (c : Coa α) (m : Method α) (row col : α) : CoaOut α :=
  let xr := c.xrow row
  let yc := c.ycol col
  let t := c.timeCoa xr yc
  let arp := c.arpAt t
  let varp := c.varpAt t
  let rr := m.rrdot c xr yc t arp varp
  { r := rr.1 + c.rangeBias, rdot := rr.2, t := t, arp := V3.add arp c.dArp, varp := V3.add varp c.dVarp }

/-- `_image_to_ground_plane` for one image point -/
def imageToPlane (c : Coa α) (m : Method α) (gref uZ : V3 α) (p : α × α) : Option (V3 α) :=
  let o := projection c m p.1 p.2
  planePoint o.arp o.varp gref uZ o.r o.rdot

/-- the vectorised call: one result per input row -/
def imageToPlaneBatch (c : Coa α) (m : Method α) (gref uZ : V3 α) (pts : List (α × α)) : List (Option (V3 α)) :=
  pts.map (imageToPlane c m gref uZ)

end

/-! ### block processing (`start_block … end_block` loops) -/

def blocksFuel {β : Type} (n : Nat) : Nat → List β → List (List β)
  | 0, _ => []
  | f + 1, l => if l.isEmpty then [] else l.take n :: blocksFuel n f (l.drop n)

/-- consecutive blocks of `n` rows (the last one shorter) -/
def blocks {β : Type} (n : Nat) (l : List β) : List (List β) := blocksFuel n l.length l

/-- process block by block with a vectorised function and write the pieces back in place -/
def blockwise {β γ : Type} (F : List β → List γ) (n : Nat) (l : List β) : List γ :=
  ((blocks n l).map F).flatten

/-! ### the iterations, abstractly: body first, then the continuation test -/

/-- `while cont: iters += 1; s = step s; cont = test(s) and iters < maxIter`.
    First argument: iterations still allowed after the current one.  Returns the final state and
    the number of iterations performed. -/
def doWhileAux {σ : Type} (step : σ → σ) (cont : σ → Bool) : Nat → Nat → σ → σ × Nat
  | 0, k, s => (step s, k + 1)
  | r + 1, k, s =>
    let s' := step s
    if cont s' then doWhileAux step cont r (k + 1) s' else (s', k + 1)

def doWhile {σ : Type} (step : σ → σ) (cont : σ → Bool) (maxIter : Nat) (s : σ) : σ × Nat :=
  doWhileAux step cont (maxIter - 1) 0 s

section
variable {α : Type} [Add α] [Sub α] [Mul α] [Div α] [Neg α] [Zero α] [One α] [Sqrt α] [LT α] [DecidableLT α]

/-- per-point data of the constant-HAE iteration -/
structure HaePt (α : Type) where
  arp : V3 α
  varp : V3 α
  r : α
  rdot : α
  gref : V3 α      -- current ground reference point
  gpp : V3 α       -- current ground plane point
  dh : α           -- current height error `delta_hae`

/-- loop body for one point (lines 1493-1500); `hgt` is the geodetic height (`ecf_to_geodetic(.)[2]`) -/
def haeStep (hgt : V3 α → α) (hae0 : α) (ugpn : V3 α) (p : HaePt α) : HaePt α :=
  let gpp := planePointRaw p.arp p.varp p.gref ugpn p.r p.rdot
  let dh := hgt gpp - hae0
  { p with gpp := gpp, dh := dh, gref := V3.sub gpp (V3.smul dh ugpn) }

def maxAbs (l : List α) : α := l.foldl (fun m x => if m < absS x then absS x else m) 0

/-- `max_abs_delta_hae > tolerance` over the batch -/
def haeCont (tol : α) (st : List (HaePt α)) : Bool := decide (tol < maxAbs (st.map (·.dh)))

/-- `numpy.any(delta_gpn > tolerance)` over the batch -/
def g2iCont (tol : α) (delta : List α) : Bool := delta.any (fun d => decide (tol < d))

end

/-! ### the stored COA projection of a structure (`SICDType.define_coa_projection`, SICD.py:684-721; SIDD twins)

  `define_coa_projection(params, override)` returns without effect when a projection is stored and `override` is false; otherwise
  it stores the projection built from `params`.  The structure's own `project_*` methods use the stored projection (defining the
  default one, `override=False`, if nothing is stored).  `P` is the type of adjustable-parameter sets. -/
def coaDefine {P : Type} (st : Option P) (op : P × Bool) : Option P :=
  if st.isSome && !op.2 then st else some op.1

/-- the projection in effect after a history of `define_coa_projection` calls on a fresh structure -/
def coaRun {P : Type} (ops : List (P × Bool)) : Option P := ops.foldl coaDefine none

/-- what a `project_*` method of the structure uses: the stored projection, else the default one -/
def coaUsed {P : Type} (dflt : P) (st : Option P) : P := st.getD dflt

end Sarpy.Spec.Proj
