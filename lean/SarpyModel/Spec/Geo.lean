/-
  Spec.Geo — sarpy/geometry/geocoords.py as definitions over a generic scalar type.

  Import-free, total, computable.  Arithmetic comes from the ordinary `Add/Sub/Mul/Div/Neg`
  classes, everything else (numerals, sqrt, sin, cos, atan2, power, abs, pi, comparison) from the
  small class `GeoScalar`.  The driver instantiates the scalars at `Float` (binary64, C libm),
  `Props/C12.lean` at `ℝ` (Mathlib).  Operation order and association follow the Python text so
  that the Float instance differs from numpy only by the last-bit behaviour of libm functions.

  Code anchors (sarpy/geometry/geocoords.py):
    cA … cEB2            lines 12-22   module constants _A, _F, _B, _A2, _B2, _E2, _E4, _OME2, _EB2
    heikF … heikR0       lines 70-76   intermediates of the closed-form inverse, one definition per line
    ecfToGeodeticLL      lines 57-91   closed-form inverse (validity test, intermediates, lon/lat/alt)
    ecfToGeodetic        lines 81-92   … with the `ordering` index permutation
    geodeticToEcfLL      lines 125-130 forward map
    geodeticToEcf        lines 114-121 … with the `ordering` index permutation
    wgs84Norm            lines 149-150
    nedMatrix            lines 174-185 matrix1.dot(matrix2)
    enuMatrix            lines 265-267 ned_matrix.dot(ned_to_enu)
    ecfToNed/nedToEcf    lines 207-214 / 238-245
    ecfToEnu/enuToEcf    lines 289-296 / 320-327
    *Arr / *Nested       `_validate` (reshape to (-1, 3)), row-wise evaluation, reshape back
-/
namespace Sarpy.Spec.Geo

/-- the non-ring operations the geodesy code needs -/
class GeoScalar (α : Type) where
  ofNat : Nat → α
  sqrt : α → α
  sin : α → α
  cos : α → α
  /-- `atan2 y x` (numpy.arctan2 argument order) -/
  atan2 : α → α → α
  /-- `pow x y = x ** y` -/
  pow : α → α → α
  abs : α → α
  pi : α
  /-- `lt a b = (a < b)` -/
  lt : α → α → Bool

structure V3 (α : Type) where
  x : α
  y : α
  z : α
deriving Repr

/-- rows `r0 r1 r2`; entry (i, j) is component j of row i (numpy `[[..],[..],[..]]`) -/
structure M3 (α : Type) where
  r0 : V3 α
  r1 : V3 α
  r2 : V3 α
deriving Repr

open GeoScalar

variable {α : Type} [Add α] [Sub α] [Mul α] [Div α] [Neg α] [GeoScalar α]

/-! ### vectors and 3×3 matrices (numpy `dot`, `transpose`, broadcasting `-`/`+`) -/

def V3.add (a b : V3 α) : V3 α := ⟨a.x + b.x, a.y + b.y, a.z + b.z⟩
def V3.sub (a b : V3 α) : V3 α := ⟨a.x - b.x, a.y - b.y, a.z - b.z⟩
def V3.smul (k : α) (a : V3 α) : V3 α := ⟨k * a.x, k * a.y, k * a.z⟩
def V3.dot (a b : V3 α) : α := a.x * b.x + a.y * b.y + a.z * b.z

def M3.col0 (m : M3 α) : V3 α := ⟨m.r0.x, m.r1.x, m.r2.x⟩
def M3.col1 (m : M3 α) : V3 α := ⟨m.r0.y, m.r1.y, m.r2.y⟩
def M3.col2 (m : M3 α) : V3 α := ⟨m.r0.z, m.r1.z, m.r2.z⟩
def M3.transpose (m : M3 α) : M3 α := ⟨m.col0, m.col1, m.col2⟩

/-- row vector times matrix, `v.dot(m)`: component j is `Σ_i v_i m_ij` -/
def vecMat (v : V3 α) (m : M3 α) : V3 α := ⟨V3.dot v m.col0, V3.dot v m.col1, V3.dot v m.col2⟩

/-- `a.dot(b)` for 3×3 arrays -/
def matMul (a b : M3 α) : M3 α := ⟨vecMat a.r0 b, vecMat a.r1 b, vecMat a.r2 b⟩

def M3.one : M3 α := ⟨⟨ofNat 1, ofNat 0, ofNat 0⟩, ⟨ofNat 0, ofNat 1, ofNat 0⟩, ⟨ofNat 0, ofNat 0, ofNat 1⟩⟩

/-- determinant (not computed by sarpy; used to state that the frames are proper rotations) -/
def M3.det (m : M3 α) : α :=
  m.r0.x * (m.r1.y * m.r2.z - m.r1.z * m.r2.y) - m.r0.y * (m.r1.x * m.r2.z - m.r1.z * m.r2.x)
    + m.r0.z * (m.r1.x * m.r2.y - m.r1.y * m.r2.x)

/-! ### WGS-84 constants, lines 12-22 -/

/-- `_A = 6378137.0` -/
def cA : α := ofNat 6378137
/-- `_F = 1/298.257223563`; the decimal literal is the correctly rounded quotient of two exact integers -/
def cF : α := ofNat 1 / (ofNat 298257223563 / ofNat 1000000000)
/-- `_B = _A - _F*_A` -/
def cB : α := cA - cF * cA
def cA2 : α := cA * cA
def cB2 : α := cB * cB
/-- `_E2 = (_A2-_B2)/_A2` -/
def cE2 : α := (cA2 - cB2) / cA2
def cE4 : α := cE2 * cE2
/-- `_OME2 = 1.0 - _E2` -/
def cOME2 : α := ofNat 1 - cE2
/-- `_EB2 = (_A2 - _B2)/_B2` -/
def cEB2 : α := (cA2 - cB2) / cB2

/-- numpy.deg2rad: `x * (pi/180)` -/
def deg2rad (x : α) : α := x * (pi / ofNat 180)
/-- numpy.rad2deg: `x * (180/pi)` -/
def rad2deg (x : α) : α := x * (ofNat 180 / pi)

/-! ### forward map, lines 95-131 -/

/-- prime-vertical radius `_A / sqrt(1 - _E2 sin² lat)`, line 125 (latitude in degrees) -/
def primeVertical (lat : α) : α :=
  cA / sqrt (ofNat 1 - cE2 * sin (deg2rad lat) * sin (deg2rad lat))

/-- lines 125-130 for one point; latitude, longitude in degrees, height in metres -/
def geodeticToEcfLL (lat lon alt : α) : V3 α :=
  let r := primeVertical lat
  ⟨(r + alt) * cos (deg2rad lat) * cos (deg2rad lon),
   (r + alt) * cos (deg2rad lat) * sin (deg2rad lon),
   (r + alt - cE2 * r) * sin (deg2rad lat)⟩

/-- lines 114-121: `longlat = true` reads `[lon, lat, h]`, otherwise `[lat, lon, h]` -/
def geodeticToEcf (longlat : Bool) (c : V3 α) : V3 α :=
  if longlat then geodeticToEcfLL c.y c.x c.z else geodeticToEcfLL c.x c.y c.z

/-! ### closed-form inverse, lines 38-92 -/

/-- line 66: the validity test -/
def ecfValid (v : V3 α) : Bool :=
  let r := sqrt (v.x * v.x + v.y * v.y)
  lt ((cA2 - cB2) * (cA2 - cB2)) ((cA * r) * (cA * r) + (cB * v.z) * (cB * v.z))

/-! lines 70-76, the intermediates of Heikkinen's closed form as functions of `r = sqrt(x² + y²)` and `z`
    (same operations in the same order as the Python text; split into stages so that `Props/C12Inv.lean` can
    reason about them one at a time) -/

/-- line 70: `F = 54.0*_B2*z*z` -/
def heikF (z : α) : α := ofNat 54 * cB2 * z * z
/-- line 71: `G = r*r + _OME2*z*z - _E2*(_A2 - _B2)` -/
def heikG (r z : α) : α := r * r + cOME2 * z * z - cE2 * (cA2 - cB2)
/-- line 72: `C = _E4*F*r*r/(G*G*G)` -/
def heikC (r z : α) : α := cE4 * heikF z * r * r / (heikG r z * heikG r z * heikG r z)
/-- line 73: `S = (1.0 + C + numpy.sqrt(C*C + 2*C))**(1./3)` -/
def heikS (r z : α) : α :=
  let C := heikC r z
  pow (ofNat 1 + C + sqrt (C * C + ofNat 2 * C)) (ofNat 1 / ofNat 3)
/-- line 74: `P = F/(3.0*(G*(S + 1.0/S + 1.0))**2)` -/
def heikP (r z : α) : α :=
  let S := heikS r z
  let t := heikG r z * (S + ofNat 1 / S + ofNat 1)
  heikF z / (ofNat 3 * (t * t))
/-- line 75: `Q = numpy.sqrt(1.0 + 2.0*_E4*P)` -/
def heikQ (r z : α) : α := sqrt (ofNat 1 + ofNat 2 * cE4 * heikP r z)
/-- line 76: `R0 = -P*_E2*r/(1.0 + Q) + numpy.sqrt(numpy.abs(0.5*_A2*(1.0 + 1/Q) - P*_OME2*z*z/(Q*(1.0 + Q)) - 0.5*P*r*r))` -/
def heikR0 (r z : α) : α :=
  let one : α := ofNat 1
  let half : α := ofNat 1 / ofNat 2
  let P := heikP r z
  let Q := heikQ r z
  (-P) * cE2 * r / (one + Q)
    + sqrt (abs (half * cA2 * (one + one / Q) - P * cOME2 * z * z / (Q * (one + Q)) - half * P * r * r))

/-- lines 57-91 for one valid point: `(lat, lon, alt)`, degrees / metres -/
def ecfToGeodeticLL (v : V3 α) : V3 α :=
  let x := v.x
  let y := v.y
  let z := v.z
  let one : α := ofNat 1
  let r := sqrt (x * x + y * y)
  let R0 := heikR0 r z
  let T := r - cE2 * R0
  let U := sqrt (T * T + z * z)
  let V := sqrt (T * T + cOME2 * z * z)
  let z0 := cB2 * z / (cA * V)
  ⟨rad2deg (atan2 (z + cEB2 * z0) r), rad2deg (atan2 y x), U * (one - cB2 / (cA * V))⟩

/-- one row of `ecf_to_geodetic`: `none` stands for the NaN row left where the validity test fails;
    `longlat = true` returns `[lon, lat, h]`, otherwise `[lat, lon, h]` -/
def ecfToGeodetic (longlat : Bool) (v : V3 α) : Option (V3 α) :=
  if ecfValid v then
    let g := ecfToGeodeticLL v
    some (if longlat then ⟨g.y, g.x, g.z⟩ else g)
  else none

/-! ### ellipsoid normal, lines 134-151 -/

def wgs84Norm (v : V3 α) : V3 α :=
  let g : V3 α := ⟨v.x / cA2, v.y / cA2, v.z / cB2⟩
  let n := sqrt (g.x * g.x + g.y * g.y + g.z * g.z)
  ⟨g.x / n, g.y / n, g.z / n⟩

/-! ### local frames, lines 154-327 -/

/-- lines 176-185 from the latitude / longitude (degrees) of the reference point -/
def nedMatrix (lat lon : α) : M3 α :=
  let angle2 := deg2rad (-(ofNat 90) - lat)
  let angle1 := deg2rad lon
  let o : α := ofNat 0
  let i : α := ofNat 1
  let matrix1 : M3 α := ⟨⟨cos angle1, -(sin angle1), o⟩, ⟨sin angle1, cos angle1, o⟩, ⟨o, o, i⟩⟩
  let matrix2 : M3 α := ⟨⟨cos angle2, o, sin angle2⟩, ⟨o, i, o⟩, ⟨-(sin angle2), o, cos angle2⟩⟩
  matMul matrix1 matrix2

/-- line 266 -/
def nedToEnu : M3 α :=
  ⟨⟨ofNat 0, ofNat 1, ofNat 0⟩, ⟨ofNat 1, ofNat 0, ofNat 0⟩, ⟨ofNat 0, ofNat 0, -(ofNat 1)⟩⟩

/-- lines 265-267 -/
def enuMatrix (lat lon : α) : M3 α := matMul (nedMatrix lat lon) nedToEnu

/-- lines 210-213 / 292-295 with the matrix given -/
def toLocal (m : M3 α) (v orp : V3 α) (absolute : Bool) : V3 α :=
  if absolute then vecMat (V3.sub v orp) m else vecMat v m

/-- lines 238-245 / 320-327 with the matrix given -/
def fromLocal (m : M3 α) (n orp : V3 α) (absolute : Bool) : V3 α :=
  let out := vecMat n m.transpose
  if absolute then V3.add out orp else out

/-- line 174: latitude / longitude of the reference point through the closed-form inverse -/
def orpLatLon (orp : V3 α) : Option (α × α) :=
  (ecfToGeodetic false orp).map (fun g => (g.x, g.y))

def ecfToNed (v orp : V3 α) (absolute : Bool) : Option (V3 α) :=
  (orpLatLon orp).map (fun ll => toLocal (nedMatrix ll.1 ll.2) v orp absolute)
def nedToEcf (n orp : V3 α) (absolute : Bool) : Option (V3 α) :=
  (orpLatLon orp).map (fun ll => fromLocal (nedMatrix ll.1 ll.2) n orp absolute)
def ecfToEnu (v orp : V3 α) (absolute : Bool) : Option (V3 α) :=
  (orpLatLon orp).map (fun ll => toLocal (enuMatrix ll.1 ll.2) v orp absolute)
def enuToEcf (n orp : V3 α) (absolute : Bool) : Option (V3 α) :=
  (orpLatLon orp).map (fun ll => fromLocal (enuMatrix ll.1 ll.2) n orp absolute)

/-! ### arrays: `_validate` flattens to rows of three, the function works row by row, the result is
    reshaped back.  An array of shape `(n, 3)` is a list of rows, one of shape `(m, n, 3)` a list of
    such lists. -/

def geodeticToEcfArr (longlat : Bool) (rows : List (V3 α)) : List (V3 α) := rows.map (geodeticToEcf longlat)
def ecfToGeodeticArr (longlat : Bool) (rows : List (V3 α)) : List (Option (V3 α)) := rows.map (ecfToGeodetic longlat)

/-- split a flat list of rows back into blocks of the given lengths (numpy.reshape to the original shape) -/
def unflatten {β : Type} : List Nat → List β → List (List β)
  | [], _ => []
  | n :: ns, l => l.take n :: unflatten ns (l.drop n)

/-- shape `(m, n, 3)`: flatten (`reshape(-1, 3)`), row-wise, reshape back -/
def geodeticToEcfNested (longlat : Bool) (a : List (List (V3 α))) : List (List (V3 α)) :=
  unflatten (a.map List.length) (geodeticToEcfArr longlat a.flatten)

end Sarpy.Spec.Geo
