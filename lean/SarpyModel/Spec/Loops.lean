/-
  Spec.Loops — reference side of the kernels with loops regenerated into `Gen/Loops.lean` (translate/gen_loops.py).
  Every definition here is a thin Int / tuple presentation of an existing Spec definition (Spec.Layout, Spec.Chip), so that the
  bridge theorems of Bridge/Loops.lean carry the existing deep theorems (Props/C03, Props/C15) over to the regenerated code.

  Code anchors:
    segBoxes      = default_image_segmentation(rows, cols, row_limit)            sarpy/io/general/nitf.py
    blockBounds   = _construct_block_bounds(image_header)                        sarpy/io/general/nitf.py
    subsetKernel  = SICDType.create_subset_structure, the four ImageData fields  sarpy/io/complex/sicd_elements/SICD.py
    rowsPerBlockI = Converter._get_rows_per_block                                sarpy/io/complex/converter.py
    writeTrace    = Converter.write_data: (window read, position written) per block
-/
import SarpyModel.Spec.PyLoops
import SarpyModel.Spec.Layout
import SarpyModel.Spec.Chip
import SarpyModel.Spec.Kernels2
namespace Sarpy.Spec.L
open Sarpy Sarpy.Spec Sarpy.Spec.Layout Sarpy.Spec.Chip

/-- `(row start, row end, column start, column end)` -/
abbrev Box := Int × Int × Int × Int

def Box.Contains (b : Box) (r c : Int) : Prop := b.1 ≤ r ∧ r < b.2.1 ∧ b.2.2.1 ≤ c ∧ c < b.2.2.2

instance (b : Box) (r c : Int) : Decidable (b.Contains r c) := by unfold Box.Contains; exact inferInstance

/-! ### default_image_segmentation -/

def rowBox (cols : Int) (s : Nat × Nat) : Box := ((s.1 : Int), (s.2 : Int), 0, cols)

/-- the row segmentation of Spec.Layout, every piece spanning all columns -/
def segBoxes (rows cols rowLimit : Int) : List Box :=
  (segmentation rows.toNat rowLimit.toNat).map (rowBox cols)

/-- test and step of the loop as pure functions of the loop state `(im_segments, row_offset)` -/
def segCond (rows : Int) (st : List Box × Int) : Bool := decide (st.2 < rows)
def segStep (rows cols lim : Int) (st : List Box × Int) : List Box × Int :=
  (st.1 ++ [(st.2, min rows (st.2 + lim), 0, cols)], min rows (st.2 + lim))

/-! ### _construct_block_bounds -/

/-- one row of blocks: `nbpr` blocks of `rbs x cbs` pixels, block row `i` -/
def blockRow (rbs cbs : Int) (nbpr : Nat) (i : Int) : List Box :=
  (List.range nbpr).map (fun (j : Nat) => (i * rbs, (i + 1) * rbs, (j : Int) * cbs, ((j : Int) + 1) * cbs))

/-- the padded block grid in row-major block order -/
def blockGrid (nbpc nbpr : Nat) (rbs cbs : Int) : List Box :=
  (List.range nbpc).flatMap (fun (i : Nat) => blockRow rbs cbs nbpr (i : Int))

/-- the two validity checks: the blocks cover the image and less than one block is padding -/
def blocksFit (n bs nb : Int) : Prop := n ≤ bs * nb ∧ bs * nb < n + bs

instance (n bs nb : Int) : Decidable (blocksFit n bs nb) := by unfold blocksFit; exact inferInstance

/-- `_construct_block_bounds`; `none` = `ValueError` -/
def blockBounds (nrows ncols nppbv nppbh nbpr nbpc : Int) : Option (List Box) :=
  let cbs := K2.effBlock nppbh ncols
  let rbs := K2.effBlock nppbv nrows
  if blocksFit ncols cbs nbpr ∧ blocksFit nrows rbs nbpc then some (blockGrid nbpc.toNat nbpr.toNat rbs cbs) else none

/-- steps of the two loops on their states `(block_col_start, bounds)` / `(block_row_start, bounds)` -/
def colStep (cbs r0 r1 : Int) (st : Int × List Box) : Int × List Box := (st.1 + cbs, st.2 ++ [(r0, r1, st.1, st.1 + cbs)])
def rowStep (nbpr : Nat) (rbs cbs : Int) (st : Int × List Box) : Int × List Box :=
  (st.1 + rbs, (iterRange (fun _ => colStep cbs st.1 (st.1 + rbs)) nbpr 0 (0, st.2)).2)

/-! ### create_subset_structure -/

def optBounds (has : Bool) (a b : Int) : Option (Int × Int) := if has then some (a, b) else none

/-- the four ImageData fields the method rewrites and the vetted bounds, from Spec.Chip.subsetStructure
    (SCPPixel / FullImage are not touched by the code and are irrelevant to the result: any values do) -/
def subsetKernel (fr nr fc nc : Int) (rb cb : Option (Int × Int)) : Option ((Int × Int × Int × Int) × (Int × Int) × (Int × Int)) :=
  match subsetStructure ⟨⟨fr, nr, 0, 0⟩, ⟨fc, nc, 0, 0⟩⟩ rb cb with
  | some (m, rbo, cbo) => some ((m.row.first, m.row.num, m.col.first, m.col.num), rbo, cbo)
  | none => none

/-! ### converter -/

abbrev Tr6 := Int × Int × Int × Int × Int × Int

/-- what one block of `write_data` does: read parent rows `[s.1, s.2)` x columns `[c0, c1)`, write at chip row `s.1 - r0`, column 0 -/
def blockTrace (r0 c0 c1 : Int) (s : Nat × Nat) : Tr6 := ((s.1 : Int), (s.2 : Int), c0, c1, (s.1 : Int) - r0, 0)

def writeTrace (mbs : Option Nat) (pixelType cols r0 r1 : Nat) (c0 c1 : Int) : List Tr6 :=
  (converterBlocks r0 r1 (rowsPerBlock mbs pixelType cols)).map (blockTrace r0 c0 c1)

def wdCond (r1 : Int) (st : Int × List Tr6) : Bool := decide (st.1 < r1)
def wdStep (r0 r1 c0 c1 rpb : Int) (st : Int × List Tr6) : Int × List Tr6 :=
  (min (st.1 + rpb) r1, st.2 ++ [(st.1, min (st.1 + rpb) r1, c0, c1, st.1 - r0, 0)])

/-! ### SIDD writer: the image segment headers of one product image (`SIDDWritingDetails._create_image_segment_for_sidd`) -/

/-- `(image number, segment number, NROWS, NCOLS, NPPBH, NPPBV, IDLVL, IALVL, ILOC row offset)`; the first two are the numbers in
    `IID1 = 'SIDD{image:03d}{segment:03d}'`, the ILOC column offset is always 0 -/
abbrev Hdr9 := Int × Int × Int × Int × Int × Int × Int × Int × Int

def Box.rows (b : Box) : Int := b.2.1 - b.1
def Box.cols (b : Box) : Int := b.2.2.2 - b.2.2.1

/-- NPPBH / NPPBV: one block spanning the segment, written as 0 when it has more than 8192 pixels in that direction -/
def blockOrWhole (n : Int) : Int := if n > 8192 then 0 else n

/-- header of segment `i` (0-based) of product image `siddIndex` (0-based) when `start` image segments precede it in the file;
    `prevRows` = rows of the previous segment of this image.  Display level = position in the file + 1; every segment but the first is
    attached to its predecessor and located `prevRows` rows below it -/
def siddHeader (siddIndex start i prevRows : Int) (b : Box) : Hdr9 :=
  (siddIndex + 1, i + 1, b.rows, b.cols, blockOrWhole b.cols, blockOrWhole b.rows, start + i + 1,
    if i = 0 then 0 else start + i, if i = 0 then 0 else prevRows)

def siddHeadersFrom (siddIndex start : Int) : Int → Int → List Box → List Hdr9
  | _, _, [] => []
  | i, prevRows, b :: rest => siddHeader siddIndex start i prevRows b :: siddHeadersFrom siddIndex start (i + 1) b.rows rest

def siddHeaders (siddIndex start : Int) (boxes : List Box) : List Hdr9 := siddHeadersFrom siddIndex start 0 0 boxes

/-- the file positions of the segments of this image: `start, start + 1, ...` -/
def siddIndicesFrom : Int → List Box → List Int
  | _, [] => []
  | k, _ :: rest => k :: siddIndicesFrom (k + 1) rest

/-- rows of the entry before position `i` of the whole list (what `image_segment_limits[i-1]` reads) -/
def prevRowsAt (l : List Box) (i : Int) : Int :=
  match l[(i - 1).toNat]? with
  | some b => b.rows
  | none => 0

/-- step of the loop on its state `(image_segment_indices, total_image_count, trace)` -/
def hdrStep (siddIndex : Int) (l : List Box) (i : Int) (b : Box) (st : List Int × Int × List Hdr9) : List Int × Int × List Hdr9 :=
  (st.1 ++ [st.2.1], st.2.1 + 1,
    st.2.2 ++ [(siddIndex + 1, i + 1, b.rows, b.cols, blockOrWhole b.cols, blockOrWhole b.rows, st.2.1 + 1,
      if i = 0 then 0 else st.2.1, if i = 0 then 0 else prevRowsAt l i)])

end Sarpy.Spec.L
