/-
  Spec.Loops — reference side of the kernels with loops regenerated into `Gen/Loops.lean` (translate/gen_loops.py).
  Every definition here is a thin Int / tuple presentation of an existing Spec definition (Spec.Layout, Spec.Chip), so that the
  bridge theorems of Bridge/Loops.lean carry the existing deep theorems (Props/C03, Props/C15) over to the regenerated code.

  Code anchors:
    segBoxes      = default_image_segmentation(rows, cols, row_limit)            sarpy/io/general/nitf.py
    blockBounds   = _construct_block_bounds(image_header)                        sarpy/io/general/nitf.py
    subsetKernel  = SICDType.create_subset_structure, the four ImageData fields  sarpy/io/complex/sicd_elements/SICD.py
    rowsPerBlockI = Converter._get_rows_per_block                                sarpy/io/complex/converter.py
    writeTrace    = Converter.write_data: (window read, position written) per block
-/
import SarpyModel.Spec.PyLoops
import SarpyModel.Spec.Layout
import SarpyModel.Spec.Chip
import SarpyModel.Spec.Kernels2
namespace Sarpy.Spec.L
open Sarpy Sarpy.Spec Sarpy.Spec.Layout Sarpy.Spec.Chip

/-- `(row start, row end, column start, column end)` -/
abbrev Box := Int × Int × Int × Int

def Box.Contains (b : Box) (r c : Int) : Prop := b.1 ≤ r ∧ r < b.2.1 ∧ b.2.2.1 ≤ c ∧ c < b.2.2.2

instance (b : Box) (r c : Int) : Decidable (b.Contains r c) := by unfold Box.Contains; exact inferInstance

/-! ### default_image_segmentation -/

def rowBox (cols : Int) (s : Nat × Nat) : Box := ((s.1 : Int), (s.2 : Int), 0, cols)

/-- the row segmentation of Spec.Layout, every piece spanning all columns -/
def segBoxes (rows cols rowLimit : Int) : List Box :=
  (segmentation rows.toNat rowLimit.toNat).map (rowBox cols)

/-- test and step of the loop as pure functions of the loop state `(im_segments, row_offset)` -/
def segCond (rows : Int) (st : List Box × Int) : Bool := decide (st.2 < rows)
def segStep (rows cols lim : Int) (st : List Box × Int) : List Box × Int :=
  (st.1 ++ [(st.2, min rows (st.2 + lim), 0, cols)], min rows (st.2 + lim))

/-! ### _construct_block_bounds -/

/-- one row of blocks: `nbpr` blocks of `rbs x cbs` pixels, block row `i` -/
def blockRow (rbs cbs : Int) (nbpr : Nat) (i : Int) : List Box :=
  (List.range nbpr).map (fun (j : Nat) => (i * rbs, (i + 1) * rbs, (j : Int) * cbs, ((j : Int) + 1) * cbs))

/-- the padded block grid in row-major block order -/
def blockGrid (nbpc nbpr : Nat) (rbs cbs : Int) : List Box :=
  (List.range nbpc).flatMap (fun (i : Nat) => blockRow rbs cbs nbpr (i : Int))

/-- the two validity checks: the blocks cover the image and less than one block is padding -/
def blocksFit (n bs nb : Int) : Prop := n ≤ bs * nb ∧ bs * nb < n + bs

instance (n bs nb : Int) : Decidable (blocksFit n bs nb) := by unfold blocksFit; exact inferInstance

/-- `_construct_block_bounds`; `none` = `ValueError` -/
def blockBounds (nrows ncols nppbv nppbh nbpr nbpc : Int) : Option (List Box) :=
  let cbs := K2.effBlock nppbh ncols
  let rbs := K2.effBlock nppbv nrows
  if blocksFit ncols cbs nbpr ∧ blocksFit nrows rbs nbpc then some (blockGrid nbpc.toNat nbpr.toNat rbs cbs) else none

/-- steps of the two loops on their states `(block_col_start, bounds)` / `(block_row_start, bounds)` -/
def colStep (cbs r0 r1 : Int) (st : Int × List Box) : Int × List Box := (st.1 + cbs, st.2 ++ [(r0, r1, st.1, st.1 + cbs)])
def rowStep (nbpr : Nat) (rbs cbs : Int) (st : Int × List Box) : Int × List Box :=
  (st.1 + rbs, (iterRange (fun _ => colStep cbs st.1 (st.1 + rbs)) nbpr 0 (0, st.2)).2)

/-! ### create_subset_structure -/

def optBounds (has : Bool) (a b : Int) : Option (Int × Int) := if has then some (a, b) else none

/-- the four ImageData fields the method rewrites and the vetted bounds, from Spec.Chip.subsetStructure
    (SCPPixel / FullImage are not touched by the code and are irrelevant to the result: any values do) -/
def subsetKernel (fr nr fc nc : Int) (rb cb : Option (Int × Int)) : Option ((Int × Int × Int × Int) × (Int × Int) × (Int × Int)) :=
  match subsetStructure ⟨⟨fr, nr, 0, 0⟩, ⟨fc, nc, 0, 0⟩⟩ rb cb with
  | some (m, rbo, cbo) => some ((m.row.first, m.row.num, m.col.first, m.col.num), rbo, cbo)
  | none => none

/-! ### converter -/

abbrev Tr6 := Int × Int × Int × Int × Int × Int

/-- what one block of `write_data` does: read parent rows `[s.1, s.2)` x columns `[c0, c1)`, write at chip row `s.1 - r0`, column 0 -/
def blockTrace (r0 c0 c1 : Int) (s : Nat × Nat) : Tr6 := ((s.1 : Int), (s.2 : Int), c0, c1, (s.1 : Int) - r0, 0)

def writeTrace (mbs : Option Nat) (pixelType cols r0 r1 : Nat) (c0 c1 : Int) : List Tr6 :=
  (converterBlocks r0 r1 (rowsPerBlock mbs pixelType cols)).map (blockTrace r0 c0 c1)

def wdCond (r1 : Int) (st : Int × List Tr6) : Bool := decide (st.1 < r1)
def wdStep (r0 r1 c0 c1 rpb : Int) (st : Int × List Tr6) : Int × List Tr6 :=
  (min (st.1 + rpb) r1, st.2 ++ [(st.1, min (st.1 + rpb) r1, c0, c1, st.1 - r0, 0)])

/-! ### SIDD writer: the image segment headers of one product image (`SIDDWritingDetails._create_image_segment_for_sidd`) -/

/-- `(image number, segment number, NROWS, NCOLS, NPPBH, NPPBV, IDLVL, IALVL, ILOC row offset)`; the first two are the numbers in
    `IID1 = 'SIDD{image:03d}{segment:03d}'`, the ILOC column offset is always 0 -/
abbrev Hdr9 := Int × Int × Int × Int × Int × Int × Int × Int × Int

def Box.rows (b : Box) : Int := b.2.1 - b.1
def Box.cols (b : Box) : Int := b.2.2.2 - b.2.2.1

/-- NPPBH / NPPBV: one block spanning the segment, written as 0 when it has more than 8192 pixels in that direction -/
def blockOrWhole (n : Int) : Int := if n > 8192 then 0 else n

/-- header of segment `i` (0-based) of product image `siddIndex` (0-based) when `start` image segments precede it in the file;
    `prevRows` = rows of the previous segment of this image.  Display level = position in the file + 1; every segment but the first is
    attached to its predecessor and located `prevRows` rows below it -/
def siddHeader (siddIndex start i prevRows : Int) (b : Box) : Hdr9 :=
  (siddIndex + 1, i + 1, b.rows, b.cols, blockOrWhole b.cols, blockOrWhole b.rows, start + i + 1,
    if i = 0 then 0 else start + i, if i = 0 then 0 else prevRows)

def siddHeadersFrom (siddIndex start : Int) : Int → Int → List Box → List Hdr9
  | _, _, [] => []
  | i, prevRows, b :: rest => siddHeader siddIndex start i prevRows b :: siddHeadersFrom siddIndex start (i + 1) b.rows rest

def siddHeaders (siddIndex start : Int) (boxes : List Box) : List Hdr9 := siddHeadersFrom siddIndex start 0 0 boxes

/-- the file positions of the segments of this image: `start, start + 1, ...` -/
def siddIndicesFrom : Int → List Box → List Int
  | _, [] => []
  | k, _ :: rest => k :: siddIndicesFrom (k + 1) rest

/-- rows of the entry before position `i` of the whole list (what `image_segment_limits[i-1]` reads) -/
def prevRowsAt (l : List Box) (i : Int) : Int :=
  match l[(i - 1).toNat]? with
  | some b => b.rows
  | none => 0

/-- step of the loop on its state `(image_segment_indices, total_image_count, trace)` -/
def hdrStep (siddIndex : Int) (l : List Box) (i : Int) (b : Box) (st : List Int × Int × List Hdr9) : List Int × Int × List Hdr9 :=
  (st.1 ++ [st.2.1], st.2.1 + 1,
    st.2.2 ++ [(siddIndex + 1, i + 1, b.rows, b.cols, blockOrWhole b.cols, blockOrWhole b.rows, st.2.1 + 1,
      if i = 0 then 0 else st.2.1, if i = 0 then 0 else prevRowsAt l i)])

/-! ### attachment trees: absolute locations of the image segments of a collection from IDLVL / IALVL / ILOC
      (`_get_collection_element_coordinate_limits`, sarpy/io/general/nitf.py) -/

/-- `(IDLVL, IALVL, ILOC row offset, ILOC column offset, NROWS, NCOLS)` -/
abbrev Hdr6 := Int × Int × Int × Int × Int × Int
def Hdr6.idlvl (h : Hdr6) : Int := h.1
def Hdr6.ialvl (h : Hdr6) : Int := h.2.1
def Hdr6.iloc (h : Hdr6) : NpVec2 := (h.2.2.1, h.2.2.2.1)
def Hdr6.nrows (h : Hdr6) : Int := h.2.2.2.2.1
def Hdr6.ncols (h : Hdr6) : Int := h.2.2.2.2.2

def boxAt (q : NpVec2) (nrows ncols : Int) : Box := (q.1, q.1 + nrows, q.2, q.2 + ncols)

/-- one step of the `loc` loop on its state `(block_definition, loc)`: the segment sits at the location of the item it is attached to
    (looked up by display level) plus its own ILOC; its own location is recorded under its display level -/
def placeStep (st : List Box × PyDict2) (h : Hdr6) : List Box × PyDict2 :=
  (st.1 ++ [boxAt (npAdd2 (dictGetD st.2 h.ialvl) h.iloc) h.nrows h.ncols], dictSet st.2 h.idlvl (npAdd2 (dictGetD st.2 h.ialvl) h.iloc))

/-- the loop: the item the FIRST header is attached to is the origin -/
def decodeTree (hs : List Hdr6) : List Box :=
  match hs with
  | [] => []
  | h0 :: _ => (hs.foldl placeStep ([], [(h0.ialvl, (0, 0))])).1

/-- every header is attached to the origin or to a header before it (then the loop never meets an unknown display level) -/
def Attached : List Int → List Hdr6 → Prop
  | _, [] => True
  | keys, h :: rest => h.ialvl ∈ keys ∧ Attached (h.idlvl :: keys) rest

/-- the writer side, for ANY attachment tree: `n` tiles, tile `k` at absolute location `pos k` with `size k` = (rows, columns), display
    level `lvl k`; tile 0 is attached to `a0` (outside the collection: the origin), tile `k > 0` to tile `par k`; ILOC = own location
    minus the location of the parent -/
def encHdr (a0 : Int) (lvl : Nat → Int) (par : Nat → Nat) (pos size : Nat → NpVec2) (k : Nat) : Hdr6 :=
  if k = 0 then (lvl 0, a0, (pos 0).1, (pos 0).2, (size 0).1, (size 0).2)
  else (lvl k, lvl (par k), (pos k).1 - (pos (par k)).1, (pos k).2 - (pos (par k)).2, (size k).1, (size k).2)

def encodeTree (a0 : Int) (lvl : Nat → Int) (par : Nat → Nat) (pos size : Nat → NpVec2) (n : Nat) : List Hdr6 :=
  (List.range n).map (encHdr a0 lvl par pos size)

/-! the rest of the function (hand model, tied by correspondence): order by display level, validity checks, renormalisation -/

def insertByLvl (h : Hdr6) : List Hdr6 → List Hdr6
  | [] => [h]
  | x :: rest => if h.idlvl < x.idlvl then h :: x :: rest else x :: insertByLvl h rest

/-- `sorted(image_headers, key=lambda x: x.IDLVL)` (stable) -/
def sortByLvl (hs : List Hdr6) : List Hdr6 := hs.foldr insertByLvl []

def distinctLvls : List Hdr6 → Bool
  | [] => true
  | h :: rest => !(rest.any (fun x => x.idlvl == h.idlvl)) && distinctLvls rest

/-- the two checks: unique display levels; every header but the first is attached to a display level of the collection below its own -/
def validCollection (hs : List Hdr6) : Bool :=
  distinctLvls hs && (hs.drop 1).all (fun h => hs.any (fun x => x.idlvl == h.ialvl) && decide (h.ialvl < h.idlvl))

def minOf (d : Int) : List Int → Int
  | [] => d
  | x :: rest => rest.foldl min x

/-- `block_definition[:, 0:2] -= min_row; block_definition[:, 2:4] -= min_col` -/
def normalizeBoxes (bs : List Box) : List Box :=
  let mr := minOf 0 (bs.map (fun b => b.1))
  let mc := minOf 0 (bs.map (fun b => b.2.2.1))
  bs.map (fun b => (b.1 - mr, b.2.1 - mr, b.2.2.1 - mc, b.2.2.2 - mc))

/-- `_get_collection_element_coordinate_limits(image_headers)`; `none` = ValueError -/
def collectionLimits (hs : List Hdr6) : Option (List Box) :=
  let s := sortByLvl hs
  if validCollection s then some (normalizeBoxes (decodeTree s)) else none

end Sarpy.Spec.L
