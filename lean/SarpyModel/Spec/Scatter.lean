/-
  Spec.Scatter — a write is a scatter of (raw position, sample) assignments into a store.
  The store is the flattened raw sample array of a writable segment tree; `none` marks a
  sample that has not been written.  Import-free.
-/
namespace Sarpy.Spec

abbrev Store (α : Type) := List (Option α)
abbrev Chunk (α : Type) := List (Nat × α)

/-- apply one chunk: every assignment stores its sample at its raw position -/
def scatter {α : Type} (st : Store α) (c : Chunk α) : Store α :=
  c.foldl (fun s p => s.set p.1 (some p.2)) st

/-- a history of chunk writes -/
def writeAll {α : Type} (st : Store α) (h : List (Chunk α)) : Store α := h.foldl scatter st

def emptyStore (α : Type) (n : Nat) : Store α := List.replicate n none

/-- sarpy's accounting: the number of samples handed to write so far -/
def pixelsWritten {α : Type} (h : List (Chunk α)) : Nat := (h.map List.length).sum

/-- `check_fully_written`: the counter has reached exactly the expected number of raw samples -/
def reportsFullyWritten {α : Type} (n : Nat) (h : List (Chunk α)) : Bool := pixelsWritten h == n

/-- every raw sample has been stored -/
def fullyWritten {α : Type} (st : Store α) : Bool := st.all Option.isSome

def keys {α : Type} (h : List (Chunk α)) : List Nat := h.flatten.map Prod.fst

end Sarpy.Spec
