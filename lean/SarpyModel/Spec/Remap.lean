/-
  Spec.Remap — sarpy's display remaps (sarpy/visualization/remap.py) as pointwise transfer
  functions over a generic ordered scalar.  Import-free and computable: the driver instantiates
  the scalar at `Float`, `Props/C17.lean` at `ℝ` (Mathlib).

  A pixel enters the model as its *amplitude* (`numpy.abs(data)`, or the value itself for
  `Linear` on real input), carried by `Amp`: a finite scalar, or one of the IEEE specials the
  code treats separately (`inf` = not finite and not NaN, `nan`).  The floating-point value a
  `raw_call` returns is carried by `Ext` (finite, +inf, -inf, NaN).  `clipCast` is
  `clip_cast(..., min_value=0, max_value=max_output_value)`.

  Code anchors (sarpy/visualization/remap.py):
    clip          numpy.clip(a, lo, hi) = minimum(maximum(a, lo), hi)                line 64
    clipCast      clip_cast: clip to [0, max], `.astype(uintN)` (truncation; NaN -> 0 on the
                  platform the check runs on; the harness re-checks that on every run)  41-64
    a2dSlope / a2dConst / a2dFin / a2d      amplitude_to_density                      108-126
    densityRaw / densityPx                  Density.raw_call / call (Brighter, Darker,
                  High_Contrast are parameter settings; GDM is the same transfer with
                  dmin = 30, mmult = c_h/c_l, data_mean = c_l/0.8)                    578-635, 830-907
    pedfFin / pedfRaw / pedfPx              PEDF.raw_call / call                       1377-1434
    linearMap                               _linear_map                                129-149
    sortLo / sortHi                         _get_extrema "sanity check" swap           1013-1017
    linearFin / linearRaw / linearPx        Linear.raw_call / call                     1019-1106
    logFin / logRaw / logPx                 Logarithmic.raw_call / call                1223-1311
    nrlLow / nrlHigh / nrlFin / nrlRaw / nrlPx   NRL.raw_call / call                   1564-1649
    lutLookup / lutRemap                    LUT8bit.raw_call                           1774-1792
    remap                                   "a remap, once its global parameters are fixed, is one
                                            pointwise function applied to every pixel"
    chunkCoded                              the density family AS CODED: the all-zero *chunk*
                                            short cut of amplitude_to_density          109-111
-/
namespace Sarpy.Spec.Remap

/-- the non-arithmetic primitives the remaps use -/
class RemapFns (α : Type) where
  log10 : α → α
  log2 : α → α
  /-- `.astype(uintN)` of an already clipped value: truncation to a natural number -/
  trunc : α → Nat

open RemapFns

/-- amplitude of one pixel -/
inductive Amp (α : Type) where
  | fin (a : α)
  | inf
  | nan
  deriving Repr

/-- value returned by a `raw_call` for one pixel -/
inductive Ext (α : Type) where
  | fin (x : α)
  | pinf
  | ninf
  | nan
  deriving Repr

/-- order of amplitudes: finite ones by value, every finite one below `inf`; NaN is unordered -/
def Amp.le {α : Type} [LE α] : Amp α → Amp α → Prop
  | .fin a, .fin b => a ≤ b
  | .fin _, .inf => True
  | .inf, .inf => True
  | _, _ => False

/-- order of raw values: -inf ≤ finite ≤ +inf; NaN is unordered -/
def Ext.le {α : Type} [LE α] : Ext α → Ext α → Prop
  | .ninf, .ninf => True
  | .ninf, .fin _ => True
  | .ninf, .pinf => True
  | .fin x, .fin y => x ≤ y
  | .fin _, .pinf => True
  | .pinf, .pinf => True
  | _, _ => False

section
variable {α : Type} [Add α] [Sub α] [Mul α] [Div α] [NatCast α] [LE α] [LT α]
  [DecidableLE α] [DecidableLT α] [Max α] [Min α] [RemapFns α]

/-! ### clip and cast -/

def clip (lo hi x : α) : α := min (max x lo) hi

def clipCast (M : Nat) : Ext α → Nat
  | .fin x => trunc (clip ((0 : Nat) : α) (M : α) x)
  | .pinf => M
  | .ninf => 0
  | .nan => 0

/-- multiplication of a raw value by a positive finite factor -/
def Ext.scale (m : α) : Ext α → Ext α
  | .fin x => .fin (m * x)
  | e => e

/-! ### amplitude -> density -/

/-- `EPS = 1e-5` -/
def epsCode : α := ((1 : Nat) : α) / ((100000 : Nat) : α)

/-- `C_L = 0.8*data_mean` -/
def cLow (mean : α) : α := ((4 : Nat) : α) / ((5 : Nat) : α) * mean

/-- `slope = (255 - dmin)/log10(C_H/C_L)`, `C_H = mmult*C_L` -/
def a2dSlope (dmin mmult mean : α) : α :=
  (((255 : Nat) : α) - dmin) / log10 (mmult * cLow mean / cLow mean)

/-- `constant = dmin - slope*log10(C_L)` -/
def a2dConst (dmin mmult mean : α) : α := dmin - a2dSlope dmin mmult mean * log10 (cLow mean)

/-- `slope*log10(maximum(amplitude, EPS)) + constant` -/
def a2dFin (dmin mmult mean a : α) : α :=
  a2dSlope dmin mmult mean * log10 (max a epsCode) + a2dConst dmin mmult mean

def a2d (dmin mmult mean : α) : Amp α → Ext α
  | .fin a => .fin (a2dFin dmin mmult mean a)
  | .inf => if ((0 : Nat) : α) < a2dSlope dmin mmult mean then .pinf else .nan
  | .nan => .nan

/-- `multiplier*amplitude_to_density(...)`, `multiplier = max_output_value/255` -/
def densityRaw (M : Nat) (dmin mmult mean : α) (p : Amp α) : Ext α :=
  Ext.scale ((M : α) / ((255 : Nat) : α)) (a2d dmin mmult mean p)

def densityPx (M : Nat) (dmin mmult mean : α) (p : Amp α) : Nat := clipCast M (densityRaw M dmin mmult mean p)

/-! ### PEDF: the upper half of the density range is compressed by two -/

def pedfFin (half x : α) : α := if half < x then (x + half) / ((2 : Nat) : α) else x

def pedfRaw (M : Nat) (dmin mmult mean : α) (p : Amp α) : Ext α :=
  match densityRaw M dmin mmult mean p with
  | .fin x => .fin (pedfFin ((M : α) / ((2 : Nat) : α)) x)
  | e => e

def pedfPx (M : Nat) (dmin mmult mean : α) (p : Amp α) : Nat := clipCast M (pedfRaw M dmin mmult mean p)

/-! ### Linear -/

def sortLo (lo hi : α) : α := if hi < lo then hi else lo
def sortHi (lo hi : α) : α := if hi < lo then lo else hi

/-- `clip((data - min)/(max - min), 0, 1)` -/
def linearMap (lo hi x : α) : α := clip ((0 : Nat) : α) ((1 : Nat) : α) ((x - lo) / (hi - lo))

def linearFin (M : Nat) (lo hi a : α) : α :=
  if sortHi lo hi ≤ sortLo lo hi then ((0 : Nat) : α)
  else (M : α) * linearMap (sortLo lo hi) (sortHi lo hi) a

/-- non-finite pixels are set to `max_output_value` -/
def linearRaw (M : Nat) (lo hi : α) : Amp α → Ext α
  | .fin a => .fin (linearFin M lo hi a)
  | .inf => .fin (M : α)
  | .nan => .fin (M : α)

def linearPx (M : Nat) (lo hi : α) (p : Amp α) : Nat := clipCast M (linearRaw M lo hi p)

/-! ### Logarithmic (amplitudes are non-negative: `amplitude == 0` is `a ≤ 0`) -/

def logFin (M : Nat) (lo hi a : α) : α :=
  if a ≤ ((0 : Nat) : α) then ((0 : Nat) : α)
  else if sortHi lo hi ≤ sortLo lo hi then ((0 : Nat) : α)
  else (M : α) * log2 ((clip (sortLo lo hi) (sortHi lo hi) a - sortLo lo hi) / (sortHi lo hi - sortLo lo hi) + ((1 : Nat) : α))

def logRaw (M : Nat) (lo hi : α) : Amp α → Ext α
  | .fin a => .fin (logFin M lo hi a)
  | .inf => .fin (M : α)
  | .nan => .fin (M : α)

def logPx (M : Nat) (lo hi : α) (p : Amp α) : Nat := clipCast M (logRaw M lo hi p)

/-! ### NRL: linear up to the change-over statistic (output `knee`), then logarithmic.
    `stats = (amin, amax, chg)` has been validated by the code: `amin ≤ chg ≤ amax`, so
    `amin == amax` is `amax ≤ amin` and `chg == amax` is `amax ≤ chg`. -/

def nrlLow (M : Nat) (knee amin chg a : α) : α :=
  if amin < chg then clip ((0 : Nat) : α) (M : α) (knee * linearMap amin chg a) else ((0 : Nat) : α)

/-- the logarithmic branch at an amplitude already clipped to `[chg, amax]` -/
def nrlHighAt (M : Nat) (knee amax chg x : α) : α :=
  log2 ((x - chg) / (amax - chg) + ((1 : Nat) : α)) * ((M : α) - knee) + knee

def nrlHigh (M : Nat) (knee amax chg a : α) : α :=
  if amax ≤ chg then knee else nrlHighAt M knee amax chg (clip chg amax a)

def nrlFin (M : Nat) (knee amin amax chg a : α) : α :=
  if amax ≤ amin then ((0 : Nat) : α)
  else if a ≤ chg then nrlLow M knee amin chg a
  else nrlHigh M knee amax chg a

def nrlRaw (M : Nat) (knee amin amax chg : α) : Amp α → Ext α
  | .fin a => .fin (nrlFin M knee amin amax chg a)
  | .inf =>
    if amax ≤ amin then .fin ((0 : Nat) : α)
    else if amax ≤ chg then .fin knee
    else .fin (nrlHighAt M knee amax chg amax)      -- `clip(inf, chg, amax) = amax`
  | .nan =>
    if amax ≤ amin then .fin ((0 : Nat) : α)
    else if amax ≤ chg then .fin knee
    else .nan                                        -- `clip(nan, ..) = nan`

def nrlPx (M : Nat) (knee amin amax chg : α) (p : Amp α) : Nat := clipCast M (nrlRaw M knee amin amax chg p)

/-- is this amplitude exactly zero (`amplitude == 0`; NaN and inf are not) -/
def Amp.isZero : Amp α → Bool
  | .fin a => decide (a ≤ ((0 : Nat) : α)) && decide (((0 : Nat) : α) ≤ a)
  | _ => false

/-- the density family AS CODED today: `amplitude_to_density` returns the (zero) amplitudes
    unchanged when *every pixel of the chunk it was handed* is zero, otherwise the pointwise
    transfer.  This is a function of the chunk, not of the pixel. -/
def chunkCoded (px : Amp α → Nat) (chunk : List (Amp α)) : List Nat :=
  if chunk.all Amp.isZero then chunk.map (fun _ => 0) else chunk.map px

end

/-! ### a remap with fixed global parameters: one pointwise function on every pixel -/

def remap {β γ : Type} (f : β → γ) (img : List β) : List γ := img.map f

/-- `lookup_table[index]` -/
def lutLookup {γ : Type} (table : List γ) (dflt : γ) (i : Nat) : γ := table.getD i dflt

/-- `self._lookup_table[self._mono_remap(data)]` -/
def lutRemap {β γ : Type} (table : List γ) (dflt : γ) (mono : β → Nat) (img : List β) : List γ :=
  img.map (fun p => lutLookup table dflt (mono p))

end Sarpy.Spec.Remap
