/-
  Spec.CheckerRules — the arithmetic / structural content rules of the consistency checkers, as reference predicates over the
  few numbers (or identifier lists) each rule looks at.  Imports only other Spec files (no Mathlib).

  Code anchors (sarpy/consistency/cphd_consistency.py, method : message of the need / want)
    check_pad_header_xml          : want "XML appears early in the file"                                  `xmlEarly`
    check_pad_after_xml           : need "{Support|PVP} comes after XML"                                  `padAfterXml`
    check_pad_after_support       : need "PVP comes after Support"                                        `padAfterSupport`
    check_pad_after_pvp           : need "Signal comes after PVP"                                         `padAfterPvp`
    check_signal_at_end_of_file   : need "Signal is at the end of the file"                               `signalAtEof`
    check_channel_signal_data     : need "Channel signal fits in signal block"                            `signalFits`
    check_antenna                 : need "The Num{ACFs|APCs|AntPats} must be equal to the number of … nodes" `countMatches`
                                    need "./AntPhaseCenter/ACFId references an identifier in AntCoordFrame" `refsExist`
    check_image_area_corner_points: need "4 corner points"                                                `fourCorners`
    get_polygon                   : need "Polygon size attribute matches the number of vertices"          `countMatches`
                                    need "Polygon indices are all present"                                `indicesPresent`
    check_optional_pvps_fx / _toa : need "FXN1/FXN2 only allowed when … FX and must be included together" `optionalFx`, `together`
    check_channel_toaextsaved     : want "TOA extended swath parameters are specified together"           `together3`
    check_imagearea_x1y1_x2y2, check_channel_imagearea_x1y1, check_extended_imagearea_x1y1_x2y2
                                  : need "…/X1Y1 < …/X2Y2"                                               `boxOrdered`
    check_file_type_header        : need "version in File Type Header matches the version in the XML"     `sameCode`
    check_header_keys             : need "Required header field: {} is in header", "SUPPORT_BLOCK fields go together"
                                                                                                          `requiredPresent`, `together`
    check_identifier_uniqueness, check_channel_identifier_uniqueness
                                  : need / want "Identifiers {…} are unique" (`_get_repeated_elements`)   `repeated`, `unique`
    check_channel_dwell_exist, check_channel_antenna_exist, check_channel_txrcv_exist
                                  : need "… node exists with …" (`get_by_id`)                             `refsExist`
    check_polynomials             : need "{path} is correctly specified"                                  `polyOk`
    check_classification_and_release_info : need "Header CLASSIFICATION matches XML Classification"       `matchesPresent`
  sarpy/consistency/sicd_consistency.py `check_image_data` (:263-329), sidd_consistency.py `check_image_data` (:263-318),
  `SICDReader._check_sizes` (io/complex/base.py:62) reached from `check_sicd_file`                          `sicdSegOk`, `siddSegOk`, `sizeRule`
  sarpy/io/complex/sicd.py `_create_image_segments` (:750-822), sarpy/io/product/sidd.py `_create_image_segment_for_sidd` (:715-791)
                                                                                                          `sicdWriterSeg`, `siddWriterSeg`

  The integer rules are stated over `Int` (what Python computes with); the theorems in Props/C18Rules instantiate them at the
  natural numbers the layout models produce.
-/
import SarpyModel.Spec.Checker

namespace Sarpy.Spec.CheckerRules

/-! ### CPHD header rules (integers) -/

def xmlEarly (xmlOff : Int) : Bool := decide (xmlOff < 2 ^ 28)

/-- the block that follows the XML block starts after the XML and its two-byte section terminator -/
def padAfterXml (xmlOff xmlSize : Int) (hasSupport : Bool) (supportOff pvpOff : Int) : Bool :=
  decide (xmlOff + xmlSize + 2 ≤ (if hasSupport then supportOff else pvpOff))

def padAfterSupport (supportOff supportSize pvpOff : Int) : Bool := decide (supportOff + supportSize ≤ pvpOff)

def padAfterPvp (pvpOff pvpSize signalOff : Int) : Bool := decide (pvpOff + pvpSize ≤ signalOff)

def signalAtEof (fileLen signalOff signalSize : Int) : Bool := fileLen == signalOff + signalSize

/-- one channel: its array (offset, vectors × samples × bytes per sample) ends inside the signal block -/
def signalFits (arrayOff nVectors nSamples itemSize signalSize : Int) : Bool :=
  decide (arrayOff + nVectors * nSamples * itemSize ≤ signalSize)

/-! ### counts, flags, orderings, codes -/

/-- a declared count equals the number of nodes present -/
def countMatches (declared present : Int) : Bool := declared == present

def fourCorners (n : Int) : Bool := n == 4

/-- FXN1 / FXN2: both absent, or both present in the FX domain -/
def optionalFx (isFx has1 has2 : Bool) : Bool := !(has1 || has2) || (isFx && has1 && has2)

/-- two optional items come together -/
def together (a b : Bool) : Bool := a == b

def together3 (a b c : Bool) : Bool := (a == b) && (b == c)

/-- lower corner strictly below the upper corner in both coordinates -/
def boxOrdered (x1 y1 x2 y2 : Int) : Bool := decide (x1 < x2) && decide (y1 < y2)

/-- two identifiers (coded injectively) are the same -/
def sameCode (a b : Int) : Bool := a == b

/-- `a == b is not None` (Python chain): equal and present -/
def matchesPresent {α : Type} [DecidableEq α] (a : α) (b : Option α) : Bool := decide (b = some a)

/-! ### identifier lists -/

/-- `_get_repeated_elements`: the values that occur more than once, in order of first occurrence (`collections.Counter`) -/
def repeated {α : Type} [DecidableEq α] (ids : List α) : List α := (ids.eraseDups).filter (fun x => 1 < ids.count x)

/-- "Identifiers … are unique": `assert not repeated_identifiers` -/
def unique {α : Type} [DecidableEq α] (ids : List α) : Bool := (repeated ids).isEmpty

/-- every reference names a defined identifier (`get_by_id(...) is not None` per reference; set inclusion for ACFId) -/
def refsExist {α : Type} [DecidableEq α] (refs defs : List α) : Bool := refs.all (fun r => defs.contains r)

/-- `check_header_keys`: every required key is among the keys of the header -/
def requiredPresent {α : Type} [DecidableEq α] (required keys : List α) : Bool := required.all (fun r => keys.contains r)

/-- `get_polygon(check=True)`: the vertex indices, sorted, are 1 … n -/
def indicesPresent (idx : List Nat) : Bool := idx.mergeSort (fun a b => decide (a ≤ b)) == List.range' 1 idx.length

/-- `check_polynomials.check_poly`: no coefficient exponent above the order of its dimension, no exponent tuple twice;
    `orders` are the `order1[, order2]` attributes, each coefficient is its exponent tuple -/
def polyOk (orders : List Nat) (coefs : List (List Nat)) : Bool :=
  coefs.all (fun c => (c.zip orders).all (fun p => decide (p.1 ≤ p.2))) && unique coefs

/-! ### what the CPHD writer / the generators lay out for the per-channel arrays -/

/-- running-sum offsets: `SignalArrayByteOffset` / `PVPArrayByteOffset` / `ArrayByteOffset` of packed arrays -/
def packFrom : Nat → List Nat → List (Nat × Nat)
  | _, [] => []
  | start, s :: rest => (start, s) :: packFrom (start + s) rest

/-- (vectors, samples) per channel ↦ byte sizes of the signal arrays -/
def signalSizes (itemSize : Nat) (chans : List (Nat × Nat)) : List Nat := chans.map (fun c => c.1 * c.2 * itemSize)

/-- `Data.calculate_signal_block_size` -/
def signalBlockSize (itemSize : Nat) (chans : List (Nat × Nat)) : Nat := (signalSizes itemSize chans).sum

/-- the rule for every channel of a Data branch: `(arrayOff, vectors, samples)` per channel -/
def allSignalFit (itemSize signalSize : Nat) (chans : List (Nat × Nat × Nat)) : Bool :=
  chans.all (fun c => signalFits c.1 c.2.1 c.2.2 itemSize signalSize)

/-- the Data/Channel table the generators write: packed offsets next to the sizes -/
def writerChannels (itemSize : Nat) (chans : List (Nat × Nat)) : List (Nat × Nat × Nat) :=
  ((packFrom 0 (signalSizes itemSize chans)).zip chans).map (fun p => (p.1.1, p.2.1, p.2.2))

/-! ### SICD / SIDD: image segments against the pixel type -/

inductive SicdPixel | re32f | re16i | amp8i
deriving DecidableEq, Repr

/-- the fields of an image subheader the checkers look at (strings as the NITF codes, stripped) -/
structure ImgSeg where
  icat : String
  pvtype : String
  nbpp : Nat
  subcats : List String      -- ISUBCAT of each band
  rows : Nat
  cols : Nat
deriving DecidableEq, Repr

def SicdPixel.name : SicdPixel → String
  | .re32f => "RE32F_IM32F" | .re16i => "RE16I_IM16I" | .amp8i => "AMP8I_PHS8I"

/-- `check_image_data`: expected NBPP and PVTYPE -/
def sicdExpect : SicdPixel → Nat × String
  | .re32f => (32, "R") | .re16i => (16, "SI") | .amp8i => (8, "INT")

/-- the band codes the writer uses -/
def sicdBands : SicdPixel → String × String
  | .amp8i => ("M", "P") | _ => ("I", "Q")

/-- one image segment as `sicd_consistency.check_image_data` judges it: ICAT, PVTYPE, NBPP, two bands, and the ISUBCAT test
    exactly as written — an error only when BOTH codes differ from the expected pair (`!= … and != …`) -/
def sicdSegOk (pt : SicdPixel) (s : ImgSeg) : Bool :=
  s.icat == "SAR" && s.pvtype == (sicdExpect pt).2 && s.nbpp == (sicdExpect pt).1 &&
  (match s.subcats with
   | [b0, b1] => !(b0 != (sicdBands pt).1 && b1 != (sicdBands pt).2)
   | _ => false)

def sicdImagesOk (pt : SicdPixel) (segs : List ImgSeg) : Bool := segs.all (sicdSegOk pt)

/-- `SICDWritingDetails._create_image_segments`: the subheader of one segment of `rows` × `cols` -/
def sicdWriterSeg (pt : SicdPixel) (rows cols : Nat) : ImgSeg :=
  ⟨"SAR", (sicdExpect pt).2, (sicdExpect pt).1, [(sicdBands pt).1, (sicdBands pt).2], rows, cols⟩

/-- all segments of an image of `cols` columns cut into the row ranges `ranges` -/
def sicdWriterSegs (pt : SicdPixel) (cols : Nat) (ranges : List (Nat × Nat)) : List ImgSeg :=
  ranges.map (fun r => sicdWriterSeg pt (r.2 - r.1) cols)

/-- `_check_sizes` behind `SICDReader(...)`: the rows reassembled from the ILOC chain and the common column count are
    `ImageData.NumRows` × `NumCols`.  `headers` = (ILOC row, NROWS) per segment -/
def sizeRule (numRows numCols : Nat) (headers : List (Nat × Nat)) (cols : List Nat) : Bool :=
  (((Layout.decodeChain 0 headers).getLast?.map (fun s => s.2)).getD 0 == numRows) && cols.all (· == numCols)

inductive SiddPixel | mono8i | mono8lu | rgb8lu | mono16i | rgb24i
deriving DecidableEq, Repr

def SiddPixel.name : SiddPixel → String
  | .mono8i => "MONO8I" | .mono8lu => "MONO8LU" | .rgb8lu => "RGB8LU" | .mono16i => "MONO16I" | .rgb24i => "RGB24I"

/-- `check_sidd_file`: NBPP and PVTYPE expected for a SIDD pixel type -/
def siddExpect : SiddPixel → Nat × String
  | .mono16i => (16, "INT") | _ => (8, "INT")

/-- a SAR image segment of a SIDD as `sidd_consistency.check_image_data` judges it -/
def siddSegOk (pt : SiddPixel) (s : ImgSeg) : Bool :=
  s.icat != "SAR" || (s.pvtype == (siddExpect pt).2 && s.nbpp == (siddExpect pt).1)

/-- the pixel types `SIDDWritingDetails` can write, with what it writes -/
def siddWriterSeg (pt : SiddPixel) (rows cols : Nat) : ImgSeg :=
  ⟨"SAR", (siddExpect pt).2, (siddExpect pt).1, [], rows, cols⟩

/-! ### the DES scan of `check_sicd_file` / `check_sidd_file` (which data extension carries the product XML) -/

inductive DesKind
  | sicdXml    -- XML_DATA_CONTENT DES whose document root is SICD
  | siddXml    -- XML_DATA_CONTENT DES whose document root is SIDD
  | otherXml   -- XML_DATA_CONTENT DES that carries another XML document
  | other      -- any other DES (user defined, TRE overflow, …): skipped
  | oldSicd    -- deprecated `SICD_XML` DES
  | oldSidd    -- deprecated `SIDD_XML` DES
deriving DecidableEq, Repr

/-- `check_data_extension_headers` (sicd_consistency.py:214-261): the positions of the SICD DES, `none` when a SIDD DES is met
    (`raise ValueError('… should be a SIDD file')`).  Every DES is looked at: a DES that is not XML is skipped (`continue`) -/
def sicdScanFrom : Nat → List DesKind → Option (List Nat)
  | _, [] => some []
  | i, .sicdXml :: r => (sicdScanFrom (i + 1) r).map (i :: ·)
  | i, .oldSicd :: r => (sicdScanFrom (i + 1) r).map (i :: ·)
  | _, .siddXml :: _ => none
  | _, .oldSidd :: _ => none
  | i, .otherXml :: r => sicdScanFrom (i + 1) r
  | i, .other :: r => sicdScanFrom (i + 1) r

/-- the index of THE SICD DES; `none` = the checker raises (no SICD DES, several of them, or a SIDD DES) -/
def sicdScan (des : List DesKind) : Option Nat :=
  match sicdScanFrom 0 des with
  | some [i] => some i
  | _ => none

/-- `find_des` (sidd_consistency.py): a file is examined as a SIDD when at least one DES has a SIDD root -/
def siddFound (des : List DesKind) : Bool := des.any (fun k => k == .siddXml || k == .oldSidd)

/-! ### histories of `check()` calls on one checker object (consistency.py `ConsistencyChecker.check`, :70-115)

  `_all_check_results` is an OrderedDict that lives as long as the object.  `check()` resolves the selection to a list of
  methods and calls `_run_check` for each; `_run_check` runs the method against the CURRENT state of the checked object and
  stores the result under the method's name (`self._all_check_results[func.__name__] = …`: an existing key keeps its
  position, a new key is appended).  Nothing is cleared between calls: the entry of a check that a later call does not select
  is the one an earlier call left.  What a method does depends on the state `σ` of the checked object (file on disk, `xml`,
  `pvps`, `header`). -/

/-- OrderedDict assignment `d[k] = v` -/
def storeSet {α ρ : Type} [DecidableEq α] : List (α × ρ) → α → ρ → List (α × ρ)
  | [], k, v => [(k, v)]
  | (k', v') :: r, k, v => if k' = k then (k', v) :: r else (k', v') :: storeSet r k v

/-- `_run_check(func)` for the method called `name` of the class `t` on the object state `s` -/
def runNamed {α σ : Type} [DecidableEq α] (t : List (α × (σ → List Checker.Op))) (s : σ)
    (store : List (α × Checker.Result)) (name : α) : List (α × Checker.Result) :=
  match t.lookup name with
  | some ops => storeSet store name (Checker.runCheck (ops s))
  | none => store

/-- one `check()` call: the resolved methods, in order (a method selected twice runs twice) -/
def checkCall {α σ : Type} [DecidableEq α] (t : List (α × (σ → List Checker.Op))) (s : σ)
    (store : List (α × Checker.Result)) (torun : List α) : List (α × Checker.Result) :=
  torun.foldl (runNamed t s) store

/-- what can happen to a checker object: the checked object changes, or `check()` is called with some selection -/
inductive Event (α σ : Type)
  | change (f : σ → σ)
  | check (torun : List α)

def runEvent {α σ : Type} [DecidableEq α] (t : List (α × (σ → List Checker.Op)))
    (st : σ × List (α × Checker.Result)) : Event α σ → σ × List (α × Checker.Result)
  | .change f => (f st.1, st.2)
  | .check torun => (st.1, checkCall t st.1 st.2 torun)

def runHistory {α σ : Type} [DecidableEq α] (t : List (α × (σ → List Checker.Op)))
    (st : σ × List (α × Checker.Result)) (h : List (Event α σ)) : σ × List (α × Checker.Result) :=
  h.foldl (runEvent t) st

/-- the seeded variant "only run it once": a method whose name already has a stored result is skipped -/
def checkCallSkipStored {α σ : Type} [DecidableEq α] (t : List (α × (σ → List Checker.Op))) (s : σ)
    (store : List (α × Checker.Result)) (torun : List α) : List (α × Checker.Result) :=
  torun.foldl (fun st n => if (st.lookup n).isSome then st else runNamed t s st n) store

/-- the selection of `check(func_name, allow_prefix, ignore_patterns)`: every requested name must match at least one method
    (`none` = `ValueError("Functions not found")`), matches are collected per request, ignored names are dropped.
    `m req name` = exact / prefix match, `ign name` = some ignore pattern matches at the start of the name -/
def resolve {α β : Type} (names : List α) (req : Option (List β)) (m : β → α → Bool) (ign : α → Bool) : Option (List α) :=
  let sel : Option (List α) := match req with
    | none => some names
    | some rs =>
      let found := rs.map (fun r => names.filter (m r))
      if found.any List.isEmpty then none else some found.flatten
  sel.map (fun l => l.filter (fun n => !ign n))

/-! ### per-channel checks: a channel of /Data is judged against the /Channel/Parameters node with the SAME Identifier
  (cphd_consistency.py `CphdConsistency.__init__`, :234-252: `xpath('./Channel/Parameters/Identifier[text()="{id}"]/..')[0]`) -/

/-- the first Parameters node whose Identifier is `id` -/
def lookupParam {α β : Type} [DecidableEq α] (params : List (α × β)) (id : α) : Option β :=
  (params.find? (fun p => p.1 == id)).map (·.2)

/-- one verdict per /Data/Channel entry, in that order; `none` = no Parameters node with that Identifier (the constructor raises) -/
def perChannel {α β : Type} [DecidableEq α] (verdict : α → β → Bool) (dataIds : List α) (params : List (α × β)) : List (α × Option Bool) :=
  dataIds.map (fun id => (id, (lookupParam params id).map (verdict id)))

/-- every channel passes -/
def allChannelsPass {α β : Type} [DecidableEq α] (verdict : α → β → Bool) (dataIds : List α) (params : List (α × β)) : Bool :=
  (perChannel verdict dataIds params).all (fun r => r.2 == some true)

/-- the seeded variant: the n-th /Data/Channel entry paired with the n-th Parameters node (`zip`) -/
def perChannelByPosition {α β : Type} (verdict : α → β → Bool) (dataIds : List α) (params : List (α × β)) : List (α × Option Bool) :=
  (dataIds.zip params).map (fun p => (p.1, some (verdict p.1 p.2.2)))

/-! ### the documented shape of the translated rules (message kind, guards), transcribed at the pinned commit -/

def severities : List (String × String) :=
  [("xml_early", "want"), ("pad_after_xml", "need"), ("pad_after_support", "need"), ("pad_after_pvp", "need"),
   ("signal_at_eof", "need"), ("signal_fits", "need"), ("num_acfs", "need"), ("num_apcs", "need"), ("num_antpats", "need"),
   ("corner_points", "need"), ("polygon_size", "need"), ("optional_fx", "need"), ("optional_toa", "need"),
   ("toa_ext_together", "want"), ("image_area_box", "need"), ("channel_area_box", "need"), ("extended_area_box", "need"),
   ("version_match", "need")]

/-- the preconditions under which each rule is evaluated: every `assert` / `if` / `for` met between the top of the method and
    the rule (a rule whose guard is false is skipped, so a guard that can no longer hold switches the rule off) -/
def guards : List (String × List String) :=
  [("xml_early", ["assert self.header is not None"]),
   ("pad_after_xml", ["assert self.header is not None", "assert self.filename is not None"]),
   ("pad_after_support", ["assert self.header is not None", "assert self.filename is not None",
      "assert 'SUPPORT_BLOCK_BYTE_OFFSET' in self.header"]),
   ("pad_after_pvp", ["assert self.header is not None", "assert self.filename is not None"]),
   ("signal_at_eof", ["assert self.header is not None", "assert self.filename is not None"]),
   ("signal_fits", ["assert self.header is not None", "assert self.xml.find('./Data/SignalCompressionID') is None"]),
   ("num_acfs", ["assert antenna_node is not None"]),
   ("num_apcs", ["assert antenna_node is not None"]),
   ("num_antpats", ["assert antenna_node is not None"]),
   ("corner_points", ["assert have_shapely"]),
   ("polygon_size", ["if check", "if 'size' in polygon_node.attrib"]),
   ("optional_fx", []),
   ("optional_toa", []),
   ("toa_ext_together", []),
   ("image_area_box", []),
   ("channel_area_box", ["assert channel_node.find('./ImageArea') is not None"]),
   ("extended_area_box", ["assert self.xml.find('./SceneCoordinates/ExtendedArea') is not None"]),
   ("version_match", ["assert self.version is not None", "assert self.filename is not None",
      "assert first_line.startswith('CPHD/')", "assert first_line.endswith('\\n')"])]

end Sarpy.Spec.CheckerRules
