/-
  Spec.XsdFmt — class tables against XSD content models (property C06).

  Self-contained model (no imports) of
    * the table-driven XML codec `Serializable.from_node` / `Serializable.to_node`
      (sarpy/io/xml/base.py:910-1189): a class is an ordered table of rows mirroring
      `_fields` + `_set_as_attribute` + `_tag_override` + `_collections_tags` + `_child_xml_ns_key`
      (names are namespace-resolved and interned to numbers by translate/xsd2lean.py);
    * a fragment of XSD content models: a complex type is a list of attribute declarations
      (use = required / optional) and a *sequence* of groups, each either an element particle
      (name, minOccurs, maxOccurs) or a non-repeating `choice` between plain sequences of element
      particles; child types are reached through a per-type map  child tag -> type.
      Sequences with bounds (1,1) are inlined by the translator.  NOT in the fragment (listed per
      occurrence by the translator, never silently skipped): xs:all, xs:any, anyAttribute, mixed
      content, repeating choices, choices nested in choices, sequences with bounds other than (1,1),
      substitution groups, simple-type facets (values are opaque strings here).
    * XML trees (`Xml`), the validity predicate `validB` of a tree for a type, and the relation
      `Equiv` "same elements, attributes and values in the same order" (attribute order is
      immaterial in XML, so attributes are compared up to permutation).

  `parse` mirrors from_node:   attribute rows look the attribute up by name (base.py:948-953),
  single rows take the FIRST child with the tag (`find_first_child`, base.py:955-956), multi rows
  take ALL children with the tag wherever they stand (`find_children`, base.py:958-961).
  `serialize` mirrors to_node: attributes and children are written in `_fields` order
  (base.py:1147-1188), absent values are skipped.

  Extension C06X (class side; every XSD type reachable in the 16 bundled schema versions already lies
  inside the content-model fragment, what kept pairs outside was the class side):
    * `derived` rows - fields of `_fields` that are READ-ONLY Python properties (`NumMatchCollections`,
      `NumCODTimes`, `NumAPCs`, PVP `Size`/`Format`, `RMA.ImageType`, `RcvDemodType`, ...): from_node
      reads the child and the constructor ignores it; to_node writes `getattr(self, field)` whenever
      it is not None (base.py:1147-1151).  What is written is a function of the rest of the element;
      the model keeps it abstract (`ClassEntry.derive : tag -> children -> Option text`, `none` = the
      property is None, nothing written).  The property's premise "the document keeps the
      bookkeeping the schema cannot express" is `Bookkept`: at every element read by a class with
      derived rows, the children named like a derived row are exactly what `derive` yields.
    * stored properties with a setter (`SCP.ECF/LLH`, `NODATA`, `LocalDateTime`, `RcvFMRate`) are
      `single` rows (the generic from_node / to_node treat them so); their subtrees are opaque.
    * classes whose to_node override only re-orders / appends rows (`super().to_node(exclude=...)`
      followed by `for entry in self._X: entry.to_node(doc, TAG, parent=node)`) are ordinary tables
      whose rows are listed in OUTPUT order, hidden list rows included (translate/xsd2lean.py reads
      the override's AST; nothing else is accepted).
    * from_node overrides that test for a legacy child before delegating to the generic reader:
      `divertIf` (a child with one of these tags sends parsing down a pre-1.0 path, MatchInfo
      `Collect`) and `divertUnless` (absence of the child does, Grid `WgtType/WindowName`).  The
      legacy path is NOT modelled: `parse` yields a deliberately empty element there, so the theorem
      has to show (and does, from `guardsOKB`) that a valid tree never takes it.
  Classes that override to_node/from_node, and types outside the fragment, are *opaque*
  (`none` in the tables): `parse` keeps the subtree as it is and `validB` accepts it; what sarpy
  really does there is covered by the document oracle of harness/c06.py only.
-/
namespace Sarpy.Spec.XsdFmt

abbrev Name := Nat

/-! ### XML trees -/

inductive Xml where
  | node (tag : Name) (attrs : List (Name × String)) (text : String) (kids : List Xml)
  deriving Repr, Inhabited

namespace Xml
def tag : Xml → Name | node t _ _ _ => t
def attrs : Xml → List (Name × String) | node _ a _ _ => a
def text : Xml → String | node _ _ x _ => x
def kids : Xml → List Xml | node _ _ _ k => k
end Xml

/-! ### class tables -/

inductive RowKind where
  | attr     -- `_set_as_attribute`
  | single   -- scalar / child object / array container: at most one child element, the first one is read
  | multi    -- `_collections_tags` list: every child element with the tag
  | derived  -- read-only property: nothing is read, `ClassEntry.derive` says what is written
  deriving DecidableEq, Repr, Inhabited

structure Row where
  tag : Name
  kind : RowKind
  deriving DecidableEq, Repr, Inhabited

abbrev ClassTab := List Row

def attrRows (tab : ClassTab) : List Row := tab.filter (fun r => r.kind == .attr)
def elemRows (tab : ClassTab) : List Row := tab.filter (fun r => r.kind != .attr)

abbrev ClassId := Nat

/-- one class: its table (element rows in OUTPUT order), the class of the objects stored under each element
    row, what the read-only properties write (`derive tag children`, `none` = nothing), and the legacy guards
    of a from_node override -/
structure ClassEntry where
  tab : ClassTab
  child : Name → ClassId
  derive : Name → List Xml → Option String := fun _ _ => none
  divertIf : List Name := []
  divertUnless : List Name := []

/-- all classes; `none` = opaque (class with hand-written to_node/from_node) -/
abbrev Tabs := ClassId → Option ClassEntry

/-! ### content models -/

structure AttrDecl where
  name : Name
  required : Bool
  deriving DecidableEq, Repr, Inhabited

structure ElemP where
  tag : Name
  min : Nat
  max : Option Nat     -- none = unbounded
  deriving DecidableEq, Repr, Inhabited

inductive Group where
  | elem (e : ElemP)
  | choice (optional : Bool) (alts : List (List ElemP))
  deriving Repr, Inhabited

structure CModel where
  attrs : List AttrDecl
  groups : List Group
  deriving Repr, Inhabited

abbrev TypeId := Nat

structure TypeEntry where
  model : CModel
  child : Name → TypeId

/-- all complex types; `none` = opaque (outside the fragment, or a simple type: any subtree accepted) -/
abbrev Schema := TypeId → Option TypeEntry

/-- the element particles of a model in document order (choice branches one after the other) -/
def groupParticles : Group → List ElemP
  | .elem e => [e]
  | .choice _ alts => alts.flatten

def particles (gs : List Group) : List ElemP := (gs.map groupParticles).flatten

def modelTags (m : CModel) : List Name := (particles m.groups).map (·.tag)

/-! ### validity of a tree for a type -/

def withinMax (n : Nat) : Option Nat → Bool
  | none => true
  | some m => n ≤ m

/-- consume the maximal run of children named `e.tag`; fails when the count is out of bounds -/
def matchElem (e : ElemP) (ks : List Name) : Option (List Name) :=
  let run := ks.takeWhile (· == e.tag)
  if e.min ≤ run.length && withinMax run.length e.max then some (ks.dropWhile (· == e.tag)) else none

def matchSeq : List ElemP → List Name → Option (List Name)
  | [], ks => some ks
  | e :: es, ks =>
    match matchElem e ks with
    | none => none
    | some rest => matchSeq es rest

def emptiable (alt : List ElemP) : Bool := alt.all (fun e => e.min == 0)

def matchGroup : Group → List Name → Option (List Name)
  | .elem e, ks => matchElem e ks
  | .choice optional alts, ks =>
    match ks with
    | [] => if optional || alts.any emptiable then some [] else none
    | k :: _ =>
      match alts.find? (fun a => a.any (fun e => e.tag == k)) with
      | some a => matchSeq a ks
      | none => if optional || alts.any emptiable then some ks else none

def matchGroups : List Group → List Name → Option (List Name)
  | [], ks => some ks
  | g :: gs, ks =>
    match matchGroup g ks with
    | none => none
    | some rest => matchGroups gs rest

/-- the children (by name) instantiate the content model -/
def contentOK (gs : List Group) (ks : List Name) : Bool :=
  match matchGroups gs ks with
  | some [] => true
  | _ => false

/-- attributes: no duplicates, every one declared, every required one present -/
def attrsOK (decls : List AttrDecl) (as : List (Name × String)) : Bool :=
  let keys := as.map (·.1)
  decide keys.Nodup
    && keys.all (fun k => decls.any (fun d => d.name == k))
    && decls.all (fun d => !d.required || keys.contains d.name)

mutual
/-- structural validity of a tree for type `ty` (values are not inspected) -/
def validB (S : Schema) : TypeId → Xml → Bool
  | ty, .node _ as _ ks =>
    match S ty with
    | none => true
    | some te => attrsOK te.model.attrs as && contentOK te.model.groups (tagsOf ks) && validKids S te.child ks
def validKids (S : Schema) (child : Name → TypeId) : List Xml → Bool
  | [] => true
  | k :: ks => validB S (child (rootTag k)) k && validKids S child ks
def tagsOf : List Xml → List Name
  | [] => []
  | k :: ks => rootTag k :: tagsOf ks
def rootTag : Xml → Name
  | .node t _ _ _ => t
end

def Valid (S : Schema) (ty : TypeId) (t : Xml) : Prop := validB S ty t = true

instance (S : Schema) (ty : TypeId) (t : Xml) : Decidable (Valid S ty t) := by unfold Valid; infer_instance

/-! ### the parsed structure, `parse`, `serialize` -/

inductive Val where
  | obj (tag : Name) (slots : List (Option String)) (text : String) (fields : List Val)
  | raw (t : Xml)
  deriving Inhabited

def lookupAttr (n : Name) : List (Name × String) → Option String
  | [] => none
  | (k, v) :: rest => if k == n then some v else lookupAttr n rest

/-- what a row keeps of the selected children: everything (multi) or the first (single) -/
def keep {α} : RowKind → List α → List α
  | .multi, l => l
  | _, l => l.take 1

/-- what to_node writes for a read-only property row: one text element, or nothing when the property is None -/
def derivedOut (e : ClassEntry) (tag : Name) (ks : List Xml) : List Xml :=
  match e.derive tag ks with
  | some s => [.node tag [] s []]
  | none => []

/-- does the from_node override leave the generic reader for its legacy path on these children? -/
def diverted (e : ClassEntry) (tags : List Name) : Bool :=
  e.divertIf.any (fun n => tags.contains n) || e.divertUnless.any (fun n => !tags.contains n)

mutual
/-- `Serializable.from_node` (with the legacy guard of an overriding from_node in front) -/
def parse (T : Tabs) : ClassId → Xml → Val
  | c, .node tag as text ks =>
    match T c with
    | none => .raw (.node tag as text ks)
    | some e =>
      if diverted e (tagsOf ks) then .raw (.node tag [] "" [])     -- legacy path: not modelled, nothing is kept
      else
      .obj tag ((attrRows e.tab).map (fun r => lookupAttr r.tag as)) text
        (((elemRows e.tab).map (fun r =>
            if r.kind == .derived then (derivedOut e r.tag ks).map Val.raw
            else keep r.kind (parseKids T (e.child r.tag) r.tag ks))).flatten)
/-- the children named `tag`, parsed with class `c` -/
def parseKids (T : Tabs) (c : ClassId) (tag : Name) : List Xml → List Val
  | [] => []
  | k :: ks => if rootTag k == tag then parse T c k :: parseKids T c tag ks else parseKids T c tag ks
end

def Val.tag : Val → Name
  | .obj t _ _ _ => t
  | .raw t => t.tag

def slotAttrs : List Row → List (Option String) → List (Name × String)
  | r :: rs, some v :: ss => (r.tag, v) :: slotAttrs rs ss
  | _ :: rs, none :: ss => slotAttrs rs ss
  | _, _ => []

mutual
/-- `Serializable.to_node` -/
def serialize (T : Tabs) : ClassId → Val → Xml
  | _, .raw t => t
  | c, .obj tag slots text fields =>
    match T c with
    | none => .node tag [] text []
    | some e => .node tag (slotAttrs (attrRows e.tab) slots) text (serializeAll T e.child fields)
def serializeAll (T : Tabs) (child : Name → ClassId) : List Val → List Xml
  | [] => []
  | v :: vs => serialize T (child (valTag v)) v :: serializeAll T child vs
def valTag : Val → Name
  | .obj t _ _ _ => t
  | .raw (.node t _ _ _) => t
end

/-! ### the bookkeeping premise -/

/-- the children named like the derived row `tag` are exactly what the class would write there -/
def derivedOK (e : ClassEntry) (tag : Name) (ks : List Xml) : Bool :=
  match e.derive tag ks, ks.filter (fun k => rootTag k == tag) with
  | some s, [.node _ [] x []] => x == s
  | none, [] => true
  | _, _ => false

mutual
/-- the tree keeps the bookkeeping of the classes that read it: at every element read by a table-driven class,
    each derived row finds in the input exactly the element it will write -/
def bookkeptB (T : Tabs) : ClassId → Xml → Bool
  | c, .node _ _ _ ks =>
    match T c with
    | none => true
    | some e => (elemRows e.tab).all (fun r => r.kind != .derived || derivedOK e r.tag ks) && bookkeptKids T e.child ks
def bookkeptKids (T : Tabs) (child : Name → ClassId) : List Xml → Bool
  | [] => true
  | k :: ks => bookkeptB T (child (rootTag k)) k && bookkeptKids T child ks
end

def Bookkept (T : Tabs) (c : ClassId) (t : Xml) : Prop := bookkeptB T c t = true

instance (T : Tabs) (c : ClassId) (t : Xml) : Decidable (Bookkept T c t) := by unfold Bookkept; infer_instance

/-! ### content equivalence -/

mutual
/-- same element, same attributes (in any order) with the same values, same text, equivalent children in the same order -/
inductive Equiv : Xml → Xml → Prop
  | node {t : Name} {as bs : List (Name × String)} {x : String} {ks ls : List Xml} :
      as.Perm bs → EquivList ks ls → Equiv (.node t as x ks) (.node t bs x ls)
inductive EquivList : List Xml → List Xml → Prop
  | nil : EquivList [] []
  | cons {a b : Xml} {as bs : List Xml} : Equiv a b → EquivList as bs → EquivList (a :: as) (b :: bs)
end

/-! ### conformance of a class table to a content model (decidable) -/

def rowTags (tab : ClassTab) : List Name := (elemRows tab).map (·.tag)
def attrTags (tab : ClassTab) : List Name := (attrRows tab).map (·.tag)

/-- a single row may only face a particle that occurs at most once -/
def atMostOnce : Option Nat → Bool
  | some m => m ≤ 1
  | none => false

def boundsOK (tab : ClassTab) (ps : List ElemP) : Bool :=
  ps.all (fun p => (elemRows tab).all (fun r => r.tag != p.tag || r.kind == .multi || atMostOnce p.max))

/-- weak conformance: rows that face no particle / no attribute declaration are tolerated (they never fire on a valid tree) -/
def conformsWeakB (tab : ClassTab) (m : CModel) : Bool :=
  let mt := modelTags m
  decide mt.Nodup
    && decide (rowTags tab).Nodup
    && decide (attrTags tab).Nodup
    && ((rowTags tab).filter (fun t => mt.contains t) == mt)                  -- same child names in the same order
    && m.attrs.all (fun d => (attrTags tab).contains d.name)                    -- every declared attribute has a row
    && boundsOK tab (particles m.groups)

/-- strict conformance: additionally no row without a particle / declaration -/
def conformsB (tab : ClassTab) (m : CModel) : Bool :=
  conformsWeakB tab m
    && (rowTags tab == modelTags m)
    && (attrTags tab).all (fun t => m.attrs.any (fun d => d.name == t))

/-- the element particles that stand directly in the top-level sequence with minOccurs >= 1 -/
def requiredTags : List Group → List Name
  | [] => []
  | .elem e :: gs => if 1 ≤ e.min then e.tag :: requiredTags gs else requiredTags gs
  | .choice _ _ :: gs => requiredTags gs

/-- the legacy guards of a from_node override never fire on a valid tree: no `divertIf` tag is a particle of the
    model, every `divertUnless` tag is a required particle of the top-level sequence -/
def guardsOKB (dIf dUnless : List Name) (m : CModel) : Bool :=
  dIf.all (fun n => !(modelTags m).contains n) && dUnless.all (fun n => (requiredTags m.groups).contains n)

/-- `serialize ∘ parse` -/
def roundtrip (T : Tabs) (c : ClassId) (t : Xml) : Xml := serialize T c (parse T c t)

def Conforms (tab : ClassTab) (m : CModel) : Prop := conformsB tab m = true
def ConformsWeak (tab : ClassTab) (m : CModel) : Prop := conformsWeakB tab m = true

instance (tab : ClassTab) (m : CModel) : Decidable (Conforms tab m) := by unfold Conforms; infer_instance
instance (tab : ClassTab) (m : CModel) : Decidable (ConformsWeak tab m) := by unfold ConformsWeak; infer_instance

/-! ### finite presentation of one schema version (emitted by translate/xsd2lean.py) -/

structure ClassData where
  id : ClassId
  tab : ClassTab
  children : List (Name × ClassId)
  divertIf : List Name := []
  divertUnless : List Name := []
  deriving Repr, Inhabited

structure TypeData where
  id : TypeId
  model : CModel
  children : List (Name × TypeId)
  deriving Repr, Inhabited

def lookupChild (m : List (Name × Nat)) (n : Name) : Nat :=
  match m.find? (fun p => p.1 == n) with
  | some p => p.2
  | none => 0

/-- what the read-only properties of every class write: a parameter of the presentation (the theorems hold for
    every such function; the harness compares the real values) -/
abbrev Deriver := ClassId → Name → List Xml → Option String

def noDerive : Deriver := fun _ _ _ => none

def mkTabsD (D : Deriver) (cs : List ClassData) : Tabs :=
  fun c => (cs.find? (fun d => d.id == c)).map (fun d => ⟨d.tab, lookupChild d.children, D d.id, d.divertIf, d.divertUnless⟩)

def mkTabs (cs : List ClassData) : Tabs := mkTabsD noDerive cs

def mkSchema (ts : List TypeData) : Schema :=
  fun t => (ts.find? (fun d => d.id == t)).map (fun d => ⟨d.model, lookupChild d.children⟩)

/-- the listed (class, type) pairs are closed under children and every listed table-driven class conforms (weakly)
    to the type it is paired with; classes that are not listed are opaque -/
def closedB (cs : List ClassData) (ts : List TypeData) (pairs : List (ClassId × TypeId)) : Bool :=
  pairs.all (fun p =>
    match mkTabs cs p.1 with
    | none => true
    | some e =>
      match mkSchema ts p.2 with
      | none => false
      | some te => conformsWeakB e.tab te.model && guardsOKB e.divertIf e.divertUnless te.model
          && (modelTags te.model).all (fun n => pairs.contains (e.child n, te.child n)))

end Sarpy.Spec.XsdFmt
