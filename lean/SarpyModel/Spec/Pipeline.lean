/-
  Spec.Pipeline — the writer protocols of NITFWriter as state machines over segment stores, and
  the row routing of an image through a segmentation.  Import-free (uses Spec.Scatter, Spec.Layout).

  Code anchors (sarpy/io/general/nitf.py): NITFWriter.flush / close, NITFWritingDetails.write_all_populated_items,
  the memmap-on-path protocol (items live in the file) vs the in-memory protocol (item bytes captured at flush when
  fully written, or when forced at close).
-/
import SarpyModel.Spec.Scatter
import SarpyModel.Spec.Layout

namespace Sarpy.Spec.Pipeline
open Sarpy.Spec

inductive Op (α : Type) where
  | write (seg : Nat) (c : Chunk α)
  | flush
deriving Repr

structure WState (α : Type) where
  stores : List (Store α)          -- one raw store per image segment
  delivered : List (Option (Store α))  -- what has reached the caller's file for each segment (in-memory protocol)
deriving Repr

def initState (α : Type) (sizes : List Nat) : WState α :=
  { stores := sizes.map (emptyStore α), delivered := sizes.map (fun _ => none) }

def writeSeg {α : Type} (stores : List (Store α)) (k : Nat) (c : Chunk α) : List (Store α) :=
  match stores[k]? with
  | none => stores
  | some st => stores.set k (scatter st c)

/-- deliver the segments that are complete (or all of them when forced), once -/
def deliver {α : Type} (force : Bool) (s : WState α) : WState α :=
  { s with delivered := List.zipWith (fun st d => match d with
      | some x => some x
      | none => if force || fullyWritten st then some st else none) s.stores s.delivered }

def step {α : Type} (s : WState α) : Op α → WState α
  | .write k c => { s with stores := writeSeg s.stores k c }
  | .flush => deliver false s

def runOps {α : Type} (s : WState α) (ops : List (Op α)) : WState α := ops.foldl step s

/-- `close` = forced flush -/
def close {α : Type} (s : WState α) : WState α := deliver true s

/-- in-memory protocol: what the caller's file holds after close -/
def fileInMemory {α : Type} (sizes : List Nat) (ops : List (Op α)) : List (Option (Store α)) :=
  (close (runOps (initState α sizes) ops)).delivered

/-- memmap protocol: the file *is* the stores -/
def fileMemmap {α : Type} (sizes : List Nat) (ops : List (Op α)) : List (Option (Store α)) :=
  (runOps (initState α sizes) ops).stores.map some

/-- the writes of a history, per segment, in order -/
def chunksOf {α : Type} (ops : List (Op α)) (k : Nat) : List (Chunk α) :=
  ops.filterMap (fun o => match o with
    | .write j c => if j = k then some c else none
    | .flush => none)

/-! row routing -/

/-- split image rows by a segmentation -/
def splitRows {β : Type} (rows : List β) (segs : List (Nat × Nat)) : List (List β) :=
  segs.map (fun s => (rows.drop s.1).take (s.2 - s.1))

end Sarpy.Spec.Pipeline
