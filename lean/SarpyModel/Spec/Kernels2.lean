/-
  Spec.Kernels2 — reference definitions of small integer kernels that live inside sarpy methods
  (the regenerated counterparts are in Gen/Kernels2.lean, the bridge theorems in Bridge/Kernels2.lean).
-/
import SarpyModel.Spec.Slice
namespace Sarpy.Spec.K2

/-- largest allowable NITF image segment item: LI is a 10 digit field -/
def imSegLimit : Int := 9999999998

/-- the requested row limit as `_set_row_limit` reads it (sicd.py:653-668, sidd.py:587-603):
    `None`, values below 1 and values above 99999 (ILOC has five digits per coordinate) mean 99999 -/
def requestedRows : Option Int → Int
  | none => 99999
  | some v => if v < 1 ∨ 99999 < v then 99999 else v

/-- the row limit: the request, capped so that one segment never exceeds the 10^10 - 2 byte item limit -/
def rowLimit (value : Option Int) (rowBytes : Int) : Int := min (requestedRows value) (imSegLimit / rowBytes)

/-- pixels per block vertically / horizontally: 0 means "the whole image dimension" (MIL-STD-2500C NPPBV / NPPBH) -/
def effBlock (nppb n : Int) : Int := if nppb = 0 then n else nppb

/-- bytes of one uncompressed block (`ImageSegmentHeader.get_uncompressed_block_size`, image.py:819-836):
    IMODE S stores one band per block -/
def blockBytes (nrows ncols nppbv nppbh nbpp nbands : Int) (imodeS : Bool) : Int :=
  if imodeS then Int.tdiv (effBlock nppbh ncols * effBlock nppbv nrows * nbpp) 8
  else Int.tdiv (effBlock nppbh ncols * effBlock nppbv nrows * nbands * nbpp) 8

/-- bytes of the whole uncompressed image incl. pad pixels (`get_full_uncompressed_image_size`, image.py:838-851) -/
def fullImageBytes (nbpr nbpc nbands : Int) (imodeS : Bool) (blockSize : Int) : Int :=
  (if imodeS then nbpr * nbpc * nbands else nbpr * nbpc) * blockSize

/-- byte width of the pad pixel code TPXCD for a code of `bits` bits (`MaskSubheader.define_tpxcd_length`): ⌈bits / 8⌉ -/
def tpxcdBytes (bits : Int) : Int := (bits + 7) / 8

/-- a parent subscript that selects inside a subset, in subset coordinates (`SubsetSegment._from_parent_subscript`,
    data_segment.py:1227-1247), one axis: positions (p - d.start) / d.step for the selected parent indices p -/
def fromParentAxis (part d : NSlice) : NSlice :=
  let start := Int.fdiv (part.start - d.start) d.step
  let step := Int.fdiv part.step d.step
  let stop := start + step * ((part.count : Int) - 1) + (if 0 < step then 1 else -1)
  ⟨start, if stop < 0 then none else some stop, step⟩

end Sarpy.Spec.K2
