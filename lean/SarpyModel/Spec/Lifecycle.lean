/-
  Spec.Lifecycle — open / close life cycle of sarpy readers, data-segment trees and writers as
  two small state machines (`init`, `step : State → Op → State × Out`).  Import-free, total,
  computable (the line-protocol driver `Drivers/Lifecycle.lean` runs exactly these definitions).

  (a) `RState` / `rstep` : a reader or a data segment with the tree of segments below it.
      mirrors sarpy/io/general/base.py  BaseReader.close / __call__ / __del__ / __exit__ (436-483, 393)
              sarpy/io/general/data_segment.py  DataSegment._validate_closed / close (506-508, 816-824),
              close propagation of Reorientation (984-995), Subset (1385-1396), BandAggregate (1666-1678),
              BlockAggregate (1933-1945), NumpyArray (2105-2114), NumpyMemmap (2203-2214),
              FileRead (2535-2546) segments.
  (b) `WState` / `wstep` : a writer with its target file and its image segments.
      mirrors sarpy/io/general/base.py  BaseWriter.__call__/flush/close (827, 840-881),
              sarpy/io/general/nitf.py  NITFWriter.__init__ (3539-3556), flush (4118-4140), close (4142-4159),
              sarpy/io/phase_history/cphd.py CPHDWriter1.__init__/flush/close, sarpy/io/complex/sio.py SIOWriter,
              NumpyArraySegment._update_pixels_written / check_fully_written (2045-2074).
-/
namespace Sarpy.Spec.Lifecycle

/-- what the caller sees: the call returned, raised (`ValueError` ... mapped to `refused`),
    or the object no longer exists (`del`) -/
inductive Out where
  | ok | refused | gone
deriving DecidableEq, Repr, Inhabited

/-! ## shared helpers on `List Bool` -/

/-- mark the `n` entries starting at `r0` -/
def setRange : List Bool → Nat → Nat → List Bool
  | [], _, _ => []
  | b :: l, 0, 0 => b :: l
  | _ :: l, 0, n + 1 => true :: setRange l 0 n
  | b :: l, r + 1, n => b :: setRange l r n

/-- all `n` entries starting at `r0` exist and are still `false` -/
def freshRange : List Bool → Nat → Nat → Bool
  | _, _, 0 => true
  | [], _, _ + 1 => false
  | b :: l, 0, n + 1 => !b && freshRange l 0 n
  | _ :: l, r + 1, n + 1 => freshRange l r (n + 1)

/-- number of marked entries -/
def cnt : List Bool → Nat
  | [] => 0
  | b :: l => (if b then 1 else 0) + cnt l

/-! ## (a) readers and segment trees -/

/-- A forest of segments in first-child / next-sibling form.  One `cons` is one object:
    `closed`    its `_closed` flag,
    `prop`      does its `close()` call `close()` on the objects below it
                (`close_parent`, `close_children`, `close_segments`),
    `file`      the file object a leaf segment holds (index into the file table), if any,
    `closeFile` the leaf's `close_file` option (the segment was given ownership of that file object),
    `kids`      the objects directly below it,  `rest` its following siblings. -/
inductive Forest where
  | nil
  | cons (closed prop : Bool) (file : Option Nat) (closeFile : Bool) (kids rest : Forest)
deriving DecidableEq, Repr, Inhabited

/-- `close()` applied to every tree of a forest (what a parent does to the objects below it).
    A closed object returns at once (`if self._closed: return`), an open one closes what is below it
    when its flag says so, and sets `_closed`. -/
def closeAll : Forest → Forest
  | .nil => .nil
  | .cons closed prop file cf kids rest =>
    if closed then .cons closed prop file cf kids (closeAll rest)
    else .cons true prop file cf (if prop then closeAll kids else kids) (closeAll rest)

/-- the file objects on which `closeAll` calls `.close()`: those of the not yet closed, reached,
    `close_file=True` leaves -/
def toClose : Forest → List Nat
  | .nil => []
  | .cons closed prop file cf kids rest =>
    if closed then toClose rest
    else (if prop then toClose kids else []) ++
         (match file, cf with | some f, true => [f] | _, _ => []) ++ toClose rest

def closeFiles (files : List Bool) (ids : List Nat) : List Bool :=
  ids.foldl (fun a f => a.set f false) files

/-- every object of the forest (at any depth) is open: a full read reaches all of them and each
    one passes `_validate_closed` -/
def allOpen : Forest → Bool
  | .nil => true
  | .cons closed _ _ _ kids rest => !closed && allOpen kids && allOpen rest

/-- every object of the forest that `closeAll` reaches is closed -/
def reachClosed : Forest → Bool
  | .nil => true
  | .cons closed prop _ _ kids rest => closed && (if prop then reachClosed kids else true) && reachClosed rest

/-- file objects owned by a reachable leaf -/
def reachOwned : Forest → List Nat
  | .nil => []
  | .cons _ prop file cf kids rest =>
    (if prop then reachOwned kids else []) ++ (match file, cf with | some f, true => [f] | _, _ => []) ++ reachOwned rest

/-- file objects owned by any leaf -/
def owned : Forest → List Nat
  | .nil => []
  | .cons _ _ file cf kids rest =>
    owned kids ++ (match file, cf with | some f, true => [f] | _, _ => []) ++ owned rest

/-- closed flags in pre-order (the driver prints them, the harness reads `.closed` in the same order) -/
def flags : Forest → List Bool
  | .nil => []
  | .cons closed _ _ _ kids rest => closed :: (flags kids ++ flags rest)

/-- the `i`-th tree of a forest, alone -/
def nth : Forest → Nat → Forest
  | .nil, _ => .nil
  | .cons c p f cf kids _, 0 => .cons c p f cf kids .nil
  | .cons _ _ _ _ _ rest, i + 1 => nth rest i

def size : Forest → Nat
  | .nil => 0
  | .cons _ _ _ _ _ rest => size rest + 1

def rootClosed : Forest → Bool
  | .nil => true
  | .cons c _ _ _ _ _ => c

structure RState where
  /-- one tree: the reader (or the root segment) with everything below it -/
  root : Forest
  /-- open? for each file object the caller created -/
  files : List Bool
  /-- present? for each temp file handed to the reader (`delete_files`) -/
  temp : List Bool
  /-- the root object has been deleted (`del` + `gc.collect()`) -/
  gone : Bool
deriving DecidableEq, Repr, Inhabited

inductive ROp where
  /-- `none`: a full read of a root segment; `some i`: `reader.read(index=i)` -/
  | read (i : Option Nat)
  | close
  /-- leaving a `with` block normally / with an exception in flight -/
  | exit
  | exitErr
  /-- `del obj; gc.collect()` (`__del__` calls `close`) -/
  | del
deriving DecidableEq, Repr, Inhabited

/-- does a read return data?  base.py:393 (`_validate_closed`), 418-421 (a single segment ignores the
    index; a missing index is an `IndexError`), data_segment.py `_validate_closed` at every level -/
def readable : Forest → Option Nat → Bool
  | .nil, _ => false
  | .cons c _ _ _ kids _, none => !c && allOpen kids
  | .cons c _ _ _ kids _, some i =>
    !c && (if size kids == 1 then allOpen kids
           else if i < size kids then allOpen (nth kids i) else false)

/-- `close()`: base.py:442 return if closed; 445-451 close segments; 454-463 remove temp files; 464 -/
def rclose (s : RState) : RState :=
  if rootClosed s.root then s
  else { s with root := closeAll s.root
                files := closeFiles s.files (toClose s.root)
                temp := s.temp.map (fun _ => false) }

def rstep (s : RState) (op : ROp) : RState × Out :=
  if s.gone then (s, .gone)
  else match op with
    | .read i => (s, if readable s.root i then .ok else .refused)
    | .close => (rclose s, .ok)
    | .exit => (rclose s, .ok)
    | .exitErr => (rclose s, .ok)
    | .del => ({ rclose s with gone := true }, .ok)

def rrun (s : RState) : List ROp → RState
  | [] => s
  | op :: ops => rrun (rstep s op).1 ops

/-- the outputs of a history -/
def routs (s : RState) : List ROp → List Out
  | [] => []
  | op :: ops => (rstep s op).2 :: routs (rstep s op).1 ops

/-- all flags of a forest cleared (a freshly constructed tree) -/
def fresh : Forest → Forest
  | .nil => .nil
  | .cons _ p f cf kids rest => .cons false p f cf (fresh kids) (fresh rest)

/-- construction: a root object (`prop`, `file`, `closeFile`) over freshly built objects `kids`;
    everything open, every temp file present -/
def rinit (prop : Bool) (file : Option Nat) (closeFile : Bool) (kids : Forest) (nfiles ntemp : Nat) : RState :=
  { root := .cons false prop file closeFile (fresh kids) .nil, files := List.replicate nfiles true,
    temp := List.replicate ntemp true, gone := false }

/-! ## (b) writers -/

/-- one image segment of a writer.
    `cols`   raw samples per row,  `rows` which rows hold written data (ground truth),
    `count`  sarpy's `_pixels_written` counter (sum of the sizes of all chunks handed to write),
    `deliv`  which rows' data are in the target file,
    `handed` the segment's bytes have been handed to the target (`item_bytes` set / memmap) -/
structure Seg where
  cols : Nat
  rows : List Bool
  count : Nat
  deliv : List Bool
  handed : Bool
deriving DecidableEq, Repr, Inhabited

def Seg.expected (g : Seg) : Nat := g.cols * g.rows.length
/-- `check_fully_written()`: the counter equals the expected sample count (data_segment.py:2049-2064) -/
def Seg.claims (g : Seg) : Bool := g.count == g.expected
/-- every row really holds written data -/
def Seg.complete (g : Seg) : Bool := g.rows.all id
/-- every row's data is in the target -/
def Seg.delivered (g : Seg) : Bool := g.deliv.all id

structure WState where
  closed : Bool
  gone : Bool
  /-- the writer opened the target itself (a path was given): `_close_after` -/
  owns : Bool
  /-- the target is not a real file (`is_real_file` false): samples are kept in arrays and reach the
      target only in `flush` / `close` -/
  inMem : Bool
  /-- the target file object is open -/
  fileOpen : Bool
  /-- a file that existed at the path has been truncated by construction -/
  clobbered : Bool
  segs : List Seg
deriving DecidableEq, Repr, Inhabited

inductive Target where
  | path (existedBefore : Bool)
  | callerMem
  | callerReal
deriving DecidableEq, Repr, Inhabited

structure WCfg where
  target : Target
  /-- the `check_existence` option -/
  check : Bool
  /-- (rows, samples per row) of each image segment -/
  shapes : List (Nat × Nat)
deriving DecidableEq, Repr, Inhabited

def mkSeg (real : Bool) (sh : Nat × Nat) : Seg :=
  { cols := sh.2, rows := List.replicate sh.1 false, count := 0,
    deliv := List.replicate sh.1 false, handed := real }

/-- construction (nitf.py:3539-3556, cphd.py:1346-1361, sio.py:400-414): an existing path is refused
    when `check_existence`; a path is opened by the writer (and truncates what was there); a real file
    gets memory-mapped segments (`item_written = True` "in principle"), anything else array segments -/
def winit (c : WCfg) : Option WState :=
  match c.target with
  | .path ex =>
    if c.check && ex then none
    else some { closed := false, gone := false, owns := true, inMem := false, fileOpen := true,
                clobbered := ex, segs := c.shapes.map (mkSeg true) }
  | .callerMem =>
    some { closed := false, gone := false, owns := false, inMem := true, fileOpen := true,
           clobbered := false, segs := c.shapes.map (mkSeg false) }
  | .callerReal =>
    some { closed := false, gone := false, owns := false, inMem := false, fileOpen := true,
           clobbered := false, segs := c.shapes.map (mkSeg true) }

inductive WOp where
  /-- write rows `r0 .. r0+n-1` of segment `i` -/
  | write (i r0 n : Nat)
  | flush
  | close
  | exit
  | exitErr
  | del
deriving DecidableEq, Repr, Inhabited

/-- the chunk lies inside the segment -/
def Seg.valid (g : Seg) (r0 n : Nat) : Bool := decide (1 ≤ n) && decide (r0 + n ≤ g.rows.length)

/-- write into the array / memory map, count the samples (data_segment.py:2082-2086) -/
def Seg.write (inMem : Bool) (g : Seg) (r0 n : Nat) : Seg :=
  { g with rows := setRange g.rows r0 n
           count := g.count + n * g.cols
           deliv := if inMem then g.deliv else setRange g.deliv r0 n }

/-- hand the segment's bytes to the target, once (`item_bytes` is write-once; nitf.py:4127-4133) -/
def Seg.hand (g : Seg) : Seg :=
  if g.handed then g else { g with deliv := g.rows, handed := true }

def modifyAt (l : List Seg) (i : Nat) (f : Seg → Seg) : List Seg :=
  match l, i with
  | [], _ => []
  | g :: l, 0 => f g :: l
  | g :: l, i + 1 => g :: modifyAt l i f

/-- `flush()` without force: only segments that claim to be fully written are handed over -/
def flushSegs (l : List Seg) : List Seg := l.map (fun g => if g.claims then g.hand else g)

/-- `close()`: flush(force=True) hands every segment over, the segments are closed, a file the
    writer opened is closed, a file of the caller is not (nitf.py:4152-4158) -/
def wclose (s : WState) : WState :=
  if s.closed then s
  else { s with closed := true
                segs := s.segs.map Seg.hand
                fileOpen := if s.owns then false else s.fileOpen }

def wstep (s : WState) (op : WOp) : WState × Out :=
  if s.gone then (s, .gone)
  else match op with
    | .write i r0 n =>
      if s.closed then (s, .refused)
      else match s.segs[i]? with
        | none => (s, .refused)
        | some g =>
          if g.valid r0 n then ({ s with segs := modifyAt s.segs i (fun g => g.write s.inMem r0 n) }, .ok)
          else (s, .refused)
    | .flush =>
      if s.closed then (s, .refused)
      else ({ s with segs := flushSegs s.segs }, .ok)
    | .close => (wclose s, .ok)
    | .exit => (wclose s, .ok)
    | .exitErr => (wclose s, .ok)
    | .del => ({ wclose s with gone := true }, .ok)

def wrun (s : WState) : List WOp → WState
  | [] => s
  | op :: ops => wrun (wstep s op).1 ops

def wouts (s : WState) : List WOp → List Out
  | [] => []
  | op :: ops => (wstep s op).2 :: wouts (wstep s op).1 ops

/-- the chunk of a write touches only rows that have not been written (no rewriting) -/
def freshOp (s : WState) : WOp → Bool
  | .write i r0 n =>
    match s.segs[i]? with
    | none => true
    | some g => if s.closed || s.gone || !(g.valid r0 n) then true else freshRange g.rows r0 n
  | _ => true

/-- a history in which no write touches an already written row -/
def freshRun (s : WState) : List WOp → Bool
  | [] => true
  | op :: ops => freshOp s op && freshRun (wstep s op).1 ops


/-! ## (c) construction of a reader: which temp files does it own when `__init__` returns

  `BaseReader.__init__` is re-entrant (base.py:104-106 "it's entirely possible under multiple inheritance ... that this
  initializer has already been called").  `NITFReader.__init__` (nitf.py:1250-1255) creates the bookkeeping list
  `_delete_temp_files`, then builds its data segments (nitf.py:1301) - the handlers of compressed image segments
  (`_handle_jpeg`, `_handle_jpeg2k_no_mask`, `_handle_jpeg2k_with_mask`, `_handle_imode_s_jpeg`: nitf.py:1614, 1685,
  1795, 2066) create a `*.sarpy_cache` file with `mkstemp` and append its name to the list - and only then calls
  `BaseReader.__init__` (nitf.py:1302), which must PRESERVE what is on the list (base.py:126-129:
  `try: _ = self._delete_temp_files / except AttributeError: self._delete_temp_files = []`) before it adds the
  `delete_files` argument (base.py:131-139).  Construction is a list of phases; `close()` removes exactly what is on
  the list (base.py:454-463). -/

inductive Phase where
  /-- (re)initialise the list.  `guarded = true`: the `try / except AttributeError` form (an existing list is kept);
      `guarded = false`: the bare assignment `self._delete_temp_files = []` -/
  | initList (guarded : Bool)
  /-- a segment handler creates the temp file `f` on disk (`mkstemp`) and, when `register`, appends it to the list -/
  | mkTemp (f : Nat) (register : Bool)
  /-- the `delete_files` argument: every entry not yet on the list is appended (base.py:131-139) -/
  | addFiles (fs : List Nat)
deriving DecidableEq, Repr, Inhabited

structure CState where
  /-- the attribute `_delete_temp_files`; `none`: the attribute does not exist yet -/
  reg : Option (List Nat)
  /-- every temp file construction has created so far, in order of creation (ground truth) -/
  made : List Nat
  /-- construction raised (`AttributeError`: the list is used before it exists) -/
  failed : Bool
deriving DecidableEq, Repr, Inhabited

def cinit : CState := { reg := none, made := [], failed := false }

def CState.registered (s : CState) : List Nat := s.reg.getD []

/-- `for entry in delete_files: if entry not in self._delete_temp_files: self._delete_temp_files.append(entry)` -/
def addNew : List Nat → List Nat → List Nat
  | l, [] => l
  | l, f :: fs => addNew (if l.contains f then l else l ++ [f]) fs

def cstep (s : CState) (p : Phase) : CState :=
  if s.failed then s
  else match p with
    | .initList guarded =>
      match guarded, s.reg with
      | true, some _ => s
      | _, _ => { s with reg := some [] }
    | .mkTemp f register =>
      -- the file exists from `mkstemp` on, whatever happens next
      let s1 := { s with made := s.made ++ [f] }
      if register then
        match s.reg with
        | none => { s1 with failed := true }
        | some l => { s1 with reg := some (l ++ [f]) }
      else s1
    | .addFiles fs =>
      match s.reg with
      | none => { s with failed := true }
      | some l => { s with reg := some (addNew l fs) }

def crun (s : CState) : List Phase → CState
  | [] => s
  | p :: ps => crun (cstep s p) ps

/-- a phase that cannot lose a registered file -/
def Phase.guarded : Phase → Bool
  | .initList g => g
  | .mkTemp _ r => r
  | .addFiles _ => true

/-- `BaseReader.__init__(..., delete_files=extra)`; `g`: is its list initialisation guarded -/
def baseCtorWith (g : Bool) (extra : List Nat) : List Phase := [.initList g, .addFiles extra]
/-- `NITFReader.__init__` over image segments whose handlers create (and register) the temp files `temps`;
    `g1`, `g2`: are the list initialisations of `NITFReader.__init__` / `BaseReader.__init__` guarded -/
def nitfCtorWith (g1 g2 : Bool) (temps extra : List Nat) : List Phase :=
  .initList g1 :: (temps.map (fun t => Phase.mkTemp t true) ++ baseCtorWith g2 extra)

/-- the constructors as the code has them: both initialisations guarded -/
def baseCtor (extra : List Nat) : List Phase := baseCtorWith true extra
def nitfCtor (temps extra : List Nat) : List Phase := nitfCtorWith true true temps extra

/-- a reader together with the result of its construction.  Slot `i` of `r.temp` is the `i`-th registered file. -/
structure CReader where
  c : CState
  /-- temp files that existed before construction (created by the caller and handed over through `delete_files`) -/
  pre : List Nat
  r : RState
deriving DecidableEq, Repr, Inhabited

/-- run the construction phases, then build the reader machine over the registered files (`none`: construction raised) -/
def cinitReader (ps : List Phase) (pre : List Nat) (prop : Bool) (file : Option Nat) (closeFile : Bool)
    (kids : Forest) (nfiles : Nat) : Option CReader :=
  let c := crun cinit ps
  if c.failed then none
  else some { c := c, pre := pre, r := rinit prop file closeFile kids nfiles c.registered.length }

/-- is the temp file `f` on disk: it existed before or was created during construction, and it has not been removed -
    `close()` only removes what is on the list -/
def CReader.onDisk (x : CReader) (f : Nat) : Bool :=
  (x.pre.contains f || x.c.made.contains f) && (x.r.temp[x.c.registered.idxOf f]?).getD true

def CReader.step (x : CReader) (op : ROp) : CReader × Out :=
  let r := rstep x.r op
  ({ x with r := r.1 }, r.2)

def CReader.run (x : CReader) (ops : List ROp) : CReader := { x with r := rrun x.r ops }

/-! ## (d) writers over blocked image segments

  A NITF image segment with more than one block (or one padded block) is a `BlockAggregateSegment` over one child per
  block (nitf.py:3923-3961): a `NumpyArraySegment` (in memory) / `NumpyMemmapSegment` (real file), wrapped in a
  `SubsetSegment` when the block is padded.  Each child keeps its own sample counter; the aggregate claims to be fully
  written when every child does (data_segment.py:1897-1907: `out = True; for child: out &= child.check_fully_written()`).
  `NITFWriter.flush()` hands the bytes of an image segment to the target, once, when `force or check_fully_written()`
  (nitf.py:4124-4134); rows written after the hand-over never reach the target.  An image that exceeds the row limit is a
  collection of several image segments behind one data segment index (nitf.py:4075-4110); the hand-over is per image
  segment.  Pixel accounting is per pixel here: `pix` is the ground truth of what has been written. -/

/-- rows `r .. r+n-1`, columns `c .. c+m-1` of a pixel map marked -/
def markRows : List (List Bool) → Nat → Nat → Nat → Nat → List (List Bool)
  | [], _, _, _, _ => []
  | row :: l, 0, 0, _, _ => row :: l
  | row :: l, 0, n + 1, c, m => setRange row c m :: markRows l 0 n c m
  | row :: l, r + 1, n, c, m => row :: markRows l r n c m

/-- all pixels of the rectangle exist and are still unwritten -/
def freshRows : List (List Bool) → Nat → Nat → Nat → Nat → Bool
  | _, _, 0, _, _ => true
  | [], _, _ + 1, _, _ => false
  | row :: l, 0, n + 1, c, m => freshRange row c m && freshRows l 0 n c m
  | _ :: l, r + 1, n + 1, c, m => freshRows l r (n + 1) c m

def cnt2 : List (List Bool) → Nat
  | [] => 0
  | row :: l => cnt row + cnt2 l

def all2 (p : List (List Bool)) : Bool := p.all (fun row => row.all id)

/-- one block of an image segment.
    `r0 c0`  position of the block in the image the writer's data segment shows,
    `h w`    its valid (unpadded) size,
    `pix`    which of its pixels hold written data (ground truth),
    `count`  the child's `_pixels_written` (raw samples handed to write),
    `deliv`  which of its pixels' data are in the target -/
structure Blk where
  r0 : Nat
  c0 : Nat
  h : Nat
  w : Nat
  pix : List (List Bool)
  count : Nat
  deliv : List (List Bool)
deriving DecidableEq, Repr, Inhabited

def mkBlk (r0 c0 h w : Nat) : Blk :=
  { r0 := r0, c0 := c0, h := h, w := w, pix := List.replicate h (List.replicate w false), count := 0,
    deliv := List.replicate h (List.replicate w false) }

/-- overlap of `[a, a+n)` with `[r0, r0+h)`: (start relative to `r0`, length); `_find_slice_overlap` -/
def overlap (a n r0 h : Nat) : Nat × Nat :=
  (max a r0 - r0, min (a + n) (r0 + h) - max a r0)

/-- a chunk (rows `a .. a+n-1`, columns `c .. c+m-1` of the image) reaches a block: the overlap is written into the
    child array / memory map and the child counts the samples; a block without overlap is skipped
    (data_segment.py:1940-1971) -/
def Blk.write (spp : Nat) (inMem : Bool) (b : Blk) (a n c m : Nat) : Blk :=
  let ro := overlap a n b.r0 b.h
  let co := overlap c m b.c0 b.w
  if ro.2 = 0 ∨ co.2 = 0 then b
  else { b with pix := markRows b.pix ro.1 ro.2 co.1 co.2
                count := b.count + ro.2 * co.2 * spp
                deliv := if inMem then b.deliv else markRows b.deliv ro.1 ro.2 co.1 co.2 }

def Blk.expected (spp : Nat) (b : Blk) : Nat := b.h * b.w * spp
/-- the child's `check_fully_written()` -/
def Blk.claims (spp : Nat) (b : Blk) : Bool := b.count == b.expected spp
def Blk.complete (b : Blk) : Bool := all2 b.pix
def Blk.delivered (b : Blk) : Bool := all2 b.deliv

/-- the loop of `BlockAggregateSegment.check_fully_written` / `BandAggregateSegment.check_fully_written`:
    `out = True; for child in children: done = child.check_fully_written(); out &= done; return out` -/
def conj (l : List Bool) : Bool := l.foldl (fun out done => out && done) true

/-- the loop with `out = done` in place of `out &= done`: the status of the last child only -/
def lastOnly (l : List Bool) : Bool := l.foldl (fun _ done => done) true

/-- one image segment: `coll` the writer's data segment index it belongs to, `spp` raw samples per pixel,
    `handed` its bytes have been handed to the target (`item_bytes` set / memory map) -/
structure BSeg where
  coll : Nat
  spp : Nat
  blocks : List Blk
  handed : Bool
deriving DecidableEq, Repr, Inhabited

/-- `check_fully_written()` of the image segment's data segment: every block claims -/
def BSeg.claims (g : BSeg) : Bool := conj (g.blocks.map (Blk.claims g.spp))
/-- the same with the last-block-only loop (not what the code does; see Props/C19Blocks.lean) -/
def BSeg.claimsLast (g : BSeg) : Bool := lastOnly (g.blocks.map (Blk.claims g.spp))
def BSeg.complete (g : BSeg) : Bool := g.blocks.all Blk.complete
def BSeg.delivered (g : BSeg) : Bool := g.blocks.all Blk.delivered

def BSeg.write (inMem : Bool) (g : BSeg) (a n c m : Nat) : BSeg :=
  { g with blocks := g.blocks.map (fun b => b.write g.spp inMem a n c m) }

/-- hand the bytes of every block to the target, once (`manager.item_bytes = entry.get_raw_bytes()`, write-once) -/
def BSeg.hand (g : BSeg) : BSeg :=
  if g.handed then g
  else { g with blocks := g.blocks.map (fun b => { b with deliv := b.pix }), handed := true }

/-- one iteration of the hand-over loop of `NITFWriter.flush(force)` (nitf.py:4124-4134): a segment that is already
    written or already has its bytes is skipped; otherwise it is handed over when `force` or when it claims -/
def shouldHand (handed force claims : Bool) : Bool := !handed && (force || claims)

structure WBState where
  closed : Bool
  gone : Bool
  owns : Bool
  inMem : Bool
  fileOpen : Bool
  clobbered : Bool
  /-- (rows, columns) of each data segment of the writer -/
  shapes : List (Nat × Nat)
  segs : List BSeg
deriving DecidableEq, Repr, Inhabited

structure WBCfg where
  target : Target
  check : Bool
  shapes : List (Nat × Nat)
  /-- per image segment: data segment index, samples per pixel, blocks `(r0, c0, h, w)` -/
  segs : List (Nat × Nat × List (Nat × Nat × Nat × Nat))
deriving Repr, Inhabited

def mkBSeg (real : Bool) (d : Nat × Nat × List (Nat × Nat × Nat × Nat)) : BSeg :=
  { coll := d.1, spp := d.2.1, blocks := d.2.2.map (fun q => mkBlk q.1 q.2.1 q.2.2.1 q.2.2.2), handed := real }

def wbinit (c : WBCfg) : Option WBState :=
  match c.target with
  | .path ex =>
    if c.check && ex then none
    else some { closed := false, gone := false, owns := true, inMem := false, fileOpen := true,
                clobbered := ex, shapes := c.shapes, segs := c.segs.map (mkBSeg true) }
  | .callerMem =>
    some { closed := false, gone := false, owns := false, inMem := true, fileOpen := true,
           clobbered := false, shapes := c.shapes, segs := c.segs.map (mkBSeg false) }
  | .callerReal =>
    some { closed := false, gone := false, owns := false, inMem := false, fileOpen := true,
           clobbered := false, shapes := c.shapes, segs := c.segs.map (mkBSeg true) }

inductive WBOp where
  /-- write rows `a .. a+n-1`, columns `c .. c+m-1` of data segment `i` -/
  | write (i a n c m : Nat)
  | flush
  | close
  | exit
  | exitErr
  | del
deriving DecidableEq, Repr, Inhabited

def chunkValid (sh : Nat × Nat) (a n c m : Nat) : Bool :=
  decide (1 ≤ n) && decide (1 ≤ m) && decide (a + n ≤ sh.1) && decide (c + m ≤ sh.2)

def writeSegs (inMem : Bool) (l : List BSeg) (i a n c m : Nat) : List BSeg :=
  l.map (fun g => if g.coll = i then g.write inMem a n c m else g)

/-- `flush()` without force, with the fully-written test `claimF` -/
def flushSegsWith (claimF : BSeg → Bool) (l : List BSeg) : List BSeg :=
  l.map (fun g => if claimF g then g.hand else g)

def wbclose (s : WBState) : WBState :=
  if s.closed then s
  else { s with closed := true
                segs := s.segs.map BSeg.hand
                fileOpen := if s.owns then false else s.fileOpen }

/-- one operation of a writer whose non-forced flush trusts `claimF` -/
def wbstepWith (claimF : BSeg → Bool) (s : WBState) (op : WBOp) : WBState × Out :=
  if s.gone then (s, .gone)
  else match op with
    | .write i a n c m =>
      if s.closed then (s, .refused)
      else match s.shapes[i]? with
        | none => (s, .refused)
        | some sh =>
          if chunkValid sh a n c m then ({ s with segs := writeSegs s.inMem s.segs i a n c m }, .ok)
          else (s, .refused)
    | .flush =>
      if s.closed then (s, .refused)
      else ({ s with segs := flushSegsWith claimF s.segs }, .ok)
    | .close => (wbclose s, .ok)
    | .exit => (wbclose s, .ok)
    | .exitErr => (wbclose s, .ok)
    | .del => ({ wbclose s with gone := true }, .ok)

/-- the writer as the code has it: the aggregate claims when every block claims -/
def wbstep : WBState → WBOp → WBState × Out := wbstepWith BSeg.claims

def wbrunWith (claimF : BSeg → Bool) (s : WBState) : List WBOp → WBState
  | [] => s
  | op :: ops => wbrunWith claimF (wbstepWith claimF s op).1 ops

def wbrun : WBState → List WBOp → WBState := wbrunWith BSeg.claims

def wboutsWith (claimF : BSeg → Bool) (s : WBState) : List WBOp → List Out
  | [] => []
  | op :: ops => (wbstepWith claimF s op).2 :: wboutsWith claimF (wbstepWith claimF s op).1 ops

def wbouts : WBState → List WBOp → List Out := wboutsWith BSeg.claims

/-- the overlap of the chunk with the block has not been written yet -/
def Blk.freshFor (b : Blk) (a n c m : Nat) : Bool :=
  let ro := overlap a n b.r0 b.h
  let co := overlap c m b.c0 b.w
  if ro.2 = 0 ∨ co.2 = 0 then true else freshRows b.pix ro.1 ro.2 co.1 co.2

/-- the chunk of a write touches no pixel that has been written already -/
def freshOpB (s : WBState) : WBOp → Bool
  | .write i a n c m =>
    match s.shapes[i]? with
    | none => true
    | some sh =>
      if s.closed || s.gone || !(chunkValid sh a n c m) then true
      else s.segs.all (fun g => if g.coll = i then g.blocks.all (fun b => b.freshFor a n c m) else true)
  | _ => true

def freshRunBWith (claimF : BSeg → Bool) (s : WBState) : List WBOp → Bool
  | [] => true
  | op :: ops => freshOpB s op && freshRunBWith claimF (wbstepWith claimF s op).1 ops

def freshRunB : WBState → List WBOp → Bool := freshRunBWith BSeg.claims

/-! ## (e) the existence check of the path-taking writers

  `NITFWriter.__init__` (nitf.py:3547-3552; SICDWriter and SIDDWriter pass `check_existence` on), `CPHDWriter1.__init__`
  (cphd.py:1347-1352; CRSDWriter1 passes it on), `SIOWriter.__init__` (sio.py:404-409):
  `if isinstance(file_object, str): if check_existence and os.path.exists(file_object): raise SarpyIOError(...);
   file_object = open(file_object, 'wb')`.  What is at the path beforehand is one of four things; the test looks at
  existence only - not at size or content. -/

/-- what is at the target path before the writer is constructed -/
inductive PrePath where
  | absent
  | emptyFile
  | nonEmptyFile
  | directory
deriving DecidableEq, Repr, Inhabited

/-- `os.path.exists(path)` -/
def PrePath.present : PrePath → Bool
  | .absent => false
  | _ => true

/-- the `check_existence` argument: `none` = not given (the default of every writer family is `True`) -/
def checkOf : Option Bool → Bool
  | none => true
  | some b => b

/-- the test in front of `open(path, 'wb')` -/
def refuses (check present : Bool) : Bool := check && present

/-- outcome of constructing a writer on a path: `refused` = `SarpyIOError` before anything is touched,
    `failed` = `open` itself raised (a directory), `opened clobbered` = the writer holds its own handle on the path and
    whatever file was there has been truncated -/
inductive CtorOut where
  | refused
  | failed
  | opened (clobbered : Bool)
deriving DecidableEq, Repr, Inhabited

def pathCtor (pre : PrePath) (check : Option Bool) : CtorOut :=
  if refuses (checkOf check) pre.present then .refused
  else match pre with
    | .absent => .opened false
    | .directory => .failed
    | _ => .opened true

/-- the object that was at the path is still there, byte for byte, after construction returned or raised -/
def kept (pre : PrePath) (check : Option Bool) : Bool :=
  match pathCtor pre check with
  | .refused => true
  | .failed => true
  | .opened clobbered => !clobbered

/-- a (hypothetical) test that also looks at the size: an existing EMPTY file is not refused -/
def refusesUnlessEmpty (check present nonEmpty : Bool) : Bool := check && present && nonEmpty

end Sarpy.Spec.Lifecycle
