/-
  Spec.Lifecycle — open / close life cycle of sarpy readers, data-segment trees and writers as
  two small state machines (`init`, `step : State → Op → State × Out`).  Import-free, total,
  computable (the line-protocol driver `Drivers/Lifecycle.lean` runs exactly these definitions).

  (a) `RState` / `rstep` : a reader or a data segment with the tree of segments below it.
      mirrors sarpy/io/general/base.py  BaseReader.close / __call__ / __del__ / __exit__ (436-483, 393)
              sarpy/io/general/data_segment.py  DataSegment._validate_closed / close (506-508, 816-824),
              close propagation of Reorientation (984-995), Subset (1385-1396), BandAggregate (1666-1678),
              BlockAggregate (1933-1945), NumpyArray (2105-2114), NumpyMemmap (2203-2214),
              FileRead (2535-2546) segments.
  (b) `WState` / `wstep` : a writer with its target file and its image segments.
      mirrors sarpy/io/general/base.py  BaseWriter.__call__/flush/close (827, 840-881),
              sarpy/io/general/nitf.py  NITFWriter.__init__ (3539-3556), flush (4118-4140), close (4142-4159),
              sarpy/io/phase_history/cphd.py CPHDWriter1.__init__/flush/close, sarpy/io/complex/sio.py SIOWriter,
              NumpyArraySegment._update_pixels_written / check_fully_written (2045-2074).
-/
namespace Sarpy.Spec.Lifecycle

/-- what the caller sees: the call returned, raised (`ValueError` ... mapped to `refused`),
    or the object no longer exists (`del`) -/
inductive Out where
  | ok | refused | gone
deriving DecidableEq, Repr, Inhabited

/-! ## shared helpers on `List Bool` -/

/-- mark the `n` entries starting at `r0` -/
def setRange : List Bool → Nat → Nat → List Bool
  | [], _, _ => []
  | b :: l, 0, 0 => b :: l
  | _ :: l, 0, n + 1 => true :: setRange l 0 n
  | b :: l, r + 1, n => b :: setRange l r n

/-- all `n` entries starting at `r0` exist and are still `false` -/
def freshRange : List Bool → Nat → Nat → Bool
  | _, _, 0 => true
  | [], _, _ + 1 => false
  | b :: l, 0, n + 1 => !b && freshRange l 0 n
  | _ :: l, r + 1, n + 1 => freshRange l r (n + 1)

/-- number of marked entries -/
def cnt : List Bool → Nat
  | [] => 0
  | b :: l => (if b then 1 else 0) + cnt l

/-! ## (a) readers and segment trees -/

/-- A forest of segments in first-child / next-sibling form.  One `cons` is one object:
    `closed`    its `_closed` flag,
    `prop`      does its `close()` call `close()` on the objects below it
                (`close_parent`, `close_children`, `close_segments`),
    `file`      the file object a leaf segment holds (index into the file table), if any,
    `closeFile` the leaf's `close_file` option (the segment was given ownership of that file object),
    `kids`      the objects directly below it,  `rest` its following siblings. -/
inductive Forest where
  | nil
  | cons (closed prop : Bool) (file : Option Nat) (closeFile : Bool) (kids rest : Forest)
deriving DecidableEq, Repr, Inhabited

/-- `close()` applied to every tree of a forest (what a parent does to the objects below it).
    A closed object returns at once (`if self._closed: return`), an open one closes what is below it
    when its flag says so, and sets `_closed`. -/
def closeAll : Forest → Forest
  | .nil => .nil
  | .cons closed prop file cf kids rest =>
    if closed then .cons closed prop file cf kids (closeAll rest)
    else .cons true prop file cf (if prop then closeAll kids else kids) (closeAll rest)

/-- the file objects on which `closeAll` calls `.close()`: those of the not yet closed, reached,
    `close_file=True` leaves -/
def toClose : Forest → List Nat
  | .nil => []
  | .cons closed prop file cf kids rest =>
    if closed then toClose rest
    else (if prop then toClose kids else []) ++
         (match file, cf with | some f, true => [f] | _, _ => []) ++ toClose rest

def closeFiles (files : List Bool) (ids : List Nat) : List Bool :=
  ids.foldl (fun a f => a.set f false) files

/-- every object of the forest (at any depth) is open: a full read reaches all of them and each
    one passes `_validate_closed` -/
def allOpen : Forest → Bool
  | .nil => true
  | .cons closed _ _ _ kids rest => !closed && allOpen kids && allOpen rest

/-- every object of the forest that `closeAll` reaches is closed -/
def reachClosed : Forest → Bool
  | .nil => true
  | .cons closed prop _ _ kids rest => closed && (if prop then reachClosed kids else true) && reachClosed rest

/-- file objects owned by a reachable leaf -/
def reachOwned : Forest → List Nat
  | .nil => []
  | .cons _ prop file cf kids rest =>
    (if prop then reachOwned kids else []) ++ (match file, cf with | some f, true => [f] | _, _ => []) ++ reachOwned rest

/-- file objects owned by any leaf -/
def owned : Forest → List Nat
  | .nil => []
  | .cons _ _ file cf kids rest =>
    owned kids ++ (match file, cf with | some f, true => [f] | _, _ => []) ++ owned rest

/-- closed flags in pre-order (the driver prints them, the harness reads `.closed` in the same order) -/
def flags : Forest → List Bool
  | .nil => []
  | .cons closed _ _ _ kids rest => closed :: (flags kids ++ flags rest)

/-- the `i`-th tree of a forest, alone -/
def nth : Forest → Nat → Forest
  | .nil, _ => .nil
  | .cons c p f cf kids _, 0 => .cons c p f cf kids .nil
  | .cons _ _ _ _ _ rest, i + 1 => nth rest i

def size : Forest → Nat
  | .nil => 0
  | .cons _ _ _ _ _ rest => size rest + 1

def rootClosed : Forest → Bool
  | .nil => true
  | .cons c _ _ _ _ _ => c

structure RState where
  /-- one tree: the reader (or the root segment) with everything below it -/
  root : Forest
  /-- open? for each file object the caller created -/
  files : List Bool
  /-- present? for each temp file handed to the reader (`delete_files`) -/
  temp : List Bool
  /-- the root object has been deleted (`del` + `gc.collect()`) -/
  gone : Bool
deriving DecidableEq, Repr, Inhabited

inductive ROp where
  /-- `none`: a full read of a root segment; `some i`: `reader.read(index=i)` -/
  | read (i : Option Nat)
  | close
  /-- leaving a `with` block normally / with an exception in flight -/
  | exit
  | exitErr
  /-- `del obj; gc.collect()` (`__del__` calls `close`) -/
  | del
deriving DecidableEq, Repr, Inhabited

/-- does a read return data?  base.py:393 (`_validate_closed`), 418-421 (a single segment ignores the
    index; a missing index is an `IndexError`), data_segment.py `_validate_closed` at every level -/
def readable : Forest → Option Nat → Bool
  | .nil, _ => false
  | .cons c _ _ _ kids _, none => !c && allOpen kids
  | .cons c _ _ _ kids _, some i =>
    !c && (if size kids == 1 then allOpen kids
           else if i < size kids then allOpen (nth kids i) else false)

/-- `close()`: base.py:442 return if closed; 445-451 close segments; 454-463 remove temp files; 464 -/
def rclose (s : RState) : RState :=
  if rootClosed s.root then s
  else { s with root := closeAll s.root
                files := closeFiles s.files (toClose s.root)
                temp := s.temp.map (fun _ => false) }

def rstep (s : RState) (op : ROp) : RState × Out :=
  if s.gone then (s, .gone)
  else match op with
    | .read i => (s, if readable s.root i then .ok else .refused)
    | .close => (rclose s, .ok)
    | .exit => (rclose s, .ok)
    | .exitErr => (rclose s, .ok)
    | .del => ({ rclose s with gone := true }, .ok)

def rrun (s : RState) : List ROp → RState
  | [] => s
  | op :: ops => rrun (rstep s op).1 ops

/-- the outputs of a history -/
def routs (s : RState) : List ROp → List Out
  | [] => []
  | op :: ops => (rstep s op).2 :: routs (rstep s op).1 ops

/-- all flags of a forest cleared (a freshly constructed tree) -/
def fresh : Forest → Forest
  | .nil => .nil
  | .cons _ p f cf kids rest => .cons false p f cf (fresh kids) (fresh rest)

/-- construction: a root object (`prop`, `file`, `closeFile`) over freshly built objects `kids`;
    everything open, every temp file present -/
def rinit (prop : Bool) (file : Option Nat) (closeFile : Bool) (kids : Forest) (nfiles ntemp : Nat) : RState :=
  { root := .cons false prop file closeFile (fresh kids) .nil, files := List.replicate nfiles true,
    temp := List.replicate ntemp true, gone := false }

/-! ## (b) writers -/

/-- one image segment of a writer.
    `cols`   raw samples per row,  `rows` which rows hold written data (ground truth),
    `count`  sarpy's `_pixels_written` counter (sum of the sizes of all chunks handed to write),
    `deliv`  which rows' data are in the target file,
    `handed` the segment's bytes have been handed to the target (`item_bytes` set / memmap) -/
structure Seg where
  cols : Nat
  rows : List Bool
  count : Nat
  deliv : List Bool
  handed : Bool
deriving DecidableEq, Repr, Inhabited

def Seg.expected (g : Seg) : Nat := g.cols * g.rows.length
/-- `check_fully_written()`: the counter equals the expected sample count (data_segment.py:2049-2064) -/
def Seg.claims (g : Seg) : Bool := g.count == g.expected
/-- every row really holds written data -/
def Seg.complete (g : Seg) : Bool := g.rows.all id
/-- every row's data is in the target -/
def Seg.delivered (g : Seg) : Bool := g.deliv.all id

structure WState where
  closed : Bool
  gone : Bool
  /-- the writer opened the target itself (a path was given): `_close_after` -/
  owns : Bool
  /-- the target is not a real file (`is_real_file` false): samples are kept in arrays and reach the
      target only in `flush` / `close` -/
  inMem : Bool
  /-- the target file object is open -/
  fileOpen : Bool
  /-- a file that existed at the path has been truncated by construction -/
  clobbered : Bool
  segs : List Seg
deriving DecidableEq, Repr, Inhabited

inductive Target where
  | path (existedBefore : Bool)
  | callerMem
  | callerReal
deriving DecidableEq, Repr, Inhabited

structure WCfg where
  target : Target
  /-- the `check_existence` option -/
  check : Bool
  /-- (rows, samples per row) of each image segment -/
  shapes : List (Nat × Nat)
deriving DecidableEq, Repr, Inhabited

def mkSeg (real : Bool) (sh : Nat × Nat) : Seg :=
  { cols := sh.2, rows := List.replicate sh.1 false, count := 0,
    deliv := List.replicate sh.1 false, handed := real }

/-- construction (nitf.py:3539-3556, cphd.py:1346-1361, sio.py:400-414): an existing path is refused
    when `check_existence`; a path is opened by the writer (and truncates what was there); a real file
    gets memory-mapped segments (`item_written = True` "in principle"), anything else array segments -/
def winit (c : WCfg) : Option WState :=
  match c.target with
  | .path ex =>
    if c.check && ex then none
    else some { closed := false, gone := false, owns := true, inMem := false, fileOpen := true,
                clobbered := ex, segs := c.shapes.map (mkSeg true) }
  | .callerMem =>
    some { closed := false, gone := false, owns := false, inMem := true, fileOpen := true,
           clobbered := false, segs := c.shapes.map (mkSeg false) }
  | .callerReal =>
    some { closed := false, gone := false, owns := false, inMem := false, fileOpen := true,
           clobbered := false, segs := c.shapes.map (mkSeg true) }

inductive WOp where
  /-- write rows `r0 .. r0+n-1` of segment `i` -/
  | write (i r0 n : Nat)
  | flush
  | close
  | exit
  | exitErr
  | del
deriving DecidableEq, Repr, Inhabited

/-- the chunk lies inside the segment -/
def Seg.valid (g : Seg) (r0 n : Nat) : Bool := decide (1 ≤ n) && decide (r0 + n ≤ g.rows.length)

/-- write into the array / memory map, count the samples (data_segment.py:2082-2086) -/
def Seg.write (inMem : Bool) (g : Seg) (r0 n : Nat) : Seg :=
  { g with rows := setRange g.rows r0 n
           count := g.count + n * g.cols
           deliv := if inMem then g.deliv else setRange g.deliv r0 n }

/-- hand the segment's bytes to the target, once (`item_bytes` is write-once; nitf.py:4127-4133) -/
def Seg.hand (g : Seg) : Seg :=
  if g.handed then g else { g with deliv := g.rows, handed := true }

def modifyAt (l : List Seg) (i : Nat) (f : Seg → Seg) : List Seg :=
  match l, i with
  | [], _ => []
  | g :: l, 0 => f g :: l
  | g :: l, i + 1 => g :: modifyAt l i f

/-- `flush()` without force: only segments that claim to be fully written are handed over -/
def flushSegs (l : List Seg) : List Seg := l.map (fun g => if g.claims then g.hand else g)

/-- `close()`: flush(force=True) hands every segment over, the segments are closed, a file the
    writer opened is closed, a file of the caller is not (nitf.py:4152-4158) -/
def wclose (s : WState) : WState :=
  if s.closed then s
  else { s with closed := true
                segs := s.segs.map Seg.hand
                fileOpen := if s.owns then false else s.fileOpen }

def wstep (s : WState) (op : WOp) : WState × Out :=
  if s.gone then (s, .gone)
  else match op with
    | .write i r0 n =>
      if s.closed then (s, .refused)
      else match s.segs[i]? with
        | none => (s, .refused)
        | some g =>
          if g.valid r0 n then ({ s with segs := modifyAt s.segs i (fun g => g.write s.inMem r0 n) }, .ok)
          else (s, .refused)
    | .flush =>
      if s.closed then (s, .refused)
      else ({ s with segs := flushSegs s.segs }, .ok)
    | .close => (wclose s, .ok)
    | .exit => (wclose s, .ok)
    | .exitErr => (wclose s, .ok)
    | .del => ({ wclose s with gone := true }, .ok)

def wrun (s : WState) : List WOp → WState
  | [] => s
  | op :: ops => wrun (wstep s op).1 ops

def wouts (s : WState) : List WOp → List Out
  | [] => []
  | op :: ops => (wstep s op).2 :: wouts (wstep s op).1 ops

/-- the chunk of a write touches only rows that have not been written (no rewriting) -/
def freshOp (s : WState) : WOp → Bool
  | .write i r0 n =>
    match s.segs[i]? with
    | none => true
    | some g => if s.closed || s.gone || !(g.valid r0 n) then true else freshRange g.rows r0 n
  | _ => true

/-- a history in which no write touches an already written row -/
def freshRun (s : WState) : List WOp → Bool
  | [] => true
  | op :: ops => freshOp s op && freshRun (wstep s op).1 ops

end Sarpy.Spec.Lifecycle
