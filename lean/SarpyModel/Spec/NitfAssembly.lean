/-
  Spec.NitfAssembly — how the NITF reader BUILDS segment trees from image subheader fields.

  `Spec.Segment` gives every data segment tree its meaning (`full`, `read`) and `Props/C01Seg.lean` proves
  `read t ts = (full t)[ts]` for every well-formed tree.  This file models the step before that: the function from the
  fields of an image subheader (+ mask subheader, + where the image data sits in the file) and the reader options
  (`reverse_axes`, `transpose_axes`, memmap or file-read access) to the tree, mirroring
  sarpy/io/general/nitf.py branch by branch:

    gridOK / bounds                 _construct_block_bounds                         (nitf.py:198-251)
    blockSize                       ImageSegmentHeader.get_uncompressed_block_size  (nitf_elements/image.py:819-836)
    getShape / boxDef / subsetDef   _get_shape, _get_subscript_def                  (nitf.py:151-195)
    flatOffsets / bandOffsets       _get_mask_details + the default offsets         (nitf.py:1446-1487, 1882-1883, 2137-2143)
    finalEnding                     the anticipated-size check                      (nitf.py:1892-1898, 2151-2159)
    orientBPR / orientLast          "account for rearrangement of bands"            (nitf.py:1900-1936; 2201-2216, _get_transpose 1495-1501)
    blockChild / blockList          the loop over (block_definition, block_offset)  (nitf.py:1965-1997, 2166-2196)
    assembleBPR                     NITFReader._handle_no_compression               (nitf.py:1845-2002)
    assembleS                       NITFReader._handle_imode_s_no_compression       (nitf.py:2116-2221, 2281-2301)
    assembleImage / assemble        create_data_segment_for_image_segment           (nitf.py:2303-2353)
    assembleCollection              create_data_segment_for_collection_element,
                                    _get_collection_element_coordinate_limits       (nitf.py:2355-2403, 438-501)

  A stored array (leaf) of a tree is one recorded block of the file; its leaf id is the BYTE OFFSET OF THE BLOCK IN THE FILE
  (`offset` of the image data + IMDATOFF + block offset), and the index inside the leaf is the index in the block's
  natural order (IMODE B: (band, row, col); R: (row, band, col); P: (row, col, band); S: (row, col)).  So the provenance
  `Src.leaf id idx` of a formatted pixel names the file position `id + flatOff shape idx * bytesPerSample` it is read from.

  The second half is the SPECIFICATION the assembled tree is proved against (`Props/C01Nitf.lean`): `pixelSrc h y x b`, the
  stored sample of band `b` at image position `(y, x)` as MIL-STD-2500C lays the image out, and `imgRow / imgCol`, the
  documented meaning of the orientation options.

  The model states the INTENDED behaviour where the code has a slip that makes it refuse a valid layout (reported as
  findings by harness/nitfasm.py, not hidden): IMODE R is dispatched to `_handle_no_compression` (nitf.py:2271 tests
  `IMODE not in ['NC','NM']` instead of `IC` and so refuses every IMODE R image); for an IMODE S image or a multi-segment
  collection with an I/Q band pair and `transpose_axes`, the transpose is (1, 0, 2) (`_get_transpose(formatted_bands)`
  hands (1, 0) to a 3-d raw array and the constructor raises).

  Not modelled: compressed images (JPEG / JPEG 2000), LUT and MP / PM formats, complex with more than one I/Q pair (band
  axis kept), the Linux file-handle guard (blocks with index > RLIMIT_NOFILE/6 - 4 are silently skipped by
  `_handle_no_compression`), collections whose members are not listed in display-level order each attached to its predecessor.
  Import-free apart from the segment model.
-/
import SarpyModel.Spec.Segment
import SarpyModel.Spec.Layout

namespace Sarpy.Spec.NitfAssembly
open Sarpy Sarpy.Spec

inductive IMode where
  | B | P | R | S
deriving DecidableEq, Repr, Inhabited

inductive Err where
  | grid          -- _construct_block_bounds: NPPBH/NBPR (NPPBV/NBPC) do not cover NCOLS (NROWS) tightly
  | maskTable     -- block offsets of the wrong rank / length
  | size          -- anticipated size ≠ populated size, or no recorded block at all
  | imodeS        -- IMODE S with a single band or a single block
  | options       -- reverse_axes outside {0, 1}
  | unmodelled    -- a layout this model leaves out (complex with other than two bands)
  | collection    -- empty / incompatible collection
deriving DecidableEq, Repr, Inhabited

/-- the mask subheader: IMDATOFF and the block mask records (BMR, else TMR): one row per band for IMODE S, one row otherwise -/
structure Mask where
  imdatoff : Nat
  table : List (List Nat)
deriving Repr, Inhabited

/-- the fields of one image segment the assembly looks at -/
structure ImageHeaderFields where
  nrows : Nat
  ncols : Nat
  nbands : Nat                 -- len(Bands)
  imode : IMode
  nbpr : Nat
  nbpc : Nat
  nppbh : Nat                  -- 0 = one block spans all columns
  nppbv : Nat
  bps : Nat                    -- NBPP / 8, bytes per sample
  cplx : Option Bool           -- ISUBCAT pairs: some true = I,Q   some false = Q,I   none = not complex
  mask : Option Mask           -- IC = NM
  offset : Nat                 -- img_segment_offsets[i]: where the image data (incl. mask subheader) starts in the file
  size : Nat                   -- img_segment_sizes[i]
  ilocRow : Nat                -- ILOC, relative to the previous member of the collection
  ilocCol : Nat
deriving Repr, Inhabited

structure ReaderOptions where
  reverse : List Nat           -- reverse_axes (None = [])
  transpose : Bool             -- transpose_axes = (1, 0)
  memmap : Bool                -- can_use_memmap(): a real file (NumpyMemmapSegment) or a file-like object (FileReadDataSegment)
deriving Repr, Inhabited

/-! ### block grid -/

def blockH (h : ImageHeaderFields) : Nat := if h.nppbv = 0 then h.nrows else h.nppbv
def blockW (h : ImageHeaderFields) : Nat := if h.nppbh = 0 then h.ncols else h.nppbh

/-- the two validations of `_construct_block_bounds` (nitf.py:222-239); an image with no rows or no columns is refused as well
    (with NPPBV = 0 by the same validation, otherwise because NBPC must then be 0 and the maximum over no block offsets raises) -/
def gridOK (h : ImageHeaderFields) : Bool :=
  decide (h.ncols ≤ blockW h * h.nbpr ∧ blockW h * h.nbpr < h.ncols + blockW h ∧
          h.nrows ≤ blockH h * h.nbpc ∧ blockH h * h.nbpc < h.nrows + blockH h ∧ 0 < h.nrows ∧ 0 < h.ncols)

/-- (row start, row end, col start, col end) of the block in block row `rb`, block column `cb`, pad pixels included -/
def bnd (h : ImageHeaderFields) (rb cb : Nat) : Nat × Nat × Nat × Nat :=
  (rb * blockH h, (rb + 1) * blockH h, cb * blockW h, (cb + 1) * blockW h)

/-- the nested loops of nitf.py:241-251: block rows outside, block columns inside -/
def bounds (h : ImageHeaderFields) : List (Nat × Nat × Nat × Nat) :=
  (List.range h.nbpc).flatMap (fun rb => (List.range h.nbpr).map (fun cb => bnd h rb cb))

def blockSize (h : ImageHeaderFields) : Nat :=
  match h.imode with
  | .S => blockW h * blockH h * h.bps
  | _ => blockW h * blockH h * h.nbands * h.bps

def rawBandDim : IMode → Nat
  | .B => 0
  | .R => 1
  | _ => 2

/-- `_get_shape` -/
def getShape (rows cols bands bd : Nat) : List Nat :=
  if bands = 1 then [rows, cols]
  else if bd = 0 then [bands, rows, cols]
  else if bd = 1 then [rows, bands, cols]
  else [rows, cols, bands]

/-- `_get_subscript_def` as an arrangement box (all steps are 1) -/
def boxDef (r0 r1 c0 c1 bands bd : Nat) : List (Int × Int) :=
  if bands = 1 then [((r0 : Int), (r1 : Int)), ((c0 : Int), (c1 : Int))]
  else if bd = 0 then [(0, (bands : Int)), ((r0 : Int), (r1 : Int)), ((c0 : Int), (c1 : Int))]
  else if bd = 1 then [((r0 : Int), (r1 : Int)), (0, (bands : Int)), ((c0 : Int), (c1 : Int))]
  else [((r0 : Int), (r1 : Int)), ((c0 : Int), (c1 : Int)), (0, (bands : Int))]

/-- `_get_subscript_def(0, rows, 0, cols, ...)` as a subset definition -/
def subsetDef (rows cols bands bd : Nat) : List NSlice :=
  (boxDef 0 rows 0 cols bands bd).map (fun b => (⟨b.1, some b.2, 1⟩ : NSlice))

def addlOffset (h : ImageHeaderFields) : Nat :=
  match h.mask with
  | none => 0
  | some m => m.imdatoff

/-- block offsets for IMODE B / P / R: the mask table (which must be a single row) or consecutive blocks -/
def flatOffsets (h : ImageHeaderFields) (nblocks : Nat) : Except Err (List Nat) :=
  match h.mask with
  | none => .ok ((List.range nblocks).map (fun k => k * blockSize h))
  | some m =>
    match m.table with
    | [row] => .ok row
    | _ => .error .maskTable

/-- block offsets for IMODE S: one row per band -/
def bandOffsets (h : ImageHeaderFields) (nblocks : Nat) : Except Err (List (List Nat)) :=
  match h.mask with
  | none => .ok ((List.range h.nbands).map (fun i =>
      (List.range nblocks).map (fun k => i * (blockSize h * nblocks) + k * blockSize h)))
  | some m =>
    if m.table.length = h.nbands ∧ m.table.all (fun row => row.length == nblocks) then .ok m.table else .error .maskTable

def present (offs : List Nat) : List Nat := offs.filter (fun o => o != Layout.absentMark)

/-- `numpy.max(block_offsets[block_offsets != exclude_value]) + block_size + additional_offset`; `none` when nothing is recorded -/
def finalEnding (offs : List Nat) (bsize addl : Nat) : Option Nat :=
  match present offs with
  | [] => none
  | o :: os => some (os.foldl max o + bsize + addl)

/-! ### trees -/

def mkLeaf (memmap : Bool) (id : Nat) (shape : List Nat) : Seg :=
  if memmap then .leaf id shape else .fleaf id shape

def mkBlks : List (List (Int × Int) × Seg) → Blks
  | [] => .nil
  | e :: r => .cons e.1 e.2 (mkBlks r)

def mkSegs : List Seg → Segs
  | [] => .nil
  | c :: r => .cons c (mkSegs r)

/-- one recorded block (nitf.py:1971-1997): a stored array of the block's natural shape at file position
    `offset + additional_offset + block_offset`; when the block reaches beyond NROWS / NCOLS the pad pixels are cut off by a
    `SubsetSegment(child, ..., 'raw', squeeze=False)`; placed at its rows and columns inside the image -/
def blockChild (h : ImageHeaderFields) (memmap : Bool) (bands bd : Nat) (b : Nat × Nat × Nat × Nat) (off : Nat) :
    List (Int × Int) × Seg :=
  let r0 := b.1; let r1 := b.2.1; let c0 := b.2.2.1; let c1 := b.2.2.2
  let re := min r1 h.nrows
  let ce := min c1 h.ncols
  let shape := getShape (r1 - r0) (c1 - c0) bands bd
  let child := Seg.orient [] (List.range shape.length) (mkLeaf memmap (h.offset + addlOffset h + off) shape)
  (boxDef r0 re c0 ce bands bd,
   if re = r1 ∧ ce = c1 then child else .subset false (subsetDef (re - r0) (ce - c0) bands bd) child)

/-- the loop over `zip(block_bounds, block_offsets)`, masked-out blocks skipped -/
def blockList (h : ImageHeaderFields) (memmap : Bool) (bands bd : Nat) (bnds : List (Nat × Nat × Nat × Nat)) (offs : List Nat) :
    List (List (Int × Int) × Seg) :=
  (bnds.zip offs).filterMap (fun p => if p.2 = Layout.absentMark then none else some (blockChild h memmap bands bd p.1 p.2))

/-- (format, reverse_axes, transpose_axes) handed to the outermost segment of an IMODE B / P / R image (nitf.py:1900-1936) -/
def orientBPR (h : ImageHeaderFields) (o : ReaderOptions) (applyFormat : Bool) : Option Bool × List Nat × List Nat :=
  let tr := applyFormat && o.transpose
  let rev := if applyFormat then o.reverse else []
  let fmt := if applyFormat then h.cplx else none
  if h.nbands = 1 then (fmt, rev, if tr then [1, 0] else [0, 1])
  else match h.imode with
    | .B => (fmt, rev.map (· + 1), if tr then [2, 1, 0] else [1, 2, 0])
    | .R => (fmt, rev.map (fun e => if e = 0 then 0 else 2), if tr then [2, 0, 1] else [0, 2, 1])
    | _ => (fmt, rev, if tr then [1, 0, 2] else [0, 1, 2])

/-- the same for raw data with the bands last (IMODE S band aggregate, collection mosaic): `_get_transpose`, read as intended -/
def orientLast (cplx : Option Bool) (rawBands : Nat) (o : ReaderOptions) (applyFormat : Bool) :
    Option Bool × List Nat × List Nat :=
  let tr := applyFormat && o.transpose
  let rev := if applyFormat then o.reverse else []
  let fmt := if applyFormat then cplx else none
  if rawBands = 1 then (fmt, rev, if tr then [1, 0] else [0, 1])
  else (fmt, rev, if tr then [1, 0, 2] else [0, 1, 2])

/-- the outermost segment: identity format function, or ComplexFormatFunction(order, band_dimension=2) -/
def ordOf (iq : Bool) : COrd := if iq then .IQ else .QI

def wrap (w : Option Bool × List Nat × List Nat) (p : Seg) : Seg :=
  match w.1 with
  | none => .orient w.2.1 w.2.2 p
  | some iq => .cplx (ordOf iq) w.2.1 w.2.2 2 p

/-- complex is modelled for exactly one I/Q pair (band axis collapsed) -/
def cplxOK (h : ImageHeaderFields) : Bool :=
  match h.cplx with
  | none => true
  | some _ => h.nbands == 2

/-- the raw data of an IMODE B / P / R image: one stored array when there is a single block without pad pixels and without a mask
    subheader (nitf.py:1938-1954), else the mosaic of the recorded blocks (nitf.py:1956-2002) -/
def rawBPR (h : ImageHeaderFields) (memmap : Bool) (offs : List Nat) : Seg :=
  let bd := rawBandDim h.imode
  let rawShape := getShape h.nrows h.ncols h.nbands bd
  if (bounds h).length = 1 ∧ addlOffset h = 0 ∧ blockH h = h.nrows ∧ blockW h = h.ncols then
    mkLeaf memmap h.offset rawShape
  else
    .blocks rawShape (mkBlks (blockList h memmap h.nbands bd (bounds h) offs))

/-- `_handle_no_compression` -/
def assembleBPR (h : ImageHeaderFields) (o : ReaderOptions) (applyFormat : Bool) : Except Err Seg :=
  if h.nbands = 0 then .error .grid else
  if !gridOK h then .error .grid else
  if !cplxOK h then .error .unmodelled else
  match flatOffsets h (bounds h).length with
  | .error e => .error e
  | .ok offs =>
    if (bounds h).length ≠ offs.length then .error .maskTable else
    match finalEnding offs (blockSize h) (addlOffset h) with
    | none => .error .size
    | some e =>
      if e ≠ h.size then .error .size else
      .ok (wrap (orientBPR h o applyFormat) (rawBPR h o.memmap offs))

/-- one band of an IMODE S image: a block mosaic of its own, formatted = raw (nitf.py:2162-2199) -/
def bandSeg (h : ImageHeaderFields) (memmap : Bool) (row : List Nat) : Seg :=
  .orient [] [0, 1] (.blocks [h.nrows, h.ncols] (mkBlks (blockList h memmap 1 2 (bounds h) row)))

/-- the raw data of an IMODE S image: the bands stacked along the last axis -/
def rawS (h : ImageHeaderFields) (memmap : Bool) (table : List (List Nat)) : Seg :=
  .bands 2 (mkSegs (table.map (bandSeg h memmap)))

/-- `_create_data_segment_from_imode_s` + `_handle_imode_s_no_compression` -/
def assembleS (h : ImageHeaderFields) (o : ReaderOptions) (applyFormat : Bool) : Except Err Seg :=
  if h.nbands < 2 then .error .imodeS else
  if h.nbpc = 1 ∧ h.nbpr = 1 then .error .imodeS else
  if !gridOK h then .error .grid else
  if !cplxOK h then .error .unmodelled else
  match bandOffsets h (bounds h).length with
  | .error e => .error e
  | .ok table =>
    match finalEnding table.flatten (blockSize h) (addlOffset h) with
    | none => .error .size
    | some e =>
      if e ≠ h.size then .error .size else
      -- BlockAggregateSegment(children = []) raises: every band needs a recorded block
      if table.any (fun row => (present row).isEmpty) then .error .size else
      .ok (wrap (orientLast h.cplx h.nbands o applyFormat) (rawS h o.memmap table))

/-- what lies below the outermost segment: its formatted data is the raw data (`read_raw`) of the outermost one -/
def below : Seg → Seg
  | .orient _ _ p => p
  | .cplx _ _ _ _ p => p
  | t => t

/-- `create_data_segment_for_image_segment(index, apply_format)` for IC = NC / NM -/
def assembleImage (h : ImageHeaderFields) (o : ReaderOptions) (applyFormat : Bool) : Except Err Seg :=
  match h.imode with
  | .S => assembleS h o applyFormat
  | _ => assembleBPR h o applyFormat

def optionsOK (o : ReaderOptions) : Bool := o.reverse.all (fun e => decide (e < 2))

/-- the data segment of an image made of one image segment, as `NITFReader(..., reverse_axes, transpose_axes)` builds it -/
def assemble (h : ImageHeaderFields) (o : ReaderOptions) : Except Err Seg :=
  if !optionsOK o then .error .options else assembleImage h o true

/-! ### collections: one product image made of several image segments -/

/-- `loc[IDLVL] = loc[IALVL] + ILOC` with every member attached to its predecessor -/
def chain : Nat → Nat → List ImageHeaderFields → List (Nat × Nat)
  | _, _, [] => []
  | r, c, h :: rest => (r + h.ilocRow, c + h.ilocCol) :: chain (r + h.ilocRow) (c + h.ilocCol) rest

def listMin : List Nat → Nat
  | [] => 0
  | x :: xs => xs.foldl min x

def listMax : List Nat → Nat
  | [] => 0
  | x :: xs => xs.foldl max x

/-- `_get_collection_element_coordinate_limits`: (row start, row end, col start, col end) per member, shifted so that the
    smallest start is 0 -/
def limits (hs : List ImageHeaderFields) : List (Nat × Nat × Nat × Nat) :=
  let pos := chain 0 0 hs
  let mr := listMin (pos.map (·.1))
  let mc := listMin (pos.map (·.2))
  (pos.zip hs).map (fun p => (p.1.1 - mr, p.1.1 - mr + p.2.nrows, p.1.2 - mc, p.1.2 - mc + p.2.ncols))

/-- `_verify_image_segment_compatibility`, as far as the fields of this model go -/
def compatible (h0 h : ImageHeaderFields) : Bool :=
  h0.nbands == h.nbands && h0.bps == h.bps && h0.cplx == h.cplx

def mapM' {β γ : Type} (f : β → Except Err γ) : List β → Except Err (List γ)
  | [] => .ok []
  | x :: xs =>
    match f x with
    | .error e => .error e
    | .ok y =>
      match mapM' f xs with
      | .error e => .error e
      | .ok ys => .ok (y :: ys)

/-- `create_data_segment_for_collection_element` -/
def assembleCollection (hs : List ImageHeaderFields) (o : ReaderOptions) : Except Err Seg :=
  if !optionsOK o then .error .options else
  match hs with
  | [] => .error .collection
  | [h] => assembleImage h o true
  | h0 :: _ =>
    if !hs.all (compatible h0) then .error .collection else
    if !cplxOK h0 then .error .unmodelled else
    match mapM' (fun h => assembleImage h o false) hs with
    | .error e => .error e
    | .ok children =>
      let lim := limits hs
      let rows := listMax (lim.map (·.2.1))
      let cols := listMax (lim.map (·.2.2.2))
      let rawShape := if h0.nbands = 1 then [rows, cols] else [rows, cols, h0.nbands]
      let arr := lim.map (fun b => boxDef b.1 b.2.1 b.2.2.1 b.2.2.2 h0.nbands 2)
      .ok (wrap (orientLast h0.cplx h0.nbands o true) (.blocks rawShape (mkBlks (arr.zip children))))

/-! ### the specification: where MIL-STD-2500C stores the sample of band `b` at image position `(y, x)` -/

/-- index of the sample inside its block, in the block's natural order -/
def leafIdx (h : ImageHeaderFields) (b iy ix : Nat) : List Int :=
  if h.nbands = 1 then [(iy : Int), (ix : Int)]
  else match h.imode with
    | .B => [(b : Int), (iy : Int), (ix : Int)]
    | .R => [(iy : Int), (b : Int), (ix : Int)]
    | .P => [(iy : Int), (ix : Int), (b : Int)]
    | .S => [(iy : Int), (ix : Int)]

/-- natural shape of one block -/
def leafShape (h : ImageHeaderFields) : List Nat :=
  match h.imode with
  | .S => [blockH h, blockW h]
  | m => getShape (blockH h) (blockW h) h.nbands (rawBandDim m)

/-- the offset (relative to the first byte after the mask subheader) of block number `k` for band `b`; `none` = not recorded -/
def blockOffset (h : ImageHeaderFields) (b k : Nat) : Option Nat :=
  let nblocks := h.nbpc * h.nbpr
  match h.mask with
  | none =>
    match h.imode with
    | .S => some (b * (blockSize h * nblocks) + k * blockSize h)
    | _ => some (k * blockSize h)
  | some m =>
    let row := match h.imode with
      | .S => m.table.getD b []
      | _ => m.table.getD 0 []
    let v := row.getD k Layout.absentMark
    if v = Layout.absentMark then none else some v

/-- provenance of the sample of band `b` at row `y`, column `x` of the image segment: block (y / NPPBV, x / NPPBH), numbered
    row-major, at the offset the mask table / block order gives, index inside the block by IMODE -/
def pixelSrc (h : ImageHeaderFields) (y x b : Nat) : Src :=
  let k := (y / blockH h) * h.nbpr + x / blockW h
  match blockOffset h b k with
  | none => Src.fill
  | some off => Src.leaf (h.offset + addlOffset h + off) (leafIdx h b (y % blockH h) (x % blockW h))

/-- the image row shown at formatted position (r, c): transpose_axes = (1, 0) swaps the two image axes, reverse_axes entry 0
    flips the rows "in the raw sense" -/
def imgRow (nrows : Nat) (o : ReaderOptions) (r c : Nat) : Nat :=
  let y := if o.transpose then c else r
  if 0 ∈ o.reverse then nrows - 1 - y else y

def imgCol (ncols : Nat) (o : ReaderOptions) (r c : Nat) : Nat :=
  let x := if o.transpose then r else c
  if 1 ∈ o.reverse then ncols - 1 - x else x

/-- what the formatted image shows at (r, c, b): the stored sample, or the complex pair of the two stored bands -/
def formattedSrc (h : ImageHeaderFields) (o : ReaderOptions) (r c b : Nat) : Src :=
  let y := imgRow h.nrows o r c
  let x := imgCol h.ncols o r c
  match h.cplx with
  | none => pixelSrc h y x b
  | some true => Src.pair (pixelSrc h y x 0) (pixelSrc h y x 1)
  | some false => Src.pair (pixelSrc h y x 1) (pixelSrc h y x 0)

/-- advertised formatted shape: rows x cols [x bands] after the orientation options -/
def formattedShape (rows cols : Nat) (h : ImageHeaderFields) (o : ReaderOptions) : List Nat :=
  let rc := if o.transpose then [cols, rows] else [rows, cols]
  match h.cplx with
  | some _ => rc
  | none => if h.nbands = 1 then rc else rc ++ [h.nbands]

/-- advertised raw shape of an image segment: the bands at the position the IMODE puts them -/
def rawShapeOf (h : ImageHeaderFields) : List Nat := getShape h.nrows h.ncols h.nbands (rawBandDim h.imode)

/-- rows of a collection stacked by rows: member `i` starts where member `i - 1` ends -/
def rowStarts : Nat → List ImageHeaderFields → List Nat
  | _, [] => []
  | r, h :: rest => r :: rowStarts (r + h.nrows) rest

/-- the member of a row-stacked collection that holds image row `y`, and the row inside it -/
def locate : List ImageHeaderFields → Nat → Option (ImageHeaderFields × Nat)
  | [], _ => none
  | h :: rest, y => if y < h.nrows then some (h, y) else locate rest (y - h.nrows)

/-- what the raw mosaic of a row-stacked collection shows for band `b` at row `y`, column `x` of the product image: the sample of
    the member that holds row `y` (the fill value right of a member that is narrower than the product) -/
def stackedSrc (hs : List ImageHeaderFields) (y x b : Nat) : Src :=
  match locate hs y with
  | none => Src.fill
  | some (h, yy) => if x < h.ncols then pixelSrc h yy x b else Src.fill

def collectionSrc (hs : List ImageHeaderFields) (o : ReaderOptions) (rows cols : Nat) (r c b : Nat) : Src :=
  let y := imgRow rows o r c
  let x := imgCol cols o r c
  match (hs.head?.getD default).cplx with
  | none => stackedSrc hs y x b
  | some true => Src.pair (stackedSrc hs y x 0) (stackedSrc hs y x 1)
  | some false => Src.pair (stackedSrc hs y x 1) (stackedSrc hs y x 0)

end Sarpy.Spec.NitfAssembly
