/-
  Spec.CphdWriter — the CPHD / CRSD writer as a state machine over operations.
  Import-free (no Mathlib), total, computable; generic in the byte type `α` (the driver runs it on provenance cells, the
  theorems hold for every `α`).

  Code anchors (sarpy/io/phase_history/cphd.py; CRSDWriter1 / CRSDWritingDetails in sarpy/io/received/crsd.py inherit everything
  except `write_header`, which is a separate copy of the same four writes):
    * `ElementDetails`            : `item_offset`, `item_bytes` (set once), `item_written` (never reset), `write_item`
    * `CPHDWritingDetails`        : `write_header` (text, terminator, seek XML offset, XML, terminator; once),
                                    `write_all_populated_items` (header, then pvp / support / signal items in this order),
                                    `verify_all_written`
    * `CPHDWriter1`               : `_initialize_data` (in memory: arrays + `NumpyArraySegment`; real file: `numpy.memmap`s on the file),
                                    `write_pvp_array`, `write_support_array`, `__call__` (signal chunk; `_can_write_regular_data`),
                                    `flush`, `close`
    * `BaseWriter` (general/base.py) `_validate_closed`, `flush`, `close`;  `NumpyArraySegment` (general/data_segment.py)
                                    `_pixels_written`, `check_fully_written` (exact equality with the expected count)

  Two delivery protocols, chosen by `is_real_file(file_object)`:
    in memory  (`inMem = true`) : data is kept in arrays, handed over as `item_bytes` (PVP / support at write time, a signal array when
                                   `flush` finds it fully written or is forced by `close`), and written through the file object by
                                   `write_item` (seek + write);
    real file  (`inMem = false`): data goes straight into memory maps of the file; `item_written` is set at write time (signal: when the
                                   sample count reaches the expected count); only header and XML go through the file object.

  Data blocks are finite functions (`Blk`: a length and a lookup), so that reading a position costs one step per write.
  The file is modelled as its write history (`ws`, newest first) with zero fill: `rdW` reads a position, `endW` is the length.
  Modelling steps that are not proved (validated by the op-history correspondence of harness/cphdwriter.py on every run):
  loop -> comprehension in `flushCore` (the items are visited in index order, each pending one is written once), zero-fill semantics of
  seek-past-end for BytesIO / OS files / `numpy.memmap` creation, a memory map and the buffered file object being one file.
-/
namespace Sarpy.Spec.CphdWriter

inductive Kind where
  | pvp | support | signal
deriving DecidableEq, Repr, Inhabited

/-- one element (a channel's PVP array, a support array, a channel's signal array):
    absolute file offset, byte size, and the chunking unit of the signal arrays (`rows` vectors of `rowBytes` bytes; 1 row for PVP / support) -/
structure ItemCfg where
  kind : Kind := .pvp
  off : Nat := 0
  size : Nat := 0
  rows : Nat := 0
  rowBytes : Nat := 0
deriving Repr, DecidableEq, Inhabited

/-- a block of data: `len` bytes, byte `j` is `get j` -/
structure Blk (α : Type) where
  len : Nat
  get : Nat → α

/-- what is fixed at construction: protocol, header text, terminator, XML block, element table
    (indices `[0, nchan)` PVP arrays, `[nchan, nchan + nsup)` support arrays, then `nchan` signal arrays — the order of
    `write_all_populated_items` and `verify_all_written`) -/
structure Cfg (α : Type) where
  zero : α
  inMem : Bool
  ampSF : Bool            -- PVP.AmpSF present and no signal compression: formatted signal writes need the channel's PVP first
  hdr : Blk α             -- `header.to_string().encode()`
  term : Blk α            -- section terminator
  xmlOff : Nat
  xml : Blk α
  nchan : Nat
  nsup : Nat
  item : Nat → ItemCfg

variable {α : Type}

def Cfg.n (c : Cfg α) : Nat := c.nchan + c.nsup + c.nchan
def Cfg.supIdx (c : Cfg α) (j : Nat) : Nat := c.nchan + j
def Cfg.sigIdx (c : Cfg α) (i : Nat) : Nat := c.nchan + c.nsup + i

/-- one write: through the file object (`fo = true`) or through a memory map -/
structure W (α : Type) where
  fo : Bool
  off : Nat
  data : Blk α

/-- the byte at position `p` after the writes `ws` (newest first); never written = zero fill -/
def rdW (zero : α) : List (W α) → Nat → α
  | [], _ => zero
  | w :: ws, p => if w.off ≤ p ∧ p < w.off + w.data.len then w.data.get (p - w.off) else rdW zero ws p

/-- the length of a file that received the writes `ws` (an empty write does not extend a file) -/
def endW : List (W α) → Nat
  | [] => 0
  | w :: ws => if w.data.len = 0 then endW ws else max (w.off + w.data.len) (endW ws)

/-! rows of a signal array that have been written (ghost state: no step branches on it) -/

/-- mark the `n` entries starting at `r0` -/
def markRows : List Bool → Nat → Nat → List Bool
  | [], _, _ => []
  | b :: l, 0, 0 => b :: l
  | _ :: l, 0, n + 1 => true :: markRows l 0 n
  | b :: l, r + 1, n => b :: markRows l r n

/-- all `n` entries starting at `r0` exist and are still `false` -/
def freshRows : List Bool → Nat → Nat → Bool
  | _, _, 0 => true
  | [], _, _ + 1 => false
  | b :: l, 0, n + 1 => !b && freshRows l 0 n
  | _ :: l, r + 1, n + 1 => freshRows l r (n + 1)

/-- number of marked entries -/
def cntRows : List Bool → Nat
  | [] => 0
  | b :: l => (if b then 1 else 0) + cntRows l

/-- `ElementDetails` plus, for a signal array, the state of its data segment -/
structure El (α : Type) where
  bytes : Option (Blk α) := none      -- item_bytes
  written : Bool := false             -- item_written
  store : List (W α) := []            -- in memory: the underlying array, as the history of the chunks stored into it
  count : Nat := 0                    -- _pixels_written (in bytes)
  canReg : Bool := true               -- _can_write_regular_data
  amp : Option Nat := none            -- which AmpSF array the channel's format function holds (`set_amplitude_scaling`): the tag of a PVP write
  scaled : List (Nat × Nat × Option Nat) := []   -- formatted chunks stored so far, newest first: (first row, rows, scaling in force at that moment)
  done : List Bool := []              -- ghost: rows that have been written

structure State (α : Type) where
  ws : List (W α)          -- the file: every write so far, newest first
  pos : Nat                -- position of the file object
  closed : Bool
  hdrWritten : Bool
  el : Nat → El α

inductive Op (α : Type) where
  | writePvp (i : Nat) (data : Blk α) (amp : Nat)                  -- `amp` names the AmpSF column carried by `data`
  | writeSup (j : Nat) (data : Blk α)
  | writeSig (i : Nat) (r0 : Nat) (data : Blk α) (raw : Bool)      -- rows `r0 ..` of channel `i`, full rows
  | flush
  | close

/-- `report hdrMissing missing`: what `verify_all_written` logs at `close` (indices into the element table) -/
inductive Out where
  | ok | refused
  | report (hdrMissing : Bool) (missing : List Nat)
deriving DecidableEq, Repr, Inhabited

def init (c : Cfg α) : State α :=
  { ws := [], pos := 0, closed := false, hdrWritten := false,
    el := fun k => { canReg := !c.ampSF, done := List.replicate (c.item k).rows false } }

/-- `numpy.memmap(mode='r+')` extends the file to the end of every mapped element at construction -/
def maxEnd (c : Cfg α) : Nat := (List.range c.n).foldl (fun m k => max m ((c.item k).off + (c.item k).size)) 0

def fileLen (c : Cfg α) (s : State α) : Nat := max (if c.inMem then 0 else maxEnd c) (endW s.ws)
def rd (c : Cfg α) (s : State α) (p : Nat) : α := rdW c.zero s.ws p

def setEl (f : Nat → El α) (i : Nat) (e : El α) : Nat → El α := fun k => if k = i then e else f k

/-- `get_raw_bytes()` of an in-memory signal array -/
def snapshot (c : Cfg α) (k : Nat) (e : El α) : Blk α := ⟨(c.item k).size, rdW c.zero e.store⟩

/-- `flush`, in-memory branch: a signal array that is neither written nor handed over is handed over when forced or fully written -/
def snapEl (c : Cfg α) (force : Bool) (k : Nat) (e : El α) : El α :=
  if c.inMem && decide (k < c.n) && decide ((c.item k).kind = .signal) && !e.written && e.bytes.isNone
      && (force || decide (e.count = (c.item k).size))
  then { e with bytes := some (snapshot c k e) } else e

/-- `write_item` does something: bytes populated and not yet written -/
def pending (e : El α) : Bool := !e.written && e.bytes.isSome

/-- the four writes of `write_header`, newest first -/
def hdrWrites (c : Cfg α) (pos : Nat) : List (W α) :=
  [⟨true, c.xmlOff + c.xml.len, c.term⟩, ⟨true, c.xmlOff, c.xml⟩, ⟨true, pos + c.hdr.len, c.term⟩, ⟨true, pos, c.hdr⟩]

/-- the empty block -/
def Blk.nil (zero : α) : Blk α := ⟨0, fun _ => zero⟩

def itemWrite (c : Cfg α) (el : Nat → El α) (k : Nat) : W α := ⟨true, (c.item k).off, (el k).bytes.getD (Blk.nil c.zero)⟩

/-- `flush`, in-memory branch for every element (only signal arrays are affected) -/
def snapPhase (c : Cfg α) (force : Bool) (s : State α) : State α :=
  { s with el := fun k => snapEl c force k (s.el k) }

/-- `write_header(overwrite=False)`: text and terminator at the current position, seek, XML and terminator; once -/
def hdrPhase (c : Cfg α) (s : State α) : State α :=
  if s.hdrWritten then s
  else { s with ws := hdrWrites c s.pos ++ s.ws, pos := c.xmlOff + c.xml.len + c.term.len, hdrWritten := true }

/-- the elements `write_item` acts on, in table order -/
def todo (c : Cfg α) (s : State α) : List Nat := (List.range c.n).filter (fun k => pending (s.el k))

/-- `_write_items` over pvp, support, signal details: every pending element is written once at its offset (seek + write) -/
def itemsPhase (c : Cfg α) (s : State α) : State α :=
  { s with
    ws := ((todo c s).map (itemWrite c s.el)).reverse ++ s.ws,
    pos := match (todo c s).getLast? with
           | none => s.pos
           | some k => (c.item k).off + ((s.el k).bytes.getD (Blk.nil c.zero)).len,
    el := fun k => if k < c.n ∧ pending (s.el k) = true then { s.el k with written := true } else s.el k }

/-- `CPHDWriter1.flush(force)` after `_validate_closed`: hand over signal arrays (in memory), then `write_all_populated_items` -/
def flushCore (c : Cfg α) (force : Bool) (s : State α) : State α :=
  itemsPhase c (hdrPhase c (snapPhase c force s))

/-- `write_pvp_array`: with AmpSF the channel's format function gets the AmpSF column of *this* call as its scaling
    (`set_amplitude_scaling(numpy.copy(data['AmpSF']))`) and formatted signal writes become possible
    (only after the call has passed every guard, see `pvpBad`) -/
def markCanReg (c : Cfg α) (s : State α) (i a : Nat) : State α :=
  if c.ampSF then { s with el := setEl s.el (c.sigIdx i) { s.el (c.sigIdx i) with canReg := true, amp := some a } } else s

/-- the tail of `write_pvp_array` / `write_support_array` for element `k` once the arguments are validated:
    in memory `item_bytes = ...` (raises when already set), on a real file the memory map is overwritten and `item_written = True` -/
def putData (c : Cfg α) (s : State α) (k : Nat) (data : Blk α) : State α × Out :=
  if c.inMem then
    if (s.el k).bytes.isSome then (s, .refused)
    else ({ s with el := setEl s.el k { s.el k with bytes := some data, done := markRows (s.el k).done 0 1 } }, .ok)
  else ({ s with ws := ⟨false, (c.item k).off, data⟩ :: s.ws,
                 el := setEl s.el k { s.el k with written := true, done := markRows (s.el k).done 0 1 } }, .ok)

/-- a validated signal chunk (rows `r0 ..` of element `k`): stored in the array (in memory) or in the memory map (real file, where
    `item_written` is set as soon as the sample count equals the expected count) -/
def putChunk (c : Cfg α) (s : State α) (k r0 : Nat) (data : Blk α) (raw : Bool) : State α :=
  let it := c.item k
  let e := s.el k
  let nr := data.len / it.rowBytes
  let cnt := e.count + data.len
  -- a formatted chunk is encoded with the scaling the format function holds now (`data` is the encoded block)
  let sc := if raw then e.scaled else (r0, nr, e.amp) :: e.scaled
  if c.inMem then
    { s with el := setEl s.el k { e with count := cnt, done := markRows e.done r0 nr, scaled := sc,
                                         store := ⟨false, r0 * it.rowBytes, data⟩ :: e.store } }
  else
    { s with ws := ⟨false, it.off + r0 * it.rowBytes, data⟩ :: s.ws,
             el := setEl s.el k { e with count := cnt, done := markRows e.done r0 nr, scaled := sc,
                                         written := e.written || decide (cnt = it.size) } }

/-- a PVP write is refused before anything happens: closed writer, unknown channel, wrong number of vectors, and (in memory) a channel
    whose PVP array has already been handed over (`item_bytes is not None`: the guard precedes the amplitude-scaling hand-off) -/
def pvpBad (c : Cfg α) (s : State α) (i : Nat) (data : Blk α) : Prop :=
  s.closed = true ∨ ¬ i < c.nchan ∨ data.len ≠ (c.item i).size ∨ (c.inMem = true ∧ (s.el i).bytes.isSome = true)
def supBad (c : Cfg α) (s : State α) (j : Nat) (data : Blk α) : Prop :=
  s.closed = true ∨ ¬ j < c.nsup ∨ data.len ≠ (c.item (c.supIdx j)).size
/-- a signal write is refused: unknown channel, formatted data before the AmpSF is known, closed writer, not whole rows inside the array -/
def sigBad (c : Cfg α) (s : State α) (i r0 : Nat) (data : Blk α) (raw : Bool) : Prop :=
  ¬ i < c.nchan ∨ (raw = false ∧ (s.el (c.sigIdx i)).canReg = false) ∨ s.closed = true ∨
  (c.item (c.sigIdx i)).rowBytes = 0 ∨ data.len = 0 ∨ data.len % (c.item (c.sigIdx i)).rowBytes ≠ 0 ∨
  (c.item (c.sigIdx i)).rows < r0 + data.len / (c.item (c.sigIdx i)).rowBytes

instance (c : Cfg α) (s : State α) (i : Nat) (d : Blk α) : Decidable (pvpBad c s i d) := by unfold pvpBad; infer_instance
instance (c : Cfg α) (s : State α) (j : Nat) (d : Blk α) : Decidable (supBad c s j d) := by unfold supBad; infer_instance
instance (c : Cfg α) (s : State α) (i r0 : Nat) (d : Blk α) (raw : Bool) : Decidable (sigBad c s i r0 d raw) := by unfold sigBad; infer_instance

/-- elements `verify_all_written` complains about -/
def unwritten (c : Cfg α) (s : State α) : List Nat := (List.range c.n).filter (fun k => !(s.el k).written)

def step (c : Cfg α) (s : State α) : Op α → State α × Out
  | .writePvp i data a => if pvpBad c s i data then (s, .refused) else putData c (markCanReg c s i a) i data
  | .writeSup j data => if supBad c s j data then (s, .refused) else putData c s (c.supIdx j) data
  | .writeSig i r0 data raw => if sigBad c s i r0 data raw then (s, .refused) else (putChunk c s (c.sigIdx i) r0 data raw, .ok)
  | .flush => if s.closed then (s, .refused) else (flushCore c false s, .ok)
  | .close =>
    if s.closed then (s, .ok)
    else ({ flushCore c true s with closed := true },
          .report (!(flushCore c true s).hdrWritten) (unwritten c (flushCore c true s)))

def run (c : Cfg α) (s : State α) : List (Op α) → State α
  | [] => s
  | op :: ops => run c (step c s op).1 ops

def outs (c : Cfg α) (s : State α) : List (Op α) → List Out
  | [] => []
  | op :: ops => (step c s op).2 :: outs c (step c s op).1 ops

/-- the writes that went through the file object, oldest first, as (offset, length): what a file-object proxy observes -/
def foLog (s : State α) : List (Nat × Nat) := ((s.ws.filter (·.fo)).map (fun w => (w.off, w.data.len))).reverse
/-- the writes that went through memory maps, oldest first -/
def mmLog (s : State α) : List (Nat × Nat) := ((s.ws.filter (fun w => !w.fo)).map (fun w => (w.off, w.data.len))).reverse

end Sarpy.Spec.CphdWriter
