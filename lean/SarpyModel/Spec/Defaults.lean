/-
  How an optional argument is filled in: the value the caller gave is used as it is - whatever it is, zero included -, the
  default only when the argument is absent.  (Property C04: the surface a point is projected to is the one the caller names.)
-/
namespace Sarpy.Spec.Defaults

/-- the value a computation uses for an optional argument `x` whose default is `d` -/
def fill (x : Option Int) (d : Int) : Int :=
  match x with
  | some v => v
  | none => d

/-- the truthiness form `x if x else d` (what a careless rewrite produces): a given value that is falsy is replaced -/
def fillTruthy (x : Option Int) (d : Int) : Int :=
  match x with
  | some v => if v = 0 then d else v
  | none => d

end Sarpy.Spec.Defaults
