/-
  C14 — opener discrimination as decision logic.

  A file is abstracted to a *descriptor*: its signature (first bytes), and - for a NITF container -
  the list of image segments (by the only features the three NITF family readers look at), the number
  of graphics segments, and the list of data extension segments (DES id x kind of payload), in file order.

  Every family opener is a total function  Desc -> accept reader | reject | raises  where
    reject  = sarpy's SarpyIOError,
    raises  = a parse error of an inconsistent file propagates (documented by sarpy; only SIDD image
              bookkeeping is modelled that way).

  Mirrors (file:line of /repo at the time of writing)
    sarpy/io/__init__.py:5-55                        open           -> openTop / cascade
    sarpy/io/complex/converter.py:83-116             open_complex   -> openComplex
    sarpy/io/product/converter.py:62-90              open_product   -> openProduct
    sarpy/io/phase_history/converter.py:57-85        open_phase_history -> openPhaseHistory
    sarpy/io/received/converter.py:56-84             open_received  -> openReceived
    sarpy/io/general/converter.py:60-88              open_general   -> openGeneral
    sarpy/io/complex/sicd.py:139-166, 196-265, 418-441   SICDDetails, _find_sicd, is_a
    sarpy/io/product/sidd.py:59-86, 112-165, 232-285     SIDDDetails, _find_sidd, SIDDReader, is_a
    sarpy/io/general/nitf.py:564-570, 1266-1299      NITF version test, "no supported image segments"
    sarpy/io/complex/other_nitf.py:943-1010, 1174-1197   final_attempt
    sarpy/io/phase_history/cphd.py:208-213, 999-1020 ; sarpy/io/received/crsd.py:76-81, 673-694 ; sarpy/io/complex/sio.py:59-70

  No imports: total, computable, structural recursion only.
-/
namespace Sarpy.Spec.Opener

/-- what the first bytes of the file say.  `nitfOther` = "NITF" followed by an unsupported version;
    `sio` = one of the four SIO magic words.  Other vendor signatures (TIFF, HDF5, GFF, ...) are outside the model. -/
inductive Magic where
  | none | nitf21 | nitf20 | nitfOther | cphd | crsd | sio
  deriving DecidableEq, Repr

/-- DES subheader id as tested by `subhead_bytes.startswith(...)` (sicd.py:204,231,237; sidd.py:123,135,147) -/
inductive DesId where
  | xmlData   -- DESID "XML_DATA_CONTENT"
  | oldSidd   -- DESID "SIDD_XML"
  | oldSicd   -- DESID "SICD_XML"
  | other     -- any other id
  deriving DecidableEq, Repr

/-- DES payload: XML whose root tag contains "SICD" / "SIDD", other XML, or not XML at all -/
inductive Body where
  | sicd | sidd | otherXml | nonXml
  deriving DecidableEq, Repr

structure Des where
  id : DesId
  body : Body
  deriving DecidableEq, Repr

/-- PVTYPE of an image subheader -/
inductive PvType where
  | int | b | si | r | c
  deriving DecidableEq, Repr

/-- ISUBCAT of a band, as far as ComplexNITFDetails looks: exactly "I", "Q", "M", "P", or anything else -/
inductive SubCat where
  | i | q | m | p | other
  deriving DecidableEq, Repr

/-- what `ComplexNITFDetails._check_band_details` (other_nitf.py:945-1012) reads of an image subheader:
    ICAT in {SAR, SARIQ}; PVTYPE; the ISUBCAT of each band, in order -/
structure ImgHdr where
  sar : Bool
  pv : PvType
  bands : List SubCat
  deriving DecidableEq, Repr

/-- image segment, by what the readers test:
    `sicdSeg`   ICAT SAR/SARIQ, PVTYPE R/SI with the band pair (I,Q)  (what SICDWriter emits)
    `siddSeg k` ICAT SAR, IID1 = "SIDD" ++ (k+1 as three digits) ++ ..., one integer band (what SIDDWriter emits for product k, 0-based)
    `other`     ICAT outside {SAR, SARIQ} (legend, VIS, ...): unsupported for all three NITF family readers
    `gen h`     any other image segment of a general NITF, by the header fields the fallback complex opener reads -/
inductive Img where
  | sicdSeg
  | siddSeg (k : Nat)
  | other
  | gen (h : ImgHdr)
  deriving DecidableEq, Repr

/-- the header fields of each class -/
def Img.hdr : Img → ImgHdr
  | .sicdSeg => ⟨true, .r, [.i, .q]⟩
  | .siddSeg _ => ⟨true, .int, [.other]⟩
  | .other => ⟨false, .int, [.other]⟩
  | .gen h => h

structure Desc where
  magic : Magic
  images : List Img
  graphics : Nat
  des : List Des
  /-- NITF 2.0 only: number of symbol and label segments (2.1 files have none) -/
  symbols : Nat := 0
  labels : Nat := 0
  deriving DecidableEq, Repr

/-- reader-side switches read from the source on every run (harness/c14.py `source_policy`):
    `siddRefusesGraphics` - SIDDDetails raises SarpyIOError for a file with graphics segments (sidd.py:76-77).
    SICDDetails always does (sicd.py:161-162; the SICD writer cannot emit graphics). -/
structure Policy where
  siddRefusesGraphics : Bool
  deriving DecidableEq, Repr

inductive Reader where
  | sicd | complexNitf | sidd | cphd | crsd | nitf | sio
  deriving DecidableEq, Repr

inductive Decision where
  | accept (r : Reader)
  | reject
  | raises
  deriving DecidableEq, Repr

/-- how the file is handed over: a path, or an open binary file object (documented for complex and phase history) -/
inductive Arg where
  | path | fileobj
  deriving DecidableEq, Repr

/-! ## `_find_sicd` (sicd.py:196-265): scan DES in order, stop at the first SIDD or the first SICD -/

inductive Scan where
  | stop   -- `break` with is_sicd = False
  | hit    -- `break` with is_sicd = True
  | skip   -- next DES
  deriving DecidableEq, Repr

def sicdScan (e : Des) : Scan :=
  match e.id, e.body with
  | .xmlData, .sidd => .stop          -- 'SIDD' in root tag: abandon
  | .xmlData, .sicd => .hit
  | .xmlData, _ => .skip              -- other XML falls through; unparsable: `except: continue`
  | .oldSidd, _ => .stop              -- "old format SIDD and can't be a SICD" (payload not looked at)
  | .oldSicd, .sicd => .hit
  | .oldSicd, _ => .skip
  | .other, _ => .skip

/-- index of the DES that `_find_sicd` settles on (`_des_index`), `none` when `is_sicd` stays False -/
def findSicd : List Des → Option Nat
  | [] => none
  | e :: es =>
    match sicdScan e with
    | .stop => none
    | .hit => some 0
    | .skip => (findSicd es).map (· + 1)

/-! ## `_find_sidd` (sidd.py:112-165): collect every SIDD and every SICD document -/

def isSiddDoc (e : Des) : Bool := (e.id == .xmlData || e.id == .oldSidd) && e.body == .sidd
def isSicdDoc (e : Des) : Bool := (e.id == .xmlData || e.id == .oldSicd) && e.body == .sicd

/-- (indices of the DES appended to `_sidd_meta`, indices appended to `_sicd_meta`), numbering from `i` -/
def findSiddFrom (i : Nat) : List Des → List Nat × List Nat
  | [] => ([], [])
  | e :: es =>
    let r := findSiddFrom (i + 1) es
    if isSiddDoc e then (i :: r.1, r.2)
    else if isSicdDoc e then (r.1, i :: r.2)
    else r

def findSidd (l : List Des) : List Nat × List Nat := findSiddFrom 0 l

/-! ## NITF container tests shared by SICDDetails / SIDDDetails (sicd.py:152-160, sidd.py:72-80) -/

def nitfOk (m : Magic) : Bool := m == .nitf21 || m == .nitf20

def containerOk (refuseGraphics : Bool) (d : Desc) : Bool :=
  nitfOk d.magic && !d.images.isEmpty && (!refuseGraphics || d.graphics == 0) && !d.des.isEmpty

def sicdDetails (d : Desc) : Option Nat := if containerOk true d then findSicd d.des else none

/-- `some (number of SIDD documents, number of SICD documents)` when SIDDDetails is built with is_sidd -/
def siddDetails (p : Policy) (d : Desc) : Option (Nat × Nat) :=
  if containerOk p.siddRefusesGraphics d then
    let r := findSidd d.des
    if r.1.isEmpty then none else some (r.1.length, r.2.length)
  else none

def isSiddSeg : Img → Bool
  | .siddSeg _ => true
  | _ => false

/-! ## family openers -/

/-- the trial loops and the top-level cascade: first accept wins, `SarpyIOError`/`None` moves on, any other exception propagates -/
def cascade : List Decision → Decision
  | [] => .reject
  | .accept r :: _ => .accept r
  | .raises :: _ => .raises
  | .reject :: rest => cascade rest

/-- sicd.is_a: SICDDetails, then SICDReader needs at least one supported (complex) image segment (nitf.py:1287) -/
def sicdIsA (d : Desc) : Decision :=
  match sicdDetails d with
  | none => .reject
  | some _ => if d.images.any (· == .sicdSeg) then .accept .sicd else .reject

/-- sio.is_a: not for file objects; magic word -/
def sioIsA (a : Arg) (d : Desc) : Decision :=
  if a == .path && d.magic == .sio then .accept .sio else .reject

/-! ## which image segments the fallback complex opener takes (other_nitf.py `_check_band_details`, `extract_sicd.get_image_data`) -/

/-- `bands[0].ISUBCAT + bands[1].ISUBCAT in ['IQ', 'QI', 'MP', 'PM']` -/
def orderIQ (x y : SubCat) : Bool := (x == .i && y == .q) || (x == .q && y == .i)
def orderMP (x y : SubCat) : Bool := (x == .m && y == .p) || (x == .p && y == .m)
def validOrder (x y : SubCat) : Bool := orderIQ x y || orderMP x y

/-- `for i in range(2, len(bands), 2): order == bands[i].ISUBCAT + bands[i+1].ISUBCAT`, on the bands after the first pair -/
def pairsFollow (x y : SubCat) : List SubCat → Bool
  | a :: b :: rest => a == x && b == y && pairsFollow x y rest
  | _ => true

/-- outcome of `_check_band_details` for one image segment:
    `skip`    status False (not a complex segment)
    `take`    status True, a SICD structure is recorded
    `refuse`  extract_sicd raises ValueError ("unhandled PVTYPE"): the whole file is given up (final_attempt catches ValueError)
    `muddled` the PVTYPE does not fit the band labelling of a multi-pair segment: status False AND True are both appended (the
              branch logs an error and does not return); the reader built from such details refuses the segment (ValueError)
    `crash`   no band at all: IndexError -/
inductive BandOut where
  | skip | take | refuse | muddled | crash
  deriving DecidableEq, Repr

def checkBand (h : ImgHdr) : BandOut :=
  if !h.sar then .skip
  else if !(h.pv == .c || h.pv == .r || h.pv == .si) then .refuse
  else if h.bands.length % 2 == 1 then (if h.pv != .c then .skip else .take)
  else match h.bands with
    | x :: y :: rest =>
      if !validOrder x y then .skip
      else if rest.isEmpty then .take
      else if !pairsFollow x y rest then .skip
      else if (orderIQ x y && !(h.pv == .si || h.pv == .r)) || (orderMP x y && !(h.pv == .int || h.pv == .r)) then .muddled
      else .take
    | _ => .crash

/-- `_find_complex_image_segments` + `len(self.sicd_meta) == 0` + ComplexNITFReader, handler of final_attempt included:
    the segments are examined in file order; `found` = some segment has been taken -/
def scanBands : List ImgHdr → Bool → Decision
  | [], found => if found then .accept .complexNitf else .reject
  | h :: rest, found =>
    match checkBand h with
    | .skip => scanBands rest found
    | .take => scanBands rest true
    | .refuse => .reject
    | .muddled => .reject
    | .crash => .raises

/-- other_nitf.final_attempt: not for file objects; then ComplexNITFDetails on the image subheaders in file order -/
def finalAttempt (a : Arg) (d : Desc) : Decision :=
  if a == .fileobj then .reject
  else if !nitfOk d.magic then .reject
  else scanBands (d.images.map Img.hdr) false

/-- open_complex: registered openers in discovery order (..., sicd, sio, ...) then the final attempt -/
def openComplex (a : Arg) (d : Desc) : Decision :=
  cascade [sicdIsA d, sioIsA a d, finalAttempt a d]

/-- SIDDReader on `n` SIDD documents (sidd.py:215-254, nitf.py:1287): supported segments are the SIDD-named SAR
    segments; none -> SarpyIOError; a product index beyond n or a product without segment -> ValueError -/
def siddBeyond (n : Nat) : Img → Bool
  | .siddSeg k => decide (n ≤ k)
  | _ => false

def siddReader (imgs : List Img) (n : Nat) : Decision :=
  if !imgs.any isSiddSeg then .reject
  else if imgs.any (siddBeyond n) then .raises
  else if (List.range n).all (fun j => imgs.contains (.siddSeg j)) then .accept .sidd
  else .raises

def openProduct (p : Policy) (d : Desc) : Decision :=
  match siddDetails p d with
  | none => .reject
  | some (n, _) => siddReader d.images n

def openPhaseHistory (_a : Arg) (d : Desc) : Decision :=
  if d.magic == .cphd then .accept .cphd else .reject

def openReceived (d : Desc) : Decision :=
  if d.magic == .crsd then .accept .crsd else .reject

/-- open_general: NITFReader for any supported NITF with an image segment (TIFF is outside the model) -/
def openGeneral (d : Desc) : Decision :=
  if nitfOk d.magic && !d.images.isEmpty then .accept .nitf else .reject

/-- sarpy.io.open: complex, product, phase_history, received, general - in this order, path argument -/
def openTop (p : Policy) (d : Desc) : Decision :=
  cascade [openComplex .path d, openProduct p d, openPhaseHistory .path d, openReceived d, openGeneral d]

/-! ## the four family openers as one function (for the exclusivity statement) -/

inductive Family where
  | complex | product | phaseHistory | received
  deriving DecidableEq, Repr

def familyOpen (p : Policy) (a : Arg) : Family → Desc → Decision
  | .complex, d => openComplex a d
  | .product, d => openProduct p d
  | .phaseHistory, d => openPhaseHistory a d
  | .received, d => openReceived d

def familyOf : Reader → Option Family
  | .sicd | .complexNitf | .sio => some .complex
  | .sidd => some .product
  | .cphd => some .phaseHistory
  | .crsd => some .received
  | .nitf => none

/-! ## writer models: what descriptor each sarpy writer produces -/

def sicdDes : Des := ⟨.xmlData, .sicd⟩
def siddDes : Des := ⟨.xmlData, .sidd⟩

/-- SICDWriter (sicd.py:842-851): additional DES first, the SICD DES last; `nseg + 1` complex image segments -/
def writeSicd (extra : List Des) (nseg : Nat) : Desc :=
  { magic := .nitf21, images := List.replicate (nseg + 1) .sicdSeg, graphics := 0, des := extra ++ [sicdDes] }

/-- image segments of products k, k+1, ...; `segs` gives for each product its number of segments minus one -/
def siddImagesFrom (k : Nat) : List Nat → List Img
  | [] => []
  | s :: ss => List.replicate (s + 1) (.siddSeg k) ++ siddImagesFrom (k + 1) ss

/-- SIDDWriter (sidd.py:869-879): additional DES, then one SIDD DES per product, then the SICD DES(s);
    `graphics` graphics segments (SIDDWritingDetails takes `graphics_managers`) -/
def writeSidd (extra : List Des) (segs : List Nat) (nsicd : Nat) (graphics : Nat) : Desc :=
  { magic := .nitf21, images := siddImagesFrom 0 segs, graphics := graphics,
    des := extra ++ (List.replicate segs.length siddDes ++ List.replicate nsicd sicdDes) }

def writeCphd : Desc := { magic := .cphd, images := [], graphics := 0, des := [] }
def writeCrsd : Desc := { magic := .crsd, images := [], graphics := 0, des := [] }
def writeSio : Desc := { magic := .sio, images := [], graphics := 0, des := [] }

/-- additional DES that may precede the SICD DES of a SICD file without hiding it from `_find_sicd`
    and without making `_find_sidd` see a SIDD -/
def sicdSafe (e : Des) : Bool := sicdScan e != .stop && !isSiddDoc e
/-- additional DES of a SIDD file that do not add a SIDD document -/
def siddSafe (e : Des) : Bool := !isSiddDoc e
/-- an additional DES that carries neither a SICD nor a SIDD document and does not use the legacy SIDD id -/
def neutral (e : Des) : Bool :=
  e.id == .other || ((e.id == .xmlData || e.id == .oldSicd) && (e.body == .otherXml || e.body == .nonXml))

end Sarpy.Spec.Opener
