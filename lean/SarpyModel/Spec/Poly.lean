/-
  Spec.Poly — sarpy's metadata polynomials (Poly1DType / Poly2DType / XYZPolyType) as coefficient
  lists over an arbitrary scalar type.  Import-free and computable: the driver instantiates the
  scalars at `Rat` (exact), `Props/C16.lean` at any commutative ring.

  Code anchors (sarpy/io/complex/sicd_elements/blocks.py):
    eval    = numpy.polynomial.polynomial.polyval (Horner)             Poly1DType.__call__
    der     = numpy.polynomial.polynomial.polyder (one order)          derivative / derivative_eval
    pass    = one sweep `out[index:siz-1] -= t_0*out[index+1:siz]`     shift, inner statement
    shift0  = the sweeps for index = siz-1 … 0 (suffix first)          shift, loop
    scale   = `out *= alpha ** arange(size)`
    shift   = the two guarded steps (`t_0 != 0 and size > 1`, `alpha != 1 and size > 1`)
    minimize = minimize_order (trailing zeros trimmed, one coefficient kept)
-/
namespace Sarpy.Spec.Poly

variable {R : Type} [Add R] [Sub R] [Mul R] [Zero R] [One R] [NatCast R]

def eval (p : List R) (x : R) : R := p.foldr (fun c acc => c + x * acc) 0

def pass (t0 : R) : List R → List R
  | [] => []
  | [a] => [a]
  | a :: b :: rest => (a - t0 * b) :: pass t0 (b :: rest)

def shift0 (t0 : R) : List R → List R
  | [] => []
  | a :: rest => pass t0 (a :: shift0 t0 rest)

def scaleAux (alpha : R) (pw : R) : List R → List R
  | [] => []
  | c :: l => (c * pw) :: scaleAux alpha (pw * alpha) l

def scale (alpha : R) (p : List R) : List R := scaleAux alpha 1 p

def shift [DecidableEq R] (t0 alpha : R) (p : List R) : List R :=
  let out := if t0 ≠ 0 ∧ p.length > 1 then shift0 t0 p else p
  if alpha ≠ 1 ∧ out.length > 1 then scale alpha out else out

def derAux (k : Nat) : List R → List R
  | [] => []
  | c :: l => ((k : R) * c) :: derAux (k + 1) l

/-- one derivative; numpy keeps one (zero) coefficient for a constant polynomial -/
def der (p : List R) : List R := derAux 1 p.tail

def derN : Nat → List R → List R
  | 0, p => p
  | n + 1, p => derN n (der p)

def dropTrailingZeros [DecidableEq R] : List R → List R
  | [] => []
  | c :: l =>
    let r := dropTrailingZeros l
    if r = [] ∧ c = 0 then [] else c :: r

def minimize [DecidableEq R] (p : List R) : List R :=
  let q := dropTrailingZeros p
  if q = [] then [0] else q

/-! two variables: `p[i][j]` multiplies `x^i y^j` (numpy `polyval2d`) -/

def eval2 (p : List (List R)) (x y : R) : R := eval (p.map (fun row => eval row y)) x

/-- `Poly2DType.minimize_order` (blocks.py): keep rows up to the last one holding a non-zero coefficient and columns up to the
    last one holding a non-zero coefficient; an all-zero array becomes `[[0]]` -/
def dropTrailingZeroRows [DecidableEq R] : List (List R) → List (List R)
  | [] => []
  | r :: l =>
    let t := dropTrailingZeroRows l
    if t = [] ∧ dropTrailingZeros r = [] then [] else r :: t

def lastCol [DecidableEq R] : List (List R) → Nat
  | [] => 0
  | r :: l => max (dropTrailingZeros r).length (lastCol l)

def minimize2 [DecidableEq R] (p : List (List R)) : List (List R) :=
  let q := dropTrailingZeroRows p
  if q = [] then [[0]] else q.map (fun r => r.take (lastCol q))

def rowSubScaled (t0 : R) (a b : List R) : List R := List.zipWith (fun u v => u - t0 * v) a b

def pass2 (t0 : R) : List (List R) → List (List R)
  | [] => []
  | [a] => [a]
  | a :: b :: rest => rowSubScaled t0 a b :: pass2 t0 (b :: rest)

def shift02 (t0 : R) : List (List R) → List (List R)
  | [] => []
  | a :: rest => pass2 t0 (a :: shift02 t0 rest)

def scaleRowsAux (alpha pw : R) : List (List R) → List (List R)
  | [] => []
  | row :: l => row.map (fun c => pw * c) :: scaleRowsAux alpha (pw * alpha) l

def shift2 [DecidableEq R] (s1 a1 s2 a2 : R) (p : List (List R)) : List (List R) :=
  let o1 := if s1 ≠ 0 ∧ p.length > 1 then shift02 s1 p else p
  let o2 := if a1 ≠ 1 ∧ o1.length > 1 then scaleRowsAux a1 1 o1 else o1
  let ncol := (o2.headD []).length
  let o3 := if s2 ≠ 0 ∧ ncol > 1 then o2.map (shift0 s2) else o2
  if a2 ≠ 1 ∧ ncol > 1 then o3.map (scale a2) else o3

/-! ### vector polynomials on array arguments (`XYZPolyType.__call__`, blocks.py:1483-1510)

  The argument array of any shape is taken in row-major order (`ts`); each component polynomial is evaluated
  pointwise, the three results are reshaped to columns, `hstack`ed and reshaped to `o_shape + (3,)`:
  in row-major order that is the three components of the first point, then of the second, ... -/
def xyzEvalFlat (px py pz : List R) (ts : List R) : List R :=
  (ts.map (fun t => [eval px t, eval py t, eval pz t])).flatten

/-- `derivative_eval` of a vector polynomial on an array argument: the same assembly applied to the derivative polynomials -/
def xyzDerEvalFlat (n : Nat) (px py pz : List R) (ts : List R) : List R :=
  xyzEvalFlat (derN n px) (derN n py) (derN n pz) ts

/-- `numpy.polynomial.polynomial.polyder(c, m)` on integer coefficients (the callee of `Poly1DType.derivative`; helper of the
    regenerated code in Gen/PolyLoops.lean): `m` derivatives, one zero coefficient kept when nothing is left, negative `m` refused -/
def polyder (c : List Int) (m : Int) : Except String (List Int) :=
  if m < 0 then throw "ValueError" else
    let d := derN m.toNat c
    pure (if d = [] then [0] else d)

end Sarpy.Spec.Poly
