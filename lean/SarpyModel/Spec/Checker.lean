/-
  Spec.Checker — the consistency-rule runner of sarpy as a state machine, and the file-level rules of the
  CPHD / SICD / NITF checkers restated over the layout models.  Imports only other Spec files (no Mathlib).

  Code anchors
  * sarpy/consistency/consistency.py
      `ConsistencyChecker._run_check`  (:118-147)   one `check_*` method = one `runCheck`
      `_add_item_to_current`           (:149-174)   `State.add`  (`passed &= passed`)
      `need` / `want` / `_crave`       (:199-256)   `Op.need`, `Op.want`  (item recorded on success and on failure,
                                                    AssertionError swallowed, the method goes on)
      `precondition`                   (:258-278)   `Op.pre` … `Op.close`  (failed assertion: one 'No-Op' item with
                                                    passed = True, the rest of the `with` block is not executed)
      exception in a check             (:135-144)   `Op.raise`  (one 'Error' item with passed = False, the rest of the
                                                    method is not executed, nothing propagates)
      `failures` / `passes` / `skips`  (:292-339)   `failures`, `pyPasses`, `skips`
  * sarpy/consistency/cphd_consistency.py
      `check_pad_header_xml` (:1227), `check_pad_after_xml` (:1245), `check_pad_after_support` (:1268),
      `check_pad_after_pvp` (:1286), `check_signal_at_end_of_file` (:1303), `check_channel_signal_data` (:1180)
  * sarpy/consistency/sicd_consistency.py `check_des_header_fields` (:125-166) (and the SIDD twin)
  * sarpy/io/general/nitf.py `NITFWritingDetails.verify_all_offsets` / `header.FL = last_offset` (:3421)

  A check method is flattened into a list of `Op`s: the block structure of `with self.precondition():` is kept by
  the pair `pre c` … `close` (the dedent).  An unmatched `close` is a no-op; blocks still open at the end of the
  method are closed implicitly (nothing happens at the end of a method).
-/
import SarpyModel.Spec.CphdLayout
import SarpyModel.Spec.Layout

namespace Sarpy.Spec.Checker

/-! ### the rule runner -/

inductive Severity | error | warning | noop
deriving DecidableEq, Repr

/-- one entry of `_active_check['details']` (severity, passed) -/
structure Item where
  sev : Severity
  passed : Bool
deriving DecidableEq, Repr

inductive Op
  | need (c : Bool)     -- `with self.need(): assert c`
  | want (c : Bool)     -- `with self.want(): assert c`
  | pre (c : Bool)      -- `with self.precondition(): assert c` (opens a block)
  | close               -- end of the innermost open precondition block
  | raise               -- any exception other than an AssertionError caught by need/want/precondition
deriving DecidableEq, Repr

inductive Mode
  | running
  | skipping (depth : Nat)   -- inside a failed precondition block, `depth` further blocks opened inside it
  | aborted                  -- an exception left the method
deriving DecidableEq, Repr

/-- control flow only -/
def ctl : Mode → Op → Mode
  | .aborted, _ => .aborted
  | .skipping d, .pre _ => .skipping (d + 1)
  | .skipping 0, .close => .running
  | .skipping (d + 1), .close => .skipping d
  | .skipping d, _ => .skipping d
  | .running, .pre false => .skipping 0
  | .running, .raise => .aborted
  | .running, _ => .running

/-- bookkeeping only: what `_add_item_to_current` is called with -/
def emit : Mode → Op → Option Item
  | .running, .need c => some ⟨.error, c⟩
  | .running, .want c => some ⟨.warning, c⟩
  | .running, .pre false => some ⟨.noop, true⟩
  | .running, .raise => some ⟨.error, false⟩
  | _, _ => none

structure State where
  details : List Item
  passed : Bool
  mode : Mode
deriving DecidableEq, Repr

/-- `_add_item_to_current`: append, `passed &= passed` -/
def State.add (s : State) (it : Item) : State :=
  { s with details := s.details ++ [it], passed := s.passed && it.passed }

def step (s : State) (op : Op) : State :=
  let s' := match emit s.mode op with
    | some it => s.add it
    | none => s
  { s' with mode := ctl s.mode op }

def exec (s : State) (ops : List Op) : State := ops.foldl step s

/-- `_run_check` starts with `{'details': [], 'passed': True}` -/
def init : State := ⟨[], true, .running⟩

structure Result where
  details : List Item
  passed : Bool
deriving DecidableEq, Repr

def runCheck (ops : List Op) : Result :=
  let s := exec init ops
  ⟨s.details, s.passed⟩

/-- `ConsistencyChecker.check()`: every check method in turn, each with a fresh active check -/
def run (checks : List (List Op)) : List Result := checks.map runCheck

/-- mode reached after a prefix (control flow only) -/
def modeAfter (m : Mode) (ops : List Op) : Mode := ops.foldl ctl m

/-- the items recorded by a list of ops started in mode `m` -/
def emitted : Mode → List Op → List Item
  | _, [] => []
  | m, op :: r => (emit m op).toList ++ emitted (ctl m op) r

/-- an item is acceptable at Error level unless it is a failed 'Error' item -/
def Item.errOk (i : Item) : Bool := i.sev != .error || i.passed

def Result.errorFree (r : Result) : Bool := r.details.all Item.errOk

/-- the verdict of a run at 'Error' level: no failed `need`, no exception -/
def passes (rs : List Result) : Bool := rs.all Result.errorFree

/-- the verdict `not bool(failures())` used by `cphd_consistency.main` (a failed `want` also clears the flag) -/
def strictPasses (rs : List Result) : Bool := rs.all (·.passed)

/-- `failures()`: checks whose flag is False -/
def failures (rs : List Result) : List Result := rs.filter (fun r => !r.passed)
/-- `passes()`: flag True and not wholly No-Op -/
def pyPasses (rs : List Result) : List Result := rs.filter (fun r => r.passed && r.details.any (fun d => d.sev != .noop))
/-- `skips()`: flag True and wholly No-Op (including no detail at all) -/
def skips (rs : List Result) : List Result := rs.filter (fun r => r.passed && r.details.all (fun d => d.sev == .noop))

/-- a failed precondition block is still open after `ops` (started `d` blocks deep inside it) -/
def staysSkipping : Nat → List Op → Bool
  | _, [] => true
  | d, .pre _ :: r => staysSkipping (d + 1) r
  | 0, .close :: _ => false
  | d + 1, .close :: r => staysSkipping d r
  | d, _ :: r => staysSkipping d r

/-- what follows the `close` that ends a failed precondition block -/
def afterBlock : Nat → List Op → List Op
  | _, [] => []
  | d, .pre _ :: r => afterBlock (d + 1) r
  | 0, .close :: r => r
  | d + 1, .close :: r => afterBlock d r
  | d, _ :: r => afterBlock d r

def notWant : Op → Bool
  | .want _ => false
  | _ => true

/-! ### file-level rules of `CphdConsistency` over the C09 layout model -/

open Sarpy.Spec.CphdLayout in
/-- what the checker sees of a CPHD file: the header fields, the length of the header text (before `\f\n`)
    and the file size -/
structure CphdFile where
  b : Blocks
  hdrLen : Nat
  fileLen : Nat
deriving Repr, DecidableEq

/-- `check_pad_header_xml`, need "header section terminator exists before XML": `\f\n` lies inside the first
    XML_BLOCK_BYTE_OFFSET bytes -/
def hdrBeforeXml (f : CphdFile) : Prop := f.hdrLen + 2 ≤ f.b.xmlOff

/-- `check_pad_after_xml`, need "{Support|PVP} comes after XML": `next - (xmlOff + xmlSize) - 2 >= 0` -/
def nextAfterXml (f : CphdFile) : Prop :=
  f.b.xmlOff + f.b.xmlSize + 2 ≤ (match f.b.supp with | some (so, _) => so | none => f.b.pvpOff)

/-- `check_pad_after_support`, need "PVP comes after Support" (skipped by precondition without SUPPORT fields) -/
def pvpAfterSupport (f : CphdFile) : Prop :=
  match f.b.supp with
  | some (so, s) => so + s ≤ f.b.pvpOff
  | none => True

/-- `check_pad_after_pvp`, need "Signal comes after PVP" -/
def signalAfterPvp (f : CphdFile) : Prop := f.b.pvpOff + f.b.pvpSize ≤ f.b.sigOff

/-- `check_signal_at_end_of_file` -/
def signalAtEof (f : CphdFile) : Prop := f.fileLen = f.b.sigOff + f.b.sigSize

instance (f : CphdFile) : Decidable (hdrBeforeXml f) := by unfold hdrBeforeXml; infer_instance
instance (f : CphdFile) : Decidable (nextAfterXml f) := by unfold nextAfterXml; infer_instance
instance (f : CphdFile) : Decidable (pvpAfterSupport f) := by
  unfold pvpAfterSupport
  cases f.b.supp with
  | none => exact isTrue trivial
  | some p => cases p; infer_instance
instance (f : CphdFile) : Decidable (signalAfterPvp f) := by unfold signalAfterPvp; infer_instance
instance (f : CphdFile) : Decidable (signalAtEof f) := by unfold signalAtEof; infer_instance

/-- `check_channel_signal_data`, need "Channel signal fits in signal block": for every channel
    `SIGNAL_BLOCK_SIZE >= SignalArrayByteOffset + NumVectors * NumSamples * itemsize`; channels are (offset, bytes) -/
def signalFits (sigSize : Nat) (chans : List (Nat × Nat)) : Bool := chans.all (fun c => c.1 + c.2 ≤ sigSize)

/-- the byte size of a channel's signal array -/
def chanBytes (numVectors numSamples itemSize : Nat) : Nat := numVectors * numSamples * itemSize

/-- the file the CPHD writer produces for a layout: header text of length `hdrLen`, file ends with the signal block -/
def writerFile (hdrLen : Nat) (b : CphdLayout.Blocks) : CphdFile := ⟨b, hdrLen, CphdLayout.fileEnd b⟩

/-- total of the channel sizes (the writer's SIGNAL_BLOCK_SIZE) -/
def totalBytes (chans : List (Nat × Nat)) : Nat := (chans.map (·.2)).sum

/-! ### SICD / SIDD DES rule: the DES user header agrees with the XML it carries -/

/-- the fields the rule looks at: DESSHTN, DESSHSV of the DES subheader and the default namespace of the XML -/
structure Des (α : Type) where
  desshtn : α
  desshsv : α
  xmlns : α
deriving Repr, DecidableEq

/-- `check_des_header_fields`: DESSHTN is a recognised urn (`get_urn_details`), it equals the XML namespace, and
    DESSHSV is the version the urn table gives for it; `table` is `urn_mapping` as (urn, version) pairs -/
def desRule {α : Type} [DecidableEq α] (table : List (α × α)) (d : Des α) : Bool :=
  decide (d.desshtn = d.xmlns) && decide (table.lookup d.desshtn = some d.desshsv)

/-- `SICDWritingDetails._create_sicd_des`: the XML is rendered with `urn = DESSHTN`, DESSHSV from the same table row -/
def writerDes {α : Type} (urn version : α) : Des α := ⟨urn, version, urn⟩

/-! ### NITF file length rule: FL equals the end of the last item -/

/-- end of the last item of the segment chain (the header length when there is no segment) -/
def lastEnd (header : Nat) (segs : List (Nat × Nat)) : Nat :=
  ((Layout.offsets header segs).getLast?.map (fun t => t.2.2)).getD header

/-- FL (and every reader-side use of it) agrees with the bytes actually present -/
def flRule (fl fileLen : Nat) : Prop := fl = fileLen

instance (a b : Nat) : Decidable (flRule a b) := by unfold flRule; infer_instance

end Sarpy.Spec.Checker
