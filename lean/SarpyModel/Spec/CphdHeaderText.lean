/-
  Spec.CphdHeaderText — the CPHD / CRSD file header text, byte by byte.
  Imports only Spec.CphdLayout and Spec.CrsdHeader (no Mathlib).

  Code anchors (the two header classes are separate code with the same shape):
    sarpy/io/phase_history/cphd1_elements/CPHD.py  `CPHDHeader._fields`, `CPHDHeader.to_string`
    sarpy/io/received/crsd1_elements/CRSD.py       `CRSDHeader._fields`, `CRSDHeader.to_string`
        'CPHD/{}\n'.format(version) + ''.join(["{} := {}\n".format(f, getattr(self, f)) for f in self._fields if getattr(self, f) is not None])
    `make_file_header`: `min_xml_offset = len(header_str.encode()) + len(SECTION_TERMINATOR)`

  Bytes are natural numbers.  Numbers are rendered as Python's `str(int)` (decimal, no sign, no leading zeros);
  classification / release strings are given as their UTF-8 bytes.  The field names, their order and the format strings are
  tied to the source by the regenerated tables `Gen.Cphd.hdr_fields` / `line_fmt` / `first_fmt` (Bridge/Cphd.lean).
-/
import SarpyModel.Spec.CphdLayout
import SarpyModel.Spec.CrsdHeader
namespace Sarpy.Spec.CphdHeaderText
open Sarpy.Spec.CphdLayout Sarpy.Spec.CrsdHeader

/-- bytes of an ASCII string literal -/
def ascii (s : String) : List Nat := s.toList.map Char.toNat

/-- `str(n)`: decimal digits, most significant first (fuel = n is always enough) -/
def decimalAux : Nat → Nat → List Nat
  | 0, n => [48 + n % 10]
  | fuel + 1, n => if n < 10 then [48 + n] else decimalAux fuel (n / 10) ++ [48 + n % 10]

def decimal (n : Nat) : List Nat := decimalAux n n

/-- `int(text)` on a digit string (what the reader does with a header value) -/
def valueOf (ds : List Nat) : Nat := ds.foldl (fun acc d => 10 * acc + (d - 48)) 0

/-- Python `fmt.format(a, b, ..)` for a format string whose only replacement fields are `{}` -/
def pyFormat : List Nat → List (List Nat) → List Nat
  | [], _ => []
  | [c], _ => [c]
  | c :: d :: rest, args =>
    if c = 123 ∧ d = 125 then
      match args with
      | a :: more => a ++ pyFormat rest more
      | [] => c :: d :: pyFormat rest []
    else c :: pyFormat (d :: rest) args

/-- the format strings of `to_string` -/
def firstFmtCphd : String := "CPHD/{}\n"
def firstFmtCrsd : String := "CRSD/{}\n"
def lineFmt : String := "{} := {}\n"

/-- `_fields` of the header classes, in order -/
def fieldNames : List String :=
  ["XML_BLOCK_SIZE", "XML_BLOCK_BYTE_OFFSET", "SUPPORT_BLOCK_SIZE", "SUPPORT_BLOCK_BYTE_OFFSET",
   "PVP_BLOCK_SIZE", "PVP_BLOCK_BYTE_OFFSET", "SIGNAL_BLOCK_SIZE", "SIGNAL_BLOCK_BYTE_OFFSET",
   "CLASSIFICATION", "RELEASE_INFO"]

/-- one header line `NAME := VALUE\n` -/
def line (name value : List Nat) : List Nat := name ++ ascii " := " ++ value ++ [10]

/-- the strings of the header that do not depend on the layout, as bytes:
    `typ` = `CPHD/<version>` or `CRSD/<version>`, `cls` / `rel` = UTF-8 of CollectionID.Classification / ReleaseInfo -/
structure Texts where
  typ : List Nat
  cls : List Nat
  rel : List Nat
deriving Repr, DecidableEq

def Texts.fixed (t : Texts) : Fixed := { typeLen := t.typ.length, classLen := t.cls.length, relLen := t.rel.length }

/-- the values of the ten header attributes for a layout (`none` = attribute is None = no line) -/
def fieldValues (t : Texts) (b : Blocks) : List (Option (List Nat)) :=
  [some (decimal b.xmlSize), some (decimal b.xmlOff),
   b.supp.map (fun p => decimal p.2), b.supp.map (fun p => decimal p.1),
   some (decimal b.pvpSize), some (decimal b.pvpOff), some (decimal b.sigSize), some (decimal b.sigOff),
   some t.cls, some t.rel]

/-- `''.join([LINE.format(f, getattr(self, f)) for f in _fields if getattr(self, f) is not None])` -/
def joinLines : List String → List (Option (List Nat)) → List Nat
  | n :: ns, some v :: vs => line (ascii n) v ++ joinLines ns vs
  | _ :: ns, none :: vs => joinLines ns vs
  | _, _ => []

/-- `header.to_string().encode()` -/
def headerBytes (t : Texts) (b : Blocks) : List Nat :=
  t.typ ++ [10] ++ joinLines fieldNames (fieldValues t b)

/-- `make_file_header(xml_offset=1024)` with the recursion bounded by `fuel`, header length measured on the rendered text -/
def chooseText (t : Texts) (xmlSize : Nat) (suppSize : Option Nat) (pvpSize sigSize : Nat) (fuel : Nat) : Option Blocks :=
  choose (fun b => (headerBytes t b).length) xmlSize suppSize pvpSize sigSize fuel 1024

end Sarpy.Spec.CphdHeaderText
