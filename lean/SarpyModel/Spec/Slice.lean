/-
  Spec.Slice — reference semantics of Python/numpy basic slicing and of sarpy's normalised
  slices, plus the reference versions of sarpy's slice kernels.  Import-free (besides the
  shared prelude), total, computable: the same definitions are run by the driver
  (`Main.lean`) in the correspondence check and are the subject of the theorems in
  `Proofs/Slice.lean` and `Props/C01.lean`.
-/
import SarpyModel.Spec.PyPrelude

namespace Sarpy.Spec
open Sarpy

/-- arithmetic progression `a, a+s, …` with `c` terms -/
def ap (a s : Int) (c : Nat) : List Int := (List.range c).map (fun (k : Nat) => a + (k : Int) * s)

/-- for `s > 0`: the number of `k ≥ 0` with `k * s < span`, i.e. `max 0 ⌈span / s⌉` -/
def cnt (span s : Int) : Nat := ((span + s - 1) / s).toNat

/-! ### numpy / CPython semantics (`PySlice_AdjustIndices`) — the specification of numpy -/

def npClamp (n x lower upper : Int) : Int :=
  let y := if x < 0 then x + n else x
  if y < lower then lower else if y > upper then upper else y

def npStartPos (n : Int) : Option Int → Int
  | none => 0
  | some x => npClamp n x 0 n
def npStopPos (n : Int) : Option Int → Int
  | none => n
  | some x => npClamp n x 0 n
def npStartNeg (n : Int) : Option Int → Int
  | none => n - 1
  | some x => npClamp n x (-1) (n - 1)
def npStopNeg (n : Int) : Option Int → Int
  | none => -1
  | some x => npClamp n x (-1) (n - 1)

/-- the list of indices `numpy.arange(n)[slice(start, stop, step)]` selects -/
def npIndices (n : Nat) (s : PySlice) : List Int :=
  let step := s.step.getD 1
  if step > 0 then
    ap (npStartPos n s.start) step (cnt (npStopPos n s.stop - npStartPos n s.start) step)
  else if step < 0 then
    ap (npStartNeg n s.start) step (cnt (npStartNeg n s.start - npStopNeg n s.stop) (-step))
  else []

/-! ### sarpy's normal form -/

/-- A slice in sarpy's normal form: `start` and `step` populated; `stop` is `none` only
    when the step is negative and the selection runs down to index 0. -/
structure NSlice where
  start : Int
  stop : Option Int
  step : Int
deriving Repr, BEq, DecidableEq, Inhabited

def NSlice.toPy (t : NSlice) : PySlice := ⟨some t.start, t.stop, some t.step⟩

def NSlice.count (t : NSlice) : Nat :=
  if t.step > 0 then
    match t.stop with
    | some b => cnt (b - t.start) t.step
    | none => 0
  else if t.step < 0 then cnt (t.start - t.stop.getD (-1)) (-t.step)
  else 0

def NSlice.indices (t : NSlice) : List Int := ap t.start t.step t.count

/-- last selected index (meaningful when `count > 0`) -/
def NSlice.last (t : NSlice) : Int := t.start + ((t.count : Int) - 1) * t.step

/-- `Normal n t`: `t` is a non-empty in-range selection of an axis of length `n`, written the way
    `verify_slice` writes it. -/
def NSlice.Normal (n : Int) (t : NSlice) : Prop :=
  0 ≤ t.start ∧ t.start < n ∧
  ((0 < t.step ∧ ∃ b, t.stop = some b ∧ t.start < b ∧ b ≤ n) ∨
   (t.step < 0 ∧ (t.stop = none ∨ ∃ b, t.stop = some b ∧ 0 ≤ b ∧ b < t.start)))

instance (n : Int) (t : NSlice) : Decidable (t.Normal n) := by
  unfold NSlice.Normal
  cases h : t.stop with
  | none =>
    exact decidable_of_iff (0 ≤ t.start ∧ t.start < n ∧ t.step < 0) (by simp)
  | some b =>
    exact decidable_of_iff (0 ≤ t.start ∧ t.start < n ∧
      ((0 < t.step ∧ t.start < b ∧ b ≤ n) ∨ (t.step < 0 ∧ 0 ≤ b ∧ b < t.start))) (by simp)

/-! ### reference kernels (what the repaired Python computes; `Bridge/Slices.lean` proves the
    regenerated `Gen.*` equal to these) -/

/-- `check_bound` of `verify_slice` -/
def checkBound (n : Int) (e : Option Int) : Option (Option Int) :=
  match e with
  | none => some none
  | some x => if -n ≤ x ∧ x < 0 then some (some (x + n)) else if 0 ≤ x ∧ x ≤ n then some (some x) else none

/-- start of a negative-step slice: default `n-1`, and `n` (which numpy clamps) becomes `n-1` -/
def negStart (n : Int) : Option Int → Int
  | none => n - 1
  | some x => if x = n then n - 1 else x

/-- `verify_slice` on a slice item; `none` = refused -/
def verifySlice (n : Int) (s : PySlice) : Option NSlice :=
  if n < 1 then none else
  match checkBound n s.start, checkBound n s.stop with
  | some a, some b =>
    let step := s.step.getD 1
    if step > 0 then
      let a' := a.getD 0
      let b' := b.getD n
      if Int.sign (b' - a') ≠ Int.sign step then none else some ⟨a', some b', step⟩
    else if step < 0 then
      let a' := negStart n a
      match b with
      | none => some ⟨a', none, step⟩
      | some b' => if Int.sign (b' - a') ≠ Int.sign step then none else some ⟨a', some b', step⟩
    else none
  | _, _ => none

/-- `verify_slice` on an integer item -/
def verifyInt (n : Int) (i : Int) : Option NSlice :=
  if n < 1 then none else
  if -n ≤ i ∧ i < 0 then some ⟨i + n, some (i + n + 1), 1⟩
  else if 0 ≤ i ∧ i < n then some ⟨i, some (i + 1), 1⟩ else none

/-- `reformat_slice(t, n, mirror=True)`: the slice which, read from the un-flipped axis and then
    flipped, yields what `t` selects from the flipped axis. -/
def mirror (n : Int) (t : NSlice) : NSlice :=
  if t.step > 0 then ⟨n - 1 - t.last, some (n - t.start), t.step⟩
  else ⟨n - 1 - t.last, (if t.start = n - 1 then none else some (n - 2 - t.start)), t.step⟩

/-- `_find_slice_overlap(t, slice(b0, b1, 1))`: `(block-relative slice, positions in the output)` -/
def overlap (t : NSlice) (b0 b1 : Int) : Option (NSlice × NSlice) :=
  if t.step > 0 then
    match t.stop with
    | none => none
    | some b =>
      let k0 := cnt (b0 - t.start) t.step
      let k1 := cnt (min b b1 - t.start) t.step
      if k0 < k1 then
        some (⟨t.start - b0 + k0 * t.step, some (min (t.start - b0 + k1 * t.step) (b1 - b0)), t.step⟩,
              ⟨k0, some k1, 1⟩)
      else none
  else if t.step < 0 then
    let lo := max (b0 - 1) (t.stop.getD (-1))
    let k0 := cnt (t.start - (b1 - 1)) (-t.step)
    let k1 := cnt (t.start - lo) (-t.step)
    if k0 < k1 then
      let pstop := t.start - b0 + k1 * t.step
      some (⟨t.start - b0 + k0 * t.step, (if pstop < 0 then none else some pstop), t.step⟩,
            ⟨k0, some k1, 1⟩)
    else none
  else none

/-- `_reverse_slice`: same elements, opposite direction (negative step in, positive out) -/
def reverseSlice (t : NSlice) : NSlice := ⟨t.last, some (t.start + 1), -t.step⟩

/-- `SubsetSegment._get_parent_subscript` for one axis: compose the subset definition `d`
    (normal w.r.t. the parent axis of length `full`) with a subscript `p` normal w.r.t. the subset axis -/
def compose (full : Int) (d p : NSlice) : NSlice :=
  let step := p.step * d.step
  let first := d.start + p.start * d.step
  let last := d.start + p.last * d.step
  let stop := last + step
  ⟨first, (if stop < 0 then none else if stop > full then some full else some stop), step⟩

end Sarpy.Spec
