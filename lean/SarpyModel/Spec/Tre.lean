/-
  Spec.Tre — the tagged record extension (TRE) envelope around a payload description of `Spec.FieldFmt2`.

  Code anchors (sarpy/io/general/nitf_elements/tres/tre_elements.py):
    encTre   `TREExtension.to_bytes`:  '{0:6s}{1:05d}'.format(TAG, EL) + DATA.to_bytes(), EL = DATA.get_bytes_length()
    decTre   `TREExtension.from_bytes`: tag = value[start:start+6].decode().strip() must equal `_tag_value`,
             lng = int(value[start+6:start+11]), payload = value[start+11:start+11+lng] parsed by `_data_type(payload)`;
             what the payload parser leaves over is ignored; the enclosing `TREList._parse_attribute` (base.py) continues at
             start + 11 + lng
    treLen   `TREElement.get_bytes_length` of the payload object
  Parameter 1 of every generated payload description is CEL, the payload length announced by the envelope (`len(value)` in
  RPFDES / RPFIMG: "the rest of the payload").  The encoder never looks at it (a byte field is written as it is), so the length
  of the encoding under CEL = 0 is the length under every CEL; `okTre` demands that this length is also the one the description
  accounts for when CEL is set to it (for a description that does not mention CEL this is `encode_length`).
  Import-free apart from the Spec layer, total, computable.
-/
import SarpyModel.Spec.FieldFmt2
namespace Sarpy.Spec.Tre
open Sarpy.Spec.FieldFmt Sarpy.Spec.FieldFmt2

/-- payload length of `v` (the encoder does not read parameter 1) -/
def treLen (f : Fmt) (v : Val) : Nat := (encode [(1, .nat 0)] f v).length

/-- the parameter environment the envelope provides: CEL = payload length -/
def treEnv (f : Fmt) (v : Val) : Env := [(1, .nat (treLen f v))]

/-- `v` is a payload value that can be written: accepted field by field, its encoding has the announced length, and that
    length fits the five digits of CEL -/
def okTre (f : Fmt) (v : Val) : Bool :=
  accept (treEnv f v) f v && decide ((encode (treEnv f v) f v).length = treLen f v) && decide (treLen f v < 100000)

def encTre (tag : Bytes) (f : Fmt) (v : Val) : Bytes :=
  encStr 6 tag ++ (encInt 5 (treLen f v : Nat) ++ encode (treEnv f v) f v)

def decTre (tag : Bytes) (f : Fmt) (bs : Bytes) : Option (Val × Bytes) :=
  if bs.length < 11 then none else
  if strip (bs.take 6) != tag then none else
  match decInt ((bs.drop 6).take 5) with
  | some (Int.ofNat l) =>
    if (bs.drop 11).length < l then none else
    match decode [(1, .nat l)] f ((bs.drop 11).take l) with
    | some (v, _) => some (v, bs.drop (11 + l))
    | none => none
  | _ => none

/-- hand-written `from_bytes` overrides (ACFTA, AIMIDA, ...): the variant is chosen by the announced payload length -/
def pickVariant (table : List (Nat × String)) (bs : Bytes) : Option String :=
  if bs.length < 11 then none else
  match decInt ((bs.drop 6).take 5) with
  | some (Int.ofNat l) => (table.find? (fun p => p.1 == l)).map (fun p => p.2)
  | _ => none

end Sarpy.Spec.Tre
