/-
  Spec.CrsdHeader — the length of the CRSD file header text and the CRSD instantiation of the retry rule.
  Imports only Spec.CphdLayout (no Mathlib).

  Code anchors: sarpy/io/received/crsd1_elements/CRSD.py
    * `CRSDHeader.to_string`   : first line `CRSD/<version>\n`, then one line `NAME := VALUE\n` per populated field,
                                 in the order of `CRSDHeader._fields`
    * `CRSDType.make_file_header` : first guess `xml_offset=1024`; `min_xml_offset = len(header_str) + 2`;
                                 retry with `_align(min_xml_offset + 32)` while the XML offset is too small
  (the layout chain itself and the generic retry rule `choose` are in Spec.CphdLayout).
-/
import SarpyModel.Spec.CphdLayout
namespace Sarpy.Spec.CrsdHeader
open Sarpy.Spec.CphdLayout

/-- number of characters of `str(n)` for a natural number (fuel = n is always enough) -/
def digitsAux : Nat → Nat → Nat
  | 0, _ => 1
  | fuel + 1, n => if n < 10 then 1 else 1 + digitsAux fuel (n / 10)

def digits (n : Nat) : Nat := digitsAux n n

/-- length of one header line `NAME := VALUE\n` -/
def lineLen (nameLen valueLen : Nat) : Nat := nameLen + 4 + valueLen + 1

/-- lengths of the field names of `CRSDHeader._fields` -/
def nXmlSize : Nat := 14      -- XML_BLOCK_SIZE
def nXmlOff : Nat := 21       -- XML_BLOCK_BYTE_OFFSET
def nSuppSize : Nat := 18     -- SUPPORT_BLOCK_SIZE
def nSuppOff : Nat := 25      -- SUPPORT_BLOCK_BYTE_OFFSET
def nPvpSize : Nat := 14      -- PVP_BLOCK_SIZE
def nPvpOff : Nat := 21       -- PVP_BLOCK_BYTE_OFFSET
def nSigSize : Nat := 17      -- SIGNAL_BLOCK_SIZE
def nSigOff : Nat := 24       -- SIGNAL_BLOCK_BYTE_OFFSET
def nClass : Nat := 14        -- CLASSIFICATION
def nRelease : Nat := 12      -- RELEASE_INFO

/-- the strings that do not depend on the layout: `typeLen` = length of `CRSD/<version>`,
    `classLen` / `relLen` = lengths of CollectionID.Classification / ReleaseInfo **in bytes as written** (UTF-8).
    sarpy measures `len(header_str)` in characters; the two agree for ASCII strings, and a file is only well formed
    when the bytes fit, so bytes is what the model (and the harness) use. -/
structure Fixed where
  typeLen : Nat
  classLen : Nat
  relLen : Nat
deriving Repr, DecidableEq

/-- byte length of `CRSDHeader.to_string().encode()` for the header carrying the layout `b` -/
def hdrLen (f : Fixed) (b : Blocks) : Nat :=
  (f.typeLen + 1)
  + lineLen nXmlSize (digits b.xmlSize) + lineLen nXmlOff (digits b.xmlOff)
  + (match b.supp with
     | some (o, s) => lineLen nSuppSize (digits s) + lineLen nSuppOff (digits o)
     | none => 0)
  + lineLen nPvpSize (digits b.pvpSize) + lineLen nPvpOff (digits b.pvpOff)
  + lineLen nSigSize (digits b.sigSize) + lineLen nSigOff (digits b.sigOff)
  + lineLen nClass f.classLen + lineLen nRelease f.relLen

/-- `make_file_header(xml_offset=1024)` with the recursion bounded by `fuel` -/
def chooseCrsd (f : Fixed) (xmlSize : Nat) (suppSize : Option Nat) (pvpSize sigSize : Nat) (fuel : Nat) : Option Blocks :=
  choose (hdrLen f) xmlSize suppSize pvpSize sigSize fuel 1024

/-- total size of a packed element list (`calculate_*_block_size` = sum of the element sizes) -/
def totalSize (rel : List (Nat × Nat)) : Nat := (rel.map (·.2)).sum

/-- executable form of `Packed` (the self-consistency predicate on the metadata's relative offsets) -/
def packedB : Nat → List (Nat × Nat) → Bool
  | _, [] => true
  | start, (off, size) :: rest => off == start && packedB (start + size) rest

end Sarpy.Spec.CrsdHeader
