/-
  Shared vocabulary for Python-to-Lean translated kernels (`Gen/*`) and hand models.
  Import-free; everything here is total and kernel-reducible.
-/
namespace Sarpy

/-- A Python `slice` object whose fields are `int` or `None`. -/
structure PySlice where
  start : Option Int
  stop : Option Int
  step : Option Int
deriving Repr, BEq, DecidableEq, Inhabited

/-- The closed sum type of subscript items sarpy dispatches on (`None | int | slice`). -/
inductive PyItem where
  | none : PyItem
  | int : Int → PyItem
  | slice : PySlice → PyItem
deriving Repr, BEq, DecidableEq, Inhabited

def PyItem.isNone : PyItem → Bool
  | .none => true
  | _ => false
def PyItem.isInt : PyItem → Bool
  | .int _ => true
  | _ => false
def PyItem.isSlice : PyItem → Bool
  | .slice _ => true
  | _ => false

/-- use of an `Optional[int]` where Python needs an `int`: `None` raises `TypeError`. -/
def getI : Option Int → Except String Int
  | some v => pure v
  | none => throw "TypeError"

/-- `int(numpy.floor(a / b))` -/
def floorDiv (a b : Int) : Except String Int :=
  if b == 0 then throw "ZeroDivisionError" else pure (Int.fdiv a b)
/-- `int(numpy.ceil(a / b))` -/
def ceilDiv (a b : Int) : Except String Int :=
  if b == 0 then throw "ZeroDivisionError" else pure (-(Int.fdiv (-a) b))
/-- `int(a / b)` -/
def truncDiv (a b : Int) : Except String Int :=
  if b == 0 then throw "ZeroDivisionError" else pure (Int.tdiv a b)
/-- Python `a % b` -/
def pyMod (a b : Int) : Except String Int :=
  if b == 0 then throw "ZeroDivisionError" else pure (Int.fmod a b)

end Sarpy
