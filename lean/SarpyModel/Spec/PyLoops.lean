/-
  Loop vocabulary for Python-to-Lean translated kernels (`Gen/Loops.lean`, translate/py2lean_loops.py).
  Import-free besides PyPrelude; total and kernel-reducible (structural recursion only).

  * `forRange body count start s`  : `for i in range(start, start + count): s = body(i, s)` - recursion on the Nat counter
  * `whileFuel cond body fuel s`   : `while cond(s): s = body(s)` with explicit fuel.  If the fuel is used up while the test still
                                     holds the result is `error "OutOfFuel"`: Python would still be looping.  A theorem
                                     `whileFuel .. fuel s = .ok r` therefore says two things: the loop ends within `fuel` rounds,
                                     and its final state is `r`.
  * `forEnum body l start s`       : `for i, x in enumerate(l): s = body(i, x, s)` - recursion on the list; `pyIndex l i` : `l[i]`
  * `iterRange`, `iterWhile`, `iterEnum` : the same loops over pure step functions (reference side of the bridge theorems)
  * `roundDiv a b`                 : Python 3 `round(a / b)` of the exact quotient (ties to even)
-/
import SarpyModel.Spec.PyPrelude
namespace Sarpy

def forRange {σ : Type} (body : Int → σ → Except String σ) : Nat → Int → σ → Except String σ
  | 0, _, s => pure s
  | k + 1, i, s => body i s >>= forRange body k (i + 1)

def whileFuel {σ : Type} (cond : σ → Except String Bool) (body : σ → Except String σ) : Nat → σ → Except String σ
  | 0, s => cond s >>= fun c => if c then throw "OutOfFuel" else pure s
  | fuel + 1, s => cond s >>= fun c => if c then body s >>= whileFuel cond body fuel else pure s

def iterRange {σ : Type} (b : Int → σ → σ) : Nat → Int → σ → σ
  | 0, _, s => s
  | k + 1, i, s => iterRange b k (i + 1) (b i s)

/-- `while c s: s = b s`, at most `fuel` rounds -/
def iterWhile {σ : Type} (c : σ → Bool) (b : σ → σ) : Nat → σ → σ
  | 0, s => s
  | fuel + 1, s => if c s then iterWhile c b fuel (b s) else s

/-- `for i, x in enumerate(l): s = body(i, x, s)` (index counted from `i`) - recursion on the list -/
def forEnum {σ τ : Type} (body : Int → τ → σ → Except String σ) : List τ → Int → σ → Except String σ
  | [], _, s => pure s
  | x :: rest, i, s => body i x s >>= forEnum body rest (i + 1)

def iterEnum {σ τ : Type} (b : Int → τ → σ → σ) : List τ → Int → σ → σ
  | [], _, s => s
  | x :: rest, i, s => iterEnum b rest (i + 1) (b i x s)

/-- Python `l[i]` for an int `i`: negative indices count from the end, out of range raises `IndexError` -/
def pyIndex {τ : Type} (l : List τ) (i : Int) : Except String τ :=
  let j := if i < 0 then i + l.length else i
  if j < 0 then throw "IndexError" else
    match l[j.toNat]? with
    | some v => pure v
    | none => throw "IndexError"

/-- a numpy int vector of length 2 (`numpy.zeros(2)`, `numpy.array([a, b])`).  The translator gives it VALUE semantics and therefore
    refuses every in-place update of a variable of this type (`v += w` mutates the array object all its aliases share). -/
abbrev NpVec2 := Int × Int
def npAdd2 (a b : NpVec2) : NpVec2 := (a.1 + b.1, a.2 + b.2)

/-- a Python dict `{int: NpVec2}` as an association list, most recent binding first -/
abbrev PyDict2 := List (Int × NpVec2)
def dictSet (d : PyDict2) (k : Int) (v : NpVec2) : PyDict2 := (k, v) :: d
/-- `d[k]`: `KeyError` when absent -/
def dictGet : PyDict2 → Int → Except String NpVec2
  | [], _ => throw "KeyError"
  | (k', v) :: rest, k => if k' = k then pure v else dictGet rest k
def dictGetD : PyDict2 → Int → NpVec2
  | [], _ => (0, 0)
  | (k', v) :: rest, k => if k' = k then v else dictGetD rest k

/-- `int(round(a / b))`: nearest integer of the exact quotient, ties to the even neighbour -/
def roundDiv (a b : Int) : Except String Int :=
  if b == 0 then throw "ZeroDivisionError" else
    let q := Int.fdiv a b
    let r := Int.fmod a b
    pure (if 2 * r.natAbs < b.natAbs then q else if b.natAbs < 2 * r.natAbs then q + 1 else if q % 2 = 0 then q else q + 1)

end Sarpy
