/-
  Spec.HdrTypes — the vocabulary shared by the regenerated (`Gen/Hdr.lean`, translate/gen_hdr.py) and the reference
  (`Spec/Hdr.lean`) model of "how an image subheader is interpreted as a pixel encoding":

    * `ImgHdr`   the fields of a NITF image subheader that the pixel interpretation reads
                 (sarpy/io/general/nitf_elements/image.py ImageSegmentHeader / ImageBand)
    * `RawDtype` a numpy dtype as `numpy.dtype('>u2')` builds it: byte order, kind, item size - and the primitive
                 `npDtype` = which (kind, size) combinations numpy accepts (reference spec of external semantics;
                 enumerated against the real numpy by harness/hdr.py on every run)
    * `FmtFn`    which format function object a reader / writer attaches to a data segment
    * Python primitives used by the decision chains: `pyRange`, `pyIdx`, `pyTruthy`, `pySlice`, `pyIsNumeric`

  Import-free, total, computable.
-/
namespace Sarpy.Spec.Hdr

/-- `ImageBand.LUTD`: `none` when NLUTS = 0, else the shape of the array (`(NLUTS, NELUT)` as parsed; any rank is
    representable because the code tests `ndim`) -/
structure Lut where
  shape : List Nat
deriving DecidableEq, Repr

/-- `numpy.transpose(lut)`: the axes reversed -/
def Lut.transpose (l : Lut) : Lut := ⟨l.shape.reverse⟩

structure Band where
  isubcat : String
  irepband : String
  lut : Option Lut
deriving DecidableEq, Repr

structure ImgHdr where
  pvtype : String
  nbpp : Nat
  abpp : Nat
  irep : String
  icat : String
  ic : String
  imode : String
  bands : List Band
  nrows : Nat
  ncols : Nat
  nppbh : Nat
  nppbv : Nat
  nbpr : Nat
  nbpc : Nat
  /-- `mask_subheader is not None` -/
  masked : Bool
  iid1 : String
deriving DecidableEq, Repr

inductive Kind where | u | i | f | c
deriving DecidableEq, Repr

structure RawDtype where
  /-- the byte order character of the format string is `>` -/
  big : Bool
  kind : Kind
  /-- item size in bytes -/
  size : Nat
deriving DecidableEq, Repr

/-- item sizes numpy accepts for a kind letter (`numpy.dtype('>f1')` raises TypeError) -/
def validSizes : Kind → List Nat
  | .u => [1, 2, 4, 8]
  | .i => [1, 2, 4, 8]
  | .f => [2, 4, 8, 16]
  | .c => [8, 16, 32]

/-- `numpy.dtype('<order><kind>{}'.format(n))` -/
def npDtype (big : Bool) (k : Kind) (n : Nat) : Except String RawDtype :=
  if n ∈ validSizes k then .ok ⟨big, k, n⟩ else .error "TypeError"

def Kind.stem : Kind → String
  | .u => "uint" | .i => "int" | .f => "float" | .c => "complex"

/-- `dtype.name` -/
def RawDtype.name (d : RawDtype) : String := d.kind.stem ++ toString (8 * d.size)

/-- `raw_dtype.name` on a value that may be `None` -/
def dtypeName : Option RawDtype → Except String String
  | some d => .ok d.name
  | none => .error "AttributeError"

/-- the formatted dtype `_get_dtype` reports: the raw dtype itself, `complex64`, or the dtype of the lookup table -/
inductive FmtDtype where
  | ofRaw (d : Option RawDtype)
  | complex64
  | lutDtype
deriving DecidableEq, Repr

/-- the format function attached to a data segment -/
inductive FmtFn where
  /-- `None`: formatted = raw -/
  | none
  /-- `ComplexFormatFunction(raw_dtype, order, band_dimension=..)` -/
  | complex (raw : Option RawDtype) (order : String) (bandDim : Nat)
  /-- `SingleLUTFormatFunction(lut)` -/
  | singleLut (lut : Lut)
  /-- `AmpLookupFunction(raw_dtype, AmpTable)` -/
  | ampLookup (raw : Option RawDtype)
deriving DecidableEq, Repr

/-- what `_get_dtype` returns -/
abbrev DtypeInfo := Option RawDtype × FmtDtype × Nat × Option String × Option Lut

/-! ### Python primitives -/

/-- `range(a, b, s)` for `s ≥ 1` -/
def pyRange (a b s : Nat) : List Nat := (List.range ((b - a + (s - 1)) / s)).map (fun k => a + s * k)

/-- `l[i]` for `i ≥ 0` -/
def pyIdx {α : Type} (l : List α) (i : Nat) : Except String α :=
  match l[i]? with
  | some x => .ok x
  | none => .error "IndexError"

/-- truth value of an `Optional[str]` -/
def pyTruthy (s : Option String) : Bool :=
  match s with
  | some x => x ≠ ""
  | none => false

/-- `s[a:b]` for `0 ≤ a ≤ b` (characters) -/
def pySlice (s : String) (a b : Nat) : String := String.ofList ((s.toList.drop a).take (b - a))

/-- `s[a:]` -/
def pySliceFrom (s : String) (a : Nat) : String := String.ofList (s.toList.drop a)

/-- `str.isnumeric()` restricted to ASCII text (NITF header fields are ASCII): non-empty and all decimal digits -/
def pyIsNumeric (s : String) : Bool := s.toList ≠ [] && s.toList.all Char.isDigit

/-- a value that must not be `None` where it is used (`ComplexFormatFunction(order=None)` raises TypeError) -/
def optGet {α : Type} : Option α → Except String α
  | some x => .ok x
  | none => .error "TypeError"

/-- first `f i` that fails in a `for i in ...: if <test i>: return / raise` loop: `true` when some iteration takes the branch.
    The tests are pure but may raise (indexing). -/
def anyM {α : Type} (f : α → Except String Bool) : List α → Except String Bool
  | [] => .ok false
  | x :: rest =>
    match f x with
    | .error e => .error e
    | .ok true => .ok true
    | .ok false => anyM f rest

end Sarpy.Spec.Hdr
