/-
  Spec.SegHist — data segment OBJECTS: what a node of a segment tree answers over a history of requests, and what its
  written-sample counter says over a history of writes (follow-up SEG3 of Spec.Segment).

  `Spec/Segment.lean` is a pure model: `Seg.read t ts` is a function of the request only.  The Python objects carry
  state.  Every `self._x` that data_segment.py assigns outside a constructor is listed in `mutTable` (class, method,
  field) - regenerated from the current source by translate/gen_segstate.py and compared by theorem
  (`Props/C01SegHist.gen_mutations_eq`):

    * `_closed`                      (DataSegment.close and the close methods of the subclasses),
    * `_pixels_written`              (`_update_pixels_written` of SubsetSegment / NumpyArraySegment, called by write_raw / write),
    * `_underlying_array[...]`       (NumpyArraySegment.write_raw: the stored samples),
    * the position of `_file_object` (FileReadDataSegment.read_raw: `seek` then `readinto`),
    * fields the close methods drop  (`_parent`, `_children`, `_underlying_array`, `_memory_map`, `_file_object`, `_data_set`).

  No method on the read side (`read`, `read_raw`, `__getitem__`, `get_parent_formatted_subscript`,
  `get_parent_raw_subscript`, the `verify_*` helpers, `_get_parent_subscript`) writes a field, except the file position,
  which every file read overwrites by an absolute `seek` before it is used.  The object model below has exactly this
  state (`ObjSt`); a read-side request answers from the immutable construction data and `closed`, and leaves the state
  as it was apart from the file position.  `Memo` models what a memoising implementation of `_get_parent_subscript`
  would add: a cache is unobservable exactly when its key determines the cached value; the two callers
  (formatted / raw basis) make a key of the dimension index alone too coarse.

  Written-sample accounting (C07 / C19): the counter-owning objects are the array / memmap segments and the subsets.
  `Seg.incr` is what `_update_pixels_written` is called with for one `write` / `write_raw`, `Seg.expected` what
  `_expected_pixels_written` holds (raw samples, `prod(raw_shape)`), `Counter.check` is `check_fully_written`.
-/
import SarpyModel.Spec.Segment

namespace Sarpy.Spec
open Sarpy

/-! ### raw side of a node -/

/-- `_subscript_to_raw(segment, sub)` for a segment with a format function of its own (ds:1000-1011, last line):
    `format_function.transform_formatted_slice` -/
def Seg.toRaw : Seg → List NSlice → List NSlice
  | .orient rev perm p, ts => rawSub p.fshape rev (invPerm perm) ts
  | .cplx _ rev perm bd p, ts => rawSub p.fshape rev (invPerm perm) (insAt bd ⟨0, some 2, 1⟩ ts)
  | .cplxK _ rev perm bd p, ts => rawSubK p.fshape rev (invPerm perm) bd ts
  | .lut1 rev perm p, ts => rawSub p.fshape rev (invPerm perm) ts
  | .lut2 _ rev perm p, ts => rawSub p.fshape rev (invPerm perm) ts
  | _, ts => ts

/-- what lies below the format function of a node (its raw data), if the node has one -/
def Seg.beneath : Seg → Option Seg
  | .orient _ _ p => some p
  | .cplx _ _ _ _ p => some p
  | .cplxK _ _ _ _ p => some p
  | .lut1 _ _ p => some p
  | .lut2 _ _ _ p => some p
  | _ => none

/-- **the raw view**: the tree whose formatted reads are this node's `read_raw` (DataSegment.read_raw of the array /
    aggregate / re-orientation segments returns the raw data below the format function; SubsetSegment.read_raw (ds:1286-1306)
    is `parent.read_raw(get_parent_raw_subscript(sub))`, i.e. the identity-oriented subset of the parent's raw data cut by
    the raw subset definition, which for a formatted-basis subset is `_subscript_to_raw(parent, definition)`).
    `none`: outside the model (subset of a subset, bare storage). -/
def Seg.rawView : Seg → Option Seg
  | .orient _ _ p => some p
  | .cplx _ _ _ _ p => some p
  | .cplxK _ _ _ _ p => some p
  | .lut1 _ _ p => some p
  | .lut2 _ _ _ p => some p
  | .subset sq defs p =>
    match p.beneath with
    | some q => some (.subset sq (p.toRaw defs) q)
    | none => none
  | .subsetR sq rdefs _ _ p => some (.subset sq rdefs p)
  | _ => none

/-- `raw_shape` of the object -/
def Seg.rawShape (t : Seg) : List Nat :=
  match t.rawView with
  | some v => v.fshape
  | none => t.fshape

/-! ### read-side requests on one object -/

inductive RReq where
  /-- `read(ts)` / `__getitem__(ts)` -/
  | read (ts : List NSlice)
  /-- `read_raw(ts)` / `__getitem__(ts + ('raw',))` -/
  | readRaw (ts : List NSlice)
  /-- `get_parent_formatted_subscript(ts)` of a SubsetSegment -/
  | parentFmt (ts : List NSlice)
  /-- `get_parent_raw_subscript(ts)` of a SubsetSegment -/
  | parentRaw (ts : List NSlice)

inductive RAns where
  | arr (a : Arr Src)
  | sub (l : List NSlice)
  | refused
deriving Inhabited

/-- the mutable fields of a data segment object (see the header): everything else is fixed by the constructor -/
structure ObjSt where
  closed : Bool
  written : Nat
  filePos : Int

def ObjSt.fresh : ObjSt := ⟨false, 0, 0⟩

/-- `get_parent_formatted_subscript` (ds:1266-1284) -/
def Seg.parentFmtSub : Seg → List NSlice → Option (List NSlice)
  | .subset sq defs p, ts => some (composeSq p.fshape defs (keepAxes sq defs) ts)
  | .subsetR sq rdefs rev perm p, ts =>
    some (composeSq (gather perm p.fshape) (fmtSub p.fshape rev perm rdefs) (keepAxes sq (fmtSub p.fshape rev perm rdefs)) ts)
  | _, _ => none

/-- `get_parent_raw_subscript` (ds:1247-1264) -/
def Seg.parentRawSub : Seg → List NSlice → Option (List NSlice)
  | .subset sq defs p, ts =>
    match p.beneath with
    | some q => some (composeSq q.fshape (p.toRaw defs) (keepAxes sq (p.toRaw defs)) ts)
    | none => none
  | .subsetR sq rdefs _ _ p, ts => some (composeSq p.fshape rdefs (keepAxes sq rdefs) ts)
  | _, _ => none

/-- what the object answers: a function of the construction data `t`, the request, and `closed` -/
def Seg.answer (t : Seg) (closed : Bool) : RReq → RAns
  | .read ts =>
    if closed || !t.wf || !allSlicesNormal t.fshape ts || !t.accepts ts then .refused else .arr (t.readSrc ts)
  | .readRaw ts =>
    match t.rawView with
    | some v => if closed || !v.wf || !allSlicesNormal v.fshape ts || !v.accepts ts then .refused else .arr (v.readSrc ts)
    | none => .refused
  | .parentFmt ts =>
    match t.parentFmtSub ts with
    | some l => if !t.wf || !allSlicesNormal t.fshape ts then .refused else .sub l
    | none => .refused
  | .parentRaw ts =>
    match t.parentRawSub ts, t.rawView with
    | some l, some v => if !v.wf || !allSlicesNormal v.fshape ts then .refused else .sub l
    | _, _ => .refused

/-- does the request reach a file-read leaf (the only read-side effect: `seek` + `readinto`, ds:2527-2571)? the
    position it leaves is some function of the request; its value is never read -/
def filePosAfter (old : Int) (r : RReq) : Int :=
  match r with
  | .read ts => old + ts.length + 1
  | .readRaw ts => old + ts.length + 2
  | _ => old

/-- one read-side request on an object in state `st` -/
def Seg.stepR (t : Seg) (st : ObjSt) (r : RReq) : RAns × ObjSt :=
  (t.answer st.closed r, { st with filePos := filePosAfter st.filePos r })

/-- the state after a history of read-side requests -/
def Seg.runR (t : Seg) (st : ObjSt) : List RReq → ObjSt
  | [] => st
  | r :: rs => t.runR (t.stepR st r).2 rs

/-! ### a memo in front of a function -/

/-- a cache in front of `f`, keyed by `key a`: `(answer, new cache)` -/
def memoStep {α κ β : Type} [DecidableEq κ] (key : α → κ) (f : α → β) (cache : List (κ × β)) (a : α) : β × List (κ × β) :=
  match cache.find? (fun e => e.1 = key a) with
  | some e => (e.2, cache)
  | none => (f a, (key a, f a) :: cache)

def memoRun {α κ β : Type} [DecidableEq κ] (key : α → κ) (f : α → β) (cache : List (κ × β)) : List α → List (κ × β)
  | [] => cache
  | a :: as => memoRun key f (memoStep key f cache a).2 as

/-- the cached part of `SubsetSegment._get_parent_subscript` for one dimension: `numpy.arange(full_size)[slice_def]`,
    asked for basis `b` (false = formatted, true = raw) and dimension `i` of a subset with the given definitions -/
def parentIndices (fdefs rdefs : List NSlice) (q : Bool × Nat) : List Int :=
  (sliceAt (if q.1 then rdefs else fdefs) q.2).indices

/-! ### written-sample accounting -/

inductive WOp where
  /-- `write(data, subscript=ts)`, formatted coordinates -/
  | write (ts : List NSlice)
  /-- `write_raw(data, subscript=rts)`, raw coordinates -/
  | writeRaw (rts : List NSlice)

def prodL (l : List Nat) : Nat := l.foldl (· * ·) 1

/-- number of samples a subscript selects -/
def subSize (ts : List NSlice) : Nat := prodL (ts.map NSlice.count)

/-- `_expected_pixels_written` of a writable object: `prod(raw_shape)` (ds:1089-1090, 2080-2081) -/
def Seg.expected (t : Seg) : Nat := prodL t.rawShape

/-- what the object's own counter is advanced by (`_update_pixels_written`):
    * array / memmap segment: `write` hands the inverse-formatted chunk to `write_raw`, which counts `data.size`
      (ds:725-727, 2153-2154) - the raw samples of `transform_formatted_slice(ts)`;
    * SubsetSegment.write counts the raw samples of the PARENT subscript (`_subscript_to_raw` + `get_subscript_result_size`,
      ds:1407-1410); SubsetSegment.write_raw counts `data.size` of the raw chunk (ds:1385) -/
def Seg.incr (t : Seg) : WOp → Nat
  | .write ts =>
    match t with
    | .subset sq defs p => subSize (p.toRaw (composeSq p.fshape defs (keepAxes sq defs) ts))
    | .subsetR sq rdefs rev perm p =>
      subSize (rawSub p.fshape rev (invPerm perm)
        (composeSq (gather perm p.fshape) (fmtSub p.fshape rev perm rdefs) (keepAxes sq (fmtSub p.fshape rev perm rdefs)) ts))
    | _ => subSize (t.toRaw ts)
  | .writeRaw rts => subSize rts

/-- the raw samples one op covers, as subscripts into the raw array the counter is about: for a subset the parent's raw
    array (cut by the raw definition), for the other objects their own raw data -/
def Seg.rawCover (t : Seg) : WOp → List NSlice
  | .write ts =>
    match t with
    | .subset sq defs p => p.toRaw (composeSq p.fshape defs (keepAxes sq defs) ts)
    | .subsetR sq rdefs rev perm p =>
      rawSub p.fshape rev (invPerm perm)
        (composeSq (gather perm p.fshape) (fmtSub p.fshape rev perm rdefs) (keepAxes sq (fmtSub p.fshape rev perm rdefs)) ts)
    | _ => t.toRaw ts
  | .writeRaw rts =>
    match t with
    | .subset sq defs p =>
      match p.beneath with
      | some q => composeSq q.fshape (p.toRaw defs) (keepAxes sq (p.toRaw defs)) rts
      | none => rts
    | .subsetR sq rdefs _ _ p => composeSq p.fshape rdefs (keepAxes sq rdefs) rts
    | _ => rts

/-- the raw index tuples a subscript selects, in row-major order of the chunk -/
def cellsOf (rs : List NSlice) : List (List Int) :=
  (allIdx (rs.map NSlice.count)).map (fun l => (List.range rs.length).map (selIdx rs (ofList l)))

structure Counter where
  expected : Nat
  written : Nat

/-- `check_fully_written` (mode 'w', ds:1343-1362, 2113-2131): true exactly when the counter equals the expectation -/
def Counter.check (c : Counter) : Bool := c.written == c.expected

/-- the counter of an object after a history of writes -/
def Seg.account (t : Seg) (h : List WOp) : Counter := ⟨t.expected, (h.map t.incr).sum⟩

/-! ### the inventory of mutable state (compared with the regenerated one) -/

/-- (class, method, what it writes) for every method of data_segment.py that assigns to `self`, mutates a container held by
    `self`, or moves the position of a file held by `self`, outside `__init__` and the constructor-time setters -/
def mutTable : List (String × String × String) := [
  ("DataSegment", "close", "_closed"),
  ("ReorientationSegment", "close", "_parent"),
  ("SubsetSegment", "_update_pixels_written", "_pixels_written"),
  ("SubsetSegment", "close", "_parent"),
  ("BandAggregateSegment", "close", "_children"),
  ("BlockAggregateSegment", "close", "_children"),
  ("NumpyArraySegment", "_update_pixels_written", "_pixels_written"),
  ("NumpyArraySegment", "write_raw", "_underlying_array[]"),
  ("NumpyArraySegment", "close", "_underlying_array"),
  ("NumpyMemmapSegment", "close", "_memory_map"),
  ("NumpyMemmapSegment", "close", "_file_object"),
  ("HDF5DatasetSegment", "close", "_data_set"),
  ("HDF5DatasetSegment", "close", "_file_object"),
  ("FileReadDataSegment", "read_raw", "file_object.position"),
  ("FileReadDataSegment", "close", "_file_object")]

/-- the only write of a read-side method (entry points `read`, `read_raw`, `__getitem__`, `get_parent_formatted_subscript`,
    `get_parent_raw_subscript` and everything they call on `self`): the file position, set by an absolute seek before use -/
def readSideWrites : List (String × String × String) := [("FileReadDataSegment", "read_raw", "file_object.position")]

/-- the accounting sites: (class, method, the expression handed to `_update_pixels_written` / stored in
    `_expected_pixels_written`), as source text with local names expanded; each is given its meaning in the model by
    `Seg.incr` (update sites) / `Seg.expected` (expected sites; `_underlying_array.size` = `prod(raw_shape)`) -/
def acctSites : List (String × String × String) := [
  ("SubsetSegment", "__init__", "expected=int(numpy.prod(raw_shape)) where raw_shape, formatted_shape = self._validate_subset_definition(subset_definition, coordinate_basis)"),
  ("SubsetSegment", "__init__", "expected=0"),
  ("SubsetSegment", "write_raw", "update=data.size"),
  ("SubsetSegment", "write", "update=int(numpy.prod(raw_shape)) where _, raw_shape = get_subscript_result_size(raw_subscript, self.parent.raw_shape) where raw_subscript = _subscript_to_raw(self.parent, parent_subscript) where parent_subscript = self.get_parent_formatted_subscript(subscript) where subscript = _infer_subscript_for_write(data, start_indices, subscript, self.formatted_shape)"),
  ("NumpyArraySegment", "__init__", "expected=self._underlying_array.size"),
  ("NumpyArraySegment", "__init__", "expected=0"),
  ("NumpyArraySegment", "write_raw", "update=data.size"),
  ("NumpyMemmapSegment", "__init__", "expected=0")]

end Sarpy.Spec
