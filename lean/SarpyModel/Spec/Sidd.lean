/-
  Spec.Sidd — SIDD product-image numbering and the reader's regrouping of image segments.
  Import-free.

  Code anchors (sarpy/io/product/sidd.py):
    iidList  = writer: IID1 = 'SIDD{image:03d}{segment:03d}' for image i+1, segments in file order   (717-806)
    regroup  = reader: `find_image_segment_collections` — `element = int(iid1[4:7])`, index appended to
               `segments[element-1]`; error when element > number of SIDD structures or a group stays empty (214-254)
-/
namespace Sarpy.Spec.Sidd

/-- element numbers of the image segments in file order, for images numbered from `base + 1` -/
def iidFrom : Nat → List Nat → List Nat
  | _, [] => []
  | base, n :: rest => List.replicate n (base + 1) ++ iidFrom (base + 1) rest

def iidList (counts : List Nat) : List Nat := iidFrom 0 counts

/-- positions (from `off`) of the segments carrying element number `e` -/
def indicesOf (e : Nat) : Nat → List Nat → List Nat
  | _, [] => []
  | off, x :: xs => if x = e then off :: indicesOf e (off + 1) xs else indicesOf e (off + 1) xs

/-- the reader's grouping; `none` = refused -/
def regroup (nimg : Nat) (elems : List Nat) : Option (List (List Nat)) :=
  if elems.any (fun e => e = 0 || e > nimg) then none else
  let groups := (List.range nimg).map (fun k => indicesOf (k + 1) 0 elems)
  if groups.any List.isEmpty then none else some groups

/-- what the writer intends: image k owns the consecutive segment indices after those of images 0..k-1 -/
def expectedGroups : Nat → List Nat → List (List Nat)
  | _, [] => []
  | off, n :: rest => List.range' off n :: expectedGroups (off + n) rest

end Sarpy.Spec.Sidd
