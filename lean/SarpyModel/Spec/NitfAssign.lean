/-
  Spec.NitfAssign — what ASSIGNING a value to a fixed-width NITF header field stores, and how the stored value is rendered.

  Code anchors (sarpy/io/general/nitf_elements/base.py):
    parseStr   `_parse_str`      : text -> rstrip(); longer than the field -> truncated to the field width (with a warning)
    assign     `_StringDescriptor.__set__`      = `_parse_str`
               `_StringEnumDescriptor.__set__`  : val = `_parse_str(value)`; val in the enumeration -> val; else the default
                                                  when the descriptor has one; else val (an error is logged) - in EVERY branch the
                                                  stored text is the width-truncated `val`, never the raw `value`
               `_IntegerDescriptor.__set__`     = `_parse_int`  : int(value), refused (ValueError) unless -10^(w-1) < v < 10^w
               `_RawDescriptor.__set__`         = `_parse_bytes`: bytes, longer than the field -> truncated; not bytes -> TypeError
    render     `_get_bytes(val, length)` as used by `NITFElement._get_attribute_bytes`
  Text is modelled as ASCII (one character = one byte); the UTF-8 case is covered by the harness oracle only.
  `None` (the default-value path of `_BasicDescriptor.__set__`) is not an input here.  Import-free apart from Spec.FieldFmt, total.
-/
import SarpyModel.Spec.FieldFmt
namespace Sarpy.Spec.NitfAssign
open Sarpy.Spec.FieldFmt

/-- the four descriptor kinds with a byte width -/
inductive Desc where
  | str (w : Nat)
  | enum (w : Nat) (values : List Bytes) (dflt : Option Bytes)
  | int (w : Nat)
  | raw (w : Nat)
deriving Repr, DecidableEq, Inhabited

def Desc.width : Desc → Nat
  | .str w => w
  | .enum w _ _ => w
  | .int w => w
  | .raw w => w

/-- what the caller assigns -/
inductive Input where
  | text (s : Bytes)
  | int (v : Int)
  | bytes (s : Bytes)
deriving Repr, DecidableEq, Inhabited

/-- what the descriptor keeps -/
inductive Stored where
  | text (s : Bytes)
  | int (v : Int)
  | bytes (s : Bytes)
deriving Repr, DecidableEq, Inhabited

def parseStr (w : Nat) (s : Bytes) : Bytes := (rstrip s).take w

def parseInt (w : Nat) (v : Int) : Option Stored := if acceptInt w v then some (.int v) else none

/-- `none` = the assignment is refused (ValueError / TypeError) -/
def assign : Desc → Input → Option Stored
  | .str w, .text s => some (.text (parseStr w s))
  | .enum w vals dflt, .text s =>
    let v := parseStr w s
    if vals.contains v then some (.text v)
    else match dflt with
      | some d => some (.text d)
      | none => some (.text v)
  | .int w, .int v => parseInt w v
  | .int w, .text s =>
    match decInt s with
    | some v => parseInt w v
    | none => none
  | .raw w, .bytes s => some (.bytes (s.take w))
  | _, _ => none

def render (d : Desc) : Stored → Bytes
  | .text s => encStr d.width s
  | .int v => encInt d.width v
  | .bytes s => encRaw d.width s

/-- a descriptor as the class declares it is sane: every enumerated value fits the field, the default is one of them -/
def wfDesc : Desc → Bool
  | .enum w vals dflt =>
    vals.all (fun v => decide (v.length ≤ w)) &&
      (match dflt with
       | some d => vals.contains d
       | none => true)
  | _ => true

/-! ### count and length fields: capacity of the digits vs what the setter lets through

    A count field (`NITFLoop._counts_bytes`, the 3-digit counts of `_ItemArrayHeaders`, NLUTS / NELUT) or a length field (the size prefix of
    `Unstructured` / `UserHeaderType`, CEL of a TRE) of `width` decimal digits can announce at most `10^width - 1`.  What is WRITTEN into it
    is `n + extra` where `n` is what the setter looks at (the number of items / `len(data)`) and `extra` what the encoder adds on top (the
    3 OFL bytes of `UserHeaderType`: base.py `siz_frm.format(len(data) + self._ofl_len)`).  The setter refuses `n > limit`
    (`Unstructured.data.fset`: `siz_lim = 10**self._size_len - 1`; `ImageBand.LUTD.fset`: 4 and 65536; `SymbolSegmentHeader.DLUT.fset`: 256)
    or has no test at all (`NITFLoop.values.fset`, `UnknownTRE.__init__`): `limit = none`. -/

structure Slot where
  width : Nat
  extra : Nat
  limit : Option Nat
deriving Repr, DecidableEq, Inhabited

def capacity (w : Nat) : Nat := 10 ^ w - 1

def setterAccepts (s : Slot) (n : Nat) : Bool :=
  match s.limit with
  | some l => decide (n ≤ l)
  | none => true

/-- the setter's limit keeps what is written within the digits of the field -/
def slotOk (s : Slot) : Bool :=
  match s.limit with
  | some l => decide (l + s.extra ≤ capacity s.width)
  | none => false

/-- the count / length field as written: `'{0:0wd}'.format(n + extra)` -/
def renderCount (s : Slot) (n : Nat) : Bytes := encInt s.width ((n + s.extra : Nat) : Int)

/-! ### an element as a list of stored values; assignment to one field; a refused assignment leaves the element as it was -/

def setAt : List Stored → Nat → Stored → List Stored
  | [], _, _ => []
  | _ :: t, 0, v => v :: t
  | h :: t, i + 1, v => h :: setAt t i v

def getDesc : List Desc → Nat → Option Desc
  | [], _ => none
  | d :: _, 0 => some d
  | _ :: t, i + 1 => getDesc t i

/-- `setattr(element, field i, x)`: `(new state, refused?)` -/
def assignAt (ds : List Desc) (st : List Stored) (i : Nat) (x : Input) : List Stored × Bool :=
  match getDesc ds i with
  | none => (st, true)
  | some d =>
    match assign d x with
    | some v => (setAt st i v, false)
    | none => (st, true)

def renderAll : List Desc → List Stored → Bytes
  | d :: ds, v :: vs => render d v ++ renderAll ds vs
  | _, _ => []

end Sarpy.Spec.NitfAssign
