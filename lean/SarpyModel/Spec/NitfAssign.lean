/-
  Spec.NitfAssign — what ASSIGNING a value to a fixed-width NITF header field stores, and how the stored value is rendered.

  Code anchors (sarpy/io/general/nitf_elements/base.py):
    parseStr   `_parse_str`      : text -> rstrip(); longer than the field -> truncated to the field width (with a warning)
    assign     `_StringDescriptor.__set__`      = `_parse_str`
               `_StringEnumDescriptor.__set__`  : val = `_parse_str(value)`; val in the enumeration -> val; else the default
                                                  when the descriptor has one; else val (an error is logged) - in EVERY branch the
                                                  stored text is the width-truncated `val`, never the raw `value`
               `_IntegerDescriptor.__set__`     = `_parse_int`  : int(value), refused (ValueError) unless -10^(w-1) < v < 10^w
               `_RawDescriptor.__set__`         = `_parse_bytes`: bytes, longer than the field -> truncated; not bytes -> TypeError
    render     `_get_bytes(val, length)` as used by `NITFElement._get_attribute_bytes`
  Text is modelled as ASCII (one character = one byte); the UTF-8 case is covered by the harness oracle only.
  `None` (the default-value path of `_BasicDescriptor.__set__`) is not an input here.  Import-free apart from Spec.FieldFmt, total.
-/
import SarpyModel.Spec.FieldFmt
namespace Sarpy.Spec.NitfAssign
open Sarpy.Spec.FieldFmt

/-- the four descriptor kinds with a byte width -/
inductive Desc where
  | str (w : Nat)
  | enum (w : Nat) (values : List Bytes) (dflt : Option Bytes)
  | int (w : Nat)
  | raw (w : Nat)
deriving Repr, DecidableEq, Inhabited

def Desc.width : Desc → Nat
  | .str w => w
  | .enum w _ _ => w
  | .int w => w
  | .raw w => w

/-- what the caller assigns -/
inductive Input where
  | text (s : Bytes)
  | int (v : Int)
  | bytes (s : Bytes)
deriving Repr, DecidableEq, Inhabited

/-- what the descriptor keeps -/
inductive Stored where
  | text (s : Bytes)
  | int (v : Int)
  | bytes (s : Bytes)
deriving Repr, DecidableEq, Inhabited

def parseStr (w : Nat) (s : Bytes) : Bytes := (rstrip s).take w

def parseInt (w : Nat) (v : Int) : Option Stored := if acceptInt w v then some (.int v) else none

/-- `none` = the assignment is refused (ValueError / TypeError) -/
def assign : Desc → Input → Option Stored
  | .str w, .text s => some (.text (parseStr w s))
  | .enum w vals dflt, .text s =>
    let v := parseStr w s
    if vals.contains v then some (.text v)
    else match dflt with
      | some d => some (.text d)
      | none => some (.text v)
  | .int w, .int v => parseInt w v
  | .int w, .text s =>
    match decInt s with
    | some v => parseInt w v
    | none => none
  | .raw w, .bytes s => some (.bytes (s.take w))
  | _, _ => none

def render (d : Desc) : Stored → Bytes
  | .text s => encStr d.width s
  | .int v => encInt d.width v
  | .bytes s => encRaw d.width s

/-- a descriptor as the class declares it is sane: every enumerated value fits the field, the default is one of them -/
def wfDesc : Desc → Bool
  | .enum w vals dflt =>
    vals.all (fun v => decide (v.length ≤ w)) &&
      (match dflt with
       | some d => vals.contains d
       | none => true)
  | _ => true

end Sarpy.Spec.NitfAssign
