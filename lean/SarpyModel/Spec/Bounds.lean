/-
  Spec.Bounds — the acceptance domain of a bounded numeric metadata field (properties C05 / C06).

  sarpy/io/xml/descriptors.py: `IntegerDescriptor(..., bounds=(lo, hi))`, `FloatDescriptor(..., bounds=(lo, hi))`; either end may be None.
  `_in_bounds(value)` is `(lo is None or lo <= value) and (hi is None or value <= hi)`, documented as "Must be in the range [lo, hi]":
  the CLOSED interval.  A strict descriptor raises outside it (the element is then dropped with an ERROR log when parsing XML), a lenient
  one keeps the value and logs.

  Numbers are integers here: bounds, facets and values scaled by the translator's SCALE (10^6; every bound of the classes and every facet
  of the bundled XSDs is a multiple of 1/SCALE).  The comparison kernel itself is order-generic; Python evaluates it on ints and floats.
  `Facet` is what an XSD simple type declares (minInclusive / minExclusive, maxInclusive / maxExclusive), `schemaValid` its value space,
  `containsB` the decidable test that the descriptor interval is at least as wide as the schema's.
-/
namespace Sarpy.Spec.Bounds

/-- `_in_bounds`: the closed interval [lo, hi], an absent end is open -/
def accepts (lo hi : Option Int) (v : Int) : Bool :=
  (match lo with | none => true | some l => decide (l ≤ v)) && (match hi with | none => true | some h => decide (v ≤ h))

structure DescrRow where
  cls : Nat
  field : Nat
  lo : Option Int
  hi : Option Int
  strict : Bool
  deriving Repr, DecidableEq, Inhabited

/-- the facets of an XSD simple type: bound and whether it is inclusive -/
structure Facet where
  lo : Option Int
  loIncl : Bool
  hi : Option Int
  hiIncl : Bool
  deriving Repr, DecidableEq, Inhabited

def schemaValid (f : Facet) (v : Int) : Bool :=
  (match f.lo with | none => true | some l => if f.loIncl then decide (l ≤ v) else decide (l < v))
    && (match f.hi with | none => true | some h => if f.hiIncl then decide (v ≤ h) else decide (v < h))

/-- the descriptor interval is at least as wide as the schema's: where the descriptor has an end, the schema has one that is no wider -/
def containsB (dlo dhi : Option Int) (f : Facet) : Bool :=
  (match dlo with
    | none => true
    | some l => match f.lo with | none => false | some fl => decide (l ≤ fl))
  && (match dhi with
    | none => true
    | some h => match f.hi with | none => false | some fh => decide (fh ≤ h))

end Sarpy.Spec.Bounds
