/-
  Spec.Supported - the subscripts property C01 obliges sarpy to serve, stated declaratively with numpy's own
  semantics (`npIndices`, `Spec/Slice.lean`) and WITHOUT reference to sarpy's `verify_slice` model.

  Import-free, decidable by evaluation: `Drivers/Supported.lean` runs `decide (Supported n s)` against numpy and
  against the real `verify_slice`; `Props/C01Complete.lean` proves `verifySlice` accepts exactly this set.
-/
import SarpyModel.Spec.Subscript

namespace Sarpy.Spec
open Sarpy

/-- an optional bound lies in `[-n, n]` (an absent bound always does) -/
def InBound (n : Int) : Option Int → Prop
  | none => True
  | some x => -n ≤ x ∧ x ≤ n

instance (n : Int) (e : Option Int) : Decidable (InBound n e) := by
  cases e with
  | none => exact isTrue trivial
  | some x => exact inferInstanceAs (Decidable (-n ≤ x ∧ x ≤ n))

/-- **the selections the property obliges sarpy to serve** on an axis of length `n`: non-zero step
    (`None` = 1), bounds within `[-n, n]`, and numpy selects at least one index. -/
def Supported (n : Nat) (s : PySlice) : Prop :=
  s.step.getD 1 ≠ 0 ∧ InBound n s.start ∧ InBound n s.stop ∧ npIndices n s ≠ []

instance (n : Nat) (s : PySlice) : Decidable (Supported n s) := by
  unfold Supported; exact inferInstance

/-- integer items: exactly numpy's valid integer indices -/
def SupportedInt (n : Nat) (i : Int) : Prop := -(n : Int) ≤ i ∧ i < n

instance (n : Nat) (i : Int) : Decidable (SupportedInt n i) := by
  unfold SupportedInt; exact inferInstance

/-- one expanded item on an axis of length `n` (`None` is the full-axis slice) -/
def SupportedItem (n : Nat) : PyItem → Prop
  | .none => Supported n ⟨none, none, none⟩
  | .int i => SupportedInt n i
  | .slice s => Supported n s

instance (n : Nat) (it : PyItem) : Decidable (SupportedItem n it) := by
  cases it <;> (unfold SupportedItem; exact inferInstance)

def AxesSupported : List Nat → List PyItem → Prop
  | [], [] => True
  | n :: ns, it :: its => SupportedItem n it ∧ AxesSupported ns its
  | _, _ => False

instance : ∀ (shape : List Nat) (its : List PyItem), Decidable (AxesSupported shape its)
  | [], [] => isTrue trivial
  | [], _ :: _ => isFalse (by simp [AxesSupported])
  | _ :: _, [] => isFalse (by simp [AxesSupported])
  | n :: ns, it :: its =>
    have := instDecidableAxesSupported ns its
    inferInstanceAs (Decidable (SupportedItem n it ∧ AxesSupported ns its))

/-- the expansion of a tuple subscript is not refused and every expanded item is supported on its axis -/
def SupportedSub (shape : List Nat) (l : List SubEntry) : Prop :=
  countEll l ≤ 1 ∧ (subItems l).length ≤ shape.length ∧
  AxesSupported shape
    (beforeEll l ++ List.replicate (shape.length - (subItems l).length) PyItem.none ++ afterEll l)

instance (shape : List Nat) (l : List SubEntry) : Decidable (SupportedSub shape l) := by
  unfold SupportedSub; exact inferInstance

end Sarpy.Spec
