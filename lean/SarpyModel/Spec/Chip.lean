/-
  Spec.Chip — rectangular chips (row/column windows) of a complex image: window validity and
  composition, the subset metadata arithmetic, the projection pixel shift and the converter's
  row-block loop.  Import-free besides other Spec files; total, computable.

  Code anchors:
    checkBounds / subsetAxis / subsetStructure = SICDType.create_subset_structure
                           (sarpy/io/complex/sicd_elements/SICD.py:984-1035; bounds test `0 <= start < end <= num`,
                            `FirstRow = FirstRow + start_row`, `NumRows = end_row - start_row`, `None` = whole axis)
    Window.toNSlice      = `subset_definition = (slice(*row_bounds), slice(*column_bounds))`
                           (sarpy/io/complex/base.py:251, SubsetSICDReader) - a step-1 normal slice of C01
    composeWindow        = a chip of a chip, as one window of the outer parent (SubsetSegment._get_parent_subscript
                           for step-1 definitions, data_segment.py:1162-1196; Spec.compose of C01)
    shift / transformArg = COAProjection.from_sicd (`row_shift = SCPPixel.Row - FirstRow`) and COAProjection._init_proj
                           (`row_transform = (im_points[:, 0] - row_shift)*row_mult`), point_projection.py:634-637, 700-701
    bytesPerRow / effectiveBlockSize / rowsPerBlock / converterBlocks / writeStarts
                         = Converter._get_rows_per_block and Converter.write_data (sarpy/io/complex/converter.py:203-247)
-/
import SarpyModel.Spec.Slice
import SarpyModel.Spec.Layout

namespace Sarpy.Spec.Chip
open Sarpy Sarpy.Spec Sarpy.Spec.Layout

/-! ### windows -/

/-- a window of one axis: `count` consecutive indices starting at `first` (parent coordinates) -/
structure Window where
  first : Int
  count : Int
deriving Repr, BEq, DecidableEq, Inhabited

/-- the window lies inside an axis of length `n` and is not empty
    (`0 <= start < end <= num` with `end = first + count`) -/
def Window.Valid (n : Int) (w : Window) : Prop := 0 ≤ w.first ∧ 0 < w.count ∧ w.first + w.count ≤ n

instance (n : Int) (w : Window) : Decidable (w.Valid n) := by unfold Window.Valid; exact inferInstance

/-- `(start, end)` bounds as the code passes them -/
def Window.stop (w : Window) : Int := w.first + w.count
def ofBounds (a b : Int) : Window := ⟨a, b - a⟩

/-- the whole axis (`row_bounds=None` gives `(0, num_rows)`) -/
def full (n : Int) : Window := ⟨0, n⟩

/-- the bounds test of `create_subset_structure`; `none` = `ValueError` -/
def checkBounds (n a b : Int) : Option Window :=
  if 0 ≤ a ∧ a < b ∧ b ≤ n then some (ofBounds a b) else none

/-- the subset definition `slice(first, first + count)` handed to `SubsetSegment`, in sarpy's normal form -/
def Window.toNSlice (w : Window) : NSlice := ⟨w.first, some (w.first + w.count), 1⟩

/-- a chip (`inner`, in the coordinates of the chip `outer`) of a chip, as a window of `outer`'s parent -/
def composeWindow (outer inner : Window) : Window := ⟨inner.first + outer.first, inner.count⟩

/-- a chain of chips, each given in the coordinates of the previous one, as one window of the outermost parent -/
def composeChain (n : Int) (ws : List Window) : Window := ws.foldl composeWindow (full n)

/-- every window of the chain is valid inside the previous one -/
def ValidChain : Int → List Window → Prop
  | _, [] => True
  | n, w :: rest => w.Valid n ∧ ValidChain w.count rest

def ValidChain.dec : (n : Int) → (ws : List Window) → Decidable (ValidChain n ws)
  | _, [] => isTrue trivial
  | n, w :: rest =>
    have := ValidChain.dec w.count rest
    (inferInstance : Decidable (w.Valid n ∧ ValidChain w.count rest))

instance (n : Int) (ws : List Window) : Decidable (ValidChain n ws) := ValidChain.dec n ws

/-- the parent index of chip index `i` -/
def Window.parentIndex (w : Window) (i : Int) : Int := w.first + i

/-! ### subset metadata (one axis, then the two axes of `ImageData`) -/

/-- `ImageData.First{Row,Col}`, `ImageData.Num{Rows,Cols}`, `ImageData.SCPPixel.{Row,Col}`, `FullImage.Num{Rows,Cols}` -/
structure AxisMeta where
  first : Int
  num : Int
  scp : Int
  fullNum : Int
deriving Repr, BEq, DecidableEq, Inhabited

/-- the window of the full image this axis describes -/
def AxisMeta.window (m : AxisMeta) : Window := ⟨m.first, m.num⟩

/-- one axis of `create_subset_structure` for given `(start, end)`: new metadata and the vetted bounds -/
def subsetAxis (m : AxisMeta) (a b : Int) : Option (AxisMeta × (Int × Int)) :=
  match checkBounds m.num a b with
  | some w => some ({ m with first := m.first + w.first, num := w.count }, (a, b))
  | none => none

/-- `bounds=None`: metadata untouched, reported bounds `(0, num)` -/
def subsetAxisO (m : AxisMeta) : Option (Int × Int) → Option (AxisMeta × (Int × Int))
  | none => some (m, (0, m.num))
  | some (a, b) => subsetAxis m a b

structure ImageMeta where
  row : AxisMeta
  col : AxisMeta
deriving Repr, BEq, DecidableEq, Inhabited

/-- `create_subset_structure(row_bounds, column_bounds)`: `(sicd, out_row_bounds, out_col_bounds)`; `none` = refused -/
def subsetStructure (m : ImageMeta) (rb cb : Option (Int × Int)) : Option (ImageMeta × (Int × Int) × (Int × Int)) :=
  match subsetAxisO m.row rb, subsetAxisO m.col cb with
  | some (r, rbo), some (c, cbo) => some (⟨r, c⟩, rbo, cbo)
  | _, _ => none

/-- a chain of `create_subset_structure` calls, each on the result of the previous one -/
def subsetChain (m : AxisMeta) : List (Int × Int) → Option AxisMeta
  | [] => some m
  | (a, b) :: rest =>
    match subsetAxis m a b with
    | some (m', _) => subsetChain m' rest
    | none => none

/-! ### projection pixel shift (generic scalar: pixel coordinates handed to the projection are real numbers) -/

/-- `row_shift = SCPPixel.Row - FirstRow` -/
def shift {α : Type} [Sub α] (scp first : α) : α := scp - first

/-- `im_points[:, 0] - row_shift`: offset of pixel `r` (coordinates of this image) from the scene centre pixel -/
def offsetFromScp {α : Type} [Sub α] (scp first r : α) : α := r - shift scp first

/-- `row_transform = (im_points[:, 0] - row_shift)*row_mult` -/
def transformArg {α : Type} [Sub α] [Mul α] (scp first mult r : α) : α := offsetFromScp scp first r * mult

def AxisMeta.shift (m : AxisMeta) : Int := Chip.shift m.scp m.first
def AxisMeta.offset (m : AxisMeta) (r : Int) : Int := offsetFromScp m.scp m.first r

/-! ### the converter's block loop -/

/-- bytes per image row the converter assumes (`_get_rows_per_block`): pixel type code 0 = RE32F_IM32F,
    1 = RE16I_IM16I, 2 = AMP8I_PHS8I, anything else keeps the initial `8*cols` -/
def bytesPerRow (pixelType cols : Nat) : Nat :=
  match pixelType with
  | 1 => 4 * cols
  | 2 => 2 * cols
  | _ => 8 * cols

/-- `write_data`: `None` -> 2^26, values below 2^20 are raised to 2^20 -/
def effectiveBlockSize : Option Nat → Nat
  | none => 2 ^ 26
  | some b => if b < 2 ^ 20 then 2 ^ 20 else b

/-- Python 3 `round(a / b)` for non-negative integers (ties to even) -/
def roundHalfEven (a b : Nat) : Nat :=
  let q := a / b
  let r := a % b
  if 2 * r < b then q else if 2 * r > b then q + 1 else if q % 2 = 0 then q else q + 1

/-- `max(1, int(round(max_block_size/bytes_per_row)))` -/
def rowsPerBlock (maxBlockSize : Option Nat) (pixelType cols : Nat) : Nat :=
  max 1 (roundHalfEven (effectiveBlockSize maxBlockSize) (bytesPerRow pixelType cols))

/-- `block_start = r0; while block_start < r1: block_end = min(block_start + rpb, r1); …; block_start = block_end`
    (parent row ranges read by the converter) -/
def converterBlocks (r0 r1 rpb : Nat) : List (Nat × Nat) := stepTiling r1 rpb (r1 - r0) r0

/-- `start_indices=(block_start - row_limits[0], 0)`: the chip row ranges the blocks are written to -/
def writeRanges (r0 : Nat) (blocks : List (Nat × Nat)) : List (Nat × Nat) :=
  blocks.map (fun s => (s.1 - r0, s.2 - r0))

/-- how many blocks cover row `i` -/
def coverCount (blocks : List (Nat × Nat)) (i : Nat) : Nat :=
  (blocks.filter (fun s => decide (s.1 ≤ i ∧ i < s.2))).length

end Sarpy.Spec.Chip
