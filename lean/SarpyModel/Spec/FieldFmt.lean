/-
  Spec.FieldFmt — NITF fixed-width field rendering and the self-delimiting record codec built from it.
  Bytes are `List Nat` (values 0..255).  Import-free, total, computable.

  Code anchors (sarpy/io/general/nitf_elements/base.py):
    encInt  = `_get_bytes(int)`  : `'{0:0<w>d}'.format(v)` — sign first, zero filled, total width w
    encStr  = `_get_bytes(str)`  : `'{0:<w>s}'.format(v)`  — left justified, blank filled
    encRaw  = `_get_bytes(bytes)`: truncated / NUL filled
    acceptInt / acceptStr / acceptRaw = `_parse_int`, `_parse_str`, `_parse_bytes` (what assignment lets through)
    decInt = `int(bytes)`, decStr = `bytes.decode().rstrip()`
    record / loop = `NITFElement.to_bytes/from_bytes`, `NITFLoop`
-/
namespace Sarpy.Spec.FieldFmt

abbrev Bytes := List Nat

/-- the `w` decimal digits of `n`, most significant first (as ASCII codes) -/
def padDigits : Nat → Nat → Bytes
  | 0, _ => []
  | w + 1, n => padDigits w (n / 10) ++ [48 + n % 10]

def fromDigits (bs : Bytes) : Option Nat :=
  bs.foldl (fun acc b => match acc with
    | none => none
    | some a => if 48 ≤ b ∧ b ≤ 57 then some (10 * a + (b - 48)) else none) (some 0)

def acceptInt (w : Nat) (v : Int) : Bool := decide (-(10 : Int) ^ (w - 1) < v ∧ v < (10 : Int) ^ w)

def encInt (w : Nat) (v : Int) : Bytes :=
  if v < 0 then 45 :: padDigits (w - 1) v.natAbs else padDigits w v.natAbs

def decInt (bs : Bytes) : Option Int :=
  match bs with
  | 45 :: rest => (fromDigits rest).map (fun n => -(n : Int))
  | _ => (fromDigits bs).map (fun n => (n : Int))

def isSpace (b : Nat) : Bool := b == 32 || (9 ≤ b && b ≤ 13) || (28 ≤ b && b ≤ 31)

def rstrip (bs : Bytes) : Bytes := (bs.reverse.dropWhile isSpace).reverse

/-- ASCII text without trailing blanks, no longer than the field -/
def acceptStr (w : Nat) (s : Bytes) : Bool :=
  decide (s.length ≤ w) && s.all (fun b => decide (b < 128)) && (rstrip s == s)

def encStr (w : Nat) (s : Bytes) : Bytes := s ++ List.replicate (w - s.length) 32
def decStr (bs : Bytes) : Bytes := rstrip bs

def acceptRaw (w : Nat) (s : Bytes) : Bool := decide (s.length = w)
def encRaw (w : Nat) (s : Bytes) : Bytes := (s ++ List.replicate (w - s.length) 0).take w

/-! ### records of fixed-width fields -/

inductive Kind where
  | int | str | raw
deriving Repr, DecidableEq, Inhabited

structure Field where
  kind : Kind
  width : Nat
deriving Repr, DecidableEq, Inhabited

inductive Value where
  | int (v : Int)
  | str (s : Bytes)
  | raw (s : Bytes)
deriving Repr, DecidableEq, Inhabited

def acceptField (f : Field) : Value → Bool
  | .int v => f.kind == .int && acceptInt f.width v
  | .str s => f.kind == .str && acceptStr f.width s
  | .raw s => f.kind == .raw && acceptRaw f.width s

def encField (f : Field) : Value → Bytes
  | .int v => encInt f.width v
  | .str s => encStr f.width s
  | .raw s => encRaw f.width s

def decField (f : Field) (bs : Bytes) : Option Value :=
  match f.kind with
  | .int => (decInt bs).map Value.int
  | .str => some (Value.str (decStr bs))
  | .raw => some (Value.raw bs)

def encRecord : List Field → List Value → Bytes
  | f :: fs, v :: vs => encField f v ++ encRecord fs vs
  | _, _ => []

def decRecord : List Field → Bytes → Option (List Value × Bytes)
  | [], bs => some ([], bs)
  | f :: fs, bs =>
    if bs.length < f.width then none else
    match decField f (bs.take f.width) with
    | none => none
    | some v =>
      match decRecord fs (bs.drop f.width) with
      | none => none
      | some (vs, rest) => some (v :: vs, rest)

def recordWidth (fs : List Field) : Nat := (fs.map Field.width).sum

def acceptRecord : List Field → List Value → Bool
  | [], [] => true
  | f :: fs, v :: vs => acceptField f v && acceptRecord fs vs
  | _, _ => false

/-! ### counted loops (`NITFLoop`): a `cw`-digit count followed by that many records -/

def encLoop (cw : Nat) (fs : List Field) (items : List (List Value)) : Bytes :=
  encInt cw items.length ++ (items.map (encRecord fs)).flatten

def decItems (fs : List Field) : Nat → Bytes → Option (List (List Value) × Bytes)
  | 0, bs => some ([], bs)
  | n + 1, bs =>
    match decRecord fs bs with
    | none => none
    | some (v, rest) =>
      match decItems fs n rest with
      | none => none
      | some (vs, rest') => some (v :: vs, rest')

def decLoop (cw : Nat) (fs : List Field) (bs : Bytes) : Option (List (List Value) × Bytes) :=
  if bs.length < cw then none else
  match decInt (bs.take cw) with
  | some (Int.ofNat n) => decItems fs n (bs.drop cw)
  | _ => none

end Sarpy.Spec.FieldFmt
