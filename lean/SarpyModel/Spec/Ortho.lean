/-
  Spec.Ortho — the planar-grid ortho-rectification of sarpy as definitions over a generic scalar type.

  Import-free apart from other `Spec` files, total, computable.  Arithmetic comes from the ordinary
  `Add/Sub/Mul/Div` classes, everything else (integer literals, floor, comparisons) from the small
  class `OrthoScalar`.  The driver instantiates the scalars at `Float`, `Props/C20.lean` at `ℝ`.
  Operation order follows the Python text.

  Code anchors
    sarpy/processing/ortho_rectify/projection_helper.py
      orthoToEcf        PGProjection.ortho_to_ecf            lines 729-738
      planeEcfToOrtho   PGProjection.plane_ecf_to_ortho      lines 668-692
    sarpy/processing/sidd/sidd_structure_creation.py
      productPlane      _create_plane_projection / _v3      lines 111-133 / 183-205 (ReferencePoint.Point = ref_pixels - bounds)
    sarpy/processing/ortho_rectify/ortho_methods.py
      inMask            OrthorectificationHelper._get_mask   lines 550-575
      digitize          numpy.digitize(x, bins) for increasing bins, right=False: the number of bins <= x
      codeIndex         NearestNeighborMethod._get_orthrectified_from_array_flat   lines 1026-1032
      codeSample        … `ortho_array[mask] = value_array[row_inds, col_inds]`, everything else keeps the pad value
    sarpy/io/complex/utils.py
      fetchBlockSize    get_fetch_block_size                 lines 342-348
      orthoBlocks       extract_blocks                       lines 378-402 (ranges relative to the first index)
    sarpy/processing/ortho_rectify/base.py
      assembleRows / assembleCols   OrthorectificationIterator.__next__ + the writer loop of
                        create_detected_image_sidd (sidd_product_creation.py:176-179): one block per step, placed at
                        `start_indices`
  `fixedIndex` is the repair proposed in NOTES_C20.md (the harness reports which of `codeIndex` / `fixedIndex` the
  source in /repo currently follows).
  `nearestPixel`, `nearestIndex`, `nearestSample` are NOT code: they are the specification (the mathematically
  nearest source line) the code's choice is compared with.
-/
import SarpyModel.Spec.Geo
import SarpyModel.Spec.Layout
namespace Sarpy.Spec.Ortho
open Sarpy.Spec.Geo (V3)
open Sarpy.Spec.Layout (stepTiling segmentation)

/-- the non-ring operations the ortho-rectification code needs -/
class OrthoScalar (α : Type) where
  ofInt : Int → α
  /-- `int(numpy.floor(x))` -/
  floor : α → Int
  /-- `le a b = (a <= b)` (false when either side is NaN) -/
  le : α → α → Bool
  /-- `lt a b = (a < b)` -/
  lt : α → α → Bool

open OrthoScalar

/-- the state of a `PGProjection`: reference point (ECF), the ortho pixel coordinates of that point, unit row and
    column vectors (ECF), row and column sample spacing (metres) -/
structure Plane (α : Type) where
  ref : V3 α
  refRow : α
  refCol : α
  rowVec : V3 α
  colVec : V3 α
  rowSS : α
  colSS : α

section maps
variable {α : Type} [Add α] [Sub α] [Mul α] [Div α]

/-- lines 731-737: `xs = (row - ref_pixels[0])*row_spacing`, `ys = (col - ref_pixels[1])*col_spacing`,
    `reference_point + outer(xs, row_vector) + outer(ys, col_vector)` -/
def orthoToEcf (P : Plane α) (r c : α) : V3 α :=
  let xs := (r - P.refRow) * P.rowSS
  let ys := (c - P.refCol) * P.colSS
  V3.add (V3.add P.ref (V3.smul xs P.rowVec)) (V3.smul ys P.colVec)

/-- lines 682-690: `diff = coords - reference_point`,
    `ref_pixels[0] + sum(diff*row_vector)/row_spacing`, `ref_pixels[1] + sum(diff*col_vector)/col_spacing` -/
def planeEcfToOrtho (P : Plane α) (v : V3 α) : α × α :=
  let d := V3.sub v P.ref
  (P.refRow + V3.dot d P.rowVec / P.rowSS, P.refCol + V3.dot d P.colVec / P.colSS)

/-- the plane projection written into the SIDD: the same plane, with the reference pixel expressed relative to the
    first ortho row / column of the product (`Point = (ref_pixels[0] - bounds[0], ref_pixels[1] - bounds[2])`) -/
def productPlane (P : Plane α) (r0 c0 : α) : Plane α :=
  { P with refRow := P.refRow - r0, refCol := P.refCol - c0 }

end maps

section index
variable {α : Type} [OrthoScalar α]

/-- `numpy.arange(g0, g0 + n)` as scalars: the row (column) numbers of the source window handed to the method -/
def grid (g0 : Int) (n : Nat) : List α := (List.range n).map (fun (k : Nat) => ofInt (g0 + (k : Int)))

/-- `numpy.digitize(x, bins)` for increasing `bins` (default `right=False`): the index `i` with
    `bins[i-1] <= x < bins[i]`, i.e. the number of bins that are `<= x` -/
def digitize (bins : List α) (x : α) : Nat := bins.countP (fun b => le b x)

/-- `_get_mask` in one dimension: `(x >= row_array[0]) & (x < row_array[-1])` (NaN / infinities fail a comparison) -/
def inMask (g0 : Int) (n : Nat) (x : α) : Bool :=
  le (ofInt g0) x && lt x (ofInt (g0 + (n : Int) - 1))

/-- the index into the window the CODE uses for source coordinate `x` (window = lines `g0 … g0+n-1`);
    `none` = the pixel is left at the pad value -/
def codeIndex (g0 : Int) (n : Nat) (x : α) : Option Nat :=
  if n = 0 then none
  else if inMask g0 n x then some (digitize (grid g0 n) x)
  else none

/-- PROPOSED REPAIR (not the code as it stands, see NOTES_C20.md): step back from the digitize index when the lower
    line is strictly closer, `i - ((x - g[i-1]) < (g[i] - x))` -/
def fixedIndex [Sub α] (g0 : Int) (n : Nat) (x : α) : Option Nat :=
  if n = 0 then none
  else if inMask g0 n x then
    let i := digitize (grid g0 n) x
    let lo : α := ofInt (g0 + (i : Int) - 1)
    let hi : α := ofInt (g0 + (i : Int))
    some (if lt (x - lo) (hi - x) then i - 1 else i)
  else none

/-- SPECIFICATION: the integer nearest to `x` (ties upwards) -/
def nearestPixel [Add α] [Div α] (x : α) : Int := floor (x + ofInt 1 / ofInt 2)

/-- SPECIFICATION: the index into the window of the line nearest to `x`; `none` = no line of the window is the
    nearest integer (the coordinate is more than half a line outside the window) -/
def nearestIndex [Add α] [Div α] (g0 : Int) (n : Nat) (x : α) : Option Nat :=
  let k := nearestPixel x - g0
  if 0 ≤ k ∧ k < (n : Int) then some k.toNat else none

/-- `value_array[row_inds, col_inds]` where both indices exist, the pad value elsewhere -/
def sample {β : Type} (vals : Nat → Nat → β) (fill : β) : Option Nat → Option Nat → β
  | some i, some j => vals i j
  | _, _ => fill

/-- one product pixel as the code fills it, from its fractional source coordinates `(x, y)` -/
def codeSample {β : Type} (vals : Nat → Nat → β) (fill : β) (g0r : Int) (nr : Nat) (g0c : Int) (nc : Nat) (x y : α) : β :=
  sample vals fill (codeIndex g0r nr x) (codeIndex g0c nc y)

/-- SPECIFICATION: one product pixel of a true nearest-neighbour resampling -/
def nearestSample {β : Type} [Add α] [Div α] (vals : Nat → Nat → β) (fill : β) (g0r : Int) (nr : Nat) (g0c : Int) (nc : Nat)
    (x y : α) : β :=
  sample vals fill (nearestIndex g0r nr x) (nearestIndex g0c nc y)

end index

/-! ### block iteration -/

/-- `max(1, int(ceil(block_size_in_bytes/float(8*full_size))))` -/
def fetchBlockSize (bytes full : Nat) : Nat := max 1 ((bytes + 8 * full - 1) / (8 * full))

/-- `extract_blocks((lo, lo + size, 1), step)` relative to `lo`; a block size of 1 yields the whole range (line 384) -/
def orthoBlocks (size step : Nat) : List (Nat × Nat) :=
  if step = 1 then [(0, size)] else segmentation size step

/-- `f a, f (a+1), …, f (b-1)` -/
def rangeMap {β : Type} (f : Nat → β) (a b : Nat) : List β := (List.range' a (b - a)).map f

/-- the whole product, `R` rows of `C` pixels, pixel `(r, c)` computed as `pix r c` -/
def productWhole {β : Type} (pix : Nat → Nat → β) (R C : Nat) : List (List β) :=
  rangeMap (fun r => rangeMap (pix r) 0 C) 0 R

/-- split dimension 1: a block is a range of product rows, each row complete -/
def blockRows {β : Type} (pix : Nat → Nat → β) (C : Nat) (blk : Nat × Nat) : List (List β) :=
  rangeMap (fun r => rangeMap (pix r) 0 C) blk.1 blk.2

/-- … the blocks are placed one under the other -/
def assembleRows {β : Type} (pix : Nat → Nat → β) (C : Nat) (blocks : List (Nat × Nat)) : List (List β) :=
  (blocks.map (blockRows pix C)).flatten

/-- split dimension 0: a block is a range of product columns over all rows; row `r` of the product is the
    concatenation of row `r` of every block -/
def assembleCols {β : Type} (pix : Nat → Nat → β) (R : Nat) (blocks : List (Nat × Nat)) : List (List β) :=
  rangeMap (fun r => (blocks.map (fun blk => rangeMap (pix r) blk.1 blk.2)).flatten) 0 R

end Sarpy.Spec.Ortho
