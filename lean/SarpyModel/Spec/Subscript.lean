/-
  N-dimensional subscripts: expansion of a tuple subscript with an optional Ellipsis to one item per axis
  (`sarpy.io.general.slice_parsing.verify_subscript`), per-axis normalisation, and the flat (row-major)
  offsets that an N-d selection reads.  Import-free and executable (driven by `Drivers/Slice.lean`).
-/
import SarpyModel.Spec.Slice

namespace Sarpy.Spec

/-- entry of a tuple subscript: `...` or an item (`None | int | slice`) -/
inductive SubEntry where
  | ell : SubEntry
  | item : PyItem → SubEntry
deriving Repr, DecidableEq, Inhabited

def SubEntry.isEll : SubEntry → Bool
  | .ell => true
  | .item _ => false

/-- the items of a subscript, the Ellipsis entries dropped -/
def subItems : List SubEntry → List PyItem
  | [] => []
  | .ell :: l => subItems l
  | .item i :: l => i :: subItems l

def countEll : List SubEntry → Nat
  | [] => 0
  | .ell :: l => countEll l + 1
  | .item _ :: l => countEll l

/-- items in front of the first Ellipsis -/
def beforeEll : List SubEntry → List PyItem
  | [] => []
  | .ell :: _ => []
  | .item i :: l => i :: beforeEll l

/-- items behind the first Ellipsis (none if there is no Ellipsis) -/
def afterEll : List SubEntry → List PyItem
  | [] => []
  | .ell :: l => subItems l
  | .item _ :: l => afterEll l

/-- `verify_subscript`, the expansion step: one item per axis, or `none` = refused
    (more than one Ellipsis, or more items than axes; an Ellipsis may stand for no axis at all) -/
def expandSub (nd : Nat) (l : List SubEntry) : Option (List PyItem) :=
  if 1 < countEll l then none
  else if nd < (subItems l).length then none
  else some (beforeEll l ++ List.replicate (nd - (subItems l).length) PyItem.none ++ afterEll l)

/-- `verify_slice` dispatch on one axis of length `n` -/
def verifyItem (n : Int) : PyItem → Option NSlice
  | .none => verifySlice n ⟨none, none, none⟩
  | .int i => verifyInt n i
  | .slice s => verifySlice n s

def verifyAxes : List Nat → List PyItem → Option (List NSlice)
  | [], [] => some []
  | n :: ns, it :: its =>
    match verifyItem n it, verifyAxes ns its with
    | some t, some ts => some (t :: ts)
    | _, _ => none
  | _, _ => none

/-- `verify_subscript(subscript, shape)` for a tuple subscript; `none` = refused -/
def verifySub (shape : List Nat) (l : List SubEntry) : Option (List NSlice) :=
  match expandSub shape.length l with
  | none => none
  | some its => verifyAxes shape its

/-- what numpy selects along one axis of length `n` for one item (an integer keeps its axis, length 1) -/
def npItem (n : Nat) : PyItem → List Int
  | .none => npIndices n ⟨none, none, none⟩
  | .int i => if -(n : Int) ≤ i ∧ i < n then [if i < 0 then i + n else i] else []
  | .slice s => npIndices n s

def npAxes : List Nat → List PyItem → List (List Int)
  | n :: ns, it :: its => npItem n it :: npAxes ns its
  | _, _ => []

def prodNat : List Nat → Nat
  | [] => 1
  | n :: ns => n * prodNat ns

/-- row-major flat offsets of the cartesian product of per-axis index lists, in output order -/
def selectFlat : List Nat → List (List Int) → List Int
  | [], [] => [0]
  | _ :: ns, ix :: ixs => ix.flatMap (fun i => (selectFlat ns ixs).map (fun r => i * (prodNat ns : Int) + r))
  | _, _ => []

/-- the N-d read of the model: flat offsets of the stored samples, in the order of the result array -/
def readFlat (shape : List Nat) (ts : List NSlice) : List Int := selectFlat shape (ts.map NSlice.indices)

end Sarpy.Spec
