/-
  Spec.Dispatch — the reader / writer DISPATCH layer of `sarpy/io/general/base.py`: how a Python-level request
  (`reader[...]`, `reader(...)`, `reader.read / read_raw / read_chip(...)`, `writer(...)`, `writer.write / write_raw /
  write_chip(...)`) is turned into "image k, raw or formatted, squeezed or not, this per-image subscript", and how the
  consumers that re-dispatch (AggregateReader, SubsetSICDReader, FullResolutionFetcher) pick their image.

  Mirrors, branch by branch:
    * `extract_string_from_subscript`            data_segment.py:202-232
    * `BaseReader.__call__`                      base.py:386-418
    * `BaseReader.__getitem__`                   base.py:420-434
    * `BaseReader.read / read_raw / read_chip`   base.py:302-384
    * `image_count`, `data_size`, `raw_data_size`, `get_data_size_as_tuple`, `get_raw_data_size_as_tuple`,
      `get_data_segment_as_tuple`                base.py:212-280
    * `AggregateReader._define_index_mapping`    base.py:584-602
    * `SubsetSICDReader.__init__` (parent pick)  complex/base.py:225-255
    * `FullResolutionFetcher.__getitem__`, `_full_row_resolution`   processing/ortho_rectify/base.py:248-338
    * `BaseWriter.__call__`, `write`, `write_raw`, `write_chip`     base.py:714-838

  Import-free apart from the subscript model, total, executable (driven by `Drivers/Dispatch.lean`).
  `Gen/Dispatch.lean` is regenerated from the Python text of these functions on every run and
  `Bridge/Dispatch.lean` proves it equal to the definitions below.
-/
import SarpyModel.Spec.Subscript

namespace Sarpy.Spec
open Sarpy

/-! ### Python values as the dispatch layer sees them -/

/-- a string entry of a subscript after `.strip().lower()`: the two modifiers the readers look for, or anything else -/
inductive StrMod where
  | raw | nosqueeze | unknown
deriving DecidableEq, Repr, Inhabited

/-- a Python object handed to `__getitem__` / as a positional range of `__call__`.  `other` stands for an object of any
    type the layer has no branch for (float, list, numpy integer, ...). -/
inductive PyVal where
  | none : PyVal
  | int (i : Int) : PyVal
  | str (m : StrMod) : PyVal
  | slice (s : PySlice) : PyVal
  | ell : PyVal
  | other : PyVal
  | tuple (l : List PyVal) : PyVal
deriving Repr, Inhabited

/-- exception classes raised inside the layer -/
inductive Err where
  | typeError | indexError | valueError | keyError
deriving DecidableEq, Repr, Inhabited

instance {ε α : Type} [DecidableEq ε] [DecidableEq α] : DecidableEq (Except ε α)
  | .ok a, .ok b => if h : a = b then isTrue (by rw [h]) else isFalse (by intro e; cases e; exact h rfl)
  | .error a, .error b => if h : a = b then isTrue (by rw [h]) else isFalse (by intro e; cases e; exact h rfl)
  | .ok _, .error _ => isFalse (by intro e; cases e)
  | .error _, .ok _ => isFalse (by intro e; cases e)

/-- what the layer hands to one data segment: `data_segment[image].read(sub, squeeze)` or `.read_raw(sub, squeeze)`.
    `sub = none` is Python `None` (the whole image), otherwise the list of slices / Ellipsis built by `__call__`. -/
structure Sel where
  image : Nat
  raw : Bool
  squeeze : Bool
  sub : Option (List SubEntry)
deriving DecidableEq, Repr, Inhabited

def PyVal.isStr : PyVal → Bool
  | .str _ => true
  | _ => false

def PyVal.strOf : PyVal → Option StrMod
  | .str m => some m
  | _ => Option.none

/-! ### Python primitives on these values (also the vocabulary of the regenerated code, `Gen/Dispatch.lean`) -/

def PyVal.isNone : PyVal → Bool
  | .none => true
  | _ => false
def PyVal.isInt : PyVal → Bool
  | .int _ => true
  | _ => false
def PyVal.isTuple : PyVal → Bool
  | .tuple _ => true
  | _ => false
def PyVal.isSlice : PyVal → Bool
  | .slice _ => true
  | _ => false
def PyVal.isEll : PyVal → Bool
  | .ell => true
  | _ => false
/-- the integer behind a value known (by an enclosing `isinstance` test) to be an `int` -/
def PyVal.intGet : PyVal → Int
  | .int i => i
  | _ => 0
/-- `s.strip().lower()` of a value known to be a `str` -/
def PyVal.strGet : PyVal → StrMod
  | .str m => m
  | _ => .unknown
/-- a value known to be a slice or Ellipsis, as a subscript entry -/
def PyVal.entryGet : PyVal → SubEntry
  | .slice s => .item (.slice s)
  | _ => .ell
/-- `v[-1]` -/
def pyLast : PyVal → Except Err PyVal
  | .tuple l =>
    match l.getLast? with
    | Option.none => .error .indexError
    | some v => .ok v
  | _ => .error .typeError
/-- `v[:-1]` -/
def pyDropLast : PyVal → Except Err PyVal
  | .tuple l => .ok (.tuple l.dropLast)
  | _ => .error .typeError
/-- `*v` in a call -/
def pyStar : PyVal → Except Err (List PyVal)
  | .tuple l => .ok l
  | _ => .error .typeError
/-- `for entry in v` -/
def pyIter : PyVal → List PyVal
  | .tuple l => l
  | _ => []
/-- a `for` loop over `xs` threading an accumulator, with exceptions -/
def pyFor {σ : Type} (xs : List PyVal) (init : σ) (step : σ → PyVal → Except Err σ) : Except Err σ :=
  match xs with
  | [] => .ok init
  | x :: r =>
    match step init x with
    | .error e => .error e
    | .ok s => pyFor r s step

/-! ### `extract_string_from_subscript` -/

/-- data_segment.py:219-232: a lone string becomes `(None, (s,))`; in a tuple the strings are collected and, if there is at
    least one, the tuple is rebuilt without them; anything else is returned unchanged -/
def extractStrings : PyVal → PyVal × List StrMod
  | .str m => (.none, [m])
  | .tuple l =>
    let strs := l.filterMap PyVal.strOf
    if strs.length > 0 then (.tuple (l.filter (fun v => !v.isStr)), strs) else (.tuple l, strs)
  | v => (v, [])

/-- base.py:424-425 `if not isinstance(subscript, (tuple, list)): subscript = (subscript, )` -/
def asTuple : PyVal → List PyVal
  | .tuple l => l
  | v => [v]

/-! ### `BaseReader.__call__` -/

/-- an element of a tuple range as a slice bound -/
def boundOf : PyVal → Option (Option Int)
  | .none => some Option.none
  | .int i => some (some i)
  | _ => Option.none

/-- `slice(*rng)` for a tuple range: one, two or three bounds (Python raises TypeError for zero or more than three; a
    bound that is neither `None` nor an int makes a slice the segment refuses - recorded here as TypeError as well) -/
def sliceOfTuple (l : List PyVal) : Except Err PySlice :=
  match l.map boundOf with
  | [some a] => .ok ⟨Option.none, a, Option.none⟩
  | [some a, some b] => .ok ⟨a, b, Option.none⟩
  | [some a, some b, some c] => .ok ⟨a, b, c⟩
  | _ => .error .typeError

/-- `slice(*v)` -/
def pySliceStar : PyVal → Except Err PySlice
  | .tuple l => sliceOfTuple l
  | _ => .error .typeError

/-- base.py:399-409, the body of `for rng in ranges` -/
def convRange : PyVal → Except Err SubEntry
  | .none => .ok (.item (.slice ⟨Option.none, Option.none, some 1⟩))        -- slice(None, None, 1)
  | .int r => .ok (.item (.slice ⟨Option.none, some r, Option.none⟩))        -- slice(rng): the first `rng` elements
  | .tuple l => (sliceOfTuple l).map (fun s => .item (.slice s))             -- slice(*rng)
  | .slice s => .ok (.item (.slice s))
  | .ell => .ok .ell
  | .str _ => .error .typeError
  | .other => .error .typeError

def convRanges : List PyVal → Except Err (List SubEntry)
  | [] => .ok []
  | r :: rs =>
    match convRange r with
    | .error e => .error e
    | .ok x =>
      match convRanges rs with
      | .error e => .error e
      | .ok xs => .ok (x :: xs)

/-- base.py:395-409: no ranges at all is `None` -/
def callSub (ranges : List PyVal) : Except Err (Option (List SubEntry)) :=
  if ranges.length = 0 then .ok Option.none else (convRanges ranges).map some

/-- Python tuple indexing `t[index]` for a tuple of `count` entries: position, or IndexError -/
def pyIndex (count : Nat) (index : Int) : Except Err Nat :=
  if -(count : Int) ≤ index ∧ index < count then .ok (if index < 0 then index + count else index).toNat
  else .error .indexError

/-- base.py:410-413: a reader over exactly one segment stores the segment itself (base.py:207-210) and ignores `index` -/
def pickImage (count : Nat) (index : Int) : Except Err Nat :=
  if count = 1 then .ok 0 else pyIndex count index

/-- `BaseReader.__call__(*ranges, index, raw, squeeze)` for a reader of `count` images -/
def readerCall (count : Nat) (ranges : List PyVal) (index : Int) (raw squeeze : Bool) : Except Err Sel :=
  match callSub ranges with
  | .error e => .error e
  | .ok sub =>
    match pickImage count index with
    | .error e => .error e
    | .ok k => .ok ⟨k, raw, squeeze, sub⟩

/-! ### `BaseReader.__getitem__` -/

/-- base.py:420-434 -/
def readerGetitem (count : Nat) (subscript : PyVal) : Except Err Sel :=
  let es := extractStrings subscript
  let items := asTuple es.1
  let raw := es.2.contains StrMod.raw
  let squeeze := !es.2.contains StrMod.nosqueeze
  match items.getLast? with
  | Option.none => .error .indexError                         -- `subscript[-1]` of an empty tuple
  | some (.int i) =>
    if -(count : Int) < i ∧ i < count then readerCall count items.dropLast i raw squeeze
    else readerCall count items 0 raw squeeze
  | some _ => readerCall count items 0 raw squeeze

/-! ### the entry points -/

/-- the Python-level request forms of a reader -/
inductive Request where
  | getitem (subscript : PyVal)                                              -- reader[subscript]
  | call (ranges : List PyVal) (index : Int) (raw squeeze : Bool)            -- reader(*ranges, index=, raw=, squeeze=)
  | read (ranges : List PyVal) (index : Int) (squeeze : Bool)                -- reader.read(*ranges, index=, squeeze=)
  | readRaw (ranges : List PyVal) (index : Int) (squeeze : Bool)             -- reader.read_raw(...)
  | readChip (ranges : List PyVal) (index : Int) (squeeze : Bool)            -- reader.read_chip(...)
deriving Repr, Inhabited

/-- base.py:355 -/
def readerRead (count : Nat) (ranges : List PyVal) (index : Int) (squeeze : Bool) : Except Err Sel :=
  readerCall count ranges index false squeeze
/-- base.py:384 -/
def readerReadRaw (count : Nat) (ranges : List PyVal) (index : Int) (squeeze : Bool) : Except Err Sel :=
  readerCall count ranges index true squeeze
/-- base.py:325 -/
def readerReadChip (count : Nat) (ranges : List PyVal) (index : Int) (squeeze : Bool) : Except Err Sel :=
  readerCall count ranges index false squeeze

/-- **the dispatch function** of a reader with `count` images -/
def dispatchGet (count : Nat) : Request → Except Err Sel
  | .getitem s => readerGetitem count s
  | .call r i raw sq => readerCall count r i raw sq
  | .read r i sq => readerRead count r i sq
  | .readRaw r i sq => readerReadRaw count r i sq
  | .readChip r i sq => readerReadChip count r i sq

/-! ### what the chosen segment does with the subscript (`DataSegment.read / read_raw` -> `verify_subscript`) -/

/-- `verify_subscript(None, shape)` -/
def fullSlices (shape : List Nat) : List NSlice := shape.map (fun (n : Nat) => (⟨0, some (n : Int), 1⟩ : NSlice))

/-- `verify_subscript(sub, shape)` for what `__call__` hands over -/
def resolveSub (shape : List Nat) : Option (List SubEntry) → Option (List NSlice)
  | Option.none => some (fullSlices shape)
  | some l => verifySub shape l

/-- shape of the returned array: the per-axis counts, length-1 axes dropped when `squeeze` -/
def resultShape (squeeze : Bool) (ts : List NSlice) : List Nat :=
  let counts := ts.map NSlice.count
  if squeeze then counts.filter (fun c => c != 1) else counts

/-- an image of a reader / writer: its formatted and raw shapes -/
structure Image where
  fshape : List Nat
  rshape : List Nat
deriving DecidableEq, Repr, Inhabited

def Image.shapeFor (im : Image) (raw : Bool) : List Nat := if raw then im.rshape else im.fshape

/-- one whole read through the layer: (image, normalised per-axis slices in that image's raw / formatted basis,
    shape of the returned array); `none` = refused somewhere -/
def readerServe (r : List Image) (req : Request) : Option (Sel × List NSlice × List Nat) :=
  match dispatchGet r.length req with
  | .error _ => Option.none
  | .ok sel =>
    match r[sel.image]? with
    | Option.none => Option.none
    | some im =>
      match resolveSub (im.shapeFor sel.raw) sel.sub with
      | Option.none => Option.none
      | some ts => some (sel, ts, resultShape sel.squeeze ts)

/-! ### size accessors -/

/-- the value of `data_size` / `raw_data_size`: one shape for a single-image reader, a tuple of shapes otherwise -/
inductive Sizes where
  | one (s : List Nat)
  | many (l : List (List Nat))
deriving DecidableEq, Repr, Inhabited

/-- base.py:212-221 (a single segment is stored bare, base.py:207-210) -/
def imageCount (r : List Image) : Nat := r.length

/-- base.py:244-245 -/
def dataSize (r : List Image) : Sizes :=
  match r with
  | [im] => .one im.fshape
  | l => .many (l.map Image.fshape)
/-- base.py:267-268 -/
def rawDataSize (r : List Image) : Sizes :=
  match r with
  | [im] => .one im.rshape
  | l => .many (l.map Image.rshape)
/-- base.py:257 / 280: `(x, ) if image_count == 1 else x` -/
def getDataSizeAsTuple (r : List Image) : List (List Nat) :=
  match dataSize r with
  | .one s => [s]
  | .many l => l
def getRawDataSizeAsTuple (r : List Image) : List (List Nat) :=
  match rawDataSize r with
  | .one s => [s]
  | .many l => l

/-! ### consumers that re-dispatch -/

/-- `AggregateReader._define_index_mapping` (base.py:593-602) for child readers with `counts[i]` images each:
    `for i, reader: for j, segment: index_mapping.append((i, j))` -/
def aggMapFrom (i : Nat) : List Nat → List (Nat × Nat)
  | [] => []
  | c :: cs => (List.range c).map (fun j => (i, j)) ++ aggMapFrom (i + 1) cs
def aggMap (counts : List Nat) : List (Nat × Nat) := aggMapFrom 0 counts

/-- the segments of the aggregate, in order: `segments.append(segment)` in the same double loop -/
def aggImages {α : Type} (children : List (List α)) : List α := children.flatten

/-- a request to an aggregate reader: the global selection and the (child reader, child image) it lands in -/
def aggDispatch (counts : List Nat) (req : Request) : Except Err (Sel × Nat × Nat) :=
  match dispatchGet (aggMap counts).length req with
  | .error e => .error e
  | .ok sel =>
    match (aggMap counts)[sel.image]? with
    | Option.none => .error .indexError
    | some (i, j) => .ok (sel, i, j)

/-- `SubsetSICDReader.__init__`: `reader.get_data_segment_as_tuple()[index]` - always a tuple, plain Python indexing -/
def subsetParent (count : Nat) (index : Int) : Except Err Nat := pyIndex count index

/-- `FullResolutionFetcher._set_index` (ortho_rectify/base.py:122-133): non-negative and below the SICD count -/
def fetcherIndexOK (count : Nat) (index : Int) : Bool := decide (0 ≤ index) && decide (index < count)

/-- `FullResolutionFetcher.__getitem__`: `verify_subscript(subscript, self.data_size)` with the size of image `index`, then
    `self.reader.read(*subscript, index=self.index, squeeze=False)` (a block of a single row or column keeps both dimensions) -/
def fetcherGetitem (r : List Image) (index : Nat) (subscript : List SubEntry) : Except Err Sel :=
  match r[index]? with
  | Option.none => .error .indexError
  | some im =>
    match verifySub im.fshape subscript with
    | Option.none => .error .valueError
    | some ts => readerRead r.length (ts.map (fun t => PyVal.slice t.toPy)) index false

/-- `_full_row_resolution` / `_full_column_resolution` (261, 294) and `OrthorectificationHelper` (ortho_methods.py:855):
    `self.reader[(row_range, col_range, self.index)]` -/
def fetcherFullRes (count : Nat) (index : Nat) (rows cols : PySlice) : Except Err Sel :=
  readerGetitem count (.tuple [.slice rows, .slice cols, .int index])

/-! ### `BaseWriter` -/

/-- the addressing arguments of a write, forwarded untouched to `DataSegment.write / write_raw`:
    `start_indices` (None | int | tuple of ints) and `subscript` (None | tuple of slices) -/
inductive StartArg where
  | none
  | int (i : Int)
  | tup (l : List Int)
deriving DecidableEq, Repr, Inhabited

structure PutArgs where
  start : StartArg
  sub : Option (List SubEntry)
  index : Int
deriving DecidableEq, Repr, Inhabited

/-- what the layer hands to one segment: `data_segment[segment].write_raw / write (data, start_indices=, subscript=)` -/
structure PutSel where
  segment : Nat
  raw : Bool
  start : StartArg
  sub : Option (List SubEntry)
deriving DecidableEq, Repr, Inhabited

/-- `BaseWriter.__call__` (base.py:827-838) for a writer whose segments have the given `can_write_regular` flags:
    `self.data_segment` is always a tuple; a formatted write into a segment without inverse format is a ValueError -/
def writerCall (segs : List Bool) (a : PutArgs) (raw : Bool) : Except Err PutSel :=
  match pyIndex segs.length a.index with
  | .error e => .error e
  | .ok k =>
    if raw then .ok ⟨k, true, a.start, a.sub⟩
    else if segs.getD k false then .ok ⟨k, false, a.start, a.sub⟩ else .error .valueError

inductive PutRequest where
  | call (a : PutArgs) (raw : Bool)
  | write (a : PutArgs)
  | writeRaw (a : PutArgs)
  | writeChip (a : PutArgs)
deriving DecidableEq, Repr, Inhabited

/-- the addressing arguments of a request -/
def PutRequest.args : PutRequest → PutArgs
  | .call a _ => a
  | .write a => a
  | .writeRaw a => a
  | .writeChip a => a

/-- raw or formatted, as the entry point says -/
def PutRequest.rawFlag : PutRequest → Bool
  | .call _ raw => raw
  | .write _ => false
  | .writeRaw _ => true
  | .writeChip _ => false

/-- base.py:768 -/
def writerWrite (segs : List Bool) (a : PutArgs) : Except Err PutSel := writerCall segs a false
/-- base.py:800 -/
def writerWriteRaw (segs : List Bool) (a : PutArgs) : Except Err PutSel := writerCall segs a true
/-- base.py:735 -/
def writerWriteChip (segs : List Bool) (a : PutArgs) : Except Err PutSel := writerCall segs a false

/-- **the dispatch function** of a writer -/
def dispatchPut (segs : List Bool) : PutRequest → Except Err PutSel
  | .call a raw => writerCall segs a raw
  | .write a => writerWrite segs a
  | .writeRaw a => writerWriteRaw segs a
  | .writeChip a => writerWriteChip segs a

end Sarpy.Spec
