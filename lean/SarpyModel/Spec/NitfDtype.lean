/-
  Spec.NitfDtype — which complex pair order the NITF reader infers from the band subcategories of an image segment
  (`_get_dtype.get_complex_order`, sarpy/io/general/nitf.py:296-316) and how many formatted bands result.
  A segment is an assembled complex type exactly when the band count is even and EVERY consecutive pair of bands carries
  the same one of the four labellings I,Q / Q,I / M,P / P,M.
-/
namespace Sarpy.Spec.NitfDtype

inductive Ord4 where | IQ | QI | MP | PM
deriving DecidableEq, Repr

def Ord4.name : Ord4 → String
  | .IQ => "IQ" | .QI => "QI" | .MP => "MP" | .PM => "PM"

def pairOrder (a b : String) : Option Ord4 :=
  if a = "I" ∧ b = "Q" then some .IQ else if a = "Q" ∧ b = "I" then some .QI
  else if a = "M" ∧ b = "P" then some .MP else if a = "P" ∧ b = "M" then some .PM else none

/-- every consecutive pair of the list is labelled `o`; an odd leftover band is not a pair -/
def allPairs (o : Ord4) : List String → Bool
  | [] => true
  | [_] => false
  | a :: b :: rest => (pairOrder a b == some o) && allPairs o rest

/-- `get_complex_order` without the PVTYPE consistency test: the order of the first pair, if all pairs agree with it -/
def complexOrder (subs : List String) : Option Ord4 :=
  match subs with
  | a :: b :: rest =>
    match pairOrder a b with
    | some o => if allPairs o rest then some o else none
    | none => none
  | _ => none

/-- PVTYPE admitted for an order (anything else makes the reader refuse the segment) -/
def pvtypeOK (o : Ord4) (pv : String) : Bool :=
  match o with
  | .IQ | .QI => pv = "SI" || pv = "R"
  | .MP | .PM => pv = "INT" || pv = "R"

/-- formatted band count without a lookup table -/
def formattedBands (subs : List String) : Nat :=
  match complexOrder subs with
  | some _ => subs.length / 2
  | none => subs.length

end Sarpy.Spec.NitfDtype
