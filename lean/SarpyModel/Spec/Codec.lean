/-
  Spec.Codec — complex pixel encodings: pair (de)interleaving, magnitude/phase <-> real/imaginary with phase
  scaled to a full turn over 2^bits, the amplitude-table inverse, per-vector amplitude scaling.
  Import-free; numerics are generic over a record of scalar operations so the same definitions run at Float in the
  driver and are reasoned about over the reals in Props/C08.lean.

  Code anchors: sarpy/io/general/format_function.py ComplexFormatFunction._forward_functional_step /
  _reverse_functional_step / _forward_magnitude_theta / _reverse_magnitude_theta (771-897); sarpy/io/complex/sicd.py
  AmpLookupFunction (43-128); sarpy/io/phase_history/cphd.py AmpScalingFunction (39-165).
-/
namespace Sarpy.Spec.Codec

/-! ### pair extraction along the band axis (pure index algebra) -/

/-- `(l[0], l[1]), (l[2], l[3]), …` — `take(range(0, n, 2))` and `take(range(1, n, 2))` -/
def deinterleave {α : Type} : List α → List (α × α)
  | a :: b :: rest => (a, b) :: deinterleave rest
  | _ => []

/-- `out[0::2] = first; out[1::2] = second` -/
def interleave {α : Type} : List (α × α) → List α
  | [] => []
  | (a, b) :: rest => a :: b :: interleave rest

inductive Order where
  | IQ | QI | MP | PM
deriving Repr, DecidableEq

/-- which member of a stored pair plays the first role (I or M) -/
def pick {α : Type} (o : Order) (p : α × α) : α × α :=
  match o with
  | .IQ | .MP => p
  | .QI | .PM => (p.2, p.1)

/-! ### scalar operations -/

structure Ops (α : Type) where
  add : α → α → α
  sub : α → α → α
  mul : α → α → α
  div : α → α → α
  sqrt : α → α
  cos : α → α
  sin : α → α
  atan2 : α → α → α
  pi : α
  ofNat : Nat → α
  lt : α → α → Bool
  /-- round to the nearest integer (`numpy.round` / `numpy.rint`: ties to even) -/
  rint : α → α
  /-- largest integer not above the argument -/
  floor : α → α

/-- decode magnitude/phase stored with `bits` bits: `m·(cos θ, sin θ)`, `θ = p·2π/2^bits` -/
def decodeMP {α : Type} (S : Ops α) (bits : Nat) (m p : α) : α × α :=
  let theta := S.div (S.mul (S.mul p (S.ofNat 2)) S.pi) (S.ofNat (2 ^ bits))
  (S.mul m (S.cos theta), S.mul m (S.sin theta))

/-- the un-rounded encoder: `(|z|, wrap(arg z)·2^bits/2π)`; the code rounds both to the nearest integer -/
def encodeMP {α : Type} (S : Ops α) (bits : Nat) (x y : α) : α × α :=
  let mag := S.sqrt (S.add (S.mul x x) (S.mul y y))
  let th := S.atan2 y x
  let th' := if S.lt th (S.ofNat 0) then S.add th (S.mul (S.ofNat 2) S.pi) else th
  (mag, S.div (S.mul th' (S.ofNat (2 ^ bits))) (S.mul (S.ofNat 2) S.pi))

/-- reduction modulo `2^bits` of an integer-valued scalar: what the C cast into the unsigned raw dtype does to the rounded
    phase (`round(t)` can be exactly `2^bits` for `t ≥ 2^bits - 1/2`; the stored value is then `0`) -/
def wrapPow {α : Type} (S : Ops α) (bits : Nat) (r : α) : α :=
  S.sub r (S.mul (S.floor (S.div r (S.ofNat (2 ^ bits)))) (S.ofNat (2 ^ bits)))

/-- the quantised encoder, `ComplexFormatFunction._reverse_magnitude_theta` for uint8/16/32 (format_function.py 826-845):
    `theta = numpy.round(theta * 2^bits/(2π))`, `magnitude = numpy.round(magnitude)`, then the assignment into the unsigned
    raw array (phase reduced mod `2^bits`).  The magnitude is NOT reduced here: `round(|z|) ≥ 2^bits` is outside the
    representable range (the cast of such a value is outside this model, see Props.C08 `encQ_mag_range`). -/
def encodeMPq {α : Type} (S : Ops α) (bits : Nat) (x y : α) : α × α :=
  let e := encodeMP S bits x y
  (S.rint e.1, wrapPow S bits (S.rint e.2))

/-- the cast of a float into a signed integer raw dtype for plain IQ / QI data (no rounding step in
    `ComplexFormatFunction._reverse_functional_step`): truncation toward zero -/
def truncZero {α : Type} (S : Ops α) (x : α) : α :=
  if S.lt x (S.ofNat 0) then S.sub (S.ofNat 0) (S.floor (S.sub (S.ofNat 0) x)) else S.floor x

/-! ### amplitude table (AMP8I_PHS8I): index of the nearest entry of a non-decreasing table -/

/-- `numpy.searchsorted(table, x, side='left')`: the number of entries strictly below `x` -/
def countBelow {α : Type} (lt : α → α → Bool) (table : List α) (x : α) : Nat := (table.filter (fun t => lt t x)).length

/-- the repaired `AmpLookupFunction._reverse_magnitude_theta` index selection -/
def nearestIndex {α : Type} (lt : α → α → Bool) (sub : α → α → α) (table : List α) (x : α) (dflt : α) : Nat :=
  let n := table.length
  let i := max 1 (min (countBelow lt table x) (n - 1))
  let lo := table.getD (i - 1) dflt
  let hi := table.getD i dflt
  -- `mag - lo <= hi - mag`  ⇔  not (hi - mag < mag - lo)
  if lt (sub hi x) (sub x lo) then i else i - 1

/-! ### per-vector amplitude scale factor (CPHD / CRSD) -/

def decodeAmpSF {α : Type} (mul : α → α → α) (sf : α) (iq : α × α) : α × α := (mul sf iq.1, mul sf iq.2)

/-- `AmpScalingFunction._reverse_functional_step` for integer raw dtypes (cphd.py 150-160): `data = (1/sf)·data`,
    `data = numpy.rint(data)`, then the IQ assignment into the signed raw array (exact for in-range values) -/
def encodeAmpSF {α : Type} (S : Ops α) (sf : α) (z : α × α) : α × α :=
  let inv := S.div (S.ofNat 1) sf
  (S.rint (S.mul inv z.1), S.rint (S.mul inv z.2))

end Sarpy.Spec.Codec
