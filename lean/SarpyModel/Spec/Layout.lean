/-
  Spec.Layout — sizes to offsets (NITF segment layout), stepping a range in blocks (image
  segmentation), relative-location chains (ILOC) and the complexity-level tables of MIL-STD-2500C.
  Import-free.

  Code anchors (sarpy/io/general/nitf.py):
    offsets / fileLength = NITFWritingDetails.verify_all_offsets (and the reader's cumulative sums)
    stepTiling           = default_image_segmentation (`while row_offset < rows: …`)
    ilocChain / decodeChain = writer ILOC per segment / `_get_collection_element_coordinate_limits`
    clevelForSize / clevelForDim = the standard's tables (hand transcription), compared by theorem with the
                           ladders regenerated from `set_header_clevel` and `_get_collection_element_coordinate_limits`
-/
namespace Sarpy.Spec.Layout

/-- one segment: (subheader size, item size) ↦ (subheader offset, item offset, end of item) -/
def offsets : Nat → List (Nat × Nat) → List (Nat × Nat × Nat)
  | _, [] => []
  | start, (sub, item) :: rest => (start, start + sub, start + sub + item) :: offsets (start + sub + item) rest

def fileLength (header : Nat) (segs : List (Nat × Nat)) : Nat :=
  header + (segs.map (fun s => s.1 + s.2)).sum

/-- `while off < hi: nxt = min(hi, off + step); emit (off, nxt); off = nxt` with explicit fuel -/
def stepTiling (hi step : Nat) : Nat → Nat → List (Nat × Nat)
  | 0, _ => []
  | fuel + 1, off =>
    if off < hi then (off, min hi (off + step)) :: stepTiling hi step fuel (min hi (off + step)) else []

/-- default_image_segmentation(rows, cols, row_limit), row ranges only -/
def segmentation (rows rowLimit : Nat) : List (Nat × Nat) := stepTiling rows rowLimit rows 0

/-- ILOC row offsets the writer records: the first segment is at 0, each later one is placed relative to its
    predecessor (IALVL = predecessor's IDLVL) by the predecessor's row count -/
def relRows (prev : Nat × Nat) : List (Nat × Nat) → List Nat
  | [] => []
  | s :: rest => (prev.2 - prev.1) :: relRows s rest

def ilocRows : List (Nat × Nat) → List Nat
  | [] => []
  | s :: rest => 0 :: relRows s rest

/-- the reader's reassembly: every item is located relative to the item it is attached to (here: the previous one) -/
def decodeChain : Nat → List (Nat × Nat) → List (Nat × Nat)
  | _, [] => []
  | base, (iloc, n) :: rest => (base + iloc, base + iloc + n) :: decodeChain (base + iloc) rest

def headersOf (segs : List (Nat × Nat)) : List (Nat × Nat) :=
  (ilocRows segs).zip (segs.map (fun s => s.2 - s.1))

/-- row ranges that follow one another without gap, starting at `start` -/
def Consecutive : Nat → List (Nat × Nat) → Prop
  | _, [] => True
  | start, (a, b) :: rest => a = start ∧ a ≤ b ∧ Consecutive b rest

/-! complexity level required by MIL-STD-2500C table A-10 (hand transcription) -/

def clevelForSize (fileLength : Nat) : Nat :=
  if fileLength < 50 * 1024 ^ 2 then 3
  else if fileLength < 1024 ^ 3 then 5
  else if fileLength < 2 * 1024 ^ 3 then 6
  else if fileLength < 10 * 1024 ^ 3 then 7
  else 9

def clevelForDim (dim : Nat) : Nat :=
  if dim ≤ 2048 then 3 else if dim ≤ 8192 then 5 else if dim ≤ 65536 then 6 else 7

def clevelRequired (fileLength : Nat) (dims : List Nat) : Nat :=
  (dims.map clevelForDim).foldl max (clevelForSize fileLength)

/-- block-padded byte size of an uncompressed image segment: NBPR × NBPC blocks of NPPBH × NPPBV pixels -/
def blockedImageBytes (nbpr nbpc nppbh nppbv bands bytesPerSample : Nat) : Nat :=
  nbpr * nbpc * nppbh * nppbv * bands * bytesPerSample

/-! ### block-masked images (IC = NM): the mask table in front of the pixel data, MIL-STD-2500C table A-3(A)

  `present` lists, per block in block order, whether the block is recorded.  The writer (`NITFWriter._handle_no_compression`,
  `ImageSubheaderManager.item_size`) takes the offsets from the mask subheader it is given; sarpy's own consumers and the
  standard want recorded blocks packed consecutively, absent blocks marked 0xFFFFFFFF. -/

def absentMark : Nat := 4294967295

/-- length of a mask table with a block mask only (BMRLNTH = 4, TMRLNTH = 0, TPXCDLNTH = 0): 10 fixed bytes + 4 per block -/
def maskTableLen (nblocks : Nat) : Nat := 10 + 4 * nblocks

/-- block mask record offsets (relative to the first pixel byte): recorded blocks packed in block order from `cur` -/
def maskOffsets (blockBytes : Nat) : Nat → List Bool → List Nat
  | _, [] => []
  | cur, true :: rest => cur :: maskOffsets blockBytes (cur + blockBytes) rest
  | cur, false :: rest => absentMark :: maskOffsets blockBytes cur rest

def countPresent : List Bool → Nat
  | [] => 0
  | true :: rest => countPresent rest + 1
  | false :: rest => countPresent rest

/-- the image data length (LI) of a block-masked segment: mask table + recorded blocks -/
def maskedImageBytes (blockBytes : Nat) (present : List Bool) : Nat :=
  maskTableLen present.length + countPresent present * blockBytes

end Sarpy.Spec.Layout
